(* C11 on lists of instructions: the statements used in Props/C11.v *)
From Coq Require Import String Ascii.
From Coq Require Import List Arith Bool QArith PeanoNat Lia Lqa Permutation.
From QV Require Import Model.Sched Proofs.SchedBase Proofs.SchedList Proofs.SchedGraph Proofs.SchedDist Proofs.SchedC11.
Import ListNotations.
Open Scope nat_scope.

Definition uses (i : instr) (q : nat) : Prop := In q (itargets i ++ icontrols i).
Definition ith (instrs : list instr) (i : nat) : instr := nth i instrs dummy_instr.
Definition sum_durations (instrs : list instr) : Q := fold_right Qplus 0%Q (map idur instrs).

(* the instruction lists the property quantifies over *)
Definition valid_input (instrs : list instr) : Prop :=
  instrs <> [] /\ Forall (fun i => (0 < idur i)%Q) instrs /\ exists i q, In i instrs /\ uses i q.

Lemma dedup_In : forall l x, In x (dedup l) <-> In x l.
Proof.
  induction l as [|y r IH]; intros x; simpl; [tauto|].
  destruct (memb y r) eqn:Hm.
  - apply memb_In in Hm. rewrite IH. split; [tauto | intros [->|H]; assumption].
  - simpl. rewrite IH. tauto.
Qed.

Lemma iused_uses : forall i q, In q (iused i) <-> uses i q.
Proof. intros. unfold iused, uses. apply dedup_In. Qed.

Lemma durI_pos : forall instrs, Forall (fun i => (0 < idur i)%Q) instrs -> forall v, (0 < durI instrs v)%Q.
Proof.
  intros instrs H v. unfold durI. revert v. induction H as [|a l Ha _ IH]; intros v.
  - destruct v; simpl; reflexivity.
  - destruct v; simpl; [exact Ha | apply IH].
Qed.

Lemma sumk_ext : forall f g l, (forall i, f i = g i) -> sumk f l = sumk g l.
Proof. intros f g l H. induction l as [|x r IH]; simpl; [reflexivity | rewrite H, IH; reflexivity]. Qed.

Lemma sumk_shift : forall f k s, sumk f (seq (S s) k) = sumk (fun i => f (S i)) (seq s k).
Proof. intros f k. induction k as [|k IH]; intros s; simpl; [reflexivity | rewrite IH; reflexivity]. Qed.

Lemma sumk_durations : forall instrs, sumk (durI instrs) (seq 0 (length instrs)) = sum_durations instrs.
Proof.
  induction instrs as [|a l IH]; [reflexivity|].
  simpl length. simpl seq. simpl sumk. rewrite sumk_shift. unfold sum_durations in *. simpl. f_equal.
  rewrite <- IH. apply sumk_ext. intros i. reflexivity.
Qed.

Section Inst.
  Variable commI : instr -> instr -> bool.
  Variable allow_permutation : bool.
  Variable instrs : list instr.
  Variable alap random : bool.
  Variables sh so : nat -> list nat -> list nat.
  Hypothesis Hvalid : valid_input instrs.

  Let n := length instrs.

  Lemma inst_n : 0 < nI instrs.
  Proof. destruct Hvalid as (H & _). unfold nI. destruct instrs; [congruence | simpl; lia]. Qed.

  Lemma inst_dur : forall v, (0 <= durI instrs v)%Q.
  Proof. intros v. apply Qlt_le_weak. apply durI_pos. apply Hvalid. Qed.

  Lemma inst_q : exists i q, i < nI instrs /\ In q (usedI instrs i).
  Proof.
    destruct Hvalid as (_ & _ & (a & q & Ha & Hq)). apply (In_nth _ _ dummy_instr) in Ha.
    destruct Ha as (i & Hi & He). exists i, q. split; [exact Hi|]. unfold usedI. rewrite He. apply iused_uses. exact Hq.
  Qed.

  Lemma inst_shares : forall i j, (exists q, uses (ith instrs i) q /\ uses (ith instrs j) q) ->
    shares (usedI instrs) i j = true.
  Proof.
    intros i j (q & H1 & H2). apply shares_spec. exists q. unfold usedI. split; apply iused_uses; assumption.
  Qed.

  Definition pulse fixed ks ko := sched_pulse commI allow_permutation instrs alap random sh so fixed ks ko.

  Lemma pulse_all : forall fixed ks ko, exists st,
    pulse fixed ks ko = Some st /\
    length st = length instrs /\
    (forall i, i < length instrs -> (0 <= stt st i)%Q) /\
    (exists i, i < length instrs /\ (stt st i == 0)%Q) /\
    (forall i j, i < j -> j < length instrs -> (exists q, uses (ith instrs i) q /\ uses (ith instrs j) q) ->
                 commN commI allow_permutation instrs j i = false ->
                 (stt st i + idur (ith instrs i) <= stt st j)%Q) /\
    (forall i, i < length instrs -> (stt st i + idur (ith instrs i) <= sum_durations instrs)%Q) /\
    (fixed = true -> forall i j, i < length instrs -> j < length instrs -> i <> j ->
                 (exists q, uses (ith instrs i) q /\ uses (ith instrs j) q) ->
                 (stt st i + idur (ith instrs i) <= stt st j)%Q \/ (stt st j + idur (ith instrs j) <= stt st i)%Q).
  Proof.
    intros fixed ks ko. unfold pulse, sched_pulse.
    destruct (pulse_spec (nI instrs) (usedI instrs) (durI instrs) (commN commI allow_permutation instrs)
                alap random sh so inst_dur inst_n inst_q fixed ks ko)
      as (st & H0 & H1 & H2 & H3 & H4 & H5 & H6).
    exists st. split; [exact H0|]. split; [exact H1|]. split; [exact H2|]. split; [exact H3|].
    split; [|split].
    - intros i j Hij Hj Hs Hc. apply (H4 i j Hij Hj (inst_shares i j Hs) Hc).
    - intros i Hi. rewrite <- sumk_durations. apply (H5 i Hi).
    - intros Hf i j Hi Hj Hne Hs. apply (H6 Hf i j Hi Hj Hne (inst_shares i j Hs)).
  Qed.

  Lemma schedule_defined : forall fixed ks ko, exists st, pulse fixed ks ko = Some st /\ length st = length instrs.
  Proof. intros. destruct (pulse_all fixed ks ko) as (st & H0 & H1 & _). exists st. tauto. Qed.

  Lemma start_nonneg : forall fixed ks ko st, pulse fixed ks ko = Some st ->
    forall i, i < length instrs -> (0 <= stt st i)%Q.
  Proof.
    intros fixed ks ko st H. destruct (pulse_all fixed ks ko) as (st' & H0 & _ & H2 & _).
    rewrite H in H0. inversion H0; subst. exact H2.
  Qed.

  Lemma start_min_zero : forall fixed ks ko st, pulse fixed ks ko = Some st ->
    exists i, i < length instrs /\ (stt st i == 0)%Q.
  Proof.
    intros fixed ks ko st H. destruct (pulse_all fixed ks ko) as (st' & H0 & _ & _ & H3 & _).
    rewrite H in H0. inversion H0; subst. exact H3.
  Qed.

  Lemma respects_dependencies : forall fixed ks ko st, pulse fixed ks ko = Some st ->
    forall i j, i < j -> j < length instrs -> (exists q, uses (ith instrs i) q /\ uses (ith instrs j) q) ->
      commN commI allow_permutation instrs j i = false ->
      (stt st i + idur (ith instrs i) <= stt st j)%Q.
  Proof.
    intros fixed ks ko st H. destruct (pulse_all fixed ks ko) as (st' & H0 & _ & _ & _ & H4 & _).
    rewrite H in H0. inversion H0; subst. exact H4.
  Qed.

  Lemma total_le_sequential : forall fixed ks ko st, pulse fixed ks ko = Some st ->
    forall i, i < length instrs -> (stt st i + idur (ith instrs i) <= sum_durations instrs)%Q.
  Proof.
    intros fixed ks ko st H. destruct (pulse_all fixed ks ko) as (st' & H0 & _ & _ & _ & _ & H5 & _).
    rewrite H in H0. inversion H0; subst. exact H5.
  Qed.

  Lemma no_overlap : forall ks ko st, pulse true ks ko = Some st ->
    forall i j, i < length instrs -> j < length instrs -> i <> j ->
      (exists q, uses (ith instrs i) q /\ uses (ith instrs j) q) ->
      (stt st i + idur (ith instrs i) <= stt st j)%Q \/ (stt st j + idur (ith instrs j) <= stt st i)%Q.
  Proof.
    intros ks ko st H. destruct (pulse_all true ks ko) as (st' & H0 & _ & _ & _ & _ & _ & H6).
    rewrite H in H0. inversion H0; subst. apply H6. reflexivity.
  Qed.
End Inst.

(* ---------- the shipped code (fixed := false) violates no_overlap ---------- *)
Local Open Scope string_scope.
Definition c11_witness : list instr :=
  [ mkInstr "RZ" [0] [] [(1#2)%Q] 10%Q; mkInstr "RZ" [1] [] [(1#2)%Q] 1%Q; mkInstr "CNOT" [1] [0] [] 2%Q ].

Lemma c11_witness_valid : valid_input c11_witness.
Proof.
  unfold valid_input, c11_witness. split; [discriminate|]. split.
  - repeat constructor.
  - eexists. exists 0. split; [left; reflexivity|]. unfold uses. simpl. left. reflexivity.
Qed.

Lemma c11_witness_shipped :
  sched_pulse commutation_rules_orig true c11_witness false false so_asc so_asc false 0 0 = Some [0; 0; 1]%Q.
Proof. vm_compute. reflexivity. Qed.

Lemma c11_witness_fixed :
  sched_pulse commutation_rules true c11_witness false false so_asc so_asc true 0 0 = Some [0; 0; 10]%Q.
Proof. vm_compute. reflexivity. Qed.

Lemma no_overlap_refuted :
  exists instrs st i j,
    valid_input instrs /\
    sched_pulse commutation_rules_orig true instrs false false so_asc so_asc false 0 0 = Some st /\
    i < length instrs /\ j < length instrs /\ i <> j /\
    (exists q, uses (ith instrs i) q /\ uses (ith instrs j) q) /\
    ~ ((stt st i + idur (ith instrs i) <= stt st j)%Q \/ (stt st j + idur (ith instrs j) <= stt st i)%Q).
Proof.
  exists c11_witness, [0; 0; 1]%Q, 0, 2.
  split; [exact c11_witness_valid|]. split; [exact c11_witness_shipped|].
  split; [simpl; lia|]. split; [simpl; lia|]. split; [lia|]. split.
  - exists 0. unfold uses, ith, c11_witness. simpl. tauto.
  - unfold stt, ith, c11_witness. simpl. unfold Qle. simpl. lia.
Qed.

Lemma c11_witness_dependency :
  1 < 2 /\ 2 < length c11_witness /\ (exists q, uses (ith c11_witness 1) q /\ uses (ith c11_witness 2) q) /\
  commN commutation_rules true c11_witness 2 1 = false.
Proof.
  split; [lia|]. split; [simpl; lia|]. split.
  - exists 1. unfold uses, ith, c11_witness. simpl. tauto.
  - vm_compute. reflexivity.
Qed.
