(* C10 export_valid, step 2: the strict PARSER accepts the token lists of step 1, statement by statement.
   PS toks upd: the tokens [toks] are one statement for pstmts - it consumes them with one unit of fuel, whatever program has
   been read so far and whatever follows, and continues with the program [upd p]. *)
From Coq Require Import Lia Ascii String ZArith.
From QV Require Import Spec.QasmStrict Model.QasmImport Model.QasmExport Gen.Qasm.
From QV Require Import Proofs.QasmLex Proofs.QasmLex2 Proofs.QasmLex3 Proofs.QasmLex4 Proofs.QasmLex5 Proofs.QasmValid1.
Local Open Scope string_scope.
Local Open Scope nat_scope.
Local Open Scope list_scope.

Definition PS (stoks : list tok) (upd : prog -> prog) : Prop :=
  stoks <> [] /\ forall f p rest, pstmts (S f) p (stoks ++ rest) = pstmts f (upd p) rest.

Lemma PS_seq tss upds : Forall2 PS tss upds -> forall f p rest,
  pstmts (length tss + f) p (concat tss ++ rest) = pstmts f (fold_left (fun p u => u p) upds p) rest.
Proof.
  induction 1 as [|t u tss upds [_ H] _ IH]; intros f p rest; [reflexivity|].
  cbn [length plus concat fold_left]. rewrite <- app_assoc, H. apply IH.
Qed.
Lemma PS_length tss upds : Forall2 PS tss upds -> length tss <= length (concat tss).
Proof.
  induction 1 as [|t u tss upds [Hn _] _ IH]; [apply le_n|]. cbn [length concat]. rewrite app_length.
  destruct t; [contradiction|]. cbn [length]. lia.
Qed.

(* ---------------------------------------------------------------- include, qreg, creg *)
Lemma PS_include : PS [TId "include"; TStr "qelib1.inc"; TSym ";"] (fun p => p).
Proof. split; [discriminate|]. intros f p rest. reflexivity. Qed.
Lemma PS_qreg n : PS (reg_toks "qreg" "q" n) (fun p => add_qreg p "q" n).
Proof.
  split; [discriminate|]. intros f p rest. unfold reg_toks, itok. rewrite <- (str_nat_val n) at 2.
  generalize (digits_val 0%Z (la (str_nat n))). intros z. reflexivity.
Qed.
Lemma PS_creg n : PS (reg_toks "creg" "c" n) (fun p => add_creg p "c" n).
Proof.
  split; [discriminate|]. intros f p rest. unfold reg_toks, itok. rewrite <- (str_nat_val n) at 2.
  generalize (digits_val 0%Z (la (str_nat n))). intros z. reflexivity.
Qed.

(* ---------------------------------------------------------------- emitted definitions (table, symbolic evaluation) *)
Definition gitem_of (d : string) : gitem := match parse_defn d with Some g => g | None => GOpaque "" [] [] end.
Ltac ps_defn :=
  match goal with |- PS ?t (fun p => add_gate p ?g) =>
    let t' := eval vm_compute in t in let g' := eval vm_compute in g in change (PS t' (fun p => add_gate p g')) end;
  split; [discriminate|]; intros f p rest; cbn; reflexivity.
Lemma PS_defns : Forall (fun d => PS (dtoks (snd d)) (fun p => add_gate p (gitem_of (snd d)))) export_defns.
Proof. unfold export_defns. repeat (apply Forall_cons; [cbn [snd]; ps_defn|]). apply Forall_nil. Qed.
Lemma PS_defn n : sassoc n export_defns <> None -> PS (dtoks (dtext n)) (fun p => add_gate p (gitem_of (dtext n))).
Proof.
  intros Hn. unfold dtext. destruct (sassoc n export_defns) as [d|] eqn:E; [|contradiction].
  pose proof PS_defns as C. rewrite Forall_forall in C. exact (C _ (sassoc_in _ _ _ E)).
Qed.

(* ---------------------------------------------------------------- numerals as expressions *)
Definition stop_tok (r : list tok) : Prop := exists r', r = TSym "," :: r' \/ r = TSym ")" :: r'.
Lemma pexp_num t r f : num_tok t -> stop_tok r -> pexp (4 + f) 0 (t :: r) = Some (tokexpr t, r).
Proof. intros Ht [r' [->| ->]]; destruct t; try contradiction; reflexivity. Qed.
Lemma pexp_neg t r f : num_tok t -> stop_tok r -> pexp (5 + f) 0 (TSym "-" :: t :: r) = Some (ENeg (tokexpr t), r).
Proof. intros Ht [r' [->| ->]]; destruct t; try contradiction; reflexivity. Qed.
Definition num_ok (x : pynum) : Prop := qasm_number x <> None.
Lemma abstok_num x : num_ok x -> num_tok (abstok x).
Proof. intros H. destruct x as [neg n|[neg ip fp|neg ip fp eneg ed|b|]]; cbn; try exact I; exfalso; apply H; reflexivity. Qed.
Lemma pexp_numtok x r f : num_ok x -> stop_tok r -> 5 <= f -> pexp f 0 (numtok x ++ r) = Some (numexpr x, r).
Proof.
  intros Hx Hr Hf. unfold numtok, numexpr. pose proof (abstok_num x Hx) as Ht. destruct (isneg x); cbn [sgt app].
  - replace f with (5 + (f - 5)) by lia. apply pexp_neg; assumption.
  - replace f with (4 + (f - 4)) by lia. apply pexp_num; assumption.
Qed.
Lemma numtok_length x : 1 <= length (numtok x).
Proof. unfold numtok. rewrite app_length. cbn. lia. Qed.

Lemma pexplist_nums : forall l, l <> [] -> Forall num_ok l -> forall rest fuel, 3 <= length rest -> length l <= fuel ->
  pexplist fuel (sep_toks (List.map numtok l) ++ TSym ")" :: rest) = Some (List.map numexpr l, TSym ")" :: rest).
Proof.
  induction l as [|x l IH]; intros Hne Hf rest fuel Hr Hfu; [contradiction|]. inversion Hf as [|? ? Hx Hl]; subst.
  destruct fuel as [|fuel]; [cbn [length] in Hfu; lia|]. pose proof (numtok_length x) as Ln.
  destruct l as [|y l'].
  - cbn [List.map sep_toks pexplist].
    rewrite (pexp_numtok x (TSym ")" :: rest) _ Hx); [reflexivity|eexists; right; reflexivity|rewrite app_length; cbn [length]; lia].
  - change (sep_toks (List.map numtok (x :: y :: l'))) with (numtok x ++ TSym "," :: sep_toks (List.map numtok (y :: l'))).
    rewrite <- app_assoc. cbn [app pexplist].
    rewrite (pexp_numtok x _ _ Hx); [|eexists; left; reflexivity|rewrite app_length; cbn [length]; rewrite app_length; cbn [length]; lia].
    rewrite (IH ltac:(discriminate) Hl rest fuel Hr); [reflexivity|cbn [length] in *; lia].
Qed.

(* ---------------------------------------------------------------- qubit arguments *)
Lemma parg_q i r : parg (qtoks i ++ r) = Some (AIdx "q" i, r).
Proof. unfold qtoks. rewrite <- (str_nat_val i) at 2. generalize (digits_val 0%Z (la (str_nat i))). intros z. reflexivity. Qed.
Lemma panylist_qubits : forall qs, qs <> [] -> forall rest fuel, length qs <= fuel ->
  panylist fuel (sep_toks (List.map qtoks qs) ++ TSym ";" :: rest) = Some (List.map (AIdx "q") qs, TSym ";" :: rest).
Proof.
  induction qs as [|x qs IH]; intros Hne rest fuel Hfu; [contradiction|].
  destruct fuel as [|fuel]; [cbn [length] in Hfu; lia|]. destruct qs as [|y qs'].
  - cbn [List.map sep_toks panylist]. rewrite parg_q. reflexivity.
  - change (sep_toks (List.map qtoks (x :: y :: qs'))) with (qtoks x ++ TSym "," :: sep_toks (List.map qtoks (y :: qs'))).
    rewrite <- app_assoc. cbn [panylist]. rewrite parg_q. cbn [app].
    rewrite (IH ltac:(discriminate) rest fuel); [reflexivity|cbn [length] in *; lia].
Qed.
Lemma sep_qtoks_head qs : qs <> [] -> exists r, sep_toks (List.map qtoks qs) = TId "q" :: r.
Proof. destruct qs as [|x [|y l]]; [contradiction| |]; intros _; eexists; reflexivity. Qed.
Lemma sep_qtoks_length qs : qs <> [] -> 4 <= length (sep_toks (List.map qtoks qs)).
Proof. destruct qs as [|x [|y l]]; [contradiction| |]; intros _; cbn; lia. Qed.

(* ---------------------------------------------------------------- the optional parameter list *)
Lemma pparams_none qs rest : qs <> [] ->
  pparams (sep_toks (List.map qtoks qs) ++ rest) = Some ([], sep_toks (List.map qtoks qs) ++ rest).
Proof. intros H. destruct (sep_qtoks_head qs H) as [r ->]. reflexivity. Qed.
Lemma sep_numtok_head l : l <> [] -> Forall num_ok l ->
  exists t r, sep_toks (List.map numtok l) = t :: r /\ (t = TSym "-" \/ num_tok t).
Proof.
  intros Hne Hf. destruct l as [|x l]; [contradiction|]. inversion Hf as [|? ? Hx _]; subst. pose proof (abstok_num x Hx) as Ht.
  assert (H : exists t r, numtok x = t :: r /\ (t = TSym "-" \/ num_tok t)).
  { unfold numtok. destruct (isneg x); cbn [sgt app]; eexists; eexists; (split; [reflexivity|]); [left; reflexivity|right; exact Ht]. }
  destruct H as [t [r [E Hn]]]. destruct l as [|y l']; cbn [List.map sep_toks]; rewrite E; cbn [app]; eauto.
Qed.
Lemma sep_numtok_len xl K : length xl <= S (length (sep_toks (List.map numtok xl)) + K).
Proof.
  induction xl as [|x' [|y l'] IH]; cbn [List.map sep_toks length] in *; [lia|pose proof (numtok_length x'); lia|].
  rewrite app_length. cbn [length]. pose proof (numtok_length x'). lia.
Qed.
Lemma pparams_nums l rest : l <> [] -> Forall num_ok l -> 3 <= length rest ->
  pparams (TSym "(" :: sep_toks (List.map numtok l) ++ TSym ")" :: rest) = Some (List.map numexpr l, rest).
Proof.
  intros Hne Hf Hr. pose proof (pexplist_nums l Hne Hf rest (S (length (sep_toks (List.map numtok l) ++ TSym ")" :: rest))) Hr) as P.
  assert (Hlen : length l <= S (length (sep_toks (List.map numtok l) ++ TSym ")" :: rest))).
  { rewrite app_length. clear. induction l as [|x [|y l] IH]; cbn [List.map sep_toks length] in *; [lia|pose proof (numtok_length x); lia|].
    rewrite app_length. cbn [length]. pose proof (numtok_length x). lia. }
  specialize (P Hlen). destruct (sep_numtok_head l Hne Hf) as [t [r [E Hn]]]. rewrite E in *. cbn [app] in *.
  destruct Hn as [->|Ht]; [|destruct t; try contradiction]; unfold pparams; cbv beta iota; rewrite P; reflexivity.
Qed.

(* ---------------------------------------------------------------- gate statements *)
Definition qnames : list string := List.map snd exp_pairs.
(* every exported name starts a quantum operation (it is none of qreg, creg, include, gate, opaque, barrier, if, measure, reset) *)
Lemma pstmts_uop q : In q qnames -> forall f p r es qs r2, puop (TId q :: r) = Some ((q, es, qs), r2) ->
  pstmts (S f) p (TId q :: r) = pstmts f (add_op p (OApp q es qs)) r2.
Proof.
  intros Hq f p r es qs r2 H. vm_compute in Hq.
  repeat (destruct Hq as [<-|Hq];
    [change (pstmts (S f) p (TId ?q :: r)) with
       (match (match puop (TId q :: r) with Some ((g, es, qs), r1) => Some (OApp g es qs, r1) | None => None end) with
        | Some (o, r1) => pstmts f (add_op p o) r1 | None => None end); rewrite H; reflexivity|]).
  destruct Hq.
Qed.
Lemma puop_ident q : In q qnames -> q <> "U" -> forall r es r1 qs r2,
  pparams r = Some (es, r1) -> panylist (S (length r1)) r1 = Some (qs, TSym ";" :: r2) -> puop (TId q :: r) = Some ((q, es, qs), r2).
Proof.
  intros Hq Hu r es r1 qs r2 H1 H2. vm_compute in Hq.
  repeat (destruct Hq as [<-|Hq];
    [first [contradiction Hu; reflexivity |
      match goal with |- puop (TId ?q :: r) = _ =>
        change (puop (TId q :: r)) with
          (match pparams r with
           | Some (es, r1) => match panylist (S (length r1)) r1 with Some (qs, TSym ";" :: r2) => Some ((q, es, qs), r2) | _ => None end
           | None => None end) end; rewrite H1, H2; reflexivity]|]).
  destruct Hq.
Qed.
Lemma puop_U r es r1 a r2 : pexplist (S (length r)) r = Some (es, TSym ")" :: r1) -> parg r1 = Some (a, TSym ";" :: r2) ->
  puop (TId "U" :: TSym "(" :: r) = Some (("U", es, [a]), r2).
Proof. intros H1 H2. cbn [puop]. rewrite H1, H2. reflexivity. Qed.

Definition gate_op (q : string) (a : pyval) (qs : list nat) : op := OApp q (List.map numexpr (arg_nums a)) (List.map (AIdx "q") qs).
Lemma argtoks_nonnil a : arg_nums a <> [] -> Forall num_ok (arg_nums a) -> argtoks a <> [].
Proof.
  intros Hne Hf. unfold argtoks. destruct (sep_numtok_head _ Hne Hf) as [t [r [E _]]]. rewrite E. discriminate.
Qed.
Lemma stmt_toks_eq q a qs : Forall num_ok (arg_nums a) ->
  stmt_toks q (argtoks a) qs =
  TId q :: (match arg_nums a with [] => [] | _ => TSym "(" :: argtoks a ++ [TSym ")"] end) ++ sep_toks (List.map qtoks qs) ++ [TSym ";"].
Proof.
  intros Hf. unfold stmt_toks. destruct (arg_nums a) as [|x l] eqn:E.
  - unfold argtoks. rewrite E. reflexivity.
  - pose proof (argtoks_nonnil a ltac:(rewrite E; discriminate) ltac:(rewrite E; exact Hf)) as Hn.
    destruct (argtoks a); [contradiction|reflexivity].
Qed.

Lemma PS_gate q a qs : In q qnames -> q <> "U" -> qs <> [] -> Forall num_ok (arg_nums a) ->
  PS (stmt_toks q (argtoks a) qs) (fun p => add_op p (gate_op q a qs)).
Proof.
  intros Hq Hu Hqs Hf. split; [unfold stmt_toks; discriminate|]. intros f p rest. rewrite (stmt_toks_eq q a qs Hf).
  cbn [app]. rewrite <- !app_assoc. cbn [app]. unfold gate_op.
  pose proof (sep_qtoks_length qs Hqs) as Lq.
  assert (Hany : forall r, panylist (S (length (sep_toks (List.map qtoks qs) ++ TSym ";" :: r))) (sep_toks (List.map qtoks qs) ++ TSym ";" :: r)
                           = Some (List.map (AIdx "q") qs, TSym ";" :: r)).
  { intros r. apply panylist_qubits; [exact Hqs|]. rewrite app_length.
    clear. induction qs as [|x [|y l] IH]; cbn [List.map sep_toks length] in *; try lia. rewrite app_length. cbn [length]. lia. }
  apply pstmts_uop; [exact Hq|]. destruct (arg_nums a) as [|x l] eqn:E.
  - cbn [app List.map]. apply (puop_ident q Hq Hu _ [] (sep_toks (List.map qtoks qs) ++ TSym ";" :: rest)); [apply pparams_none; exact Hqs|apply Hany].
  - unfold argtoks. rewrite E. cbn [app]. rewrite <- app_assoc. cbn [app].
    apply (puop_ident q Hq Hu _ _ (sep_toks (List.map qtoks qs) ++ TSym ";" :: rest)); [|apply Hany].
    apply pparams_nums; [discriminate|exact Hf|rewrite app_length; lia].
Qed.
Lemma U_in_qnames : In "U" qnames. Proof. vm_compute. tauto. Qed.
Lemma PS_U a i : arg_nums a <> [] -> Forall num_ok (arg_nums a) ->
  PS (stmt_toks "U" (argtoks a) [i]) (fun p => add_op p (gate_op "U" a [i])).
Proof.
  intros Hne Hf. split; [unfold stmt_toks; discriminate|]. intros f p rest. rewrite (stmt_toks_eq "U" a [i] Hf).
  destruct (arg_nums a) as [|x l] eqn:E; [contradiction|]. unfold gate_op, argtoks. rewrite E.
  change (sep_toks (List.map qtoks [i])) with (qtoks i). change (List.map (AIdx "q") [i]) with [AIdx "q" i].
  cbn [app]. rewrite <- !app_assoc. cbn [app].
  apply (pstmts_uop "U" U_in_qnames).
  apply (puop_U _ _ (qtoks i ++ TSym ";" :: rest)); [|apply parg_q].
  apply pexplist_nums; [discriminate|exact Hf|unfold qtoks; cbn [length app]; lia|].
  rewrite app_length. apply sep_numtok_len.
Qed.
