(* The list-scheduling loop (find_topological_order) on an acyclic graph:
   L1 the cycles partition the nodes, L2 a cycle is conflict-free, L3 every dependency edge and every recorded
   conflict edge goes to a strictly later cycle; and the loop never runs out of fuel. *)
From Coq Require Import String Ascii.
From Coq Require Import List Arith Bool QArith PeanoNat Lia Permutation.
From QV Require Import Model.Sched Proofs.SchedBase.
Import ListNotations.
Open Scope nat_scope.

Ltac splits := repeat match goal with |- _ /\ _ => split end.

Lemma FOP_snoc : forall (R : nat -> nat -> Prop) l b,
  ForallOrdPairs R l -> (forall a, In a l -> R a b) -> ForallOrdPairs R (l ++ [b]).
Proof.
  intros R l b H. induction H as [|a l Ha Hl IH]; intros Hb; simpl.
  - constructor; constructor.
  - constructor.
    + apply Forall_app. split; [exact Ha|]. constructor; [apply Hb; left; reflexivity | constructor].
    + apply IH. intros x Hx. apply Hb. right. exact Hx.
Qed.

Lemma NoDup_bound_length : forall n (l : list nat), NoDup l -> (forall x, In x l -> x < n) -> length l <= n.
Proof.
  intros n l Hnd Hlt. rewrite <- (seq_length n 0). apply NoDup_incl_length; [exact Hnd|].
  intros x Hx. apply in_seq. specialize (Hlt x Hx). lia.
Qed.

Section LS.
  Variable n : nat.
  Variable E : list (nat * nat).
  Variable conf : nat -> nat -> bool.
  Variables sh so : nat -> list nat -> list nat.
  Variables random priority constrained : bool.
  Variable prio_lt : nat -> nat -> bool.
  Hypothesis Hrange : forall u v, In (u, v) E -> u < n /\ v < n.
  Variable rk : nat -> nat.
  Hypothesis Hrank : forall u v, In (u, v) E -> rk u < rk v.

  Definition allpred (procd : list nat) (v : nat) : Prop := forall u, In (u, v) E -> In u procd.
  Definition R (a b : nat) : Prop := conf b a = false.

  Lemma ready_spec : forall procd w, ready E procd w = true <-> allpred procd w.
  Proof.
    intros procd w. unfold ready, allpred. rewrite forallb_forall. split.
    - intros H u Hu. apply memb_In. apply H. apply preds_In. exact Hu.
    - intros H u Hu. apply memb_In. apply H. apply preds_In. exact Hu.
  Qed.

  Lemma allpred_mono : forall p p' v, incl p p' -> allpred p v -> allpred p' v.
  Proof. unfold allpred. intros p p' v Hi H u Hu. apply Hi. apply H. exact Hu. Qed.

  (* ---------------- greedy ---------------- *)
  Lemma greedy_spec : forall cands cyc0 ec0 cyc ec',
    greedy conf cands cyc0 ec0 = (cyc, ec') ->
    NoDup (cyc0 ++ cands) -> ForallOrdPairs R cyc0 ->
    exists s new, cyc = cyc0 ++ s /\ ec' = ec0 ++ new /\ incl s cands /\ NoDup cyc /\ ForallOrdPairs R cyc /\
      (forall a b, In (a, b) new -> In a cyc /\ In b cands /\ ~ In b cyc /\ conf b a = true).
  Proof.
    induction cands as [|b r IH]; intros cyc0 ec0 cyc ec' Hg Hnd Hfop; simpl in Hg.
    - inversion Hg; subst. exists [], []. rewrite !app_nil_r in *. splits; try assumption; try reflexivity.
      + intros x Hx. exact Hx.
      + intros a b H. simpl in H. contradiction.
    - destruct (filter (fun a => conf b a) cyc0) as [|a0 bad'] eqn:Hf.
      + assert (Hnd' : NoDup ((cyc0 ++ [b]) ++ r)) by (rewrite <- app_assoc; exact Hnd).
        assert (Hfop' : ForallOrdPairs R (cyc0 ++ [b])).
        { apply FOP_snoc; [exact Hfop|]. intros a Ha. unfold R. destruct (conf b a) eqn:Hc; [|reflexivity].
          assert (Hin : In a (filter (fun a => conf b a) cyc0)) by (apply filter_In; split; assumption).
          rewrite Hf in Hin. contradiction. }
        destruct (IH _ _ _ _ Hg Hnd' Hfop') as (s & new & Hc & He & Hi & Hn & Hp & Hnew).
        exists (b :: s), new. splits; try assumption.
        * rewrite Hc, <- app_assoc. reflexivity.
        * intros x [->|Hx]; [left; reflexivity | right; apply Hi; exact Hx].
        * intros a b0 H. destruct (Hnew a b0 H) as (H1 & H2 & H3 & H4). splits; try assumption. right. exact H2.
      + remember (a0 :: bad') as bad.
        assert (Hnd' : NoDup (cyc0 ++ r)) by (apply NoDup_remove_1 in Hnd; exact Hnd).
        assert (Hb : ~ In b (cyc0 ++ r)) by (apply NoDup_remove_2 in Hnd; exact Hnd).
        destruct (IH _ _ _ _ Hg Hnd' Hfop) as (s & new & Hc & He & Hi & Hn & Hp & Hnew).
        assert (Hbc : ~ In b cyc).
        { rewrite Hc. intros Hx. apply Hb. apply in_app_iff in Hx. apply in_app_iff.
          destruct Hx as [Hx|Hx]; [left; exact Hx | right; apply Hi; exact Hx]. }
        exists s, (map (fun a => (a, b)) bad ++ new). splits; try assumption.
        * rewrite He, <- app_assoc. rewrite Heqbad. reflexivity.
        * intros x Hx. right. apply Hi. exact Hx.
        * intros a b0 H. apply in_app_iff in H. destruct H as [H|H].
          -- apply in_map_iff in H. destruct H as [x [Hx Hin]]. inversion Hx; subst.
             rewrite <- Hf in Hin. apply filter_In in Hin. destruct Hin as [Hin Hcf]. splits.
             ++ apply in_app_iff. left. exact Hin.
             ++ left. reflexivity.
             ++ exact Hbc.
             ++ exact Hcf.
          -- destruct (Hnew a b0 H) as (H1 & H2 & H3 & H4). splits; try assumption. right. exact H2.
  Qed.

  Lemma greedy_head : forall b r ec cyc ec', greedy conf (b :: r) [] ec = (cyc, ec') -> NoDup (b :: r) -> In b cyc.
  Proof.
    intros b r ec cyc ec' Hg Hnd. simpl in Hg.
    assert (Hnd' : NoDup ([b] ++ r)) by exact Hnd.
    assert (Hf : ForallOrdPairs R [b]) by (constructor; constructor).
    destruct (greedy_spec _ _ _ _ _ Hg Hnd' Hf) as (s & new & Hc & _).
    rewrite Hc. left. reflexivity.
  Qed.

  (* ---------------- release ---------------- *)
  Definition Jinv (av procd todo : list nat) : Prop :=
    NoDup procd /\ NoDup av /\ NoDup todo /\
    (forall x, In x procd -> ~ In x av /\ ~ In x todo) /\
    (forall x, In x av -> ~ In x todo) /\
    (forall v, In v av \/ In v todo -> v < n /\ allpred procd v) /\
    (forall v, v < n -> ~ In v procd -> ~ In v todo -> allpred procd v -> In v av) /\
    (forall v, In v procd -> v < n /\ allpred procd v).

  Lemma Jinv_step : forall av procd v r ws,
    Permutation ws (succs n E v) ->
    Jinv av procd (v :: r) ->
    Jinv (av ++ filter (ready E (procd ++ [v])) ws) (procd ++ [v]) r.
  Proof.
    intros av procd v r ws Hperm (N1 & N2 & N3 & D1 & D2 & J2 & J3 & J4).
    assert (Hvt : In v (v :: r)) by (left; reflexivity).
    assert (Hvp : ~ In v procd) by (intros H; apply (D1 v H); exact Hvt).
    assert (Hva : ~ In v av) by (intros H; apply (D2 v H); exact Hvt).
    inversion N3 as [|? ? Hvr N3']; subst.
    assert (Hvv : ~ In (v, v) E) by (intros H; apply Hrank in H; lia).
    assert (Hnew : forall w, In w (filter (ready E (procd ++ [v])) ws) ->
                             w < n /\ In (v, w) E /\ allpred (procd ++ [v]) w).
    { intros w Hw. apply filter_In in Hw. destruct Hw as [Hw Hr].
      apply (Permutation_in _ Hperm) in Hw. apply succs_In in Hw. apply ready_spec in Hr. tauto. }
    assert (Hincl : incl procd (procd ++ [v])) by (intros x Hx; apply in_app_iff; left; exact Hx).
    unfold Jinv. splits.
    - apply NoDup_app_iff. splits; [exact N1 | constructor; [simpl; tauto | constructor] |].
      intros x Hx [->|[]]. contradiction.
    - apply NoDup_app_iff. splits; [exact N2 | |].
      + apply NoDup_filter. eapply Permutation_NoDup; [apply Permutation_sym; exact Hperm | apply succs_NoDup].
      + intros x Hx Hx'. apply Hnew in Hx'. destruct Hx' as (_ & He & _).
        destruct (J2 x (or_introl Hx)) as [_ Hap]. apply Hvp. apply Hap. exact He.
    - exact N3'.
    - intros x H. apply in_app_iff in H. destruct H as [H|[->|[]]]; split.
      + intros Hx. apply in_app_iff in Hx. destruct Hx as [Hx|Hx]; [destruct (D1 x H) as [Da _]; exact (Da Hx)|].
        apply Hnew in Hx. destruct Hx as (_ & He & _). destruct (J4 x H) as [_ Hap]. apply Hvp. apply Hap. exact He.
      + intros Hx. destruct (D1 x H) as [_ Dt]. apply Dt. right. exact Hx.
      + intros Hx. apply in_app_iff in Hx. destruct Hx as [Hx|Hx]; [contradiction|].
        apply Hnew in Hx. tauto.
      + exact Hvr.
    - intros x Hx Hxr. apply in_app_iff in Hx. destruct Hx as [Hx|Hx].
      + apply (D2 x Hx). right. exact Hxr.
      + apply Hnew in Hx. destruct Hx as (_ & He & _).
        destruct (J2 x (or_intror (or_intror Hxr))) as [_ Hap]. apply Hvp. apply Hap. exact He.
    - intros v0 H. destruct H as [H|H].
      + apply in_app_iff in H. destruct H as [H|H].
        * split; [apply (J2 v0 (or_introl H))|]. eapply allpred_mono; [exact Hincl | apply (J2 v0 (or_introl H))].
        * split; apply (Hnew v0 H).
      + split; [apply (J2 v0 (or_intror (or_intror H)))|].
        eapply allpred_mono; [exact Hincl | apply (J2 v0 (or_intror (or_intror H)))].
    - intros v' Hlt Hnp Hnr Hap. apply in_app_iff.
      assert (Hnp' : ~ In v' procd) by (intros H; apply Hnp; apply in_app_iff; left; exact H).
      assert (Hne : v' <> v) by (intros ->; apply Hnp; apply in_app_iff; right; left; reflexivity).
      destruct (edgeb E v v') eqn:He.
      + right. apply edgeb_In in He. apply filter_In. split.
        * apply (Permutation_in _ (Permutation_sym Hperm)). apply succs_In. split; assumption.
        * apply ready_spec. exact Hap.
      + left. apply J3; try assumption.
        * intros [H|H]; [congruence | contradiction].
        * intros u Hu. specialize (Hap u Hu). apply in_app_iff in Hap. destruct Hap as [Hap|[->|[]]]; [exact Hap|].
          apply edgeb_In in Hu. congruence.
    - intros v0 H. apply in_app_iff in H. destruct H as [H|[->|[]]].
      + split; [apply (J4 v0 H)|]. eapply allpred_mono; [exact Hincl | apply (J4 v0 H)].
      + split; [apply (J2 v0 (or_intror Hvt))|]. eapply allpred_mono; [exact Hincl | apply (J2 v0 (or_intror Hvt))].
  Qed.

  Lemma release_J : forall cyc av procd ko av' procd' ko',
    release n E so cyc av procd ko = (av', procd', ko') ->
    Jinv av procd cyc -> Jinv av' procd' [] /\ procd' = procd ++ cyc.
  Proof.
    induction cyc as [|v r IH]; intros av procd ko av' procd' ko' Hrel HJ; simpl in Hrel.
    - inversion Hrel; subst. rewrite app_nil_r. split; [exact HJ | reflexivity].
    - apply IH in Hrel.
      + destruct Hrel as [H1 H2]. split; [exact H1|]. rewrite H2, <- app_assoc. reflexivity.
      + apply Jinv_step; [apply guard_perm_perm | exact HJ].
  Qed.

  (* ---------------- the loop ---------------- *)
  Definition Inv (avail procd : list nat) (cycles : list (list nat)) (ec : list (nat * nat)) : Prop :=
    procd = concat cycles /\
    Jinv avail procd [] /\
    (forall u v, In (u, v) E -> In v procd -> beforeC cycles u v) /\
    (forall a b, In (a, b) ec -> a < n /\ b < n /\ conf b a = true /\ In a procd /\ (In b procd -> beforeC cycles a b)) /\
    (constrained = true -> Forall (ForallOrdPairs R) cycles).

  Lemma rounds_unfold : forall f avail procd cycles ec ks ko, avail <> [] ->
    rounds n E conf sh so random priority constrained prio_lt (S f) avail procd cycles ec ks ko =
      let a1 := if random then guard_perm (sh ks avail) avail else avail in
      let ks' := if random then S ks else ks in
      let a2 := if priority then isort prio_lt a1 else a1 in
      let '(cyc, ec') := if constrained then greedy conf a2 [] ec else (a2, ec) in
      let av' := fold_left (fun l x => remove1 x l) cyc a2 in
      let '(av'', procd', ko') := release n E so cyc av' procd ko in
      rounds n E conf sh so random priority constrained prio_lt f av'' procd' (cycles ++ [cyc]) ec' ks' ko'.
  Proof. intros f avail procd cycles ec ks ko H. destruct avail; [congruence | reflexivity]. Qed.

  Lemma rounds_spec : forall fuel avail procd cycles ec ks ko,
    Inv avail procd cycles ec -> n <= fuel + length procd ->
    exists cycles' ec' ks' ko',
      rounds n E conf sh so random priority constrained prio_lt fuel avail procd cycles ec ks ko
        = Some (cycles', ec', ks', ko') /\
      Inv [] (concat cycles') cycles' ec'.
  Proof.
    induction fuel as [|f IH]; intros avail procd cycles ec ks ko HInv Hfuel.
    - destruct avail as [|a av0].
      + simpl. exists cycles, ec, ks, ko. split; [reflexivity|].
        destruct HInv as (Hp & rest). rewrite <- Hp. split; [exact Hp | exact rest].
      + exfalso. destruct HInv as (Hp & (N1 & N2 & _ & D1 & _ & J2 & _ & J4) & _).
        assert (Hlen : length (procd ++ a :: av0) <= n).
        { apply NoDup_bound_length.
          - apply NoDup_app_iff. repeat split; [exact N1 | exact N2 |]. intros x Hx. apply (D1 x Hx).
          - intros x Hx. apply in_app_iff in Hx. destruct Hx as [Hx|Hx]; [apply (J4 x Hx) | apply (J2 x (or_introl Hx))]. }
        rewrite app_length in Hlen. simpl in Hlen. lia.
    - destruct avail as [|a av0].
      + simpl. exists cycles, ec, ks, ko. split; [reflexivity|].
        destruct HInv as (Hp & rest). rewrite <- Hp. split; [exact Hp | exact rest].
      + remember (a :: av0) as avail eqn:Hav.
        assert (Hne : avail <> []) by (rewrite Hav; discriminate).
        rewrite rounds_unfold by exact Hne. cbv zeta.
        set (a1 := if random then guard_perm (sh ks avail) avail else avail).
        set (ks1 := if random then S ks else ks).
        set (a2 := if priority then isort prio_lt a1 else a1).
        assert (Hp1 : Permutation a1 avail).
        { unfold a1. destruct random; [apply guard_perm_perm | apply Permutation_refl]. }
        assert (Hp2 : Permutation a2 avail).
        { unfold a2. destruct priority; [eapply perm_trans; [apply isort_perm | exact Hp1] | exact Hp1]. }
        destruct HInv as (Hp & HJ & HE & Hec & Hfop).
        destruct HJ as (N1 & N2 & _ & D1 & _ & J2 & J3 & J4).
        assert (Hnd2 : NoDup a2) by (eapply Permutation_NoDup; [apply Permutation_sym; exact Hp2 | exact N2]).
        assert (Hin2 : forall x, In x a2 <-> In x avail).
        { intros x; split; intros H; [apply (Permutation_in _ Hp2 H) | apply (Permutation_in _ (Permutation_sym Hp2) H)]. }
        (* the cycle *)
        assert (Hcyc : exists cyc ec' new,
                   (if constrained then greedy conf a2 [] ec else (a2, ec)) = (cyc, ec') /\
                   ec' = ec ++ new /\ incl cyc a2 /\ NoDup cyc /\ cyc <> [] /\
                   (constrained = true -> ForallOrdPairs R cyc) /\
                   (forall x y, In (x, y) new -> In x cyc /\ In y a2 /\ ~ In y cyc /\ conf y x = true)).
        { destruct constrained eqn:Hcon.
          - destruct (greedy conf a2 [] ec) as [cyc ec'] eqn:Hg.
            assert (Hnd0 : NoDup ([] ++ a2)) by exact Hnd2.
            assert (Hf0 : ForallOrdPairs R []) by constructor.
            destruct (greedy_spec _ _ _ _ _ Hg Hnd0 Hf0) as (s & new & Hc & He & Hi & Hn & Hpf & Hnew).
            exists cyc, ec', new. splits; try assumption; try reflexivity.
            + simpl in Hc. subst s. exact Hi.
            + destruct a2 as [|b r] eqn:Ha2.
              * exfalso. apply Hne. apply Permutation_nil. exact Hp2.
              * intros Hcn. apply (greedy_head _ _ _ _ _ Hg) in Hnd2. rewrite Hcn in Hnd2. contradiction.
            + intros _. exact Hpf.
          - exists a2, ec, []. splits; try assumption; try reflexivity.
            + rewrite app_nil_r. reflexivity.
            + intros x Hx. exact Hx.
            + intros Hc. apply Hne. apply Permutation_nil. rewrite <- Hc. exact Hp2.
            + discriminate.
            + intros x y H. simpl in H. contradiction. }
        destruct Hcyc as (cyc & ec' & new & Hg & Hec' & Hi & Hnc & Hcne & Hcf & Hnew).
        rewrite Hg.
        destruct (remove_all_spec cyc a2 Hnd2) as [Hr1 Hr2].
        set (av' := fold_left (fun l x => remove1 x l) cyc a2) in *.
        destruct (release n E so cyc av' procd ko) as [[av'' procd'] ko'] eqn:Hrel.
        assert (Hcav : forall x, In x cyc -> In x avail) by (intros x Hx; apply Hin2; apply Hi; exact Hx).
        assert (Havav : forall x, In x av' -> In x avail) by (intros x Hx; apply Hin2; apply Hr2 in Hx; tauto).
        assert (HJ0 : Jinv av' procd cyc).
        { unfold Jinv. splits.
          - exact N1.
          - exact Hr1.
          - exact Hnc.
          - intros x H. destruct (D1 x H) as [Da _]. split; intros Hx; apply Da; [apply Havav | apply Hcav]; exact Hx.
          - intros x Hx Hxc. apply Hr2 in Hx. tauto.
          - intros v H. apply (J2 v). left. destruct H as [H|H]; [apply Havav | apply Hcav]; exact H.
          - intros v Hlt Hnp Hncy Hap. apply Hr2. split; [|exact Hncy]. apply Hin2. apply J3; try assumption. tauto.
          - exact J4. }
        destruct (release_J _ _ _ _ _ _ _ Hrel HJ0) as [HJ1 Hpr]. subst procd'.
        assert (Hcnp : forall x, In x cyc -> ~ In x (concat cycles)).
        { intros x Hx Hxp. rewrite <- Hp in Hxp. destruct (D1 x Hxp) as [Da _]. apply Da. apply Hcav. exact Hx. }
        assert (Hconc : concat (cycles ++ [cyc]) = procd ++ cyc).
        { rewrite concat_app. simpl. rewrite app_nil_r. rewrite Hp. reflexivity. }
        apply IH.
        * unfold Inv. splits.
          -- symmetry; exact Hconc.
          -- exact HJ1.
          -- intros u v Huv Hv. apply in_app_iff in Hv. destruct Hv as [Hv|Hv].
             ++ apply beforeC_app. apply HE; assumption.
             ++ apply beforeC_snoc; [|apply Hcnp; exact Hv | exact Hv].
                rewrite <- Hp. destruct (J2 v (or_introl (Hcav v Hv))) as [_ Hap]. apply Hap. exact Huv.
          -- intros x y Hxy. rewrite Hec' in Hxy. apply in_app_iff in Hxy. destruct Hxy as [Hxy|Hxy].
             ++ destruct (Hec x y Hxy) as (Hx1 & Hx2 & Hx3 & Hx4 & Hx5). splits; try assumption.
                ** apply in_app_iff. left. exact Hx4.
                ** intros Hy. destruct (in_dec Nat.eq_dec y procd) as [Hyp|Hyp].
                   --- apply beforeC_app. apply Hx5. exact Hyp.
                   --- apply in_app_iff in Hy. destruct Hy as [Hy|Hy]; [contradiction|].
                       apply beforeC_snoc; [rewrite <- Hp; exact Hx4 | apply Hcnp; exact Hy | exact Hy].
             ++ destruct (Hnew x y Hxy) as (Hx1 & Hx2 & Hx3 & Hx4).
                apply Hin2 in Hx2. splits.
                ** apply (J2 x (or_introl (Hcav x Hx1))).
                ** apply (J2 y (or_introl Hx2)).
                ** exact Hx4.
                ** apply in_app_iff. right. exact Hx1.
                ** intros Hy. exfalso. apply in_app_iff in Hy. destruct Hy as [Hy|Hy]; [|contradiction].
                   destruct (D1 y Hy) as [Da _]. apply Da. exact Hx2.
          -- intros Hcon. apply Forall_app. split; [apply Hfop; exact Hcon|]. constructor; [apply Hcf; exact Hcon | constructor].
        * rewrite app_length. destruct cyc as [|c0 cr]; [congruence|]. simpl. lia.
  Qed.

  Lemma start_Inv : Inv (start_nodes n E) [] [] [].
  Proof.
    unfold Inv, Jinv, start_nodes. splits.
    - reflexivity.
    - constructor.
    - apply NoDup_filter. apply seq_NoDup.
    - constructor.
    - intros x [].
    - intros x _ [].
    - intros v [H|[]]. apply filter_In in H. destruct H as [H1 H2]. apply in_seq in H1. split; [lia|].
      intros u Hu. apply preds_In in Hu. destruct (preds E v); [contradiction | discriminate].
    - intros v Hlt _ _ Hap. apply filter_In. split; [apply in_seq; lia|].
      destruct (preds E v) as [|u r] eqn:Hp; [reflexivity|]. exfalso.
      assert (Hu : In u (preds E v)) by (rewrite Hp; left; reflexivity).
      apply preds_In in Hu. apply (Hap u Hu).
    - intros v [].
    - intros u v _ [].
    - intros a b [].
    - intros _. constructor.
  Qed.

  (* all nodes are scheduled once the available list is empty *)
  Lemma all_scheduled : forall procd, Jinv [] procd [] -> forall v, v < n -> In v procd.
  Proof.
    intros procd (N1 & _ & _ & _ & _ & _ & J3 & _).
    assert (H : forall k v, rk v < k -> v < n -> In v procd).
    { induction k as [|k IHk]; intros v Hk Hlt; [lia|].
      destruct (in_dec Nat.eq_dec v procd) as [Hi|Hni]; [exact Hi|]. exfalso.
      apply (J3 v Hlt Hni); [simpl; tauto|].
      intros u Hu. apply IHk; [apply Hrank in Hu; lia | apply Hrange in Hu; tauto]. }
    intros v Hlt. apply (H (S (rk v))); [lia | exact Hlt].
  Qed.

  Theorem find_topological_order_spec : forall ks ko,
    exists cycles ec ks' ko',
      find_topological_order n E conf sh so random priority constrained prio_lt ks ko = Some (cycles, ec, ks', ko') /\
      Permutation (concat cycles) (seq 0 n) /\
      (forall u v, In (u, v) E -> beforeC cycles u v) /\
      (forall a b, In (a, b) ec -> a < n /\ b < n /\ conf b a = true /\ beforeC cycles a b) /\
      (constrained = true -> Forall (ForallOrdPairs R) cycles).
  Proof.
    intros ks ko. unfold find_topological_order.
    destruct (rounds_spec n (start_nodes n E) [] [] [] ks ko start_Inv) as (cycles & ec & ks' & ko' & Hr & HInv).
    { simpl. lia. }
    exists cycles, ec, ks', ko'. split; [exact Hr|].
    destruct HInv as (_ & HJ & HE & Hec & Hfop).
    pose proof (all_scheduled _ HJ) as Hall.
    destruct HJ as (N1 & _ & _ & _ & _ & _ & _ & J4).
    splits.
    - apply NoDup_Permutation; [exact N1 | apply seq_NoDup|].
      intros x. rewrite in_seq. split; [intros H; apply J4 in H; lia | intros H; apply Hall; lia].
    - intros u v Huv. apply HE; [exact Huv|]. apply Hall. apply Hrange in Huv. tauto.
    - intros a b H. destruct (Hec a b H) as (Ha & Hb & Hc & _ & Hbc). splits; try assumption.
      apply Hbc. apply Hall. exact Hb.
    - exact Hfop.
  Qed.
End LS.
