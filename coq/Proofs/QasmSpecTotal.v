(* C04, spec-side totality: the standard's semantics (Spec/Qasm.v spec_prog: broadcast, macro expansion of user gates to
   library-level leaves, measure, if) is DEFINED on every program that is statically well-formed (Spec/Qasm.v wf over the
   built-ins + qelib1.inc), provided no division by zero occurs while evaluating parameters.  The set of library-level
   gates is the importer's table sig0, which equals the standard's lib_sigs (QasmTotal1.lib_sig0, from chk_sigs).
   Mirrors QasmTotal1/2 (importer side); together with import_total and import_sound it removes the definedness
   hypotheses of import_sound (import_sound_total_thm). *)
From Coq Require Import Lia.
From QV Require Import Model.QasmImport Gen.Qasm Spec.QasmSem Found.Circ Proofs.QasmShortcut Proofs.QasmCustom Proofs.QasmRegs
                       Proofs.QasmSem1 Proofs.QasmSem2 Proofs.QasmSound Proofs.QasmTotal1 Proofs.QasmTotal2.
Local Open Scope string_scope.
Local Open Scope nat_scope.
Local Open Scope list_scope.

(* ---- gate definitions that passed wf_gates: signatures S over the library, environment G (newest first) ---- *)
Inductive sok : list (string * (nat * nat)) -> genv -> Prop :=
| sok_nil : sok lib_sigs []
| sok_cons n d S G : sassoc n sig0 = None -> forallb (wf_bstmt S (gd_params d) (gd_qubits d)) (gd_body d) = true -> sok S G ->
    sok ((n, (length (gd_params d), length (gd_qubits d))) :: S) ((n, d) :: G).

(* a library name keeps its library signature: user gates never shadow it *)
Lemma sok_base S G g v : sok S G -> sassoc g sig0 = Some v -> sassoc g S = Some v.
Proof.
  induction 1 as [|n d S G Hn _ _ IH]; intros Hb; [rewrite lib_sig0; exact Hb|]. cbn [sassoc].
  destruct (String.eqb g n) eqn:E; [apply String.eqb_eq in E; subst; congruence|]. apply IH. exact Hb.
Qed.

Section T.
Variable A : VAlg.
Hypothesis div_total : forall a b : A, vdiv A a b <> None.     (* no division by zero occurs *)

(* macro expansion of a declared gate applied with the declared arities never fails, at any nesting depth *)
Theorem expand_total S G : sok S G -> forall g np nq (vals : list A) qs,
  sassoc g S = Some (np, nq) -> length vals = np -> length qs = nq -> expand A sig0 G g vals qs <> None.
Proof.
  induction 1 as [|n d S G Hn Hb Hg IH]; intros g np nq vals qs Hs Hv Hq.
  - cbn [expand]. rewrite lib_sig0 in Hs. rewrite Hs, Hv, Hq, !Nat.eqb_refl. discriminate.
  - cbn [expand]. destruct (sassoc g sig0) as [[bp bq]|] eqn:Eb.
    + rewrite (sok_base _ _ g _ (sok_cons n d S G Hn Hb Hg) Eb) in Hs. injection Hs as -> ->.
      rewrite Hv, Hq, !Nat.eqb_refl. discriminate.
    + cbn [sassoc] in Hs. destruct (String.eqb g n).
      * injection Hs as <- <-. rewrite Hv, Hq, !Nat.eqb_refl. cbn [andb].
        revert Hb. generalize (gd_body d) as b. induction b as [|s b IHb]; intros Hb; [discriminate|].
        cbn [forallb] in Hb. apply andb_prop in Hb. destruct Hb as [Hw Hb]. specialize (IHb Hb).
        destruct s as [h args hq|x]; [|exact IHb].
        cbn [wf_bstmt] in Hw. destruct (sassoc h S) as [[np' nq']|] eqn:Eh; [|discriminate].
        apply andb_prop in Hw. destruct Hw as [Hw Hex]. apply andb_prop in Hw. destruct Hw as [Hw Hsub]. apply andb_prop in Hw. destruct Hw as [Hw _].
        apply andb_prop in Hw. destruct Hw as [Hla Hlq]. apply Nat.eqb_eq in Hla. apply Nat.eqb_eq in Hlq.
        rewrite forallb_forall in Hex.
        destruct (omap_total (Qasm.eval A (combine (gd_params d) vals)) args) as [vs [Evs Lvs]].
        { intros e He. specialize (Hex e He). apply andb_prop in Hex. destruct Hex as [P Sb]. apply (eval_total A div_total); [exact P|].
          rewrite map_fst_combine by exact Hv. exact Sb. }
        destruct (omap_total (fun x => sassoc x (combine (gd_qubits d) qs)) hq) as [hqs [Ehq Lhq]].
        { intros x Hx. apply lookup_total; [exact Hq|]. unfold subset in Hsub. rewrite forallb_forall in Hsub. apply Hsub. exact Hx. }
        rewrite Evs, Ehq.
        destruct (expand A sig0 G h vs hqs) as [l1|] eqn:C1; [|exfalso; apply (IH h np' nq' vs hqs Eh); [congruence|congruence|exact C1]].
        match goal with |- match ?X with _ => _ end <> None => destruct X eqn:C2; [discriminate|exfalso; apply IHb; reflexivity] end.
      * eapply IH; eauto.
Qed.

(* ---- collecting the definitions ---- *)
Lemma gdefs_total items : forall S G, sok S G -> wf_gates S items = true -> gate_names_ok items ->
  exists G', gdefs items G = Some G' /\ sok (sigs_of S items) G'.
Proof.
  induction items as [|i items IH]; intros S G Hk Hw Hn.
  - exists G. split; [reflexivity|exact Hk].
  - destruct i as [n d|n ps qs]; [|discriminate]. cbn [wf_gates] in Hw. apply andb_prop in Hw. destruct Hw as [Hb Hw].
    unfold gate_names_ok in Hn. inversion Hn as [|? ? Hh Hn']; subst. fold (gate_names_ok items) in Hn'. cbn beta iota in Hh.
    cbn [gdefs sigs_of]. apply IH; [|exact Hw|exact Hn'].
    apply sok_cons; [apply sig0_mem; exact Hh|exact Hb|exact Hk].
Qed.

(* ---- operations ---- *)
Lemma app_ops_total S G QL cond g args qs : sok S G -> wf_app S QL g args qs = true -> app_ops A sig0 QL G cond g args qs <> None.
Proof.
  intros Hk Hw. unfold wf_app in Hw. unfold app_ops.
  destruct (sassoc g S) as [[np nq]|] eqn:Es; [|discriminate].
  destruct (omap (resolve QL) qs) as [rs|] eqn:Er; [|discriminate].
  apply andb_prop in Hw. destruct Hw as [Hw Hb]. apply andb_prop in Hw. destruct Hw as [Hw Hex]. apply andb_prop in Hw. destruct Hw as [Hla Hlq].
  destruct (closed_args_total A div_total args Hex) as [vals [Ev Lv]]. rewrite Ev.
  destruct (broadcast rs) as [insts|] eqn:Eb; [|discriminate].
  apply Nat.eqb_eq in Hla. apply Nat.eqb_eq in Hlq. pose proof (omap_length _ _ _ Er) as Lrs.
  match goal with |- omap ?f insts <> None => destruct (omap_total f insts) as [r [Hr _]]; [|rewrite Hr; discriminate] end.
  intros inst Hin. rewrite forallb_forall in Hb. rewrite (Hb inst Hin).
  destruct (expand A sig0 G g vals inst) eqn:Ee; [discriminate|]. exfalso.
  apply (expand_total S G Hk g np nq vals inst Es); [congruence| |exact Ee].
  rewrite (broadcast_length rs insts Eb inst Hin). congruence.
Qed.

Lemma op_ops_total S G QL CL o : sok S G -> wf_op S QL CL o = true -> op_ops A sig0 QL CL G o <> None.
Proof.
  intros Hk Hw. destruct o as [g args qs|c k g args qs|q c|qs|q]; cbn [wf_op op_ops] in *.
  - eapply app_ops_total; eauto.
  - destruct (sassoc c CL) as [[off n]|]; [|discriminate]. eapply app_ops_total; eauto.
  - destruct (resolve QL q) as [[a|az]|]; [| |discriminate]; (destruct (resolve CL c) as [[b|bz]|]; [| |discriminate]); try discriminate.
    rewrite Hw. discriminate.
  - destruct (omap (resolve QL) qs); discriminate.
  - discriminate.
Qed.

Lemma ops_ops_total S G QL CL os : sok S G -> forallb (wf_op S QL CL) os = true -> ops_ops A sig0 QL CL G os <> None.
Proof.
  intros Hk. induction os as [|o os IH]; intros H; [discriminate|].
  cbn [forallb] in H. apply andb_prop in H. destruct H as [Ho H]. cbn [ops_ops].
  destruct (op_ops A sig0 QL CL G o) eqn:E; [|exfalso; eapply op_ops_total; eauto].
  destruct (ops_ops A sig0 QL CL G os) eqn:E2; [discriminate|]. exfalso. apply (IH H). reflexivity.
Qed.

(* ---- whole programs ---- *)
Theorem spec_total_thm' : forall p, wf lib_sigs p = true -> spec_prog A sig0 p <> None.
Proof.
  intros p Hw. unfold wf in Hw. apply andb_prop in Hw. destruct Hw as [Hl Hn]. unfold wf_listed in Hl. apply andb_prop in Hl. destruct Hl as [Hg Ho].
  unfold spec_prog.
  destruct (gdefs_total (p_gates p) lib_sigs [] sok_nil Hg (names_ok_of_wf p Hn)) as [G [Eg Hk]]. rewrite Eg.
  destruct (ops_ops A sig0 (layout 0 (p_qregs p)) (layout 0 (p_cregs p)) G (p_ops p)) eqn:Ef; [discriminate|]. exfalso.
  eapply ops_ops_total; [exact Hk|exact Ho|exact Ef].
Qed.
End T.

Theorem spec_total_thm (A : VAlg) : (forall a b : A, vdiv A a b <> None) -> forall p, wf lib_sigs p = true -> spec_prog A sig0 p <> None.
Proof. exact (spec_total_thm' A). Qed.

(* import_sound without its definedness hypotheses: on a well-formed program both the importer and the standard are defined,
   with the same register sizes, and the results have the same branch semantics *)
Theorem import_sound_total_thm : forall (R : PhaseRing) (A : VAlg) (aenv : list A -> atoms R) p,
  (forall a b : A, vdiv A a b <> None) -> wf lib_sigs p = true ->
  exists n c iops sops, import_prog A p = Some (n, c, iops) /\ spec_prog A sig0 p = Some (n, c, sops) /\
    forall cb r psi1 psi2, rel R psi1 psi2 ->
      creq R (run_iops R A aenv iops (cb, psi1, r)) (run_sops R A aenv sops (cb, psi2, r)).
Proof.
  intros R A aenv p Hdiv Hw.
  destruct (import_prog A p) as [[[n c] iops]|] eqn:Ei; [|exfalso; exact (import_total_thm A Hdiv p Hw Ei)].
  destruct (spec_prog A sig0 p) as [[[n' c'] sops]|] eqn:Es; [|exfalso; exact (spec_total_thm A Hdiv p Hw Es)].
  assert (Hpos : forallb (fun r => 0 <? snd r) (p_qregs p) = true).
  { unfold wf in Hw. apply andb_prop in Hw. destruct Hw as [_ Hn]. unfold wf_names in Hn.
    repeat (apply andb_prop in Hn; destruct Hn as [Hn ?]). assumption. }
  destruct (import_sound_run R A aenv p n c iops n' c' sops Hpos Ei Es) as [<- [<- H]].
  exists n, c, iops, sops. split; [reflexivity|]. split; [reflexivity|exact H].
Qed.
