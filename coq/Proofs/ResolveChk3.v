(* C03: semantic obligations (every canonical basis configuration) for the gate kinds of slice 3 *)
From QV Require Import Model.Resolve Proofs.ResolveChkDefs.
Lemma chk_sem_3 : obls_ok (kslice 3) = true.
Proof. vm_compute. reflexivity. Qed.
