(* C03: semantic obligations for basis configurations 192 .. 255 of all_cfgs (20 gate kinds each) *)
From QV Require Import Model.Resolve Proofs.ResolveChkDefs.
Lemma chk_sem_3 : sem_ok (slice 3) = true.
Proof. vm_compute. reflexivity. Qed.
