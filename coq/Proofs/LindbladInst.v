(* C15 - a concrete model of Model.Lindblad.cring: the field Q(sqrt 2, i) as 4-tuples of canonical rationals
   a + b sqrt2 + c i + d i sqrt2, with complex conjugation.  Shows that the hypotheses of the Lindblad theorems
   are satisfiable (non-vacuity) and lets the harness evaluate the operator tables. *)
From Coq Require Import QArith Qcanon Ring Ring_theory List.
From QV Require Import Model.Lindblad.
Import ListNotations.
Local Open Scope Qc_scope.

Record k4 := K4 { ka : Qc; kb : Qc; kc : Qc; kd : Qc }.
Definition two_c : Qc := 1 + 1.
Definition k4_0 := K4 0 0 0 0.
Definition k4_1 := K4 1 0 0 0.
Definition k4_add x y := K4 (ka x + ka y) (kb x + kb y) (kc x + kc y) (kd x + kd y).
Definition k4_opp x := K4 (- ka x) (- kb x) (- kc x) (- kd x).
Definition k4_sub x y := K4 (ka x - ka y) (kb x - kb y) (kc x - kc y) (kd x - kd y).
Definition k4_mul x y :=
  K4 (ka x * ka y + two_c * (kb x * kb y) - kc x * kc y - two_c * (kd x * kd y))
     (ka x * kb y + kb x * ka y - kc x * kd y - kd x * kc y)
     (ka x * kc y + kc x * ka y + two_c * (kb x * kd y) + two_c * (kd x * kb y))
     (ka x * kd y + kd x * ka y + kb x * kc y + kc x * kb y).
Definition k4_conj x := K4 (ka x) (kb x) (- kc x) (- kd x).
Definition k4_half := K4 (Q2Qc (1 # 2)) 0 0 0.
Definition k4_s2 := K4 0 1 0 0.
Definition k4_i := K4 0 0 1 0.

Ltac k4 := intros; repeat match goal with x : k4 |- _ => destruct x end;
           unfold k4_add, k4_mul, k4_sub, k4_opp, k4_conj, k4_0, k4_1, k4_half, k4_s2, two_c; cbn [ka kb kc kd];
           f_equal; try ring.

Lemma k4_ring : ring_theory k4_0 k4_1 k4_add k4_mul k4_sub k4_opp (@eq k4).
Proof. constructor; k4. Qed.

Lemma half_c : Q2Qc (1 # 2) + Q2Qc (1 # 2) = 1.
Proof. apply Qc_is_canon. reflexivity. Qed.

Definition CQ2 : cring.
Proof.
  refine {| K := k4; k0 := k4_0; k1 := k4_1; kadd := k4_add; kmul := k4_mul; ksub := k4_sub; kopp := k4_opp;
            conj := k4_conj; half := k4_half; s2 := k4_s2; kring := k4_ring |}.
  - k4.
  - k4.
  - k4.
  - k4.
  - k4.
  - k4; try apply half_c; ring.
  - k4.
Defined.

Definition k4_of_Q (q : Q) : k4 := K4 (Q2Qc q) 0 0 0.

Lemma Q2Qc_add a b : Q2Qc (a + b) = Q2Qc a + Q2Qc b.
Proof. apply Qc_is_canon. unfold Qcplus, Q2Qc. cbn [this]. rewrite !Qred_correct. reflexivity. Qed.
Lemma Q2Qc_mul a b : Q2Qc (a * b) = Q2Qc a * Q2Qc b.
Proof. apply Qc_is_canon. unfold Qcmult, Q2Qc. cbn [this]. rewrite !Qred_correct. reflexivity. Qed.

Definition CQ2_hom : qhom CQ2.
Proof.
  refine (Build_qhom CQ2 k4_of_Q _ _ _ _ _).
  - intros a b H. unfold k4_of_Q. f_equal. apply Qc_is_canon. unfold Q2Qc. cbn [this]. rewrite !Qred_correct. exact H.
  - intros a b. unfold k4_of_Q. cbn. unfold k4_add. cbn [ka kb kc kd]. f_equal; try ring. apply Q2Qc_add.
  - intros a b. unfold k4_of_Q. cbn. unfold k4_mul, two_c. cbn [ka kb kc kd]. f_equal; try ring. rewrite Q2Qc_mul. ring.
  - reflexivity.
  - intros a. unfold k4_of_Q. cbn. unfold k4_conj. cbn [ka kb kc kd]. f_equal; ring.
Defined.

(* printable form of an element: the four rational coordinates *)
Definition k4_out (x : k4) : Q * Q * Q * Q := (this (ka x), this (kb x), this (kc x), this (kd x)).
Definition mat_out (m : mat CQ2) := map (map k4_out) m.
