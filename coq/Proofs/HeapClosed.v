(* C16 -- well-formed heaps (no dangling references) are preserved by every operation; reachability;
   clause 4 of the property as ONE theorem over histories (results_unaliased_lemma). *)
From Coq Require Import List Arith Bool Lia.
From QV Require Import Model.Heap Proofs.HeapBase Proofs.HeapPure Proofs.HeapFresh.
Import ListNotations.

Definition val_ok (n : nat) (v : val) : Prop := match v with Ref l => l < n | Tok _ => True end.
Definition heap_closed (h : heap) : Prop := forall l o, nth_error h l = Some o -> Forall (val_ok (length h)) o.

Lemma val_ok_le n m v : n <= m -> val_ok n v -> val_ok m v.
Proof. destruct v; simpl; auto. lia. Qed.

Lemma Forall_ok_le n m o : n <= m -> Forall (val_ok n) o -> Forall (val_ok m) o.
Proof. intros H. apply Forall_impl. intros v. now apply val_ok_le. Qed.

Ltac len := first [lia | solve [eauto 7 using Nat.le_trans, Nat.le_refl]].
Ltac fa := repeat (first [apply Forall_nil | apply Forall_cons]); simpl; auto; try (eapply val_ok_le; [|eassumption]; len).

Lemma closed_objof h v : heap_closed h -> Forall (val_ok (length h)) (objof h v).
Proof.
  intros Hc. destruct v as [t|l]; simpl; [constructor|].
  destruct (nth_error h l) eqn:E; [eapply Hc; eauto|constructor].
Qed.

Lemma closed_fld h v i : heap_closed h -> val_ok (length h) (fld h v i).
Proof.
  intros Hc. destruct (fld_in h v i) as [->|Hin]; [exact I|].
  pose proof (closed_objof h v Hc) as Ha. rewrite Forall_forall in Ha. now apply Ha.
Qed.

Lemma closed_alloc h o : heap_closed h -> Forall (val_ok (length h)) o ->
  heap_closed (h ++ [o]) /\ val_ok (length (h ++ [o])) (Ref (length h)) /\ length h <= length (h ++ [o]).
Proof.
  intros Hc Ho. rewrite app_length. simpl. repeat split; try len.
  intros l o' E. rewrite app_length. simpl. destruct (lt_dec l (length h)) as [Hl|Hl].
  - rewrite nth_error_app1 in E by auto. eapply Forall_ok_le; [|eapply Hc; eauto]. len.
  - assert (l = length h).
    { apply nth_error_Some_lt in E. rewrite app_length in E. simpl in E. len. }
    subst. rewrite nth_error_app2 in E by len. rewrite Nat.sub_diag in E. simpl in E. inversion E; subst.
    eapply Forall_ok_le; [|exact Ho]. len.
Qed.

Lemma closed_upd h l o : heap_closed h -> Forall (val_ok (length h)) o -> heap_closed (upd h l o).
Proof.
  intros Hc Ho m o' E. rewrite upd_length. destruct (Nat.eq_dec l m) as [->|Hne].
  - apply upd_nth_same in E. now subst.
  - rewrite upd_nth_ne in E by auto. eapply Hc; eauto.
Qed.

Lemma closed_setfld h v i x : heap_closed h -> val_ok (length h) x -> heap_closed (setfld h v i x).
Proof.
  intros Hc Hx. unfold setfld. destruct v as [t|l]; auto. destruct (nth_error h l) as [o|] eqn:E; auto.
  apply closed_upd; auto. apply Forall_upd; auto. eapply Hc; eauto.
Qed.

Lemma closed_sort_fld' h g i : heap_closed h -> heap_closed (sort_fld h g i).
Proof.
  intros Hc. unfold sort_fld, setobj. destruct (fld h g i) as [t|l]; auto.
  destruct (nth_error h l) as [o|] eqn:E; auto.
  apply closed_upd; auto. apply Forall_sort. now apply closed_objof.
Qed.

(* a heap function that keeps heaps closed, returns a value that exists, and never shrinks the heap *)
Definition cstep (F : heap -> val -> option (heap * val)) : Prop :=
  forall h v h' v', heap_closed h -> val_ok (length h) v -> F h v = Some (h', v') ->
  heap_closed h' /\ val_ok (length h') v' /\ length h <= length h'.

Lemma mapH_cstep F : cstep F -> forall vs h h' vs', heap_closed h -> Forall (val_ok (length h)) vs ->
  mapH F h vs = Some (h', vs') -> heap_closed h' /\ Forall (val_ok (length h')) vs' /\ length h <= length h'.
Proof.
  intros HF. induction vs as [|x xs IH]; simpl; intros h h' vs' Hc Hv E.
  - inversion E; subst. repeat split; auto.
  - destruct (F h x) as [[h1 x']|] eqn:E1; try discriminate.
    destruct (mapH F h1 xs) as [[h2 xs']|] eqn:E2; try discriminate.
    inversion E; subst. inversion Hv; subst.
    destruct (HF _ _ _ _ Hc H1 E1) as (C1 & V1 & L1).
    destruct (IH _ _ _ C1 (Forall_ok_le _ _ _ L1 H2) E2) as (C2 & V2 & L2).
    repeat split; auto; [|len]. constructor; auto. eapply val_ok_le; eauto.
Qed.

Lemma dcopy_cstep f : cstep (dcopy f).
Proof.
  induction f as [|f IH]; intros h v h' v' Hc Hv E; destruct v as [t|l]; simpl in E; try discriminate.
  - inversion E; subst. repeat split; auto.
  - inversion E; subst. repeat split; auto.
  - destruct (nth_error h l) as [o|] eqn:El; try discriminate.
    destruct (mapH (dcopy f) h o) as [[h1 o']|] eqn:Em; try discriminate.
    inversion E; subst.
    destruct (mapH_cstep _ IH _ _ _ _ Hc (Hc _ _ El) Em) as (C1 & V1 & L1).
    destruct (closed_alloc h1 o' C1 V1) as (C2 & V2 & L2). repeat split; auto. len.
Qed.

Lemma opt_copy_cstep b : cstep (opt_copy b).
Proof.
  unfold opt_copy. destruct b; [apply dcopy_cstep|].
  intros h v h' v' Hc Hv E. inversion E; subst. auto.
Qed.

Lemma gate_step_cstep ac m : cstep (gate_step ac m).
Proof.
  intros h g h' g' Hc Hv E. destruct m as [|[|[|m]]]; cbv beta iota delta [gate_step] in E.
  - eapply dcopy_cstep; eauto.
  - inversion E; subst. auto.
  - unfold alloc in E. inversion E; subst. apply closed_alloc; auto. now apply closed_objof.
  - destruct (dcopy FUEL h (fld h g 1)) as [[h1 t']|] eqn:E1; try discriminate.
    destruct (dcopy FUEL h1 (fld h g 2)) as [[h2 c']|] eqn:E2; try discriminate.
    destruct (if ac then dcopy FUEL h2 (fld h g 3) else Some (h2, fld h g 3)) as [[h3 a']|] eqn:E3; try discriminate.
    unfold alloc in E. inversion E; subst.
    destruct (dcopy_cstep _ _ _ _ _ Hc (closed_fld h g 1 Hc) E1) as (C1 & V1 & L1).
    destruct (dcopy_cstep _ _ _ _ _ C1 (val_ok_le _ _ _ L1 (closed_fld h g 2 Hc)) E2) as (C2 & V2 & L2).
    assert (H3 : heap_closed h3 /\ val_ok (length h3) a' /\ length h2 <= length h3).
    { assert (V0 : val_ok (length h2) (fld h g 3)) by (eapply val_ok_le; [|apply (closed_fld h g 3 Hc)]; len).
      destruct ac.
      - exact (dcopy_cstep FUEL h2 (fld h g 3) h3 a' C2 V0 E3).
      - inversion E3; subst. repeat split; auto. }
    destruct H3 as (C3 & V3 & L3).
    destruct (closed_alloc h3 [Tok (tokn (fld h g 0)); t'; c'; a'; Tok 0; Tok (tokn (fld h g 5))] C3) as (C4 & V4 & L4).
    { fa. }
    repeat split; auto. len.
Qed.

Lemma map_gates_closed ac d : forall gs ms h h' gs', heap_closed h -> Forall (val_ok (length h)) gs ->
  map_gates ac d ms h gs = Some (h', gs') -> heap_closed h' /\ Forall (val_ok (length h')) gs' /\ length h <= length h'.
Proof.
  induction gs as [|g gs IH]; simpl; intros ms h h' gs' Hc Hv E.
  - inversion E; subst. repeat split; auto.
  - destruct (gate_step ac (hd d ms) h g) as [[h1 g']|] eqn:E1; try discriminate.
    destruct (map_gates ac d (tl ms) h1 gs) as [[h2 gs'']|] eqn:E2; try discriminate.
    inversion E; subst. inversion Hv; subst.
    destruct (gate_step_cstep _ _ _ _ _ _ Hc H1 E1) as (C1 & V1 & L1).
    destruct (IH _ _ _ _ C1 (Forall_ok_le _ _ _ L1 H2) E2) as (C2 & V2 & L2).
    repeat split; auto; [|len]. constructor; auto. eapply val_ok_le; eauto.
Qed.

Lemma op_pass_cstep ic fin sio ac d ms : cstep (op_pass ic fin sio ac d ms).
Proof.
  intros h qc h' r Hc Hv. unfold op_pass, alloc. destruct ic; cbv beta iota zeta delta [negb].
  - destruct (map_gates ac d ms h (objof h (fld h qc 0))) as [[h1 gs]|] eqn:E1; try discriminate.
    cbv beta iota zeta.
    match goal with |- context [opt_copy fin ?a ?b] => destruct (opt_copy fin a b) as [[h3 gl']|] eqn:E2; try discriminate end.
    match goal with |- context [opt_copy ?b h3 ?x] => destruct (opt_copy b h3 x) as [[h4 ins]|] eqn:E3; try discriminate end.
    match goal with |- context [opt_copy ?b h4 ?x] => destruct (opt_copy b h4 x) as [[h5 outs]|] eqn:E4; try discriminate end.
    intros E. inversion E; subst. clear E.
    destruct (map_gates_closed _ _ _ _ _ _ _ Hc (closed_objof h (fld h qc 0) Hc) E1) as (C1 & V1 & L1).
    destruct (closed_alloc h1 gs C1 V1) as (C2 & V2 & L2).
    destruct (opt_copy_cstep _ _ _ _ _ C2 V2 E2) as (C3 & V3 & L3).
    assert (Lh3 : length h <= length h3) by len.
    destruct (opt_copy_cstep _ _ _ _ _ C3 (val_ok_le _ _ _ Lh3 (closed_fld h qc 3 Hc)) E3) as (C4 & V4 & L4).
    assert (Lh4 : length h <= length h4) by len.
    destruct (opt_copy_cstep _ _ _ _ _ C4 (val_ok_le _ _ _ Lh4 (closed_fld h qc 4 Hc)) E4) as (C5 & V5 & L5).
    destruct (closed_alloc h5 [gl'; Tok (tokn (fld h qc 1)); Tok (tokn (fld h qc 2)); ins; outs] C5) as (C6 & V6 & L6).
    { fa. }
    repeat split; auto. len.
  - intros E. inversion E; subst. clear E.
    destruct (closed_alloc h [] Hc (Forall_nil _)) as (C1 & V1 & L1).
    repeat split.
    + apply closed_setfld; auto.
    + rewrite setfld_length. eapply val_ok_le; eauto.
    + rewrite setfld_length. exact L1.
Qed.

Lemma instr_of_cstep ic : cstep (instr_of ic).
Proof.
  intros h g h' r Hc Hv E. unfold instr_of in E.
  destruct (opt_copy ic h g) as [[h1 g1]|] eqn:E1; try discriminate.
  unfold alloc in E. inversion E; subst.
  destruct (opt_copy_cstep _ _ _ _ _ Hc Hv E1) as (C1 & V1 & L1).
  assert (C2 : heap_closed (sort_fld (sort_fld h1 g1 1) g1 2)) by now apply closed_sort_fld', closed_sort_fld'.
  destruct (closed_alloc _ [g1; Tok 1; Tok 0] C2) as (C3 & V3 & L3).
  { rewrite !sort_fld_length. fa. }
  rewrite app_length, !sort_fld_length in *. simpl in *. repeat split; auto. len.
Qed.

Lemma node_of_cstep ic : cstep (node_of ic).
Proof.
  intros h x h' r Hc Hv E. unfold node_of in E. destruct (length (objof h x) =? 3).
  - inversion E; subst. rewrite setfld_length. repeat split; auto. apply closed_setfld; simpl; auto.
  - eapply instr_of_cstep; eauto.
Qed.

Lemma op_schedule_cstep fl ic : cstep (op_schedule fl ic).
Proof.
  intros h a h' r Hc Hv E. unfold op_schedule in E.
  destruct (opt_copy (f_sched_copy fl) h a) as [[h1 a1]|] eqn:E1; try discriminate.
  destruct (opt_copy (f_graph_copy fl) h1 _) as [[h2 gl2]|] eqn:E2; try discriminate.
  destruct (mapH (node_of (f_instr_copy fl)) h2 (objof h2 gl2)) as [[h3 nodes]|] eqn:E3; try discriminate.
  unfold alloc in E. inversion E; subst.
  destruct (opt_copy_cstep _ _ _ _ _ Hc Hv E1) as (C1 & V1 & L1).
  assert (Vgl : val_ok (length h1) (if ic then fld h1 a1 0 else a1)) by (destruct ic; [now apply closed_fld|exact V1]).
  destruct (opt_copy_cstep _ _ _ _ _ C1 Vgl E2) as (C2 & V2 & L2).
  destruct (mapH_cstep _ (node_of_cstep _) _ _ _ _ C2 (closed_objof h2 gl2 C2) E3) as (C3 & V3 & L3).
  destruct (closed_alloc h3 (map (fun _ => Tok 0) nodes) C3) as (C4 & V4 & L4).
  { clear. induction nodes; simpl; constructor; simpl; auto. }
  repeat split; auto. len.
Qed.

Lemma compile_heap_closed fl h gl h' : heap_closed h -> compile_heap fl h gl = Some h' -> heap_closed h' /\ length h <= length h'.
Proof.
  intros Hc E. unfold compile_heap in E.
  destruct (mapH (instr_of (f_instr_copy fl)) h (objof h gl)) as [[h1 xs]|] eqn:E1; try discriminate.
  inversion E; subst.
  destruct (mapH_cstep _ (instr_of_cstep _) _ _ _ _ Hc (closed_objof h gl Hc) E1) as (C1 & _ & L1). auto.
Qed.

(* simulator *)
Lemma meas_writes_closed' cbv : forall gs h mr, heap_closed h -> heap_closed (meas_writes h cbv gs mr).
Proof.
  induction gs as [|g gs IH]; simpl; intros h mr Hc; auto.
  destruct (tokn (fld h g 0)); [destruct (tokn (fld h g 5))|]; auto.
  apply IH. apply closed_setfld; simpl; auto.
Qed.

Lemma Forall_ok_tok_map n (l : list val) : Forall (val_ok n) (map (fun v => Tok (tokn v)) l).
Proof. induction l; simpl; constructor; simpl; auto. Qed.

Lemma Forall_ok_repeat n k : Forall (val_ok n) (repeat (Tok 0) k).
Proof. induction k; simpl; constructor; simpl; auto. Qed.

Lemma run_core_closed fl dm h qc cb mr h1 cbv :
  heap_closed h -> val_ok (length h) cb -> run_core fl dm h qc cb mr = (h1, cbv) ->
  heap_closed h1 /\ val_ok (length h1) cbv /\ length h <= length h1.
Proof.
  intros Hc Hv E. unfold run_core in E.
  destruct (init_cbits (f_sim_cbits_copy fl) h qc cb) as [h2 c2] eqn:Ei.
  assert (Hi : heap_closed h2 /\ val_ok (length h2) c2 /\ length h <= length h2).
  { unfold init_cbits, alloc in Ei. destruct (usable h qc cb).
    - destruct (f_sim_cbits_copy fl); inversion Ei; subst.
      + apply closed_alloc; auto. apply Forall_ok_tok_map.
      + auto.
    - destruct (tokn (fld h qc 2)); inversion Ei; subst.
      + repeat split; auto.
      + apply closed_alloc; auto. apply (Forall_ok_repeat (length h) (S n)). }
  destruct Hi as (C2 & V2 & L2). inversion E; subst. destruct dm; auto.
  rewrite meas_writes_length. repeat split; auto. now apply meas_writes_closed'.
Qed.

Lemma stats_loop_closed fl dm qc cb : forall runs h acc h1 cbs last,
  heap_closed h -> val_ok (length h) cb -> Forall (val_ok (length h)) acc ->
  stats_loop fl dm h qc cb runs acc = (h1, cbs, last) ->
  heap_closed h1 /\ Forall (val_ok (length h1)) cbs /\ length h <= length h1.
Proof.
  induction runs as [|mr rest IH]; simpl; intros h acc h1 cbs last Hc Hv Ha E.
  - inversion E; subst. auto.
  - destruct (run_core fl dm h qc cb mr) as [h2 cbv] eqn:Er.
    destruct (run_core_closed _ _ _ _ _ _ _ _ Hc Hv Er) as (C2 & V2 & L2).
    assert (Ha2 : Forall (val_ok (length h2)) (acc ++ [cbv])).
    { apply Forall_app. split; [eapply Forall_ok_le; eauto|repeat constructor; auto]. }
    destruct rest.
    + inversion E; subst. auto.
    + destruct (IH _ _ _ _ _ C2 (val_ok_le _ _ _ L2 Hv) Ha2 E) as (C3 & V3 & L3). repeat split; auto. len.
Qed.

(* ---------------- worlds and calls ---------------- *)
Definition world_ok (w : world) : Prop :=
  heap_closed (hp w) /\ Forall (fun s => val_ok (length (hp w)) (s_qc s)) (sims w).

(* every object a call is given exists *)
Definition call_ok (w : world) (c : call) : Prop :=
  let n := length (hp w) in
  match c with
  | CSimRun _ cb _ _ | CSimStats _ cb _ => val_ok n cb
  | CQcRun qc cb _ _ _ | CQcStats qc cb _ _ => val_ok n qc /\ val_ok n cb
  | CResolve qc | CAdjacent qc | CChain qc _ | CReverse qc | CAddCircuit qc | CReadOnly qc _ => val_ok n qc
  | CSchedule a _ | CInstr a | CCompile _ a _ _ _ => val_ok n a
  | CLoad _ qc _ _ _ _ => val_ok n qc
  | _ => True
  end.

Lemma sim_qc_ok w s : world_ok w -> val_ok (length (hp w)) (s_qc (nth s (sims w) dsim)).
Proof.
  intros [_ Hs]. destruct (lt_dec s (length (sims w))) as [Hl|Hl].
  - rewrite Forall_forall in Hs. apply Hs. now apply nth_In.
  - rewrite nth_overflow by len. exact I.
Qed.

Lemma call_ok_wf w c : world_ok w -> call_ok w c -> call_wf w c.
Proof.
  intros Hw Hc. destruct c; simpl in *; auto; unfold in_old.
  - split; intros l El; [rewrite El in Hc; exact Hc|]. pose proof (sim_qc_ok w s Hw) as H. rewrite El in H. exact H.
  - split; intros l El; [rewrite El in Hc; exact Hc|]. pose proof (sim_qc_ok w s Hw) as H. rewrite El in H. exact H.
  - destruct Hc. split; intros l ->; auto.
  - destruct Hc. split; intros l ->; auto.
Qed.

Lemma Forall_upd_sims (P : sim -> Prop) l i x : Forall P l -> P x -> Forall P (upd l i x).
Proof. intros H Hx. revert i. induction H; intros [|i]; simpl; constructor; auto. Qed.

Lemma sims_ok_le n m (l : list sim) : n <= m ->
  Forall (fun s => val_ok n (s_qc s)) l -> Forall (fun s => val_ok m (s_qc s)) l.
Proof. intros H. apply Forall_impl. intros s. now apply val_ok_le. Qed.

Theorem exec_closed fl w c w' r :
  world_ok w -> call_ok w c -> exec fl w c = Some (w', r) ->
  world_ok w' /\ val_ok (length (hp w')) r /\ length (hp w) <= length (hp w').
Proof.
  intros Hw Hc E. pose proof Hw as [Hcl Hs].
  destruct c; cbv beta iota zeta delta [exec] in E; simpl in Hc.
  - (* CSimRun *)
    destruct (run_core fl _ (hp w) _ cb mr) as [h1 cbv] eqn:Er.
    destruct (run_core_closed _ _ _ _ _ _ _ _ Hcl Hc Er) as (C1 & V1 & L1).
    assert (Hres : forall stok h2 r2, result_of h1 stok cbv = (h2, r2) ->
                   heap_closed h2 /\ val_ok (length h2) r2 /\ length h1 <= length h2).
    { intros stok h2 r2 Eres. unfold result_of, alloc in Eres. destruct cbv as [t|l]; inversion Eres; subst.
      - apply closed_alloc; auto.
      - destruct (closed_alloc h1 [Ref l] C1 ltac:(fa)) as (C2 & V2 & L2).
        destruct (closed_alloc _ [Tok stok; Ref (length h1)] C2 ltac:(fa)) as (C3 & V3 & L3).
        repeat split; auto. len. }
    destruct (result_of h1 _ cbv) as [h2 r2] eqn:Eres. inversion E; subst. simpl.
    destruct (Hres _ _ _ Eres) as (C2 & V2 & L2).
    assert (L : length (hp w) <= length h2) by len.
    repeat split; auto.
    apply Forall_upd_sims; [eapply sims_ok_le; eauto|]. simpl. eapply val_ok_le; [exact L|]. now apply sim_qc_ok.
  - (* CSimStats *)
    destruct (stats_loop fl _ (hp w) _ cb _ []) as [[h1 cbs] last] eqn:El.
    destruct (stats_loop_closed _ _ _ _ _ _ _ _ _ _ Hcl Hc (Forall_nil _) El) as (C1 & V1 & L1).
    destruct (stats_result h1 _ cbs) as [h2 r2] eqn:Eres. inversion E; subst. simpl.
    unfold stats_result, alloc in Eres. inversion Eres; subst.
    destruct (closed_alloc h1 cbs C1 V1) as (C2 & V2 & L2).
    match goal with |- context [(h1 ++ [cbs]) ++ [?o]] => destruct (closed_alloc (h1 ++ [cbs]) o C2) as (C3 & V3 & L3) end.
    { fa. }
    assert (L : length (hp w) <= length ((h1 ++ [cbs]) ++ [[Tok (st + (if f_sim_reinit fl then 0 else s_dirty (nth s (sims w) dsim))); Ref (length h1)]])) by len.
    repeat split; auto.
    apply Forall_upd_sims; [eapply sims_ok_le; eauto|]. simpl. eapply val_ok_le; [exact L|]. now apply sim_qc_ok.
  - (* CQcRun *)
    destruct Hc as [Hq Hb].
    destruct (run_core fl dm (hp w) qc cb mr) as [h1 cbv] eqn:Er.
    destruct (run_core_closed _ _ _ _ _ _ _ _ Hcl Hb Er) as (C1 & V1 & L1).
    inversion E; subst. simpl. repeat split; auto. eapply sims_ok_le; eauto.
  - (* CQcStats *)
    destruct Hc as [Hq Hb].
    destruct (stats_loop fl dm (hp w) qc cb _ []) as [[h1 cbs] last] eqn:El.
    destruct (stats_loop_closed _ _ _ _ _ _ _ _ _ _ Hcl Hb (Forall_nil _) El) as (C1 & V1 & L1).
    destruct (stats_result h1 st cbs) as [h2 r2] eqn:Eres. inversion E; subst. simpl.
    unfold stats_result, alloc in Eres. inversion Eres; subst.
    destruct (closed_alloc h1 cbs C1 V1) as (C2 & V2 & L2).
    destruct (closed_alloc (h1 ++ [cbs]) [Tok st; Ref (length h1)] C2) as (C3 & V3 & L3).
    { fa. }
    repeat split; auto; try len. eapply sims_ok_le; [|exact Hs]. len.
  - destruct (op_resolve fl (hp w) qc) as [[h1 r1]|] eqn:Eo; try discriminate. inversion E; subst. simpl.
    destruct (op_pass_cstep _ _ _ _ _ _ _ _ _ _ Hcl Hc Eo) as (C & V & L). repeat split; auto. eapply sims_ok_le; eauto.
  - destruct (op_adjacent fl (hp w) qc) as [[h1 r1]|] eqn:Eo; try discriminate. inversion E; subst. simpl.
    destruct (op_pass_cstep _ _ _ _ _ _ _ _ _ _ Hcl Hc Eo) as (C & V & L). repeat split; auto. eapply sims_ok_le; eauto.
  - destruct (op_chain fl modes (hp w) qc) as [[h1 r1]|] eqn:Eo; try discriminate. inversion E; subst. simpl.
    destruct (op_pass_cstep _ _ _ _ _ _ _ _ _ _ Hcl Hc Eo) as (C & V & L). repeat split; auto. eapply sims_ok_le; eauto.
  - destruct (op_reverse fl (hp w) qc) as [[h1 r1]|] eqn:Eo; try discriminate. inversion E; subst. simpl.
    destruct (op_pass_cstep _ _ _ _ _ _ _ _ _ _ Hcl Hc Eo) as (C & V & L). repeat split; auto. eapply sims_ok_le; eauto.
  - destruct (op_addc fl (hp w) qc) as [[h1 r1]|] eqn:Eo; try discriminate. inversion E; subst. simpl.
    destruct (op_pass_cstep _ _ _ _ _ _ _ _ _ _ Hcl Hc Eo) as (C & V & L). repeat split; auto. eapply sims_ok_le; eauto.
  - unfold alloc in E. inversion E; subst. simpl.
    destruct (closed_alloc (hp w) [Tok k] Hcl ltac:(fa)) as (C & V & L).
    repeat split; auto. eapply sims_ok_le; eauto.
  - destruct (op_schedule fl is_circ (hp w) a) as [[h1 r1]|] eqn:Eo; try discriminate. inversion E; subst. simpl.
    destruct (op_schedule_cstep _ _ _ _ _ _ Hcl Hc Eo) as (C & V & L). repeat split; auto. eapply sims_ok_le; eauto.
  - destruct (instr_of (f_instr_copy fl) (hp w) g) as [[h1 r1]|] eqn:Eo; try discriminate. inversion E; subst. simpl.
    destruct (instr_of_cstep _ _ _ _ _ Hcl Hc Eo) as (C & V & L). repeat split; auto. eapply sims_ok_le; eauto.
  - destruct (compile_heap fl (hp w) _) as [h1|] eqn:Eo; try discriminate.
    destruct (comp_run fl _ args dphi) as [[k' eff] gp].
    unfold alloc in E. inversion E; subst. simpl.
    destruct (compile_heap_closed _ _ _ _ Hcl Eo) as (C1 & L1).
    destruct (closed_alloc h1 [Tok eff; Tok gp] C1 ltac:(fa)) as (C & V & L).
    repeat split; auto; try len. eapply sims_ok_le; [|exact Hs]. len.
  - (* CLoad *)
    destruct (match chain with Some ms => op_chain fl ms (hp w) qc | None => Some (hp w, qc) end) as [[h1 qc1]|] eqn:E1; try discriminate.
    destruct (op_resolve fl h1 qc1) as [[h2 qc2]|] eqn:E2; try discriminate.
    destruct (compile_heap fl h2 (fld h2 qc2 0)) as [h3|] eqn:E3; try discriminate.
    destruct (comp_run fl _ 0 dphi) as [[k' eff] gp].
    destruct (comp_run fl _ 0 dphi) as [[k0 eff0] gp0].
    unfold alloc in E. inversion E; subst. simpl.
    assert (X1 : heap_closed h1 /\ val_ok (length h1) qc1 /\ length (hp w) <= length h1).
    { destruct chain; [eapply op_pass_cstep; eauto|inversion E1; subst; auto]. }
    destruct X1 as (C1 & V1 & L1).
    destruct (op_pass_cstep _ _ _ _ _ _ _ _ _ _ C1 V1 E2) as (C2 & V2 & L2).
    destruct (compile_heap_closed _ _ _ _ C2 E3) as (C3 & L3).
    match goal with |- context [h3 ++ [?o]] => destruct (closed_alloc h3 o C3 ltac:(fa)) as (C & V & L) end.
    repeat split; auto; try len. eapply sims_ok_le; [|exact Hs]. len.
  - destruct noisy; [destruct (noisy_query fl true _)|]; inversion E; subst; simpl; repeat split; auto.
  - destruct (noisy_query fl dn _). inversion E; subst; simpl; repeat split; auto.
  - inversion E; subst; simpl; repeat split; auto.
  - inversion E; subst; simpl; repeat split; auto.
  - inversion E; subst; simpl; repeat split; auto.
Qed.

(* ---------------- reachability ---------------- *)
Inductive reach (h : heap) : val -> nat -> Prop :=
| reach_here l o : nth_error h l = Some o -> reach h (Ref l) l
| reach_step l o v m : nth_error h l = Some o -> In v o -> reach h v m -> reach h (Ref l) m.

Lemma reach_lt h v m : reach h v m -> m < length h.
Proof. induction 1; auto. eapply nth_error_Some_lt; eauto. Qed.

Lemma reach_fresh n h v m : reach h v m -> (forall f, dfresh n f h v) -> n <= m.
Proof.
  induction 1 as [l o E|l o v m E Hin Hr IH]; intros Hd.
  - destruct (Hd 0) as [H _]. exact H.
  - apply IH. intros f. destruct (Hd (S f)) as [_ Hall]. simpl in Hall. rewrite E in Hall.
    rewrite Forall_forall in Hall. now apply Hall.
Qed.

(* what an existing value reaches does not depend on objects allocated later *)
Lemma reach_back h h' v m :
  heap_closed h -> (forall l, l < length h -> nth_error h' l = nth_error h l) ->
  reach h' v m -> val_ok (length h) v -> reach h v m.
Proof.
  intros Hc Ha. induction 1 as [l o E|l o v m E Hin Hr IH]; intros Hv; simpl in Hv.
  - rewrite Ha in E by exact Hv. eapply reach_here; eauto.
  - rewrite Ha in E by exact Hv. eapply reach_step; eauto. apply IH.
    pose proof (Hc _ _ E) as Ho. rewrite Forall_forall in Ho. now apply Ho.
Qed.

Definition bounded (h : heap) (r : val) (lo hi : nat) : Prop := forall m, reach h r m -> lo <= m /\ m < hi.

(* consecutive results live in consecutive, disjoint regions of the heap *)
Fixpoint chain_bounds (lo : nat) (h : heap) (rs : list val) : Prop :=
  match rs with
  | [] => True
  | r :: rest => exists hi, lo <= hi /\ bounded h r lo hi /\ chain_bounds hi h rest
  end.

Lemma chain_ge h : forall rs lo r m, chain_bounds lo h rs -> In r rs -> reach h r m -> lo <= m.
Proof.
  induction rs as [|r0 rs IH]; simpl; intros lo r m Hc Hin Hr; [contradiction|].
  destruct Hc as (hi & Hle & Hb & Hrest). destruct Hin as [->|Hin].
  - now apply Hb.
  - specialize (IH _ _ _ Hrest Hin Hr). lia.
Qed.

Lemma chain_disjoint h : forall rs lo i j ri rj m, chain_bounds lo h rs -> i < j ->
  nth_error rs i = Some ri -> nth_error rs j = Some rj -> reach h ri m -> reach h rj m -> False.
Proof.
  induction rs as [|r0 rs IH]; intros lo i j ri rj m Hc Hij Ei Ej Hi Hj.
  - destruct i; discriminate.
  - simpl in Hc. destruct Hc as (hi & Hle & Hb & Hrest). destruct j as [|j]; [lia|]. simpl in Ej.
    destruct i as [|i]; simpl in Ei.
    + inversion Ei; subst. apply Hb in Hi. apply nth_error_In in Ej.
      pose proof (chain_ge _ _ _ _ _ Hrest Ej Hj). lia.
    + eapply (IH hi i j); eauto. lia.
Qed.

Fixpoint hist_ok (fl : flags) (w : world) (hist : list call) : Prop :=
  match hist with
  | [] => True
  | c :: rest => call_ok w c /\ match exec fl w c with Some (w1, _) => hist_ok fl w1 rest | None => True end
  end.

Lemma flags_fresh_pure fl : flags_fresh fl = true -> flags_pure fl = true.
Proof.
  unfold flags_fresh. intros H. do 6 (apply andb_prop in H; destruct H as [H _]). exact H.
Qed.

Lemma history_regions fl : flags_fresh fl = true ->
  forall hist w w' rs, world_ok w -> hist_guard fl w hist = true -> hist_ok fl w hist ->
  run_hist fl w hist = Some (w', rs) ->
  world_ok w' /\ length (hp w) <= length (hp w') /\
  (forall l, l < length (hp w) -> nth_error (hp w') l = nth_error (hp w) l) /\
  chain_bounds (length (hp w)) (hp w') rs.
Proof.
  intros Hf. pose proof (flags_fresh_pure _ Hf) as Hp.
  induction hist as [|c rest IH]; simpl; intros w w' rs Hw G Hok E.
  - inversion E; subst. split; [exact Hw|]. split; [apply Nat.le_refl|]. split; [reflexivity|exact I].
  - apply andb_prop in G. destruct G as [G1 G2]. destruct Hok as [Hc Hrest].
    destruct (exec fl w c) as [[w1 r]|] eqn:Ex; try discriminate.
    destruct (run_hist fl w1 rest) as [[w2 rs2]|] eqn:Er; try discriminate.
    inversion E; subst.
    pose proof (call_ok_wf _ _ Hw Hc) as Hwf.
    destruct (exec_closed _ _ _ _ _ Hw Hc Ex) as (Hw1 & Vr & L1).
    pose proof (exec_inv fl w c w1 r (length (hp w)) (hp w) Hp G1 Hwf (le_n _) (inv_refl _ _ (le_n _)) Ex) as [A1 _].
    destruct (IH _ _ _ Hw1 G2 Hrest Er) as (Hw2 & L2 & A2 & CB).
    split; [exact Hw2|]. split; [lia|]. split.
    + intros l Hl. rewrite A2 by lia. now apply A1.
    + exists (length (hp w1)). split; [exact L1|]. split; [|exact CB].
      intros m Hr.
      assert (Hr1 : reach (hp w1) r m) by (eapply reach_back; eauto; apply Hw1).
      split.
      * eapply (reach_fresh _ (hp w1)); [exact Hr1|]. eapply result_fresh_lemma; eauto.
      * eapply reach_lt; eauto.
Qed.

(* clause 4 over whole histories *)
Theorem results_unaliased_lemma fl : flags_fresh fl = true ->
  forall hist w w' rs, world_ok w -> hist_guard fl w hist = true -> hist_ok fl w hist ->
  run_hist fl w hist = Some (w', rs) ->
  (forall v m, val_ok (length (hp w)) v -> reach (hp w') v m -> reach (hp w) v m /\ m < length (hp w)) /\
  (forall r m, In r rs -> reach (hp w') r m -> length (hp w) <= m) /\
  (forall i j ri rj m, i < j -> nth_error rs i = Some ri -> nth_error rs j = Some rj ->
                       reach (hp w') ri m -> reach (hp w') rj m -> False).
Proof.
  intros Hf hist w w' rs Hw G Hok E.
  destruct (history_regions fl Hf hist w w' rs Hw G Hok E) as (Hw' & L & A & CB).
  split; [|split].
  - intros v m Hv Hr. assert (Hr0 : reach (hp w) v m) by (eapply reach_back; eauto; apply Hw).
    split; [exact Hr0|]. eapply reach_lt; eauto.
  - intros r m Hin Hr. eapply chain_ge; eauto.
  - intros. eapply chain_disjoint; eauto.
Qed.
