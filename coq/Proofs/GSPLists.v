(* C01 - list facts used by the proofs about Model/GSP.v: insertion sort, argsort of a sorted list, dict lookup,
   index_of, dedup, strictly sorted lists are determined by their members. *)
From Coq Require Import List Arith Bool Lia Permutation Sorted.
Import ListNotations.
From QV Require Import Model.GSP.

Lemma memb_In x l : memb x l = true <-> In x l.
Proof.
  unfold memb. rewrite existsb_exists. split.
  - intros [y [Hy E]]. apply Nat.eqb_eq in E. subst. exact Hy.
  - intros H. exists x. split; [exact H| apply Nat.eqb_refl].
Qed.

Lemma memb_false x l : memb x l = false <-> ~ In x l.
Proof. rewrite <- memb_In. destruct (memb x l); split; congruence. Qed.

Lemma nodupb_NoDup l : nodupb l = true -> NoDup l.
Proof.
  induction l as [|x l IH]; simpl; intros H; [constructor|].
  apply andb_true_iff in H. destruct H as [H1 H2]. constructor; [|auto].
  apply negb_true_iff in H1. apply memb_false in H1. exact H1.
Qed.

Lemma NoDup_nodupb l : NoDup l -> nodupb l = true.
Proof.
  induction 1 as [|x l Hx _ IH]; simpl; [reflexivity|]. rewrite IH, andb_true_r.
  apply negb_true_iff. apply memb_false. exact Hx.
Qed.

Lemma inter_nonempty_false a b : inter_nonempty a b = false -> forall x, In x a -> In x b -> False.
Proof.
  unfold inter_nonempty. intros H x Ha Hb.
  assert (E : existsb (fun x => memb x b) a = true).
  { apply existsb_exists. exists x. split; [exact Ha| apply memb_In; exact Hb]. }
  congruence.
Qed.

(* ---- dedup ---- *)
Lemma dedup_In x l : In x (dedup l) <-> In x l.
Proof.
  induction l as [|y l IH]; simpl; [tauto|]. rewrite filter_In, IH.
  destruct (Nat.eq_dec y x) as [E|E].
  - subst. tauto.
  - split; [tauto|]. intros [H|H]; [tauto|]. right. split; [exact H|].
    apply negb_true_iff. apply Nat.eqb_neq. congruence.
Qed.

Lemma NoDup_filter {A} (f : A -> bool) l : NoDup l -> NoDup (filter f l).
Proof.
  induction 1 as [|x l Hx _ IH]; simpl; [constructor|].
  destruct (f x); [|exact IH]. constructor; [|exact IH]. rewrite filter_In. tauto.
Qed.

Lemma dedup_NoDup l : NoDup (dedup l).
Proof.
  induction l as [|y l IH]; simpl; [constructor|]. constructor.
  - rewrite filter_In. intros [_ H]. rewrite Nat.eqb_refl in H. discriminate.
  - apply NoDup_filter. exact IH.
Qed.

(* ---- insertion sort ---- *)
Section Sort.
Context {A : Type} (key : A -> nat).

Lemma insert_perm x l : Permutation (insert_by key x l) (x :: l).
Proof.
  induction l as [|y l IH]; simpl; [reflexivity|].
  destruct (key y <? key x); [|reflexivity].
  rewrite IH. apply perm_swap.
Qed.

Lemma sort_perm l : Permutation (sort_by key l) l.
Proof.
  induction l as [|x l IH]; simpl; [reflexivity|]. rewrite insert_perm. constructor. exact IH.
Qed.

Lemma insert_sorted x l : StronglySorted (fun a b => key a <= key b) l ->
  StronglySorted (fun a b => key a <= key b) (insert_by key x l).
Proof.
  induction 1 as [|y l Hs IH Hy]; simpl; [repeat constructor|].
  destruct (key y <? key x) eqn:E.
  - apply Nat.ltb_lt in E. constructor; [exact IH|].
    rewrite Forall_forall in *. intros z Hz.
    apply (Permutation_in _ (insert_perm x l)) in Hz. destruct Hz as [<-|Hz]; [lia| auto].
  - apply Nat.ltb_ge in E. constructor; [constructor; assumption|].
    constructor; [exact E|]. rewrite Forall_forall in *. intros z Hz. specialize (Hy z Hz). lia.
Qed.

Lemma sort_sorted l : StronglySorted (fun a b => key a <= key b) (sort_by key l).
Proof. induction l as [|x l IH]; simpl; [constructor| apply insert_sorted; exact IH]. Qed.

(* a list that is already strictly sorted by key is left unchanged *)
Lemma sort_sorted_id l : StronglySorted (fun a b => key a < key b) l -> sort_by key l = l.
Proof.
  induction 1 as [|x l Hs IH Hx]; simpl; [reflexivity|]. rewrite IH.
  destruct l as [|y l']; simpl; [reflexivity|].
  inversion Hx as [|? ? Hxy _]; subst.
  destruct (key y <? key x) eqn:E; [apply Nat.ltb_lt in E; lia| reflexivity].
Qed.
End Sort.

Lemma isort_perm l : Permutation (isort l) l.
Proof. apply sort_perm. Qed.

Lemma isort_In x l : In x (isort l) <-> In x l.
Proof. split; apply Permutation_in; [apply isort_perm| symmetry; apply isort_perm]. Qed.

Lemma isort_length l : length (isort l) = length l.
Proof. apply Permutation_length. apply isort_perm. Qed.

Lemma isort_NoDup l : NoDup l -> NoDup (isort l).
Proof. intros H. eapply Permutation_NoDup; [symmetry; apply isort_perm| exact H]. Qed.

Lemma sorted_le_nodup_lt l : StronglySorted le l -> NoDup l -> StronglySorted lt l.
Proof.
  induction 1 as [|x l Hs IH Hx]; intros Hnd; [constructor|].
  inversion Hnd as [|? ? Hnin Hnd']; subst. constructor; [auto|].
  rewrite Forall_forall in *. intros y Hy. specialize (Hx y Hy).
  assert (x <> y) by (intro; subst; contradiction). lia.
Qed.

Lemma isort_ssorted l : NoDup l -> StronglySorted lt (isort l).
Proof.
  intros H. apply sorted_le_nodup_lt; [|apply isort_NoDup; exact H].
  exact (sort_sorted (fun x : nat => x) l).
Qed.

Lemma ssorted_NoDup l : StronglySorted lt l -> NoDup l.
Proof.
  induction 1 as [|x l Hs IH Hx]; constructor; [|exact IH].
  intro Hin. rewrite Forall_forall in Hx. specialize (Hx x Hin). lia.
Qed.

(* strictly sorted lists with the same members are equal *)
Lemma ssorted_ext l1 : forall l2, StronglySorted lt l1 -> StronglySorted lt l2 ->
  (forall x, In x l1 <-> In x l2) -> l1 = l2.
Proof.
  induction l1 as [|a l1 IH]; intros [|b l2] H1 H2 E.
  - reflexivity.
  - exfalso. apply (proj2 (E b)). left; reflexivity.
  - exfalso. apply (proj1 (E a)). left; reflexivity.
  - inversion H1 as [|? ? Hs1 Ha]; subst. inversion H2 as [|? ? Hs2 Hb]; subst.
    rewrite Forall_forall in Ha, Hb.
    assert (a = b).
    { destruct (proj1 (E a) (or_introl eq_refl)) as [Hab|Hab]; [auto|].
      destruct (proj2 (E b) (or_introl eq_refl)) as [Hba|Hba]; [auto|].
      specialize (Ha b Hba). specialize (Hb a Hab). lia. }
    subst b. f_equal. apply IH; try assumption.
    intro x. split; intro Hx.
    + destruct (proj1 (E x) (or_intror Hx)) as [Hx'|Hx']; [|exact Hx'].
      subst x. specialize (Ha a Hx). lia.
    + destruct (proj2 (E x) (or_intror Hx)) as [Hx'|Hx']; [|exact Hx'].
      subst x. specialize (Hb a Hx). lia.
Qed.

Lemma seq_ssorted s n : StronglySorted lt (seq s n).
Proof.
  revert s. induction n as [|n IH]; intro s; simpl; constructor; [apply IH|].
  rewrite Forall_forall. intros x Hx. apply in_seq in Hx. lia.
Qed.

(* a duplicate-free list of m numbers below m sorts to 0..m-1 *)
Lemma isort_perm_seq l : NoDup l -> Forall (fun t => t < length l) l -> isort l = seq 0 (length l).
Proof.
  intros Hnd Hlt. apply ssorted_ext.
  - apply isort_ssorted. exact Hnd.
  - apply seq_ssorted.
  - intro x. rewrite isort_In, in_seq. rewrite Forall_forall in Hlt. split.
    + intro H. specialize (Hlt x H). lia.
    + intro H.
      assert (Hincl : incl (seq 0 (length l)) l).
      { apply NoDup_length_incl; [exact Hnd| rewrite seq_length; lia|].
        intros y Hy. apply in_seq. specialize (Hlt y Hy). lia. }
      apply Hincl. apply in_seq. lia.
Qed.

(* ---- argsort of a strictly ascending list is the identity ---- *)
Lemma combine_seq_sorted l : forall s, StronglySorted lt l ->
  StronglySorted (fun a b : nat * nat => fst a < fst b) (combine l (seq s (length l))).
Proof.
  induction l as [|x l IH]; intros s H; simpl; [constructor|].
  inversion H as [|? ? Hs Hx]; subst. constructor; [apply IH; exact Hs|].
  rewrite Forall_forall in *. intros [a b] Hab. apply in_combine_l in Hab. simpl. auto.
Qed.

Lemma map_snd_combine_seq (l : list nat) s : map snd (combine l (seq s (length l))) = seq s (length l).
Proof. revert s. induction l as [|x l IH]; intro s; simpl; [reflexivity|]. rewrite IH. reflexivity. Qed.

Lemma argsort_sorted l : StronglySorted lt l -> argsort l = seq 0 (length l).
Proof.
  intros H. unfold argsort. rewrite (sort_sorted_id fst) by (apply combine_seq_sorted; exact H).
  apply map_snd_combine_seq.
Qed.

(* ---- index_of / dict_get ---- *)
Lemma index_of_Some x l i : index_of x l = Some i -> i < length l /\ nth i l 0 = x.
Proof.
  revert i. induction l as [|y l IH]; simpl; intros i H; [discriminate|].
  destruct (Nat.eqb_spec x y) as [E|E].
  - injection H as <-. subst. split; [lia| reflexivity].
  - destruct (index_of x l) as [j|]; [|discriminate]. injection H as <-.
    destruct (IH j eq_refl) as [H1 H2]. split; [lia| exact H2].
Qed.

Lemma dict_get_notin x l vs : ~ In x l -> dict_get x (combine l vs) = None.
Proof.
  revert vs. induction l as [|y l IH]; intros [|v vs] H; simpl in *; try reflexivity.
  rewrite IH by tauto. destruct (Nat.eqb_spec x y); [subst; tauto| reflexivity].
Qed.

Lemma dict_get_seq x l : forall s i, NoDup l -> dict_get x (combine l (seq s (length l))) = Some i ->
  s <= i /\ i - s < length l /\ nth (i - s) l 0 = x.
Proof.
  induction l as [|y l IH]; intros s i Hnd H; simpl in *; [discriminate|].
  inversion Hnd as [|? ? Hy Hnd']; subst.
  destruct (dict_get x (combine l (seq (S s) (length l)))) as [w|] eqn:E.
  - injection H as <-. destruct (IH (S s) w Hnd' E) as [H1 [H2 H3]].
    replace (w - s) with (S (w - S s)) by lia. simpl. repeat split; [lia| lia| exact H3].
  - destruct (Nat.eqb_spec x y) as [Exy|Exy]; [|discriminate]. injection H as <-. subst.
    rewrite Nat.sub_diag. simpl. repeat split; lia.
Qed.

Lemma map_opt_Some {A B} (f : A -> option B) l r : map_opt f l = Some r ->
  length r = length l /\ forall j d d', j < length l -> f (nth j l d) = Some (nth j r d').
Proof.
  revert r. induction l as [|x l IH]; simpl; intros r H.
  - injection H as <-. split; [reflexivity| intros; lia].
  - destruct (f x) as [y|] eqn:E; [|discriminate]. destruct (map_opt f l) as [ys|]; [|discriminate].
    injection H as <-. destruct (IH ys eq_refl) as [H1 H2]. split; [simpl; lia|].
    intros [|j] d d' Hj; simpl; [exact E| apply H2; lia].
Qed.

Lemma map_opt_Forall {A B} (f : A -> option B) (P : B -> Prop) l r : map_opt f l = Some r ->
  (forall x y, In x l -> f x = Some y -> P y) -> Forall P r.
Proof.
  revert r. induction l as [|x l IH]; simpl; intros r H HP.
  - injection H as <-. constructor.
  - destruct (f x) as [y|] eqn:E; [|discriminate]. destruct (map_opt f l) as [ys|]; [|discriminate].
    injection H as <-. constructor.
    + apply (HP x y); [left; reflexivity| exact E].
    + apply IH; [reflexivity|]. intros x' y' Hin. apply HP. right. exact Hin.
Qed.

(* positions found through the dict built from an ascending list point back to the keys *)
Lemma dict_positions revised l t : StronglySorted lt revised ->
  map_opt (fun i => dict_get i (combine revised (argsort revised))) l = Some t ->
  length t = length l /\ map (fun j => nth j revised 0) t = l /\ Forall (fun j => j < length revised) t.
Proof.
  intros Hs H. rewrite argsort_sorted in H by exact Hs.
  pose proof (ssorted_NoDup _ Hs) as Hnd.
  revert t H. induction l as [|x l IH]; simpl; intros t H.
  - injection H as <-. repeat split; constructor.
  - destruct (dict_get x _) as [i|] eqn:E; [|discriminate].
    destruct (map_opt _ l) as [ys|]; [|discriminate]. injection H as <-.
    destruct (IH ys eq_refl) as [H1 [H2 H3]].
    destruct (dict_get_seq x revised 0 i Hnd E) as [_ [H4 H5]]. rewrite Nat.sub_0_r in *.
    simpl. repeat split; [lia| rewrite H5, H2; reflexivity| constructor; assumption].
Qed.

Lemma ForallOrdPairs_app_single {A} (R : A -> A -> Prop) l x :
  ForallOrdPairs R l -> Forall (fun y => R y x) l -> ForallOrdPairs R (l ++ [x]).
Proof.
  induction 1 as [|y l Hy Hl IH]; intros H; simpl; [repeat constructor|].
  inversion H; subst. constructor; [|auto]. apply Forall_app. split; [exact Hy| repeat constructor; assumption].
Qed.

Lemma ForallOrdPairs_filter {A} (R : A -> A -> Prop) (f : A -> bool) l :
  ForallOrdPairs R l -> ForallOrdPairs R (filter f l).
Proof.
  induction 1 as [|y l Hy Hl IH]; simpl; [constructor|].
  destruct (f y); [|exact IH]. constructor; [|exact IH].
  rewrite Forall_forall in *. intros z Hz. apply filter_In in Hz. apply Hy. tauto.
Qed.
