(* C03: resolve_gates preserves the circuit semantics exactly (global phase included), stays in the basis, refuses what it
   cannot express.  Lifts the generated symbolic obligations (Proofs/ResolveChk*.v) through rule_sound (every phase ring =
   all parameter values, every injective placement, every register) and the gate-wise fusion of the three passes. *)
From Coq Require Import List String Bool Arith Lia FunctionalExtensionality.
From QV Require Import Found.Circ Found.Table Model.ResolveTypes Gen.Decompose Gen.Gates Model.Resolve.
From QV Require Import Proofs.ResolveLemmas Proofs.ResolveChkDefs.
From QV Require Import Proofs.ResolveChk0 Proofs.ResolveChk1 Proofs.ResolveChk2 Proofs.ResolveChk3.
Import ListNotations.

(* ---- facts about the generated tables, by computation -------------------------------------------------------------- *)
Lemma marker_fixed : pauli_marker_to_temp = true. Proof. reflexivity. Qed.
Lemma listified_fixed : str_basis_listified = true. Proof. reflexivity. Qed.
Lemma rotnorm_fixed : rot_normalised = true. Proof. reflexivity. Qed.
Lemma passes_ok : passes_complete = true. Proof. vm_compute. reflexivity. Qed.
Lemma kslices_eq : kinds = kslice 0 ++ kslice 1 ++ kslice 2 ++ kslice 3.
Proof. reflexivity. Qed.
Lemma rules_ok : forallb check_rule kinds = true. Proof. vm_compute. reflexivity. Qed.
Lemma basis_ok : forallb (fun c => negb (valid_cfg c) || forallb (check_basis c) kinds) all_cfgs = true.
Proof. vm_compute. reflexivity. Qed.
Lemma success_ok : forallb (fun c => negb (valid_cfg c) || forallb (check_ok c) kinds) all_cfgs = true.
Proof. vm_compute. reflexivity. Qed.

Lemma agree_ok : agree_all = true.
Proof. vm_compute. reflexivity. Qed.
Lemma outs_ok : outs_eq kinds.
Proof. vm_compute. reflexivity. Qed.

(* kernel-friendly extraction of one obligation: the lists stay abstract while the booleans are taken apart *)
Lemma forallb2_in {A B} (F : A -> B -> bool) (la : list A) (lb : list B) a b :
  forallb (fun x => forallb (F x) lb) la = true -> In a la -> In b lb -> F a b = true.
Proof.
  intros H Ha Hb. rewrite forallb_forall in H. specialize (H a Ha). rewrite forallb_forall in H. exact (H b Hb).
Qed.

Lemma obls_ok_app l1 l2 : obls_ok l1 = true -> obls_ok l2 = true -> obls_ok (l1 ++ l2) = true.
Proof. unfold obls_ok. intros H1 H2. rewrite forallb_app, H1, H2. reflexivity. Qed.
Lemma obls_all : obls_ok (kslice 0 ++ kslice 1 ++ kslice 2 ++ kslice 3) = true.
Proof.
  apply obls_ok_app; [exact chk_sem_0|]. apply obls_ok_app; [exact chk_sem_1|]. apply obls_ok_app; [exact chk_sem_2|exact chk_sem_3].
Qed.
Lemma out_in l k r : obls_ok l = true -> In k l -> In r (outs k) -> ok_res k r = true.
Proof.
  unfold obls_ok. intros H Hk Hr. rewrite forallb_forall in H. specialize (H k Hk).
  rewrite forallb_forall in H. exact (H r Hr).
Qed.
(* the decomposition under a canonical configuration is one of the distinct ones, or a refusal *)
Lemma fres_in_outs ks k c : outs_eq ks -> In k ks -> In c (canons k) -> In (fres k c) (outs k) \/ fres k c = Error.
Proof.
  unfold outs_eq. intros H Hk Hc.
  pose proof (map_eq_in _ _ ks H k Hk) as E. cbv beta zeta in E.
  assert (Hin : In (fres k c) (map (fres k) (canons k))) by (apply in_map; exact Hc).
  rewrite E in Hin. apply in_map_iff in Hin. destruct Hin as [i [Hi _]]. rewrite <- Hi.
  destruct (nth_in_or_default i (outs k) Error) as [Hn|Hn]; [left; exact Hn|right; exact Hn].
Qed.
Lemma obl_in k c : In k kinds -> In c (canons k) -> check_sem c k = true.
Proof.
  intros Hk Hc. unfold check_sem.
  destruct (fres_in_outs kinds k c outs_ok Hk Hc) as [Hin|He]; [|rewrite He; reflexivity].
  assert (Hk' : In k (kslice 0 ++ kslice 1 ++ kslice 2 ++ kslice 3)) by (rewrite <- kslices_eq; exact Hk).
  exact (out_in _ k _ obls_all Hk' Hin).
Qed.

Lemma list_eqb_eq a : forall b, list_eqb a b = true -> a = b.
Proof.
  induction a as [|x a IH]; intros [|y b]; simpl; try discriminate; [reflexivity|].
  intros H. apply andb_prop in H. destruct H as [E H]. apply String.eqb_eq in E. rewrite E, (IH b H). reflexivity.
Qed.

(* every configuration has its canonical form among the enumerated ones - by construction *)
Lemma dedupe_in x l : In x l -> In x (dedupe l).
Proof.
  induction l as [|y l IH]; [intros []|]. intros [->|H]; simpl.
  - destruct (existsb (list_eqb x) (dedupe l)) eqn:E; [|left; reflexivity].
    apply existsb_exists in E. destruct E as [z [Hz Ez]]. apply list_eqb_eq in Ez. subst. exact Hz.
  - destruct (existsb (list_eqb y) (dedupe l)); [exact (IH H)|right; exact (IH H)].
Qed.
Lemma all_cfgs_inv c : In c all_cfgs ->
  exists q r b, c = Cfg q r b /\ In q (sublists basis_2q_valid) /\ In r (sublists rot_names).
Proof.
  unfold all_cfgs. intros H. apply in_flat_map in H. destruct H as [q [Hq H]].
  apply in_flat_map in H. destruct H as [r [Hr H]]. exists q, r.
  destruct H as [<-|[<-|[]]]; [exists true|exists false]; auto.
Qed.
Lemma canon_in_canons c k : In c all_cfgs -> In (canon c k) (canons k).
Proof.
  intros H. destruct (all_cfgs_inv c H) as [q [r [b [-> [Hq Hr]]]]].
  unfold canon, canons. cbn [c2q crot celim]. apply in_flat_map.
  exists (canon2q q (dispatched k)). split.
  - apply dedupe_in. apply (in_map (fun q => canon2q q (dispatched k))). exact Hq.
  - apply in_map_iff. exists (b, if b then r else []). split; [reflexivity|].
    unfold rotviews. destruct b; [right; apply (in_map (fun r => (true, r))); exact Hr|left; reflexivity].
Qed.

(* configurations that agree on what the gate observes decompose it identically *)
Lemma stage2_first c c' l : first_2q c = first_2q c' -> stage2 c l = stage2 c' l.
Proof. intros E. unfold stage2. rewrite E. reflexivity. Qed.
Lemma stage3_same c c' l : celim c = celim c' -> (celim c = true -> crot c = crot c') -> stage3 c l = stage3 c' l.
Proof.
  intros E1 E2. unfold stage3. rewrite <- E1. destruct (celim c); [|reflexivity]. apply rflat_ext. intros g.
  unfold elim_gate. rewrite (E2 eq_refl). reflexivity.
Qed.
Lemma opt_eqb_eq a b : opt_eqb a b = true -> a = b.
Proof. destruct a, b; simpl; try discriminate; [|reflexivity]. intros E. apply String.eqb_eq in E. subst. reflexivity. Qed.

Lemma agree_resolve c c' keep g p : agree2q (c2q c) (c2q c') (gname (snd p)) = true ->
  celim c = celim c' -> (celim c = true -> crot c = crot c') -> pauli g = Ok p ->
  resolve_gate c keep g = resolve_gate c' keep g.
Proof.
  unfold agree2q. intros H H4 E5 Hp.
  apply andb_prop in H. destruct H as [H H3]. apply andb_prop in H. destruct H as [H1 H2].
  apply Bool.eqb_prop in H1. apply Bool.eqb_prop in H2. apply opt_eqb_eq in H3.
  unfold resolve_gate, stage1. rewrite Hp. cbn [rbind].
  assert (EU : to_universal c keep (snd p) = to_universal c' keep (snd p)).
  { unfold to_universal. rewrite <- H1.
    change (((gname (snd p) =? "SWAP")%string && mem "ISWAP" (c2q c'))) with ((String.eqb (gname (snd p)) "SWAP" && mem "ISWAP" (c2q c'))).
    rewrite <- H2. reflexivity. }
  rewrite EU. destruct (to_universal c' keep (snd p)) as [gs|]; cbn [rbind fst snd]; [|reflexivity].
  rewrite (stage2_first c c' _ H3). destruct (stage2 c' (fst p ++ gs)) as [q|]; cbn [rbind]; [|reflexivity].
  apply stage3_same; assumption.
Qed.

Lemma check_sem_canon c k : In c all_cfgs -> In k kinds -> check_sem c k = check_sem (canon c k) k.
Proof.
  intros Hc Hk. destruct (all_cfgs_inv c Hc) as [q [r [b [-> [Hq Hr]]]]].
  pose proof (forallb2_in (fun k q => agree2q q (canon2q q (dispatched k)) (dispatched k)) kinds (sublists basis_2q_valid)
                k q agree_ok Hk Hq) as A.
  cbn beta in A. unfold check_sem, fres. unfold dispatched in A.
  destruct (pauli (generic (fst k) (snd k) 0)) as [p|] eqn:Ep.
  - rewrite (agree_resolve (Cfg q r b) (canon (Cfg q r b) k) no_keep _ p).
    + reflexivity.
    + unfold canon. cbn [c2q]. unfold dispatched. rewrite Ep. exact A.
    + reflexivity.
    + unfold canon. cbn [celim crot]. intros ->. reflexivity.
    + exact Ep.
  - unfold resolve_gate, stage1. rewrite Ep. reflexivity.
Qed.

Lemma check_sem_true c k : In c all_cfgs -> In k kinds -> check_sem c k = true.
Proof.
  intros Hc Hk. rewrite (check_sem_canon c k Hc Hk). apply (obl_in k _ Hk). apply canon_in_canons. exact Hc.
Qed.

Lemma guarded_in {A B} (v : A -> bool) (F : A -> B -> bool) (la : list A) (lb : list B) a b :
  forallb (fun x => negb (v x) || forallb (F x) lb) la = true -> In a la -> v a = true -> In b lb -> F a b = true.
Proof.
  intros H Ha Hv Hb. rewrite forallb_forall in H. specialize (H a Ha). rewrite Hv in H. cbn [negb orb] in H.
  rewrite forallb_forall in H. exact (H b Hb).
Qed.

(* ---- every configuration the parser can produce is one of the enumerated ones -------------------------------------- *)
Lemma filter_sublist {A} (p : A -> bool) (l : list A) : In (filter p l) (sublists l).
Proof.
  induction l as [|a l IH]; [left; reflexivity|]. simpl. apply in_or_app.
  destruct (p a); [left; apply in_map; exact IH|right; exact IH].
Qed.

Lemma mkcfg_in raw1 raw2 : In (mkcfg raw1 raw2) all_cfgs.
Proof.
  unfold mkcfg, all_cfgs. apply in_flat_map. eexists. split; [apply filter_sublist|].
  apply in_flat_map. eexists. split; [apply filter_sublist|].
  destruct (Nat.eqb (length raw1) 2); [left|right; left]; reflexivity.
Qed.

Lemma parse_in fl b c keep : parse_basis_gen fl b = Ok (c, keep) -> In c all_cfgs.
Proof.
  destruct b as [s|l]; cbn [parse_basis_gen].
  - destruct (mem s basis_2q_valid); [|discriminate]. intros H. injection H as <- _. apply mkcfg_in.
  - cbv zeta. match goal with |- context [if ?x then Error else _] => destruct x end; [discriminate|].
    intros H. injection H as <- _. apply mkcfg_in.
Qed.

(* every configuration the (repaired) parser produces has a consistent rotation part: two or three distinct rotations,
   elimination exactly when there are two - IDLE entries and repetitions do not count *)
Lemma rot_cases_ok :
  forallb (fun r => Nat.eqb (length r) 1 || rot_ok (mkcfg (if Nat.eqb (length r) 0 then default_1q_list else r) []))
          (sublists rot_norm_list) = true.
Proof. vm_compute. reflexivity. Qed.
Lemma rot_str_ok : rot_ok (mkcfg default_1q_str []) = true.
Proof. vm_compute. reflexivity. Qed.
Lemma parse_rot_ok b c keep : parse_basis b = Ok (c, keep) -> rot_ok c = true.
Proof.
  unfold parse_basis, cur_flags. rewrite rotnorm_fixed. destruct b as [s|l]; cbn [parse_basis_gen f_rotnorm f_listified].
  - destruct (mem s basis_2q_valid); [|discriminate]. intros H. injection H as <- _. exact rot_str_ok.
  - cbv zeta. set (raw0 := filter _ l). set (r := filter (fun g => mem g raw0) rot_norm_list).
    pose proof rot_cases_ok as RC. rewrite forallb_forall in RC. specialize (RC r (filter_sublist _ _)).
    destruct (Nat.eqb (length r) 1); [discriminate|]. cbn [orb] in RC.
    intros H. injection H as <- _. exact RC.
Qed.
Lemma parse_valid b c keep : parse_basis b = Ok (c, keep) -> c2q c <> [] -> valid_cfg c = true.
Proof.
  intros H Hq. unfold valid_cfg. rewrite (parse_rot_ok b c keep H). destruct (c2q c); [contradiction|reflexivity].
Qed.

(* ---- well-formed source gates --------------------------------------------------------------------------------------- *)
(* a gate of one of the resolvable kinds, with the arity of the kind, on pairwise different qubits, whose arguments are
   its own parameters (their VALUES are supplied by the environment of atoms, i.e. they are arbitrary) *)
Definition wf_gate (g : mgate) : Prop :=
  exists nc nt np, In (gname g, (nc, nt, np)) kinds /\ length (gcontrols g) = nc /\ length (gtargets g) = nt /\
                   NoDup (gcontrols g ++ gtargets g) /\ gargs g = map Var (seq 0 np).

Definition to_inst (g : mgate) : inst := (gsrc g, to_sgate g).
(* the circuit denoted by a gate list in the phase ring R, source gate i taking its parameter values from env i *)
Definition cden (R : PhaseRing) (env : nat -> atoms R) (c : list mgate) : circ R := iden R env (map to_inst c).

Lemma wf_retag g nc nt np : length (gcontrols g) = nc -> length (gtargets g) = nt -> gargs g = map Var (seq 0 np) ->
  g = retag (pl (gcontrols g ++ gtargets g)) (gsrc g) (generic (gname g) (nc, nt, np) 0).
Proof.
  intros Hc Ht Ha. destruct g as [nm ts cs ar s]. simpl in *. unfold retag, generic. simpl. subst nc nt.
  rewrite map_pl_targets, map_pl_controls, Ha. reflexivity.
Qed.

Lemma cden_retag R env ts s gs :
  cden R env (map (retag (pl ts) s) gs) = place ts (map (gden R (env s)) (map to_sgate gs)).
Proof.
  unfold cden, iden, place. rewrite !map_map. apply map_ext. intros g.
  unfold to_inst, gden, to_sgate, retag. simpl. rewrite map_app. reflexivity.
Qed.

Lemma pauli_name_kept f s g : forall p, pauli g = Ok p -> exists p', pauli (retag f s g) = Ok p' /\ gname (snd p') = gname (snd p).
Proof.
  intros p. unfold pauli. change (gname (retag f s g)) with (gname g).
  destruct (mem (gname g) pauli_names).
  - rewrite !emit_gate_nat. destruct (emit_gate g pauli_marker) as [m|]; cbn [rbind rmap]; [|discriminate].
    destruct (emit_gate g pauli_subst) as [g'|]; cbn [rbind rmap]; [|discriminate].
    intros H. injection H as <-. eexists. split; reflexivity.
  - intros H. injection H as <-. eexists. split; reflexivity.
Qed.

(* the `gate.name in basis` test does not influence the decomposition of a resolvable kind *)
Lemma resolve_gate_keep c keep g0 f s k : In k kinds -> g0 = generic (fst k) (snd k) 0 ->
  resolve_gate c keep (retag f s g0) = resolve_gate c no_keep (retag f s g0).
Proof.
  intros Hk ->. pose proof rules_ok as RO. rewrite forallb_forall in RO. specialize (RO k Hk). unfold check_rule in RO.
  set (g0 := generic (fst k) (snd k) 0) in *.
  destruct (pauli g0) as [p|] eqn:Ep; [|discriminate].
  destruct (pauli_name_kept f s g0 p Ep) as [p' [Ep' En]].
  unfold resolve_gate, stage1. rewrite Ep'. cbn [rbind].
  rewrite (to_universal_keep c keep no_keep (snd p')); [reflexivity|].
  rewrite En. destruct (find_rule (gname (snd p))); [discriminate|discriminate].
Qed.

(* ---- one gate ----------------------------------------------------------------------------------------------------- *)
Theorem gate_sound c keep g gs : In c all_cfgs -> wf_gate g -> resolve_gate c keep g = Ok gs ->
  forall (R : PhaseRing) (env : nat -> atoms R), sem (cden R env gs) = sem (cden R env [g]).
Proof.
  intros Hc [nc [nt [np [Hk [Hlc [Hlt [Hnd Har]]]]]]] Hres R env.
  set (ts := gcontrols g ++ gtargets g) in *.
  set (g0 := generic (gname g) (nc, nt, np) 0).
  pose proof (wf_retag g nc nt np Hlc Hlt Har) as Eg. fold ts in Eg. fold g0 in Eg.
  rewrite Eg in Hres. rewrite (resolve_gate_keep c keep g0 (pl ts) (gsrc g) (gname g, (nc, nt, np)) Hk eq_refl) in Hres.
  rewrite resolve_gate_nat in Hres.
  pose proof (check_sem_true c (gname g, (nc, nt, np)) Hc Hk) as CS. unfold check_sem, ok_res, fres in CS. cbn [fst snd] in CS. fold g0 in CS.
  destruct (resolve_gate c no_keep g0) as [gs0|]; [|discriminate]. cbn [rmap] in Hres. injection Hres as <-.
  rewrite Eg at 2.
  change [retag (pl ts) (gsrc g) g0] with (map (retag (pl ts) (gsrc g)) [g0]).
  rewrite !cden_retag.
  apply (rule_sound R (env (gsrc g)) (kqubits (nc, nt, np)) _ _ ts CS Hnd).
  unfold ts. rewrite app_length, Hlc, Hlt. reflexivity.
Qed.

(* ---- whole circuits ----------------------------------------------------------------------------------------------- *)
Lemma cden_app R env a b : cden R env (a ++ b) = cden R env a ++ cden R env b.
Proof. unfold cden, iden. rewrite !map_app. reflexivity. Qed.

Lemma rflat_sound c keep circ out : In c all_cfgs -> Forall wf_gate circ -> rflat (resolve_gate c keep) circ = Ok out ->
  forall (R : PhaseRing) (env : nat -> atoms R), sem (cden R env out) = sem (cden R env circ).
Proof.
  intros Hc. revert out. induction circ as [|g circ IH]; intros out Hwf H R env.
  - rewrite rflat_nil in H. injection H as <-. reflexivity.
  - apply rflat_ok_cons in H. destruct H as [x [y [Hx [Hy ->]]]]. inversion Hwf as [|? ? Hg Hrest]; subst.
    change (g :: circ) with ([g] ++ circ). rewrite !cden_app.
    apply functional_extensionality. intro psi. rewrite !(sem_app R).
    rewrite (gate_sound c keep g x Hc Hg Hx R env). rewrite (IH y Hrest Hy R env). reflexivity.
Qed.

Lemma resolve_unfold b circ :
  resolve b circ = rbind (parse_basis b) (fun ck => rflat (resolve_gate (fst ck) (snd ck)) circ).
Proof. unfold resolve, parse_basis. rewrite marker_fixed. apply resolve_gen_fused. exact passes_ok. Qed.

Theorem resolve_sem_proof b circ out : Forall wf_gate circ -> resolve b circ = Ok out ->
  forall (R : PhaseRing) (env : nat -> atoms R), sem (cden R env out) = sem (cden R env circ).
Proof.
  intros Hwf H. rewrite resolve_unfold in H. destruct (parse_basis b) as [[c keep]|] eqn:E; [|discriminate].
  cbn [rbind fst snd] in H. apply (rflat_sound c keep circ out (parse_in _ b c keep E) Hwf H).
Qed.

(* ---- the result stays in the basis --------------------------------------------------------------------------------- *)
Lemma in_basis_retag c f s g : in_basis c (retag f s g) = in_basis c g.
Proof. reflexivity. Qed.

Lemma gate_in_basis c keep g gs : In c all_cfgs -> valid_cfg c = true -> wf_gate g -> resolve_gate c keep g = Ok gs ->
  forallb (in_basis c) gs = true.
Proof.
  intros Hc Hv [nc [nt [np [Hk [Hlc [Hlt [Hnd Har]]]]]]] Hres.
  set (ts := gcontrols g ++ gtargets g) in *.
  set (g0 := generic (gname g) (nc, nt, np) 0).
  pose proof (wf_retag g nc nt np Hlc Hlt Har) as Eg. fold ts in Eg. fold g0 in Eg.
  rewrite Eg in Hres. rewrite (resolve_gate_keep c keep g0 (pl ts) (gsrc g) (gname g, (nc, nt, np)) Hk eq_refl) in Hres.
  rewrite resolve_gate_nat in Hres.
  pose proof (guarded_in valid_cfg check_basis all_cfgs kinds c _ basis_ok Hc Hv Hk) as BO.
  unfold check_basis in BO. cbn [fst snd] in BO. fold g0 in BO.
  destruct (resolve_gate c no_keep g0) as [gs0|]; [|discriminate]. cbn [rmap] in Hres. injection Hres as <-.
  rewrite forallb_forall in *. intros x Hx. apply in_map_iff in Hx. destruct Hx as [x0 [<- Hx0]].
  rewrite in_basis_retag. exact (BO x0 Hx0).
Qed.

Theorem resolve_in_basis_proof b circ out c keep : Forall wf_gate circ -> parse_basis b = Ok (c, keep) -> valid_cfg c = true ->
  resolve b circ = Ok out -> Forall (fun g => in_basis c g = true) out.
Proof.
  intros Hwf E Hv H. rewrite resolve_unfold, E in H. cbn [rbind fst snd] in H.
  pose proof (parse_in _ b c keep E) as Hc. revert out H. induction circ as [|g circ IH]; intros out H.
  - rewrite rflat_nil in H. injection H as <-. constructor.
  - apply rflat_ok_cons in H. destruct H as [x [y [Hx [Hy ->]]]]. inversion Hwf as [|? ? Hg Hrest]; subst.
    apply Forall_app. split; [|exact (IH Hrest y Hy)].
    apply Forall_forall. pose proof (gate_in_basis c keep g x Hc Hv Hg Hx) as F. rewrite forallb_forall in F. exact F.
Qed.

(* for EVERY accepted request that names a two-qubit gate *)
Theorem resolve_in_basis_accepted_proof b circ out c keep : Forall wf_gate circ -> parse_basis b = Ok (c, keep) -> c2q c <> [] ->
  resolve b circ = Ok out -> Forall (fun g => in_basis c g = true) out.
Proof. intros Hwf E Hq. exact (resolve_in_basis_proof b circ out c keep Hwf E (parse_valid b c keep E Hq)). Qed.

(* ---- a valid request over resolvable gates is not refused (except SQRTSWAP / SQRTISWAP outside the basis) ----------- *)
Lemma gate_succeeds c keep g : In c all_cfgs -> valid_cfg c = true -> wf_gate g ->
  (gname g = "SQRTSWAP"%string \/ gname g = "SQRTISWAP"%string -> mem (gname g) (c2q c) = true) ->
  exists gs, resolve_gate c keep g = Ok gs.
Proof.
  intros Hc Hv [nc [nt [np [Hk [Hlc [Hlt [Hnd Har]]]]]]] Hsq.
  set (ts := gcontrols g ++ gtargets g) in *.
  set (g0 := generic (gname g) (nc, nt, np) 0).
  pose proof (wf_retag g nc nt np Hlc Hlt Har) as Eg. fold ts in Eg. fold g0 in Eg.
  rewrite Eg. rewrite (resolve_gate_keep c keep g0 (pl ts) (gsrc g) (gname g, (nc, nt, np)) Hk eq_refl).
  rewrite resolve_gate_nat.
  pose proof (guarded_in valid_cfg check_ok all_cfgs kinds c _ success_ok Hc Hv Hk) as SO.
  unfold check_ok in SO. cbn [fst snd] in SO. fold g0 in SO.
  destruct (resolve_gate c no_keep g0) as [gs0|]; [eexists; reflexivity|].
  apply andb_prop in SO. destruct SO as [Hn Hm]. apply orb_prop in Hn.
  assert (Hx : gname g = "SQRTSWAP"%string \/ gname g = "SQRTISWAP"%string)
    by (destruct Hn as [Hn|Hn]; apply String.eqb_eq in Hn; auto).
  rewrite (Hsq Hx) in Hm. discriminate.
Qed.

Theorem resolve_succeeds_proof b circ c keep : Forall wf_gate circ -> parse_basis b = Ok (c, keep) -> valid_cfg c = true ->
  Forall (fun g => gname g = "SQRTSWAP"%string \/ gname g = "SQRTISWAP"%string -> mem (gname g) (c2q c) = true) circ ->
  exists out, resolve b circ = Ok out.
Proof.
  intros Hwf E Hv Hsq. rewrite resolve_unfold, E. cbn [rbind fst snd].
  pose proof (parse_in _ b c keep E) as Hc. induction circ as [|g circ IH]; [eexists; reflexivity|].
  inversion Hwf as [|? ? Hg Hrest]; subst. inversion Hsq as [|? ? Hs Hsrest]; subst.
  destruct (gate_succeeds c keep g Hc Hv Hg Hs) as [x Hx]. destruct (IH Hrest Hsrest) as [y Hy].
  rewrite rflat_cons, Hx, Hy. eexists. reflexivity.
Qed.

Theorem resolve_succeeds_accepted_proof b circ c keep : Forall wf_gate circ -> parse_basis b = Ok (c, keep) -> c2q c <> [] ->
  Forall (fun g => gname g = "SQRTSWAP"%string \/ gname g = "SQRTISWAP"%string -> mem (gname g) (c2q c) = true) circ ->
  exists out, resolve b circ = Ok out.
Proof. intros Hwf E Hq. exact (resolve_succeeds_proof b circ c keep Hwf E (parse_valid b c keep E Hq)). Qed.

(* ---- refusals ------------------------------------------------------------------------------------------------------ *)
Lemma stage1_error_resolve_gate c keep g : stage1 c keep g = Error -> resolve_gate c keep g = Error.
Proof. intros H. unfold resolve_gate. rewrite H. reflexivity. Qed.

(* a gate without any decomposition rule that was not requested as part of the basis is refused *)
Theorem resolve_refuses_proof b circ c keep g : parse_basis b = Ok (c, keep) -> In g circ ->
  mem (gname g) pauli_names = false -> mem (gname g) (c2q c) = false -> find_rule (gname g) = None ->
  keep (gname g) = false -> resolve b circ = Error.
Proof.
  intros E Hin Hp H2 Hr Hk. rewrite resolve_unfold, E. cbn [rbind fst snd].
  apply (rflat_error_in _ g circ Hin). apply stage1_error_resolve_gate.
  unfold stage1, pauli. rewrite Hp. cbn [rbind fst snd]. unfold to_universal. rewrite H2, Hr, Hk.
  destruct ((gname g =? "SWAP")%string && mem "ISWAP" (c2q c)) eqn:Es; [|reflexivity].
  apply andb_prop in Es. destruct Es as [Es _]. apply String.eqb_eq in Es. rewrite Es in Hr. discriminate.
Qed.

(* a gate whose rule is `raise NotImplementedError` is refused unless it is itself in the two-qubit basis *)
Theorem resolve_refuses_notimplemented_proof b circ c keep g : parse_basis b = Ok (c, keep) -> In g circ ->
  mem (gname g) pauli_names = false -> mem (gname g) (c2q c) = false -> find_rule (gname g) = Some RRaise ->
  resolve b circ = Error.
Proof.
  intros E Hin Hp H2 Hr. rewrite resolve_unfold, E. cbn [rbind fst snd].
  apply (rflat_error_in _ g circ Hin). apply stage1_error_resolve_gate.
  unfold stage1, pauli. rewrite Hp. cbn [rbind fst snd]. unfold to_universal. rewrite H2, Hr.
  destruct ((gname g =? "SWAP")%string && mem "ISWAP" (c2q c)) eqn:Es; [|reflexivity].
  apply andb_prop in Es. destruct Es as [Es _]. apply String.eqb_eq in Es. rewrite Es in Hr. discriminate.
Qed.

(* what `gate.name in basis` means for the two forms of the basis argument *)
Lemma keep_str s c keep : parse_basis (BStr s) = Ok (c, keep) -> forall n, keep n = String.eqb n s.
Proof.
  unfold parse_basis, cur_flags. rewrite listified_fixed. cbn [parse_basis_gen f_listified]. destruct (mem s basis_2q_valid); [|discriminate].
  intros H n. injection H as _ <-. unfold mem. cbn [existsb]. rewrite orb_false_r. reflexivity.
Qed.
Lemma keep_list l c keep : parse_basis (BList l) = Ok (c, keep) -> forall n, keep n = mem n l.
Proof.
  unfold parse_basis. cbn [parse_basis_gen]. cbv zeta.
  match goal with |- context [if ?x then Error else _] => destruct x end; [discriminate|].
  intros H n. injection H as _ <-. reflexivity.
Qed.

(* invalid basis specifications are refused *)
Theorem resolve_invalid_string_proof s circ : mem s basis_2q_valid = false -> resolve (BStr s) circ = Error.
Proof. intros H. rewrite resolve_unfold. unfold parse_basis. cbn [parse_basis_gen]. rewrite H. reflexivity. Qed.

(* the rotations named by a list basis, each once (IDLE and repetitions are not counted) *)
Definition rotations_of (l : list string) : list string :=
  filter (fun g => mem g (filter (fun g => negb (mem g basis_2q_valid) && mem g basis_1q_valid) l)) rot_norm_list.
Theorem resolve_one_rotation_proof l circ : length (rotations_of l) = 1%nat -> resolve (BList l) circ = Error.
Proof.
  intros H. rewrite resolve_unfold. unfold parse_basis, cur_flags. rewrite rotnorm_fixed. cbn [parse_basis_gen f_rotnorm]. cbv zeta.
  unfold rotations_of in H. rewrite H. reflexivity.
Qed.

Theorem resolve_rejects_measurement_proof b ops : In OpMeasure ops -> resolve_ops b ops = Error.
Proof.
  intros H. unfold resolve_ops.
  assert (E : existsb (fun o => match o with OpMeasure => true | _ => false end) ops = true)
    by (apply existsb_exists; exists OpMeasure; split; [exact H|reflexivity]).
  rewrite E. reflexivity.
Qed.

(* the valid choices of the property produce valid configurations *)
Definition str_specs : list basis_spec := map BStr basis_2q_valid.
Definition list_specs : list basis_spec :=
  flat_map (fun q => map (fun r => BList (q :: r)) [rot_names; ["RX"; "RY"]; ["RX"; "RZ"]; ["RY"; "RZ"]]%string) basis_2q_valid
  ++ [BList ["SQRTISWAP"; "ISWAP"; "RX"; "RZ"]; BList ["RX"; "RY"; "CNOT"; "RZX"]; BList default_basis]%string.
Definition spec_valid (b : basis_spec) : bool :=
  match parse_basis b with Ok ck => valid_cfg (fst ck) | Error => false end.
Lemma specs_valid_proof : forallb spec_valid (str_specs ++ list_specs) = true.
Proof. vm_compute. reflexivity. Qed.
