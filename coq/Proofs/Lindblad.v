(* C15 - proofs about the Lindblad generator of the relaxation collapse terms, over every commutative ring
   with involution, 1/2 and sqrt 2 (Model.Lindblad.cring).  All identities are polynomial identities decided
   by `ring` after unfolding the explicit tables. *)
From Coq Require Import List Arith Ring Ring_theory QArith.
From QV Require Import Model.Lindblad.
Import ListNotations.

Declare Scope K_scope.
Delimit Scope K_scope with K.

Section P.
  Variable R : cring.
  Add Ring RR : (kring R).
  Notation z0 := (k0 R). Notation o1 := (k1 R). Notation hf := (half R). Notation cj := (conj R).
  Infix "+" := (kadd R) : K_scope. Infix "*" := (kmul R) : K_scope. Infix "-" := (ksub R) : K_scope.
  Notation "- x" := (kopp R x) : K_scope.
  Local Open Scope K_scope.

  (* --- derived laws of the involution ------------------------------------------------------- *)
  Lemma conj_0 : cj z0 = z0.
  Proof.
    assert (H : cj z0 + cj z0 = cj z0) by (rewrite <- (conj_add R); f_equal; ring).
    transitivity ((cj z0 + cj z0) - cj z0); [ ring | rewrite H; ring ].
  Qed.
  Lemma conj_1 : cj o1 = o1.
  Proof.
    transitivity (cj o1 * cj (cj o1)); [ rewrite (conj_inv R); ring | ].
    rewrite <- (conj_mul R). transitivity (cj (cj o1)); [ f_equal; ring | apply (conj_inv R) ].
  Qed.
  Lemma conj_opp a : cj (- a) = - cj a.
  Proof.
    assert (H : cj (- a) + cj a = z0) by (rewrite <- (conj_add R), <- conj_0; f_equal; ring).
    transitivity ((cj (- a) + cj a) - cj a); [ ring | rewrite H; ring ].
  Qed.
  Lemma conj_sub a b : cj (a - b) = cj a - cj b.
  Proof.
    transitivity (cj (a + - b)); [ f_equal; ring | ].
    rewrite (conj_add R), conj_opp. ring.
  Qed.
  Lemma conj_two : cj (two R) = two R.
  Proof. unfold two. rewrite (conj_add R), conj_1. reflexivity. Qed.

  Ltac pushc := repeat (rewrite ?(conj_add R), ?(conj_mul R), ?conj_sub, ?conj_opp, ?(conj_inv R),
                                ?(conj_half R), ?(conj_s2 R), ?conj_0, ?conj_1).
  Ltac meq := repeat match goal with
                     | |- cons _ _ = cons _ _ => apply f_equal2
                     | |- @nil _ = @nil _ => reflexivity
                     end.
  Ltac fin := ring [(half_ok R) (s2_ok R)].
  Ltac unf := cbv -[K k0 k1 kadd kmul ksub kopp conj half s2].
  Ltac mring := unf; pushc; meq; fin.

  (* --- coefficient vs rate: D[c A] = (c conj c) D[A] --------------------------------------------- *)
  Lemma lind_scale2 c a b d e r00 r01 r10 r11 :
    lind R 2 (mscale R 2 c (gen2 R a b d e)) (gen2 R r00 r01 r10 r11)
    = mscale R 2 (c * cj c) (lind R 2 (gen2 R a b d e) (gen2 R r00 r01 r10 r11)).
  Proof. mring. Qed.

  Lemma lind_scale3 c a0 a1 a2 a3 a4 a5 a6 a7 a8 r0 r1 r2 r3 r4 r5 r6 r7 r8 :
    lind R 3 (mscale R 3 c (gen3 R a0 a1 a2 a3 a4 a5 a6 a7 a8)) (gen3 R r0 r1 r2 r3 r4 r5 r6 r7 r8)
    = mscale R 3 (c * cj c) (lind R 3 (gen3 R a0 a1 a2 a3 a4 a5 a6 a7 a8) (gen3 R r0 r1 r2 r3 r4 r5 r6 r7 r8)).
  Proof. mring. Qed.

  (* --- the generator of one idle two-level subsystem, completely -------------------------------- *)
  Lemma relax2_generator g1 g2 r00 r01 r10 r11 :
    relax_gen2 R g1 g2 (gen2 R r00 r01 r10 r11)
    = gen2 R (g1 * r11) (- (hf * (g1 + g2) * r01)) (- (hf * (g1 + g2) * r10)) (- (g1 * r11)).
  Proof. mring. Qed.

  (* --- three-level subsystem: the qubit subspace is invariant and carries the two-level law ------- *)
  Lemma relax3_generator_qubit g1 g2 r00 r01 r10 r11 :
    relax_gen3 R g1 g2 (gen3 R r00 r01 z0 r10 r11 z0 z0 z0 z0)
    = gen3 R (g1 * r11) (- (hf * (g1 + g2) * r01)) z0
             (- (hf * (g1 + g2) * r10)) (- (g1 * r11)) z0
             z0 z0 z0.
  Proof. mring. Qed.

  (* any three-level state: <n> and <a> obey the same two rates (harmonic-oscillator form of T1/T2) *)
  Lemma relax3_number g1 g2 r0 r1 r2 r3 r4 r5 r6 r7 r8 :
    trace R 3 (mmul R 3 (num3 R) (relax_gen3 R g1 g2 (gen3 R r0 r1 r2 r3 r4 r5 r6 r7 r8)))
    = - (g1 * trace R 3 (mmul R 3 (num3 R) (gen3 R r0 r1 r2 r3 r4 r5 r6 r7 r8))).
  Proof. mring. Qed.

  Lemma relax3_lowering g1 g2 r0 r1 r2 r3 r4 r5 r6 r7 r8 :
    trace R 3 (mmul R 3 (destroy3 R) (relax_gen3 R g1 g2 (gen3 R r0 r1 r2 r3 r4 r5 r6 r7 r8)))
    = - (hf * (g1 + g2) * trace R 3 (mmul R 3 (destroy3 R) (gen3 R r0 r1 r2 r3 r4 r5 r6 r7 r8))).
  Proof. mring. Qed.

  (* --- trace and hermiticity preservation, for ARBITRARY collapse operators of dimension 2, 3, 4 --- *)
  Lemma lind_trace2 a b d e r00 r01 r10 r11 :
    trace R 2 (lind R 2 (gen2 R a b d e) (gen2 R r00 r01 r10 r11)) = z0.
  Proof. mring. Qed.

  Lemma lind_trace3 a0 a1 a2 a3 a4 a5 a6 a7 a8 r0 r1 r2 r3 r4 r5 r6 r7 r8 :
    trace R 3 (lind R 3 (gen3 R a0 a1 a2 a3 a4 a5 a6 a7 a8) (gen3 R r0 r1 r2 r3 r4 r5 r6 r7 r8)) = z0.
  Proof. mring. Qed.

  Lemma lind_herm2 a b d e r00 r01 r10 r11 :
    adj R 2 (lind R 2 (gen2 R a b d e) (gen2 R r00 r01 r10 r11))
    = lind R 2 (gen2 R a b d e) (adj R 2 (gen2 R r00 r01 r10 r11)).
  Proof. mring. Qed.

  Lemma lind_herm3 a0 a1 a2 a3 a4 a5 a6 a7 a8 r0 r1 r2 r3 r4 r5 r6 r7 r8 :
    adj R 3 (lind R 3 (gen3 R a0 a1 a2 a3 a4 a5 a6 a7 a8) (gen3 R r0 r1 r2 r3 r4 r5 r6 r7 r8))
    = lind R 3 (gen3 R a0 a1 a2 a3 a4 a5 a6 a7 a8) (adj R 3 (gen3 R r0 r1 r2 r3 r4 r5 r6 r7 r8)).
  Proof. mring. Qed.

  (* the coherent part -i[H, rho] is traceless and maps Hermitian to Hermitian when H is Hermitian (iu = i) *)
  Lemma comm_trace3 iu h0 h1 h2 h3 h4 h5 h6 h7 h8 r0 r1 r2 r3 r4 r5 r6 r7 r8 :
    trace R 3 (comm R 3 iu (gen3 R h0 h1 h2 h3 h4 h5 h6 h7 h8) (gen3 R r0 r1 r2 r3 r4 r5 r6 r7 r8)) = z0.
  Proof. mring. Qed.

  Lemma comm_herm2 iu h00 h01 h10 h11 r00 r01 r10 r11 :
    cj iu = - iu ->
    adj R 2 (gen2 R h00 h01 h10 h11) = gen2 R h00 h01 h10 h11 ->
    adj R 2 (comm R 2 iu (gen2 R h00 h01 h10 h11) (gen2 R r00 r01 r10 r11))
    = comm R 2 iu (gen2 R h00 h01 h10 h11) (adj R 2 (gen2 R r00 r01 r10 r11)).
  Proof.
    intros Hi Hh. cbv -[K k0 k1 kadd kmul ksub kopp conj half s2] in Hh. injection Hh as E00 E01 E10 E11.
    unf. pushc. rewrite Hi, E00, E01, E10, E11. meq; fin.
  Qed.

End P.
