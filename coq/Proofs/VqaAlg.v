(* C19 -- the hypotheses of Proofs/Vqa.v bundled into one predicate, and the theorems restated
   against it (so that Props/C19.v stays readable). *)
From Coq Require Import List Arith Bool Lia ZArith.
From QV Require Import Model.Vqa Proofs.Vqa Proofs.VqaInst.
Import ListNotations.

(* A "differential operator algebra": operators with formal partial derivatives d_j, scalars with D_j.
   Everything the gradient code relies on, and nothing else:
   - unit/associativity/zero laws of the operator product (no commutativity),
   - Leibniz rule, d_j 1 = 0, d_j commutes with the adjoint,
   - the observable, fixed unitaries and library gates do not depend on the parameters,
   - BLOCK-LEVEL DERIVATIVE FORMULA (assumed about expm / expm_frechet, validated numerically):
     the unitary of a parameterised block at distinct angle names [a] depends only on those names,
     and its derivative w.r.t. the t-th of them is what get_unitary_derivative(a, t) returns,
   - the scalar read-out  X |-> Re <0|X|0>  commutes with differentiation. *)
Definition diff_algebra (A : Type) (zero one : A) (add mul : A -> A -> A) (dag : A -> A)
           (Sc : Type) (ev : A -> Sc) (obs : A)
           (blockU : nat -> list nat -> A) (fixedU : nat -> A) (blockdU : nat -> list nat -> nat -> A)
           (d : nat -> A -> A) (D : nat -> Sc -> Sc) : Prop :=
  (forall x, add zero x = x) /\ (forall x, add x zero = x) /\
  (forall x, mul one x = x) /\ (forall x, mul x one = x) /\
  (forall x y z, mul x (mul y z) = mul (mul x y) z) /\
  (forall x, mul zero x = zero) /\ (forall x, mul x zero = zero) /\
  (forall j x y, d j (mul x y) = add (mul (d j x) y) (mul x (d j y))) /\
  (forall j, d j one = zero) /\
  (forall j x, d j (dag x) = dag (d j x)) /\
  (forall j, d j obs = zero) /\
  (forall j id, d j (fixedU id) = zero) /\
  (forall id a t j, NoDup a -> nth_error a t = Some j -> d j (blockU id a) = blockdU id a t) /\
  (forall id a j, ~ In j a -> d j (blockU id a) = zero) /\
  (forall j x, D j (ev x) = ev (d j x)).

Section Restate.
  Variable A : Type.
  Variables (zero one : A) (add mul : A -> A -> A) (dag : A -> A).
  Variable Sc : Type.
  Variable ev : A -> Sc.
  Variable obs : A.
  Variable blockU : nat -> list nat -> A.
  Variable fixedU : nat -> A.
  Variable blockdU : nat -> list nat -> nat -> A.
  Variable d : nat -> A -> A.
  Variable D : nat -> Sc -> Sc.
  Hypothesis H : diff_algebra A zero one add mul dag Sc ev obs blockU fixedU blockdU d D.

  Lemma alg_jac_correct : forall bs layers indices,
      1 <= layers -> forallb ok_kind bs = true ->
      let L := free_parameters_num bs layers in
      exists c,
        evaluate A one mul dag Sc ev obs blockU fixedU bs layers (seq 0 L) = Some c /\
        compute_jac A one add mul dag Sc ev obs blockU fixedU blockdU bs layers (seq 0 L) indices
        = Some (map (fun j => D j c) (filter (fun j => mem j (requested indices L)) (seq 0 L))).
  Proof.
    destruct H as (h1&h2&h3&h4&h5&h6&h7&h8&h9&h10&h11&h12&h13&h14&h15).
    exact (jac_correct A zero one add mul dag Sc ev obs blockU fixedU blockdU d D
                       h1 h2 h3 h4 h5 h6 h7 h8 h9 h10 h11 h12 h13 h14 h15).
  Qed.

  Lemma alg_jac_correct_long : forall bs layers indices La,
      1 <= layers -> forallb ok_kind bs = true ->
      let L := free_parameters_num bs layers in
      L <= La ->
      exists c,
        evaluate A one mul dag Sc ev obs blockU fixedU bs layers (seq 0 La) = Some c /\
        compute_jac A one add mul dag Sc ev obs blockU fixedU blockdU bs layers (seq 0 La) indices
        = Some (map (fun j => D j c) (filter (fun j => mem j (requested indices La)) (seq 0 L))).
  Proof.
    destruct H as (h1&h2&h3&h4&h5&h6&h7&h8&h9&h10&h11&h12&h13&h14&h15).
    exact (jac_correct_long A zero one add mul dag Sc ev obs blockU fixedU blockdU d D
                            h1 h2 h3 h4 h5 h6 h7 h8 h9 h10 h11 h12 h13 h14 h15).
  Qed.

  Lemma alg_jac_length : forall bs layers g,
      1 <= layers -> forallb ok_kind bs = true ->
      compute_jac A one add mul dag Sc ev obs blockU fixedU blockdU bs layers
                  (seq 0 (free_parameters_num bs layers)) None = Some g ->
      length g = free_parameters_num bs layers.
  Proof.
    destruct H as (h1&h2&h3&h4&h5&h6&h7&h8&h9&h10&h11&h12&h13&h14&h15).
    exact (jac_length A zero one add mul dag Sc ev obs blockU fixedU blockdU d D
                      h1 h2 h3 h4 h5 h6 h7 h8 h9 h10 h11 h12 h13 h14 h15).
  Qed.

  Lemma alg_jac_entry : forall bs layers g c j,
      1 <= layers -> forallb ok_kind bs = true ->
      compute_jac A one add mul dag Sc ev obs blockU fixedU blockdU bs layers
                  (seq 0 (free_parameters_num bs layers)) None = Some g ->
      evaluate A one mul dag Sc ev obs blockU fixedU bs layers
               (seq 0 (free_parameters_num bs layers)) = Some c ->
      j < free_parameters_num bs layers ->
      nth_error g j = Some (D j c).
  Proof.
    destruct H as (h1&h2&h3&h4&h5&h6&h7&h8&h9&h10&h11&h12&h13&h14&h15).
    exact (jac_entry A zero one add mul dag Sc ev obs blockU fixedU blockdU d D
                     h1 h2 h3 h4 h5 h6 h7 h8 h9 h10 h11 h12 h13 h14 h15).
  Qed.

  (* requesting a subset: exactly the requested in-range indices, in increasing order *)
  Lemma alg_jac_subset_length : forall bs layers l g,
      1 <= layers -> forallb ok_kind bs = true ->
      let L := free_parameters_num bs layers in
      compute_jac A one add mul dag Sc ev obs blockU fixedU blockdU bs layers (seq 0 L) (Some l) = Some g ->
      length g = length (filter (fun j => mem j l) (seq 0 L)).
  Proof.
    intros bs layers l g Hl Hok L Hg.
    destruct (alg_jac_correct bs layers (Some l) Hl Hok) as [c [_ H2]].
    fold L in H2. rewrite H2 in Hg. injection Hg as <-. rewrite map_length. reflexivity.
  Qed.
End Restate.

(* the hypotheses are satisfiable: 2x2 integer matrices with an inner derivation *)
Lemma M2_diff_algebra :
  diff_algebra M2 Mzero Mone Madd Mmul Mdag M2 (fun x => x) Mobs MblockU MfixedU MblockdU Md Md.
Proof.
  unfold diff_algebra.
  exact (conj Madd_0_l (conj Madd_0_r (conj Mmul_1_l (conj Mmul_1_r (conj Mmul_assoc
        (conj Mmul_0_l (conj Mmul_0_r (conj Md_mul (conj Md_one (conj Md_dag (conj Md_obs
        (conj Md_fixed (conj Md_block_in (conj Md_block_out MD_ev)))))))))))))).
Qed.
