(* C02 -- top-level corollaries, refutations of the unguarded / unfixed statements, and the facts that make
   the examples of Props/C02.v go through (all on the lawful one-qubit instance of Proofs/SimTiny.v). *)
From Coq Require Import List Arith NArith Bool ZArith QArith Qcanon Lia Field.
From QV Require Import Model.Sim Spec.Branch Proofs.SimLaws Proofs.SimCond Proofs.SimRun Proofs.SimStats Proofs.SimDM Proofs.SimDMB Proofs.SimTiny.
Import ListNotations.

(* ---- the probabilities reported by run_statistics sum to one ---------------------------------------- *)
Section Sum.
Variable X : Sys.
Hypothesis L : SysLaws X.

Lemma reported_sum_one : forall (c : circ X) s0 cbarg h,
  wf X (c_ncb X c) (c_ops X c) = true -> valid_arg h cbarg -> nrm X s0 = f1 X ->
  clear_all X (c_ops X c) s0 (init_cbits (c_ncb X c) (arg_val h cbarg)) = true ->
  exists h' es, run_statistics X false c s0 cbarg h = Ok (h', es) /\
                fsum X (map (fun e => snd (fst e)) es) = f1 X.
Proof.
  intros c s0 cbarg h Hwf V Hn Hcl.
  destruct (run_statistics_spec X L c s0 cbarg h Hwf V Hn Hcl) as [h' [es [Hrun [_ [Hview _]]]]].
  exists h', es. split; [exact Hrun|].
  set (cb0 := init_cbits (c_ncb X c) (arg_val h cbarg)) in *.
  match goal with |- fsum X ?l = _ =>
    replace l with (map (fun v : option (St X) * F X * option (list nat) => snd (fst v)) (map (view X h') es))
      by (rewrite map_map; reflexivity) end.
  rewrite Hview, map_map. cbn [spec_view fst snd].
  rewrite (fsum_possible X L c s0 cb0), (born_sum X L). exact Hn.
Qed.
End Sum.

(* ---- refutations ---------------------------------------------------------------------------------------- *)
Local Open Scope Qc_scope.

Lemma ket0_nrm : nrm tiny ket0 = 1.
Proof. cbn. unfold t_nrm. cbn [tk ta tb ket0]. ring. Qed.

(* (a) the code of the unchanged tree (alias := true): X if c0 == 1; measure -> c0 on |0> with cbits = [1].
   The only branch has probability 1 (the gate fires, outcome 1, bits [1]); the shipped run_statistics
   returns NO branch at all and leaves the caller's list at [0]. *)
Definition alias_circ : circ tiny :=
  mkCirc [ OGate (X:=tiny) GX (Some ([0%nat], 1%N)); OMeas (X:=tiny) tt (Some 0%nat) ] 1.

Lemma run_stats_alias_refuted :
  exists (c : circ tiny) s0 cb,
    wf tiny (c_ncb tiny c) (c_ops tiny c) = true /\ nrm tiny s0 = 1 /\
    clear_all tiny (c_ops tiny c) s0 (init_cbits (c_ncb tiny c) (Some cb)) = true /\
    exists h' es, run_statistics tiny true c s0 (Some 0%nat) [cb] = Ok (h', es) /\
      map (view tiny h') es <> map (spec_view tiny c s0 (init_cbits (c_ncb tiny c) (Some cb)))
                                   (filter (possible tiny c s0 (init_cbits (c_ncb tiny c) (Some cb)))
                                           (all_records (nmeas tiny (c_ops tiny c)))).
Proof.
  exists alias_circ, ket0, [1%nat].
  split; [vm_compute; reflexivity|]. split; [exact ket0_nrm|]. split; [vm_compute; reflexivity|].
  eexists. eexists. split; [vm_compute; reflexivity|]. vm_compute. discriminate.
Qed.

(* ... and a single run of the shipped code writes into the caller's list: measure -> c0 on |0> with cbits = [1] *)
Lemma run_alias_mutates_caller :
  exists (c : circ tiny) s0 cb h' e,
    wf tiny (c_ncb tiny c) (c_ops tiny c) = true /\
    run tiny true c s0 (Some 0%nat) (Some [false]) (fun _ => false) [cb] = Ok (h', e) /\ hget h' 0 <> Some cb.
Proof.
  exists (mkCirc [ OMeas (X:=tiny) tt (Some 0%nat) ] 1), ket0, [1%nat]. eexists. eexists.
  split; [vm_compute; reflexivity|]. split; [vm_compute; reflexivity|]. vm_compute. discriminate.
Qed.

(* (b) density-matrix mode with a gate conditioned on a measured bit: H; measure -> c0; X if c0 == 1 on |0>.
   Both branches end in |0>, the mixture is |0><0|; the code BEFORE fixes/C02-dm-classical-control.diff (dm_run_orig:
   conditions tested against the initial register) returns the maximally mixed state. *)
Definition dm_bad_circ : circ tiny :=
  mkCirc [ OGate (X:=tiny) GH None; OMeas (X:=tiny) tt (Some 0%nat); OGate (X:=tiny) GX (Some ([0%nat], 1%N)) ] 1.

Lemma dm_is_mixture_refuted :
  exists (c : circ tiny) s0,
    wf tiny (c_ncb tiny c) (c_ops tiny c) = true /\ nrm tiny s0 = 1 /\
    dm_clear tiny (c_ops tiny c) (init_cbits (c_ncb tiny c) None) (dm_of tiny s0) = true /\
    dm_safe tiny (c_ops tiny c) = false /\
    exists h' rho p ref, dm_run_orig tiny false c (dm_of tiny s0) None [] = Ok (h', (rho, p, ref)) /\
      rho <> mixture tiny (c_ops tiny c) s0 (init_cbits (c_ncb tiny c) None).
Proof.
  exists dm_bad_circ, ket0.
  split; [vm_compute; reflexivity|]. split; [exact ket0_nrm|]. split; [vm_compute; reflexivity|].
  split; [vm_compute; reflexivity|].
  eexists. eexists. eexists. eexists. split; [vm_compute; reflexivity|]. vm_compute. discriminate.
Qed.

(* (c) the tolerance guard is necessary: with a tolerance that discards an outcome of probability 1/2 the
   reported probabilities do not sum to one.  (instance = tiny with keepb p := 3/4 < p) *)
Definition tiny_tol : Sys :=
  mkSys Qc 0 1 Qcplus Qcmult Qcminus Qcopp Qcdiv Qcinv Qc_eq_bool Qcle (fun p => posb (p - Q2Qc (3 # 4)))
        tket tgate unit t_gate t_proj t_nrm t_renorm
        tdm t_dm_of (0, 0, 0, 0) t_dadd t_dscale t_dgate t_dproj t_dtr.

Lemma born_sum_one_unguarded_refuted :
  exists (c : circ tiny_tol) s0,
    wf tiny_tol (c_ncb tiny_tol c) (c_ops tiny_tol c) = true /\ nrm tiny_tol s0 = 1 /\
    clear_all tiny_tol (c_ops tiny_tol c) s0 (init_cbits (c_ncb tiny_tol c) None) = false /\
    exists h' es, run_statistics tiny_tol false c s0 None [] = Ok (h', es) /\
                  fsum tiny_tol (map (fun e => snd (fst e)) es) <> 1.
Proof.
  exists (mkCirc [ OGate (X:=tiny_tol) GH None; OMeas (X:=tiny_tol) tt (Some 0%nat) ] 1), ket0.
  split; [vm_compute; reflexivity|]. split; [exact ket0_nrm|]. split; [vm_compute; reflexivity|].
  eexists. eexists. split; [vm_compute; reflexivity|]. vm_compute. discriminate.
Qed.

(* ---- facts about the example inputs ---------------------------------------------------------------------- *)
Lemma ex_wf : wf tiny 2 ex_ops = true. Proof. vm_compute. reflexivity. Qed.
Lemma ex_clear_all : clear_all tiny ex_ops ket0 (init_cbits 2 None) = true. Proof. vm_compute. reflexivity. Qed.
Lemma ex_clear_11 : clear tiny ex_ops [true; true] ket0 (init_cbits 2 None) = true. Proof. vm_compute. reflexivity. Qed.
Lemma ex_clear_10 : clear tiny ex_ops [true; false] ket0 (init_cbits 2 None) = true. Proof. vm_compute. reflexivity. Qed.
Lemma ex2_wf : wf tiny 2 ex_ops2 = true. Proof. vm_compute. reflexivity. Qed.
Lemma ex2_clear_all : clear_all tiny ex_ops2 ket0 (init_cbits 2 (Some [1%nat; 0%nat])) = true. Proof. vm_compute. reflexivity. Qed.
Lemma ex3_wf : wf tiny 2 ex_ops3 = true. Proof. vm_compute. reflexivity. Qed.
Lemma ex3_safe : dm_safe tiny ex_ops3 = true. Proof. vm_compute. reflexivity. Qed.
Lemma ex3_clear : dm_clear tiny ex_ops3 (init_cbits 2 (Some [0%nat; 1%nat])) (dm_of tiny ket0) = true. Proof. vm_compute. reflexivity. Qed.
Lemma ex3_guard : dm_guard tiny 2 ex_ops3 (init_cbits 2 (Some [0%nat; 1%nat])) (dm_of tiny ket0) = true. Proof. vm_compute. reflexivity. Qed.
Lemma dm_bad_wf : wf tiny 1 (c_ops tiny dm_bad_circ) = true. Proof. vm_compute. reflexivity. Qed.
Lemma dm_bad_guard : dm_guard tiny 1 (c_ops tiny dm_bad_circ) (init_cbits 1 None) (dm_of tiny ket0) = true. Proof. vm_compute. reflexivity. Qed.
Lemma dm_bad_branching : dm_branching tiny (c_ops tiny dm_bad_circ) = true. Proof. reflexivity. Qed.
(* the conditioned gates of the examples do fire in some branches and not in others *)
Lemma ex_branches_differ :
  bcbits tiny ex_ops [true; false] ket0 [0%nat; 0%nat] = [1%nat; 0%nat] /\
  bcbits tiny ex_ops [false; false] ket0 [0%nat; 0%nat] = [0%nat; 0%nat] /\
  possible tiny ex_circ ket0 [0%nat; 0%nat] [true; false] = true /\
  possible tiny ex_circ ket0 [0%nat; 0%nat] [false; false] = true /\
  possible tiny ex_circ ket0 [0%nat; 0%nat] [true; true] = false.
Proof. repeat split; vm_compute; reflexivity. Qed.

Lemma ex_cond_fact : check_cc [1%nat; 0%nat] 2%N (Some [0%nat; 1%nat; 1%nat]) = Ok (cond_true [1%nat; 0%nat] 2%N [0%nat; 1%nat; 1%nat])
  /\ cond_true [1%nat; 0%nat] 2%N [0%nat; 1%nat; 1%nat] = true /\ cond_true [0%nat; 1%nat] 2%N [0%nat; 1%nat; 1%nat] = false.
Proof. repeat split; vm_compute; reflexivity. Qed.
