(* C19 -- proofs about Model/Vqa.v: the (fixed) compute_jac returns, for every block structure,
   layer count and requested index set, exactly the formal partial derivatives of the cost. *)
From Coq Require Import List Arith Bool Lia.
From QV Require Import Model.Vqa.
Import ListNotations.

(* ------------------------------------------------------------------------------------------- *)
(* list facts                                                                                   *)
(* ------------------------------------------------------------------------------------------- *)
Lemma skipn_seq' : forall i s len, skipn i (seq s len) = seq (s + i) (len - i).
Proof.
  induction i as [|i IH]; intros s len.
  - rewrite Nat.add_0_r, Nat.sub_0_r. reflexivity.
  - destruct len as [|len]; [reflexivity|].
    cbn [seq skipn]. rewrite IH. f_equal. lia.
Qed.

Lemma firstn_seq' : forall n s len, n <= len -> firstn n (seq s len) = seq s n.
Proof.
  induction n as [|n IH]; intros s len Hle; [reflexivity|].
  destruct len as [|len]; [lia|].
  cbn [seq firstn]. rewrite IH by lia. reflexivity.
Qed.

Lemma pyslice_seq : forall L i n, i + n <= L -> pyslice (seq 0 L) i n = seq i n.
Proof.
  intros L i n H. unfold pyslice. rewrite skipn_seq'. apply firstn_seq'. lia.
Qed.

Lemma map_add_seq : forall i n s, map (Nat.add i) (seq s n) = seq (i + s) n.
Proof.
  intros i n. induction n as [|n IH]; intros s; [reflexivity|].
  cbn [seq map]. rewrite IH. f_equal. f_equal. lia.
Qed.

Lemma filter_map_comm : forall {X Y} (g : X -> Y) (f : Y -> bool) (l : list X),
    filter f (map g l) = map g (filter (fun x => f (g x)) l).
Proof.
  intros X Y g f l. induction l as [|x l IH]; [reflexivity|].
  cbn [map filter]. destruct (f (g x)); cbn [map]; rewrite IH; reflexivity.
Qed.

Lemma mem_seq_true : forall j L, j < L -> mem j (seq 0 L) = true.
Proof.
  intros j L H. unfold mem. apply existsb_exists. exists j. split.
  - apply in_seq. lia.
  - apply Nat.eqb_refl.
Qed.

Lemma filter_all_true : forall {X} (f : X -> bool) (l : list X),
    (forall x, In x l -> f x = true) -> filter f l = l.
Proof.
  intros X f l. induction l as [|x l IH]; intros H; [reflexivity|].
  cbn [filter]. rewrite (H x (or_introl eq_refl)). f_equal. apply IH.
  intros y Hy. apply H. right. exact Hy.
Qed.

(* ------------------------------------------------------------------------------------------- *)
(* block series, parameter counts, flat form of construct_circuit                               *)
(* ------------------------------------------------------------------------------------------- *)
Lemma sum_params_app : forall a b, sum_params (a ++ b) = sum_params a + sum_params b.
Proof.
  induction a as [|x a IH]; intros b; [reflexivity|].
  cbn [app sum_params fold_right]. fold (sum_params (a ++ b)). fold (sum_params a).
  rewrite IH. lia.
Qed.

Lemma sum_params_cons : forall ib r, sum_params (ib :: r) = n_params (snd ib) + sum_params r.
Proof. reflexivity. Qed.

Lemma sum_params_concat_repeat : forall l m, sum_params (concat (repeat l m)) = sum_params l * m.
Proof.
  intros l m. induction m as [|m IH]; [cbn; lia|].
  cbn [repeat concat]. rewrite sum_params_app, IH. lia.
Qed.

Lemma sum_params_split : forall l,
    sum_params l = sum_params (filter is_initial l) + sum_params (filter non_initial l).
Proof.
  induction l as [|ib l IH]; [reflexivity|].
  cbn [filter]. unfold non_initial, is_initial in *.
  destruct (b_initial (snd ib)); cbn [negb]; rewrite !sum_params_cons; rewrite IH; lia.
Qed.

Lemma series_sum_params : forall bs layers,
    1 <= layers -> sum_params (block_series bs layers) = free_parameters_num bs layers.
Proof.
  intros bs layers H. unfold block_series, free_parameters_num.
  rewrite sum_params_app, sum_params_concat_repeat, (sum_params_split (iblocks bs)).
  destruct layers as [|m]; [lia|]. replace (S m - 1) with m by lia. lia.
Qed.

(* the gates of a flat series starting at counter i *)
Fixpoint flat_gates (angles : list nat) (ser : list (nat * block)) (i : nat) : list gate :=
  match ser with
  | [] => []
  | (id, b) :: rest =>
      if is_native b then GNative id b :: flat_gates angles rest i
      else let n := n_params b in
           GUser id b (if 0 <? n then Some (pyslice angles i n) else None)
                 :: flat_gates angles rest (i + n)
  end.

Lemma native_no_params : forall b, is_native b = true -> n_params b = 0.
Proof. intros [k ini]. unfold is_native, n_params. cbn. destruct k; try discriminate; reflexivity. Qed.

Lemma flat_gates_app : forall angles a b i,
    flat_gates angles (a ++ b) i = flat_gates angles a i ++ flat_gates angles b (i + sum_params a).
Proof.
  intros angles a. induction a as [|[id bl] a IH]; intros b i.
  - cbn. rewrite Nat.add_0_r. reflexivity.
  - cbn [app flat_gates]. rewrite sum_params_cons. cbn [snd].
    destruct (is_native bl) eqn:Hn.
    + rewrite (native_no_params _ Hn). cbn [Nat.add]. rewrite IH. reflexivity.
    + rewrite IH. cbn [app]. f_equal. f_equal. f_equal. lia.
Qed.

Lemma cc_blocks_first : forall angles ibs i,
    cc_blocks angles true ibs i = (i + sum_params ibs, flat_gates angles ibs i).
Proof.
  intros angles ibs. induction ibs as [|[id b] r IH]; intros i.
  - cbn. rewrite Nat.add_0_r. reflexivity.
  - cbn [cc_blocks flat_gates negb]. rewrite andb_false_r. rewrite sum_params_cons. cbn [snd].
    destruct (is_native b) eqn:Hn.
    + rewrite IH. rewrite (native_no_params _ Hn). reflexivity.
    + rewrite IH. f_equal. lia.
Qed.

Lemma cc_blocks_later : forall angles ibs i,
    cc_blocks angles false ibs i =
    (i + sum_params (filter non_initial ibs), flat_gates angles (filter non_initial ibs) i).
Proof.
  intros angles ibs. induction ibs as [|[id b] r IH]; intros i.
  - cbn. rewrite Nat.add_0_r. reflexivity.
  - cbn [cc_blocks filter negb]. rewrite andb_true_r.
    replace (non_initial (id, b)) with (negb (b_initial b)) by reflexivity.
    destruct (b_initial b) eqn:Hi; cbn [negb].
    + apply IH.
    + cbn [flat_gates]. rewrite sum_params_cons. cbn [snd].
      destruct (is_native b) eqn:Hn.
      * rewrite IH. rewrite (native_no_params _ Hn). reflexivity.
      * rewrite IH. f_equal. lia.
Qed.

Lemma cc_layers_later : forall angles ibs r ln i,
    1 <= ln ->
    cc_layers angles ibs r ln i =
    flat_gates angles (concat (repeat (filter non_initial ibs) r)) i.
Proof.
  intros angles ibs r. induction r as [|r IH]; intros ln i Hln; [reflexivity|].
  cbn [cc_layers repeat concat].
  destruct ln as [|ln]; [lia|]. cbn [Nat.eqb].
  rewrite cc_blocks_later. rewrite IH by lia. rewrite flat_gates_app. reflexivity.
Qed.

Lemma construct_flat : forall bs layers angles,
    1 <= layers ->
    construct_circuit bs layers angles = flat_gates angles (block_series bs layers) 0.
Proof.
  intros bs layers angles H. unfold construct_circuit, block_series.
  destruct layers as [|m]; [lia|]. replace (S m - 1) with m by lia.
  cbn [cc_layers Nat.eqb]. rewrite cc_blocks_first. rewrite cc_layers_later by lia.
  rewrite flat_gates_app. reflexivity.
Qed.

(* kinds for which the cost can be evaluated and differentiated *)
Definition ok_kind (b : block) : bool :=
  match b_kind b with
  | KHam => true | KPH (S _) => true | KUnit => true | KNative false => true | _ => false
  end.

Lemma iblocks_ok : forall bs, forallb ok_kind bs = true ->
                              forall ib, In ib (iblocks bs) -> ok_kind (snd ib) = true.
Proof.
  intros bs H [id b] Hin. unfold iblocks in Hin. apply in_combine_r in Hin.
  rewrite forallb_forall in H. apply H. exact Hin.
Qed.

Lemma series_ok : forall bs layers, forallb ok_kind bs = true ->
                                    forall ib, In ib (block_series bs layers) -> ok_kind (snd ib) = true.
Proof.
  intros bs layers H ib Hin. unfold block_series in Hin. apply in_app_or in Hin.
  destruct Hin as [Hin|Hin]; [eapply iblocks_ok; eauto|].
  apply in_concat in Hin. destruct Hin as [l [Hl Hin]].
  apply repeat_spec in Hl. subst l. apply filter_In in Hin. destruct Hin as [Hin _].
  eapply iblocks_ok; eauto.
Qed.

(* ------------------------------------------------------------------------------------------- *)
(* the algebra                                                                                  *)
(* ------------------------------------------------------------------------------------------- *)
Section Alg.
  Variable A : Type.
  Variables (zero one : A) (add mul : A -> A -> A) (dag : A -> A).
  Variable Sc : Type.
  Variable ev : A -> Sc.
  Variable obs : A.
  Variable blockU : nat -> list nat -> A.
  Variable fixedU : nat -> A.
  Variable blockdU : nat -> list nat -> nat -> A.
  Variable d : nat -> A -> A.          (* formal partial derivative w.r.t. parameter j on operators *)
  Variable D : nat -> Sc -> Sc.        (* ... on scalars *)

  Hypothesis add_0_l : forall x, add zero x = x.
  Hypothesis add_0_r : forall x, add x zero = x.
  Hypothesis mul_1_l : forall x, mul one x = x.
  Hypothesis mul_1_r : forall x, mul x one = x.
  Hypothesis mul_assoc : forall x y z, mul x (mul y z) = mul (mul x y) z.
  Hypothesis mul_0_l : forall x, mul zero x = zero.
  Hypothesis mul_0_r : forall x, mul x zero = zero.
  Hypothesis d_mul : forall j x y, d j (mul x y) = add (mul (d j x) y) (mul x (d j y)).
  Hypothesis d_one : forall j, d j one = zero.
  Hypothesis d_dag : forall j x, d j (dag x) = dag (d j x).
  Hypothesis d_obs : forall j, d j obs = zero.
  Hypothesis d_fixed : forall j id, d j (fixedU id) = zero.
  (* the block-level derivative formula (ASSUMED; validated numerically by the harness):
     the unitary of block id at distinct named angles a depends only on those angles, and its
     derivative w.r.t. the t-th of them is what get_unitary_derivative(a, t) returns *)
  Hypothesis d_block_in : forall id a t j, NoDup a -> nth_error a t = Some j ->
                                           d j (blockU id a) = blockdU id a t.
  Hypothesis d_block_out : forall id a j, ~ In j a -> d j (blockU id a) = zero.
  Hypothesis D_ev : forall j x, D j (ev x) = ev (d j x).

  Notation get_unitary := (get_unitary A blockU fixedU).
  Notation get_unitary_derivative := (get_unitary_derivative A blockdU).
  Notation gate_prop := (gate_prop A blockU fixedU).
  Notation propagators := (propagators A blockU fixedU).
  Notation gsp := (gate_sequence_product A one mul).
  Notation U_prods := (U_prods A one mul).
  Notation U_prods_back := (U_prods_back A one mul).
  Notation prods_fwd := (prods_fwd A mul).
  Notation prods_bwd := (prods_bwd A mul).
  Notation evaluate := (evaluate A one mul dag Sc ev obs blockU fixedU).
  Notation cost_derivative := (cost_derivative A add mul dag Sc ev obs).
  Notation modify_unitary := (modify_unitary A mul).
  Notation compute_jac := (compute_jac A one add mul dag Sc ev obs blockU fixedU blockdU).

  (* P_{n-1} ... P_0 *)
  Fixpoint prodR (l : list A) : A := match l with [] => one | p :: r => mul (prodR r) p end.
  (* P_0 P_1 ... *)
  Fixpoint prodL (l : list A) : A := match l with [] => one | p :: r => mul p (prodL r) end.

  Lemma gsp_prodR_gen : forall l x, fold_left (fun acc p => mul p acc) l x = mul (prodR l) x.
  Proof.
    induction l as [|p r IH]; intros x; cbn [fold_left prodR].
    - rewrite mul_1_l. reflexivity.
    - rewrite IH. rewrite mul_assoc. reflexivity.
  Qed.

  Lemma gsp_prodR : forall l, gsp l = prodR l.
  Proof. intros l. unfold gate_sequence_product. rewrite gsp_prodR_gen. apply mul_1_r. Qed.

  Lemma prodR_app : forall a b, prodR (a ++ b) = mul (prodR b) (prodR a).
  Proof.
    induction a as [|x a IH]; intros b; cbn [app prodR].
    - rewrite mul_1_r. reflexivity.
    - rewrite IH. rewrite mul_assoc. reflexivity.
  Qed.

  Lemma prodL_app : forall a b, prodL (a ++ b) = mul (prodL a) (prodL b).
  Proof.
    induction a as [|x a IH]; intros b; cbn [app prodL].
    - rewrite mul_1_l. reflexivity.
    - rewrite IH. rewrite mul_assoc. reflexivity.
  Qed.

  Lemma prodL_rev : forall l, prodL (rev l) = prodR l.
  Proof.
    induction l as [|x l IH]; [reflexivity|].
    cbn [rev prodR]. rewrite prodL_app, IH. cbn [prodL]. rewrite mul_1_r. reflexivity.
  Qed.

  Lemma fwd_nth : forall props acc k,
      k <= length props ->
      nth_error (acc :: prods_fwd props acc) k = Some (mul (prodR (firstn k props)) acc).
  Proof.
    induction props as [|p r IH]; intros acc k Hk.
    - cbn in Hk. assert (k = 0) by lia. subst k. cbn. rewrite mul_1_l. reflexivity.
    - destruct k as [|k].
      + cbn. rewrite mul_1_l. reflexivity.
      + cbn [nth_error Vqa.prods_fwd]. cbn in Hk. rewrite IH by lia.
        cbn [firstn prodR]. rewrite mul_assoc. reflexivity.
  Qed.

  Lemma bwd_nth : forall l acc m,
      m <= length l ->
      nth_error (acc :: prods_bwd l acc) m = Some (mul acc (prodL (firstn m l))).
  Proof.
    induction l as [|p r IH]; intros acc m Hm.
    - cbn in Hm. assert (m = 0) by lia. subst m. cbn. rewrite mul_1_r. reflexivity.
    - destruct m as [|m].
      + cbn. rewrite mul_1_r. reflexivity.
      + cbn [nth_error Vqa.prods_bwd]. cbn in Hm. rewrite IH by lia.
        cbn [firstn prodL]. rewrite mul_assoc. reflexivity.
  Qed.

  Lemma U_prods_length : forall props, length (U_prods props) - 1 = length props.
  Proof.
    intros props. unfold Vqa.U_prods. cbn [length].
    assert (H : forall l acc, length (prods_fwd l acc) = length l).
    { induction l as [|p r IH]; intros acc; [reflexivity|]. cbn. rewrite IH. reflexivity. }
    rewrite H. lia.
  Qed.

  (* modify_unitary at the position of p in pre ++ p :: post *)
  Lemma modify_zip : forall pre p post X,
      modify_unitary (U_prods (pre ++ p :: post)) (U_prods_back (pre ++ p :: post))
                     (length (pre ++ p :: post)) (length pre) X
      = Some (mul (mul (prodR post) X) (prodR pre)).
  Proof.
    intros pre p post X. unfold Vqa.modify_unitary.
    rewrite app_length. cbn [length].
    destruct (length pre + S (length post) <=? length pre) eqn:E;
      [apply Nat.leb_le in E; lia|].
    replace (length pre + S (length post) - 1 - length pre) with (length post) by lia.
    unfold Vqa.U_prods_back, Vqa.U_prods.
    rewrite bwd_nth by (rewrite rev_length, app_length; cbn [length]; lia).
    rewrite fwd_nth by (rewrite app_length; cbn [length]; lia).
    rewrite mul_1_l, mul_1_r.
    assert (H1 : firstn (length post) (rev (pre ++ p :: post)) = rev post).
    { rewrite rev_app_distr. cbn [rev]. rewrite <- app_assoc.
      rewrite <- (rev_length post).
      rewrite <- (Nat.add_0_r (length (rev post))).
      rewrite firstn_app_2. cbn [firstn]. apply app_nil_r. }
    assert (H2 : firstn (length pre) (pre ++ p :: post) = pre).
    { rewrite <- (Nat.add_0_r (length pre)). rewrite firstn_app_2. cbn [firstn]. apply app_nil_r. }
    rewrite H1, H2, prodL_rev. reflexivity.
  Qed.

  Lemma d_prodR_zero : forall j l, (forall q, In q l -> d j q = zero) -> d j (prodR l) = zero.
  Proof.
    intros j l. induction l as [|p r IH]; intros H; cbn [prodR].
    - apply d_one.
    - rewrite d_mul. rewrite IH by (intros q Hq; apply H; right; exact Hq).
      rewrite (H p (or_introl eq_refl)). rewrite mul_0_l, mul_0_r. apply add_0_l.
  Qed.

  (* Leibniz over the product when only one factor depends on parameter j *)
  Lemma d_prodR_zip : forall j pre p post,
      (forall q, In q pre -> d j q = zero) -> (forall q, In q post -> d j q = zero) ->
      d j (prodR (pre ++ p :: post)) = mul (mul (prodR post) (d j p)) (prodR pre).
  Proof.
    intros j pre p post Hpre Hpost.
    rewrite prodR_app. cbn [prodR].
    rewrite d_mul. rewrite (d_prodR_zero j pre Hpre). rewrite mul_0_r, add_0_r.
    rewrite d_mul. rewrite (d_prodR_zero j post Hpost). rewrite mul_0_l, add_0_l.
    reflexivity.
  Qed.

  (* d_j of the cost = what cost_derivative computes from d_j U *)
  Lemma d_cost : forall j U,
      D j (ev (mul (mul (dag U) obs) U)) = cost_derivative U (d j U).
  Proof.
    intros j U. unfold Vqa.cost_derivative. rewrite D_ev. f_equal.
    rewrite d_mul. rewrite d_mul. rewrite d_dag, d_obs. rewrite mul_0_r, add_0_r. reflexivity.
  Qed.

  (* --------------------------------------------------------------------------------------- *)
  (* propagators of a flat series                                                              *)
  (* --------------------------------------------------------------------------------------- *)
  Definition prop_of (i : nat) (ib : nat * block) : A :=
    if is_native (snd ib) || is_unitary (snd ib) then fixedU (fst ib)
    else blockU (fst ib) (seq i (n_params (snd ib))).

  Fixpoint props_from (ser : list (nat * block)) (i : nat) : list A :=
    match ser with
    | [] => []
    | ib :: r => prop_of i ib :: props_from r (i + n_params (snd ib))
    end.

  Lemma props_from_length : forall ser i, length (props_from ser i) = length ser.
  Proof. induction ser as [|ib r IH]; intros i; [reflexivity|]. cbn. rewrite IH. reflexivity. Qed.

  Lemma props_from_app : forall a b i,
      props_from (a ++ b) i = props_from a i ++ props_from b (i + sum_params a).
  Proof.
    induction a as [|ib a IH]; intros b i.
    - cbn. rewrite Nat.add_0_r. reflexivity.
    - cbn [app props_from]. rewrite IH. rewrite sum_params_cons. cbn [app]. f_equal. f_equal. f_equal. lia.
  Qed.

  Lemma mapM_flat : forall L ser i,
      (forall ib, In ib ser -> ok_kind (snd ib) = true) ->
      i + sum_params ser <= L ->
      mapM gate_prop (flat_gates (seq 0 L) ser i) = Some (props_from ser i).
  Proof.
    intros L ser. induction ser as [|[id b] r IH]; intros i Hok Hle; [reflexivity|].
    rewrite sum_params_cons in Hle. cbn [snd] in Hle.
    assert (Hb : ok_kind b = true) by (apply (Hok (id, b)); left; reflexivity).
    assert (Hr : forall ib, In ib r -> ok_kind (snd ib) = true) by (intros ib Hin; apply Hok; right; exact Hin).
    cbn [flat_gates props_from snd].
    destruct b as [k ini]. unfold ok_kind in Hb. cbn [b_kind] in Hb.
    destruct k as [ | m | | na | ]; try discriminate.
    - (* KHam *)
      cbn [is_native b_kind n_params Nat.ltb Nat.leb mapM]. change (n_params (mkBlock KHam ini)) with 1 in *.
      rewrite pyslice_seq by lia. cbn [mapM Vqa.gate_prop Vqa.get_unitary length Nat.eqb negb n_params b_kind].
      rewrite IH by (auto; lia). reflexivity.
    - (* KPH (S m) *)
      destruct m as [|m]; [discriminate|].
      change (n_params (mkBlock (KPH (S m)) ini)) with (S m) in *.
      cbn [is_native b_kind Nat.ltb Nat.leb].
      rewrite pyslice_seq by lia.
      cbn [mapM Vqa.gate_prop Vqa.get_unitary n_params b_kind].
      rewrite seq_length, Nat.eqb_refl. cbn [negb].
      rewrite IH by (auto; lia). reflexivity.
    - (* KUnit *)
      change (n_params (mkBlock KUnit ini)) with 0 in *.
      cbn [is_native b_kind Nat.ltb Nat.leb mapM Vqa.gate_prop Vqa.get_unitary is_unitary].
      rewrite IH by (auto; lia). reflexivity.
    - (* KNative false *)
      destruct na; [discriminate|].
      change (n_params (mkBlock (KNative false) ini)) with 0 in *.
      cbn [is_native b_kind mapM Vqa.gate_prop].
      rewrite Nat.add_0_r.
      rewrite IH by (auto; lia). reflexivity.
  Qed.

  Lemma d_prop_of_out : forall j i ib, (j < i \/ i + n_params (snd ib) <= j) -> d j (prop_of i ib) = zero.
  Proof.
    intros j i ib H. unfold prop_of.
    destruct (is_native (snd ib) || is_unitary (snd ib)); [apply d_fixed|].
    apply d_block_out. rewrite in_seq. lia.
  Qed.

  Lemma d_props_from_out : forall j ser i q,
      In q (props_from ser i) -> (j < i \/ i + sum_params ser <= j) -> d j q = zero.
  Proof.
    intros j ser. induction ser as [|ib r IH]; intros i q Hin Hj; [destruct Hin|].
    rewrite sum_params_cons in Hj. cbn [props_from] in Hin. destruct Hin as [Hq|Hin].
    - subst q. apply d_prop_of_out. lia.
    - apply (IH _ _ Hin). lia.
  Qed.

  Lemma d_prop_of_in : forall i id b t,
      ok_kind b = true -> t < n_params b ->
      d (i + t) (prop_of i (id, b)) = blockdU id (seq i (n_params b)) t.
  Proof.
    intros i id b t Hok Ht. unfold prop_of. cbn [fst snd].
    destruct (is_native b || is_unitary b) eqn:E.
    - exfalso. destruct b as [k ini]. unfold is_native, is_unitary, n_params in *. cbn [b_kind] in *.
      destruct k; cbn in E; try discriminate; lia.
    - apply d_block_in; [apply seq_NoDup|].
      rewrite nth_error_nth' with (d := 0) by (rewrite seq_length; exact Ht).
      rewrite seq_nth by exact Ht. reflexivity.
  Qed.

  (* a parameter vector that is too short is rejected (a block receives a short slice) *)
  Lemma pyslice_length : forall La i n, length (pyslice (seq 0 La) i n) = Nat.min n (La - i).
  Proof. intros. unfold pyslice. rewrite firstn_length, skipn_length, seq_length. reflexivity. Qed.

  Lemma mapM_flat_short : forall La ser i,
      (forall ib, In ib ser -> ok_kind (snd ib) = true) ->
      i <= La -> La < i + sum_params ser ->
      mapM gate_prop (flat_gates (seq 0 La) ser i) = None.
  Proof.
    intros La ser. induction ser as [|[id b] r IH]; intros i Hok Hi Hlt.
    - cbn in Hlt. lia.
    - rewrite sum_params_cons in Hlt. cbn [snd] in Hlt.
      assert (Hb : ok_kind b = true) by (apply (Hok (id, b)); left; reflexivity).
      assert (Hr : forall ib, In ib r -> ok_kind (snd ib) = true) by (intros ib Hin; apply Hok; right; exact Hin).
      destruct (Nat.le_gt_cases (i + n_params b) La) as [Hfit|Hover].
      + (* this block fits: it evaluates, the failure is further on *)
        assert (Hhead : mapM gate_prop (flat_gates (seq 0 La) [(id, b)] i) = Some (props_from [(id, b)] i)).
        { apply mapM_flat.
          - intros ib [<-|[]]. exact Hb.
          - rewrite sum_params_cons. cbn [snd sum_params fold_right]. lia. }
        change ((id, b) :: r) with ([(id, b)] ++ r). rewrite flat_gates_app.
        rewrite sum_params_cons. cbn [snd sum_params fold_right]. rewrite Nat.add_0_r.
        assert (Htail : mapM gate_prop (flat_gates (seq 0 La) r (i + n_params b)) = None)
          by (apply IH; [exact Hr|exact Hfit|lia]).
        revert Hhead Htail. generalize (flat_gates (seq 0 La) [(id, b)] i) as g1.
        generalize (flat_gates (seq 0 La) r (i + n_params b)) as g2.
        generalize (props_from [(id, b)] i) as p1.
        intros p1 g2 g1. revert p1. induction g1 as [|g g1 IHg]; intros p1 H1 H2.
        * cbn [app]. exact H2.
        * cbn [app mapM] in *. destruct (gate_prop g); [|discriminate].
          destruct (mapM gate_prop g1) as [ys|] eqn:E; [|discriminate].
          rewrite (IHg ys eq_refl H2). reflexivity.
      + (* this block receives a short slice *)
        cbn [flat_gates].
        destruct b as [k ini]. unfold ok_kind in Hb. cbn [b_kind] in Hb.
        destruct k as [ | m | | na | ]; try discriminate.
        * change (n_params (mkBlock KHam ini)) with 1 in *.
          cbn [is_native b_kind Nat.ltb Nat.leb mapM Vqa.gate_prop Vqa.get_unitary].
          rewrite pyslice_length. change (n_params (mkBlock KHam ini)) with 1.
          replace (Nat.min 1 (La - i)) with 0 by lia. reflexivity.
        * destruct m as [|m]; [discriminate|].
          change (n_params (mkBlock (KPH (S m)) ini)) with (S m) in *.
          cbn [is_native b_kind Nat.ltb Nat.leb mapM Vqa.gate_prop Vqa.get_unitary].
          rewrite pyslice_length. change (n_params (mkBlock (KPH (S m)) ini)) with (S m).
          destruct (Nat.min (S m) (La - i) =? S m) eqn:E; [apply Nat.eqb_eq in E; lia|]. reflexivity.
        * change (n_params (mkBlock KUnit ini)) with 0 in *. lia.
        * change (n_params (mkBlock (KNative na) ini)) with 0 in *. lia.
  Qed.

  Theorem short_vector_rejected : forall bs layers La,
      1 <= layers -> forallb ok_kind bs = true ->
      La < free_parameters_num bs layers ->
      evaluate bs layers (seq 0 La) = None /\
      forall indices, compute_jac bs layers (seq 0 La) indices = None.
  Proof.
    intros bs layers La Hl Hok Hlt.
    assert (Hprops : propagators bs layers (seq 0 La) = None).
    { unfold Vqa.propagators. rewrite construct_flat by exact Hl.
      apply mapM_flat_short; [apply series_ok; exact Hok|lia|].
      rewrite series_sum_params by exact Hl. exact Hlt. }
    split.
    - unfold Vqa.evaluate. rewrite Hprops. reflexivity.
    - intros indices. unfold Vqa.compute_jac, compute_jac_with. rewrite Hprops. reflexivity.
  Qed.

  (* --------------------------------------------------------------------------------------- *)
  (* the Jacobian loop                                                                         *)
  (* --------------------------------------------------------------------------------------- *)
  Section Loop.
    Variable ser : list (nat * block).
    Variable idxs : list nat.
    Hypothesis ser_ok : forall ib, In ib ser -> ok_kind (snd ib) = true.

    Variable La : nat.               (* length of the angle vector handed in *)
    Let L := sum_params ser.
    Hypothesis La_ok : L <= La.
    Let props := props_from ser 0.
    Let U := prodR props.
    Let cost := ev (mul (mul (dag U) obs) U).

    Notation jac_terms :=
      (jac_terms A add mul dag Sc ev obs blockdU (seq 0 La) idxs U (U_prods props) (U_prods_back props)
                 (length props)).

    Lemma entry_ok : forall pre id b post t,
        ser = pre ++ (id, b) :: post -> t < n_params b ->
        exists dB,
          get_unitary_derivative id b (pyslice (seq 0 La) (sum_params pre) (n_params b)) t = Some dB /\
          modify_unitary (U_prods props) (U_prods_back props) (length props) (length pre) dB
          = Some (d (sum_params pre + t) U).
    Proof.
      intros pre id b post t Hser Ht.
      assert (Hok : ok_kind b = true).
      { apply (ser_ok (id, b)). rewrite Hser. apply in_or_app. right. left. reflexivity. }
      assert (HL : L = sum_params pre + (n_params b + sum_params post)).
      { unfold L. rewrite Hser, sum_params_app, sum_params_cons. reflexivity. }
      assert (HLa : sum_params pre + n_params b <= La) by (unfold L in *; lia).
      rewrite pyslice_seq by exact HLa.
      exists (blockdU id (seq (sum_params pre) (n_params b)) t). split.
      - destruct b as [k ini]. unfold ok_kind in Hok. cbn [b_kind] in Hok.
        unfold Vqa.get_unitary_derivative, is_unitary, is_native. cbn [b_kind].
        destruct k as [ | m | | na | ]; try discriminate.
        + change (n_params (mkBlock KHam ini)) with 1 in *. cbn.
          assert (t = 0) by lia. subst t. reflexivity.
        + change (n_params (mkBlock (KPH m) ini)) with m in *. cbn [orb].
          rewrite seq_length, Nat.eqb_refl. cbn [negb].
          destruct (t <? m) eqn:E; [reflexivity|]. apply Nat.ltb_ge in E. lia.
        + change (n_params (mkBlock KUnit ini)) with 0 in *. lia.
        + change (n_params (mkBlock (KNative na) ini)) with 0 in *. lia.
      - assert (Hprops : props = props_from pre 0 ++ prop_of (sum_params pre) (id, b)
                                            :: props_from post (sum_params pre + n_params b)).
        { unfold props. rewrite Hser. rewrite props_from_app. cbn [props_from snd Nat.add]. reflexivity. }
        unfold U. rewrite Hprops.
        replace (length pre) with (length (props_from pre 0)) by apply props_from_length.
        rewrite modify_zip. f_equal.
        rewrite d_prodR_zip.
        + rewrite d_prop_of_in by assumption. reflexivity.
        + intros q Hq. eapply d_props_from_out; [exact Hq|]. right. cbn [Nat.add]. lia.
        + intros q Hq. eapply d_props_from_out; [exact Hq|]. left. lia.
    Qed.

    Lemma jac_terms_ok : forall pre id b post,
        ser = pre ++ (id, b) :: post ->
        forall ts, (forall t, In t ts -> t < n_params b) ->
        jac_terms id b (length pre) (sum_params pre) (n_params b) ts
        = Some (map (fun t => D (sum_params pre + t) cost)
                    (filter (fun t => mem (sum_params pre + t) idxs) ts)).
    Proof.
      intros pre id b post Hser ts. induction ts as [|t r IH]; intros Hts; [reflexivity|].
      cbn [Vqa.jac_terms filter].
      assert (Ht : t < n_params b) by (apply Hts; left; reflexivity).
      assert (Hr : forall t', In t' r -> t' < n_params b) by (intros t' H'; apply Hts; right; exact H').
      destruct (mem (sum_params pre + t) idxs) eqn:E.
      - destruct (entry_ok pre id b post t Hser Ht) as [dB [H1 H2]].
        rewrite H1, H2, (IH Hr). cbn [map]. f_equal. f_equal.
        unfold cost. rewrite d_cost. reflexivity.
      - apply IH. exact Hr.
    Qed.

    Lemma block_entries_ok : forall pre id b post,
        ser = pre ++ (id, b) :: post ->
        block_entries A add mul dag Sc ev obs blockdU (seq 0 La) idxs U (U_prods props)
                      (U_prods_back props) (length props) id b (length pre) (sum_params pre) (n_params b)
        = Some (map (fun j => D j cost)
                    (filter (fun j => mem j idxs) (seq (sum_params pre) (n_params b)))).
    Proof.
      intros pre id b post Hser. unfold Vqa.block_entries.
      rewrite (jac_terms_ok pre id b post Hser) by (intros t Ht; apply in_seq in Ht; lia).
      f_equal.
      replace (seq (sum_params pre) (n_params b))
        with (map (Nat.add (sum_params pre)) (seq 0 (n_params b)))
        by (rewrite map_add_seq; f_equal; lia).
      rewrite filter_map_comm, map_map. reflexivity.
    Qed.

    Lemma jac_loop_ok : forall post pre,
        ser = pre ++ post ->
        jac_loop Sc (block_entries A add mul dag Sc ev obs blockdU (seq 0 La) idxs U (U_prods props)
                                   (U_prods_back props) (length props))
                 post (length pre) (sum_params pre)
        = Some (map (fun j => D j cost)
                    (filter (fun j => mem j idxs) (seq (sum_params pre) (sum_params post)))).
    Proof.
      induction post as [|[id b] post IH]; intros pre Hser; [reflexivity|].
      cbn [Vqa.jac_loop]. rewrite sum_params_cons. cbn [snd].
      assert (Hser' : ser = (pre ++ [(id, b)]) ++ post) by (rewrite <- app_assoc; exact Hser).
      specialize (IH _ Hser'). rewrite app_length, sum_params_app in IH.
      cbn [length] in IH. rewrite sum_params_cons in IH. cbn [snd sum_params fold_right] in IH.
      replace (length pre + 1) with (S (length pre)) in IH by lia.
      rewrite Nat.add_0_r in IH.
      destruct (0 <? n_params b) eqn:E.
      - rewrite (block_entries_ok pre id b post Hser). rewrite IH.
        rewrite seq_app, filter_app, map_app. reflexivity.
      - apply Nat.ltb_ge in E. assert (E0 : n_params b = 0) by lia.
        rewrite E0 in *. rewrite Nat.add_0_r in IH. exact IH.
    Qed.
  End Loop.

  (* --------------------------------------------------------------------------------------- *)
  (* main theorems                                                                             *)
  (* --------------------------------------------------------------------------------------- *)
  Definition requested (indices : option (list nat)) (L : nat) : list nat :=
    match indices with None => seq 0 L | Some l => l end.

  (* angle vectors may be longer than needed (the code ignores the surplus entries) *)
  Theorem jac_correct_long : forall bs layers indices La,
      1 <= layers -> forallb ok_kind bs = true ->
      let L := free_parameters_num bs layers in
      L <= La ->
      exists c,
        evaluate bs layers (seq 0 La) = Some c /\
        compute_jac bs layers (seq 0 La) indices
        = Some (map (fun j => D j c) (filter (fun j => mem j (requested indices La)) (seq 0 L))).
  Proof.
    intros bs layers indices La Hl Hok L HLa.
    pose (ser := block_series bs layers).
    assert (HL : sum_params ser = L) by (apply series_sum_params; exact Hl).
    assert (Hser_ok : forall ib, In ib ser -> ok_kind (snd ib) = true) by (apply series_ok; exact Hok).
    assert (Hprops : propagators bs layers (seq 0 La) = Some (props_from ser 0)).
    { unfold Vqa.propagators. rewrite construct_flat by exact Hl.
      apply mapM_flat; [exact Hser_ok|]. fold ser. lia. }
    exists (ev (mul (mul (dag (prodR (props_from ser 0))) obs) (prodR (props_from ser 0)))).
    split.
    - unfold Vqa.evaluate. rewrite Hprops. rewrite gsp_prodR. reflexivity.
    - unfold Vqa.compute_jac, compute_jac_with. rewrite Hprops. rewrite gsp_prodR.
      rewrite U_prods_length. rewrite seq_length.
      fold ser.
      assert (HLa' : sum_params ser <= La) by lia.
      pose proof (jac_loop_ok ser (requested indices La) Hser_ok La HLa' ser [] eq_refl) as H.
      rewrite HL in H. cbn [length sum_params fold_right] in H.
      unfold requested in *. exact H.
  Qed.

  Theorem jac_correct : forall bs layers indices,
      1 <= layers -> forallb ok_kind bs = true ->
      let L := free_parameters_num bs layers in
      exists c,
        evaluate bs layers (seq 0 L) = Some c /\
        compute_jac bs layers (seq 0 L) indices
        = Some (map (fun j => D j c) (filter (fun j => mem j (requested indices L)) (seq 0 L))).
  Proof.
    intros bs layers indices Hl Hok L.
    exact (jac_correct_long bs layers indices L Hl Hok (le_n _)).
  Qed.

  Corollary jac_full : forall bs layers,
      1 <= layers -> forallb ok_kind bs = true ->
      let L := free_parameters_num bs layers in
      exists c,
        evaluate bs layers (seq 0 L) = Some c /\
        compute_jac bs layers (seq 0 L) None = Some (map (fun j => D j c) (seq 0 L)).
  Proof.
    intros bs layers Hl Hok L.
    destruct (jac_correct bs layers None Hl Hok) as [c [H1 H2]].
    exists c. split; [exact H1|]. fold L in H2. rewrite H2. f_equal. f_equal.
    apply filter_all_true. intros j Hj. apply in_seq in Hj. cbn [requested]. apply mem_seq_true. lia.
  Qed.

  Corollary jac_length : forall bs layers g,
      1 <= layers -> forallb ok_kind bs = true ->
      compute_jac bs layers (seq 0 (free_parameters_num bs layers)) None = Some g ->
      length g = free_parameters_num bs layers.
  Proof.
    intros bs layers g Hl Hok Hg.
    destruct (jac_full bs layers Hl Hok) as [c [_ H2]]. rewrite H2 in Hg.
    injection Hg as <-. rewrite map_length, seq_length. reflexivity.
  Qed.

  Corollary jac_entry : forall bs layers g c j,
      1 <= layers -> forallb ok_kind bs = true ->
      compute_jac bs layers (seq 0 (free_parameters_num bs layers)) None = Some g ->
      evaluate bs layers (seq 0 (free_parameters_num bs layers)) = Some c ->
      j < free_parameters_num bs layers ->
      nth_error g j = Some (D j c).
  Proof.
    intros bs layers g c j Hl Hok Hg Hc Hj.
    destruct (jac_full bs layers Hl Hok) as [c' [H1 H2]].
    rewrite H1 in Hc. injection Hc as <-. rewrite H2 in Hg. injection Hg as <-.
    rewrite nth_error_map.
    rewrite nth_error_nth' with (d := 0) by (rewrite seq_length; exact Hj).
    rewrite seq_nth by exact Hj. reflexivity.
  Qed.
End Alg.

(* ------------------------------------------------------------------------------------------- *)
(* the unchanged code agrees with the fixed code exactly when no block has more than one         *)
(* parameter (this delimits the defect class of compute_jac_orig)                                *)
(* ------------------------------------------------------------------------------------------- *)
Section Orig.
  Variable A : Type.
  Variables (one : A) (add mul : A -> A -> A) (dag : A -> A).
  Variable Sc : Type.
  Variable ev : A -> Sc.
  Variable obs : A.
  Variable blockU : nat -> list nat -> A.
  Variable fixedU : nat -> A.
  Variable blockdU : nat -> list nat -> nat -> A.

  Lemma jac_loop_ext : forall (e1 e2 : nat -> block -> nat -> nat -> nat -> option (list Sc)) series k i,
      (forall id b k i, In (id, b) series -> 0 < n_params b ->
                        e1 id b k i (n_params b) = e2 id b k i (n_params b)) ->
      jac_loop Sc e1 series k i = jac_loop Sc e2 series k i.
  Proof.
    intros e1 e2 series. induction series as [|[id b] r IH]; intros k i H; [reflexivity|].
    cbn [jac_loop].
    assert (Hr : forall id b k i, In (id, b) r -> 0 < n_params b ->
                                  e1 id b k i (n_params b) = e2 id b k i (n_params b))
      by (intros; apply H; [right|]; assumption).
    destruct (0 <? n_params b) eqn:E.
    - apply Nat.ltb_lt in E. rewrite (H id b k i (or_introl eq_refl) E).
      rewrite (IH _ _ Hr). reflexivity.
    - apply IH. exact Hr.
  Qed.

  Definition single_param (b : block) : bool := n_params b <=? 1.

  Theorem orig_eq_fixed_single : forall bs layers angles indices,
      forallb single_param bs = true ->
      compute_jac_orig A one add mul dag Sc ev obs blockU fixedU blockdU bs layers angles indices
      = compute_jac A one add mul dag Sc ev obs blockU fixedU blockdU bs layers angles indices.
  Proof.
    intros bs layers angles indices Hs.
    unfold compute_jac_orig, compute_jac, compute_jac_with.
    destruct (propagators A blockU fixedU bs layers angles) as [props|]; [|reflexivity].
    apply jac_loop_ext. intros id b k i Hin Hpos.
    assert (Hb : single_param b = true).
    { assert (Hin' : In b bs).
      { unfold block_series in Hin. apply in_app_or in Hin. destruct Hin as [Hin|Hin].
        - unfold iblocks in Hin. apply in_combine_r in Hin. exact Hin.
        - apply in_concat in Hin. destruct Hin as [l [Hl Hin]]. apply repeat_spec in Hl. subst l.
          apply filter_In in Hin. destruct Hin as [Hin _]. unfold iblocks in Hin.
          apply in_combine_r in Hin. exact Hin. }
      rewrite forallb_forall in Hs. apply Hs. exact Hin'. }
    unfold single_param in Hb. apply Nat.leb_le in Hb.
    assert (E1 : n_params b = 1) by lia. rewrite E1.
    unfold block_entries_orig, block_entries. cbn [seq jac_terms]. rewrite Nat.add_0_r.
    destruct (mem i _); [|reflexivity].
    destruct (get_unitary_derivative A blockdU id b _ 0); [|reflexivity].
    destruct (modify_unitary A mul _ _ _ k a); reflexivity.
  Qed.

  (* ... and it is wrong as soon as a block has two parameters: the gradient is too short, and a
     requested index that is not the first index of its block is silently dropped *)
  Definition two_param_block : list block := [mkBlock (KPH 2) false].

  Lemma orig_length_refuted :
    exists g, compute_jac_orig A one add mul dag Sc ev obs blockU fixedU blockdU
                               two_param_block 1 (seq 0 (free_parameters_num two_param_block 1)) None
              = Some g /\ length g = 1 /\ free_parameters_num two_param_block 1 = 2.
  Proof. eexists. split; [vm_compute; reflexivity|]. split; reflexivity. Qed.

  Lemma orig_subset_refuted :
    compute_jac_orig A one add mul dag Sc ev obs blockU fixedU blockdU
                     two_param_block 1 (seq 0 (free_parameters_num two_param_block 1)) (Some [1])
    = Some [].
  Proof. vm_compute. reflexivity. Qed.
End Orig.
