(* C20 -- generic lemmas about the renderer state operations (upd / emit / rep / ranges / lmin / lmax) *)
From Coq Require Import List NArith Arith Bool Lia.
Import ListNotations.
From QV Require Import Model.Render.

Lemma rep_length n c : length (rep n c) = n.
Proof. apply repeat_length. Qed.

Lemma upd_length i f st : length (upd i f st) = length st.
Proof. revert i; induction st as [|x r IH]; intros [|i]; simpl; auto. Qed.

Lemma wire_of_upd i f st j :
  wire_of (upd i f st) j = if (i =? j) && (i <? length st) then f (wire_of st i) else wire_of st j.
Proof.
  unfold wire_of. revert i j. induction st as [|x r IH]; intros i j.
  - destruct i; destruct j; simpl; rewrite ?andb_false_r; reflexivity.
  - destruct i as [|i]; destruct j as [|j]; simpl; try reflexivity.
    rewrite IH. reflexivity.
Qed.

Lemma emit_length F wl st : length (emit F wl st) = length st.
Proof.
  unfold emit. revert st. induction wl as [|w r IH]; intro st; simpl; auto.
  rewrite IH. apply upd_length.
Qed.

Lemma mem_true x l : mem x l = true <-> In x l.
Proof.
  unfold mem. rewrite existsb_exists. split.
  - intros [y [Hy E]]. apply Nat.eqb_eq in E. subst. exact Hy.
  - intro H. exists x. split; auto. apply Nat.eqb_refl.
Qed.

Lemma mem_false x l : mem x l = false <-> ~ In x l.
Proof.
  rewrite <- mem_true. destruct (mem x l); split; intro H; try discriminate; auto.
  exfalso; apply H; reflexivity.
Qed.

Lemma mem_app x a b : mem x (a ++ b) = mem x a || mem x b.
Proof. unfold mem. apply existsb_app. Qed.

(* each wire of a duplicate-free wire list is updated exactly once, all others are untouched *)
Lemma wire_of_emit F wl st w :
  NoDup wl ->
  wire_of (emit F wl st) w = if mem w wl && (w <? length st) then F w (wire_of st w) else wire_of st w.
Proof.
  unfold emit. revert st. induction wl as [|a r IH]; intros st ND.
  - reflexivity.
  - inversion ND as [|? ? Hnin ND']; subst. simpl fold_left. rewrite IH by assumption.
    rewrite upd_length. rewrite wire_of_upd.
    simpl mem. fold (mem w r).
    destruct (Nat.eqb w a) eqn:Ewa.
    + apply Nat.eqb_eq in Ewa. subst a.
      assert (Hm : mem w r = false) by (apply mem_false; exact Hnin).
      rewrite Hm, Nat.eqb_refl. simpl. reflexivity.
    + assert (Eaw : (a =? w) = false) by (rewrite Nat.eqb_sym; exact Ewa).
      rewrite Eaw. simpl. reflexivity.
Qed.

Lemma upd_ext i f g st : (forall x, f x = g x) -> upd i f st = upd i g st.
Proof.
  intro E. revert i. induction st as [|y t IH]; intros [|i]; simpl; auto.
  - rewrite E. reflexivity.
  - rewrite IH. reflexivity.
Qed.

Lemma emit_ext F G wl st :
  (forall w x, In w wl -> F w x = G w x) -> emit F wl st = emit G wl st.
Proof.
  unfold emit. revert st. induction wl as [|a r IH]; intros st H; simpl; auto.
  rewrite IH by (intros; apply H; right; assumption).
  f_equal. apply upd_ext. intro x. apply H. left. reflexivity.
Qed.

(* ---- ranges ---- *)
Lemma in_range w a b : In w (range a b) <-> a <= w < b.
Proof. unfold range. rewrite in_seq. lia. Qed.

Lemma mem_range w a b : mem w (range a b) = (a <=? w) && (w <? b).
Proof.
  destruct (mem w (range a b)) eqn:E.
  - apply mem_true, in_range in E. symmetry. apply andb_true_iff. split.
    + apply Nat.leb_le; lia.
    + apply Nat.ltb_lt; lia.
  - apply mem_false in E. rewrite in_range in E. symmetry.
    destruct (a <=? w) eqn:E1; destruct (w <? b) eqn:E2; simpl; auto.
    apply Nat.leb_le in E1. apply Nat.ltb_lt in E2. lia.
Qed.

Lemma range_nodup a b : NoDup (range a b).
Proof. apply seq_NoDup. Qed.

(* ---- lmin / lmax ---- *)
Lemma lmax_ge l x : In x l -> x <= lmax l.
Proof.
  unfold lmax. induction l as [|a r IH]; simpl; intros H; [contradiction|].
  destruct H as [->|H]; [lia|]. specialize (IH H). lia.
Qed.

Lemma lmax_in l : l <> [] -> In (lmax l) l.
Proof.
  unfold lmax. induction l as [|a r IH]; intro H; [congruence|].
  destruct r as [|b r'].
  - simpl. left. lia.
  - assert (Hr : b :: r' <> []) by discriminate. specialize (IH Hr).
    simpl fold_right in *.
    destruct (Nat.max_spec a (Nat.max b (fold_right Nat.max 0 r'))) as [[_ E]|[_ E]]; rewrite E.
    + right. exact IH.
    + left. reflexivity.
Qed.

Lemma fold_min_le d l x : In x l -> fold_right Nat.min d l <= x.
Proof.
  induction l as [|a r IH]; simpl; intros H; [contradiction|].
  destruct H as [->|H]; [lia|]. specialize (IH H). lia.
Qed.

Lemma fold_min_le_d d l : fold_right Nat.min d l <= d.
Proof. induction l as [|a r IH]; simpl; lia. Qed.

Lemma fold_min_in d l : fold_right Nat.min d l = d \/ In (fold_right Nat.min d l) l.
Proof.
  induction l as [|a r IH]; simpl; [left; reflexivity|].
  destruct (Nat.min_spec a (fold_right Nat.min d r)) as [[_ E]|[_ E]]; rewrite E.
  - right. left. reflexivity.
  - destruct IH as [IH|IH]; [left; exact IH | right; right; exact IH].
Qed.

Lemma lmin_le l x : In x l -> lmin l <= x.
Proof. unfold lmin. apply fold_min_le. Qed.

Lemma lmin_in l : l <> [] -> In (lmin l) l.
Proof.
  unfold lmin. intro H. destruct l as [|a r]; [congruence|].
  simpl hd. destruct (fold_min_in a (a :: r)) as [E|E].
  - rewrite E. left. reflexivity.
  - exact E.
Qed.

Lemma lmin_le_lmax l : l <> [] -> lmin l <= lmax l.
Proof. intro H. apply lmax_ge. apply lmin_in. exact H. Qed.

(* ---- misc list facts ---- *)
Lemma fold_max_ge {A} (f : A -> nat) l x : In x l -> f x <= fold_right Nat.max 0 (map f l).
Proof.
  induction l as [|a r IH]; simpl; intros H; [contradiction|].
  destruct H as [->|H]; [lia|]. specialize (IH H). lia.
Qed.

Lemma fold_max_bound {A} (f : A -> nat) l b :
  (forall x, In x l -> f x <= b) -> fold_right Nat.max 0 (map f l) <= b.
Proof.
  induction l as [|a r IH]; simpl; intros H; [lia|].
  assert (f a <= b) by (apply H; left; reflexivity).
  assert (fold_right Nat.max 0 (map f r) <= b) by (apply IH; intros; apply H; right; assumption).
  lia.
Qed.

Lemma list_sum_app a b : list_sum (a ++ b) = list_sum a + list_sum b.
Proof. induction a; simpl; lia. Qed.

Lemma nodupb_true l : nodupb l = true -> NoDup l.
Proof.
  induction l as [|a r IH]; simpl; intro H; [constructor|].
  apply andb_true_iff in H. destruct H as [H1 H2]. constructor.
  - apply negb_true_iff in H1. apply mem_false in H1. exact H1.
  - apply IH. exact H2.
Qed.

Lemma nth_error_app_at {A} (a b : list A) j : nth_error (a ++ b) (length a + j) = nth_error b j.
Proof. rewrite nth_error_app2 by lia. f_equal. lia. Qed.

Lemma nth_error_mono {A} (a b : list A) i g : nth_error a i = Some g -> nth_error (a ++ b) i = Some g.
Proof.
  intro H. rewrite nth_error_app1; auto. apply nth_error_Some. congruence.
Qed.

Lemma nth_error_rep n c j : j < n -> nth_error (rep n c) j = Some c.
Proof.
  unfold rep. revert j. induction n as [|n IH]; intros j H; [lia|].
  destruct j; simpl; auto. apply IH. lia.
Qed.

Lemma set_at_length m c s : m < length s -> length (set_at m c s) = length s.
Proof.
  intro H. unfold set_at. rewrite !app_length, firstn_length, skipn_length. simpl. lia.
Qed.

Lemma nth_error_set_at m c s : m < length s -> nth_error (set_at m c s) m = Some c.
Proof.
  intro H. unfold set_at.
  rewrite nth_error_app2 by (rewrite firstn_length; lia).
  rewrite firstn_length. replace (m - Nat.min m (length s)) with 0 by lia. reflexivity.
Qed.

Lemma in_firstn {A} (x : A) n l : In x (firstn n l) -> In x l.
Proof.
  revert l. induction n as [|n IH]; intros [|a l]; simpl; try tauto.
  intros [H|H]; auto.
Qed.

Lemma in_skipn {A} (x : A) n l : In x (skipn n l) -> In x l.
Proof.
  revert l. induction n as [|n IH]; intros [|a l]; simpl; try tauto.
  intro H. right. apply IH. exact H.
Qed.

Lemma in_set_at x m c s : In x (set_at m c s) -> x = c \/ In x s.
Proof.
  unfold set_at. rewrite !in_app_iff. simpl. intros [H|[H|H]].
  - right. apply in_firstn in H. exact H.
  - destruct H as [H|[]]. left. auto.
  - right. apply (in_skipn x (S m)). exact H.
Qed.
