(* C06 + C13: the hypothesis c13_transpile_native of the end-to-end statement is discharged by C13's theorem
   transpile_wf_circuit (Proofs/TranspileC06.v): for the transpiled circuit of a spin-chain processor only the
   composition principle and the semantic hypothesis c13_transpile_sem remain. *)
From Coq Require Import QArith String List.
From QV Require Import Found.Base Found.KS Found.KSProofs Found.Sym Found.SymProofs Found.Circ
  Model.SpinChainTypes Gen.SpinChain Model.Concat Model.SpinChain Proofs.SpinChainCal Proofs.SpinChainRule Proofs.SpinChainSem.
From QV Require Model.ResolveTypes Model.Resolve Proofs.ResolveSem Model.TranspileTypes Gen.Devices Model.Transpile Proofs.TranspileC06.
Import ListNotations.

Theorem reproduces_transpiled
  (R : PhaseRing) (env : nat -> atoms R)
  (propagator : cfg -> option (list Q) -> list ngate -> state R -> state R)
  (valid_schedule : cfg -> option (list Q) -> list ngate -> Prop) :
  (forall c sched gs tab ph pc,
      load c sched gs = Ok (tab, ph) -> valid_schedule c sched gs -> pulse_icirc c gs 0 = Some pc ->
      propagator c sched gs = sem (iden R env pc)) ->
  forall d N src out (c : cfg) (gs : list ngate) (original_sem : state R -> state R),
  (* the real transpile of a spin-chain (or any modelled) device, C13 *)
  In d Devices.devices -> Forall ResolveSem.wf_gate src -> Forall (fun g => Transpile.in_range N g = true) src ->
  Transpile.transpile d N src = Resolve.Ok out ->
  c_n c = N -> Forall2 TranspileC06.same_gate out gs ->
  (* c13_transpile_sem: still a hypothesis *)
  original_sem = sem (iden R env (full_icirc gs 0)) ->
  forall sched tab ph,
  setup_ok c -> load c sched gs = Ok (tab, ph) -> valid_schedule c sched gs ->
  (forall psi, sem (iden R env (phase_icirc gs 0)) (propagator c sched gs psi) = original_sem psi) /\
  (ph == sum_phase gs)%Q.
Proof.
  intros Hcomp d N src out c gs osem Hd Hw Hr Ht HN H2 Hsem sched tab ph Hs Hl Hv.
  apply (spinchain_reproduces_circuit R env propagator valid_schedule Hcomp c gs osem
           (TranspileC06.transpile_wf_circuit_proof d N src out c gs Hd Hw Hr Ht HN H2) Hsem sched tab ph Hs Hl Hv).
Qed.
