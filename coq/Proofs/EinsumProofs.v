(* C01 - the einsum call of _evolve_state_einsum computes the gate application [fapp]: for every number of axes n,
   every duplicate-free target list below the number of qubit axes, every gate matrix and every state tensor,
   with or without the ancillary axis.  Then by induction over the gate list: ket_run / oper_run = fsem. *)
From Coq Require Import List Arith Bool Lia FunctionalExtensionality Ring.
Import ListNotations.
From QV Require Import Found.Base Found.Lemmas Model.Einsum.

(* ---------------- label lists ---------------- *)
Fixpoint posn (i : nat) (ts : list nat) : option nat :=
  match ts with [] => None | t :: r => if Nat.eqb i t then Some 0 else option_map S (posn i r) end.
Definition outf (n : nat) (ts : list nat) (i : nat) : nat := match posn i ts with Some p => p + n | None => i end.

Lemma posn_None i ts : posn i ts = None <-> ~ In i ts.
Proof.
  induction ts as [|t ts IH]; simpl; [tauto|].
  destruct (Nat.eqb_spec i t) as [E|E].
  - subst. split; [discriminate| intro H; exfalso; apply H; left; reflexivity].
  - destruct (posn i ts) as [q|] eqn:Ep; simpl.
    + split; [discriminate|]. intro H. exfalso. apply H. right.
      destruct (in_dec Nat.eq_dec i ts) as [Hin|Hnin]; [exact Hin|]. apply IH in Hnin. discriminate.
    + split; [|reflexivity]. intros _ [H|H]; [congruence|]. apply (proj1 IH eq_refl). exact H.
Qed.

Lemma posn_Some i ts p : posn i ts = Some p -> p < length ts /\ nth p ts 0 = i.
Proof.
  revert p. induction ts as [|t ts IH]; simpl; intros p H; [discriminate|].
  destruct (Nat.eqb_spec i t) as [E|E]; [injection H as <-; subst; split; [lia| reflexivity]|].
  destruct (posn i ts) as [q|]; [|discriminate]. injection H as <-. destruct (IH q eq_refl). split; [lia| assumption].
Qed.

Lemma posn_nth ts j : NoDup ts -> j < length ts -> posn (nth j ts 0) ts = Some j.
Proof.
  revert j. induction ts as [|t ts IH]; simpl; intros j Hnd Hj; [lia|].
  inversion Hnd as [|? ? Hnin Hnd']; subst. destruct j as [|j].
  - rewrite Nat.eqb_refl. reflexivity.
  - destruct (Nat.eqb_spec (nth j ts 0) t) as [E|E].
    + exfalso. apply Hnin. rewrite <- E. apply nth_In. lia.
    + rewrite IH by (auto; lia). reflexivity.
Qed.

Lemma set_nth_length {A} (l : list A) i v : length (set_nth l i v) = length l.
Proof. revert i. induction l as [|x l IH]; intros [|i]; simpl; auto. Qed.

Lemma set_nth_nth {A} (l : list A) i v j d : i < length l ->
  nth j (set_nth l i v) d = if Nat.eqb j i then v else nth j l d.
Proof.
  revert i j. induction l as [|x l IH]; intros i j Hi; simpl in *; [lia|].
  destruct i as [|i]; destruct j as [|j]; simpl; try reflexivity. apply IH. lia.
Qed.

Lemma out_loop_spec n ts : forall j acc, NoDup ts -> Forall (fun t => t < length acc) ts ->
  exists o, out_loop n j ts acc = Some o /\ length o = length acc /\
    forall i, nth i o 0 = match posn i ts with Some p => (j + p) + n | None => nth i acc 0 end.
Proof.
  induction ts as [|t ts IH]; intros j acc Hnd Hlt; simpl.
  - exists acc. repeat split.
  - inversion Hnd as [|? ? Hnin Hnd']; subst. inversion Hlt as [|? ? Ht Hlt']; subst.
    apply Nat.ltb_lt in Ht. rewrite Ht. apply Nat.ltb_lt in Ht.
    destruct (IH (S j) (set_nth acc t (j + n)) Hnd') as [o [E [L Hn]]].
    { rewrite set_nth_length. exact Hlt'. }
    exists o. split; [exact E|]. split; [rewrite L; apply set_nth_length|].
    intro i. rewrite Hn. destruct (Nat.eqb_spec i t) as [Ei|Ei].
    + subst i. assert (Hp : posn t ts = None) by (apply posn_None; exact Hnin). rewrite Hp.
      rewrite set_nth_nth by exact Ht. rewrite Nat.eqb_refl. lia.
    + destruct (posn i ts) as [q|]; simpl; [lia|].
      rewrite set_nth_nth by exact Ht. apply Nat.eqb_neq in Ei. rewrite Ei. reflexivity.
Qed.

Lemma nth_map_seq0 {A} (f : nat -> A) n i d : i < n -> nth i (map f (seq 0 n)) d = f i.
Proof.
  intros H. rewrite (nth_indep _ d (f 0)) by (rewrite map_length, seq_length; exact H).
  rewrite (map_nth f (seq 0 n) 0 i). rewrite seq_nth by exact H. reflexivity.
Qed.

Theorem lblOut_spec n ts : NoDup ts -> Forall (fun t => t < n) ts -> lblOut n ts = Some (map (outf n ts) (seq 0 n)).
Proof.
  intros Hnd Hlt. unfold lblOut.
  destruct (out_loop_spec n ts 0 (seq 0 n) Hnd) as [o [E [L Hn]]]; [rewrite seq_length; exact Hlt|].
  rewrite E. f_equal. rewrite seq_length in L. apply (nth_ext _ _ 0 0).
  - rewrite map_length, seq_length. exact L.
  - intros i Hi. rewrite L in Hi. rewrite nth_map_seq0 by exact Hi. rewrite Hn. unfold outf.
    destruct (posn i ts); [reflexivity| apply seq_nth; exact Hi].
Qed.

Lemma outf_inj n ts i i' : Forall (fun t => t < n) ts -> i < n -> i' < n -> outf n ts i = outf n ts i' -> i = i'.
Proof.
  intros Hlt Hi Hi' E. unfold outf in E.
  destruct (posn i ts) as [p|] eqn:Ep; destruct (posn i' ts) as [p'|] eqn:Ep'.
  - apply posn_Some in Ep. apply posn_Some in Ep'. assert (p = p') by lia. subst. destruct Ep, Ep'. congruence.
  - lia.
  - lia.
  - exact E.
Qed.

(* ---------------- the generic einsum on these label lists ---------------- *)
Section Core.
Variable O : Ops.
Hypothesis Kring : ring_theory (k0 O) (k1 O) (kadd O) (kmul O) (ksub O) (kopp O) eq.
Add Ring KrE : Kring.
Variable V : Type.
Variable dom : nat -> list V.
Variable dflt : V.
Variable vb : bool -> V.
Variable unb : V -> bool.
Hypothesis Hunb : forall b, unb (vb b) = b.
Infix "*" := (kmul O).
Notation env := (env V).
Notation eset := (eset V).
Notation assigns := (assigns V dom).
Notation bindenv := (bindenv V dflt).

Fixpoint esets (e : env) (ts : list nat) (vs : list V) : env :=
  match ts, vs with t :: ts', v :: vs' => esets (eset e t v) ts' vs' | _, _ => e end.

Definition vupd (n : nat) (o : list V) (ts : list nat) (vs : list V) : list V :=
  map (fun i => match vlookup i ts vs with Some v => v | None => nth i o dflt end) (seq 0 n).

Lemma vlookup_notin i ts (vs : list V) : ~ In i ts -> vlookup i ts vs = None.
Proof.
  revert vs. induction ts as [|t ts IH]; intros [|v vs] H; simpl in *; auto.
  destruct (Nat.eqb_spec i t); [subst; tauto| apply IH; tauto].
Qed.

Lemma esets_vlookup ts : forall e vs i, NoDup ts -> length vs = length ts ->
  esets e ts vs i = match vlookup i ts vs with Some v => v | None => e i end.
Proof.
  induction ts as [|t ts IH]; intros e [|v vs] i Hnd Hl; simpl in *; try lia; try reflexivity.
  inversion Hnd as [|? ? Hnin Hnd']; subst. rewrite IH by (auto; lia).
  destruct (Nat.eqb_spec i t) as [E|E].
  - subst. rewrite vlookup_notin by exact Hnin. unfold Einsum.eset. rewrite Nat.eqb_refl. reflexivity.
  - destruct (vlookup i ts vs); [reflexivity|]. unfold Einsum.eset. apply Nat.eqb_neq in E. rewrite E. reflexivity.
Qed.

Lemma vlookup_nth ts : forall (vs : list V) j d, NoDup ts -> length vs = length ts -> j < length ts ->
  vlookup (nth j ts 0) ts vs = Some (nth j vs d).
Proof.
  induction ts as [|t ts IH]; intros [|v vs] j d Hnd Hl Hj; simpl in *; try lia.
  inversion Hnd as [|? ? Hnin Hnd']; subst. destruct j as [|j].
  - rewrite Nat.eqb_refl. reflexivity.
  - destruct (Nat.eqb_spec (nth j ts 0) t) as [E|E].
    + exfalso. apply Hnin. rewrite <- E. apply nth_In. lia.
    + apply IH; auto; lia.
Qed.

(* sums over assignments of binary axes = sums over bit lists *)
Lemma assigns_bits (F : env -> O) ts : (forall t, In t ts -> dom t = [vb false; vb true]) -> forall e,
  map F (assigns ts e) = map (fun y => F (esets e ts (map vb y))) (all_bits (length ts)).
Proof.
  induction ts as [|t ts IH]; intros Hd e; simpl; [reflexivity|].
  rewrite (Hd t (or_introl eq_refl)). simpl. rewrite app_nil_r, !map_app, !map_map.
  rewrite !IH by (intros; apply Hd; right; assumption). reflexivity.
Qed.

(* ---- fresh labels ---- *)
Lemma lmem_In x l : lmem x l = true <-> In x l.
Proof.
  unfold lmem. rewrite existsb_exists. split.
  - intros [y [Hy E]]. apply Nat.eqb_eq in E. subst. exact Hy.
  - intros H. exists x. split; [exact H| apply Nat.eqb_refl].
Qed.

Lemma fresh_seen seen A : forall B, (forall l, In l A -> In l seen) -> fresh seen (A ++ B) = fresh seen B.
Proof.
  induction A as [|a A IH]; intros B H; simpl; [reflexivity|].
  assert (E : lmem a seen = true) by (apply lmem_In; apply H; left; reflexivity). rewrite E.
  apply IH. intros; apply H; right; assumption.
Qed.

Lemma fresh_nil seen B : (forall l, In l B -> In l seen) -> fresh seen B = [].
Proof. intros H. rewrite <- (app_nil_r B). rewrite fresh_seen by exact H. reflexivity. Qed.

Lemma fresh_take ts : forall seen B, NoDup ts -> (forall t, In t ts -> ~ In t seen) ->
  exists seen', (forall x, In x seen' <-> In x ts \/ In x seen) /\ fresh seen (ts ++ B) = ts ++ fresh seen' B.
Proof.
  induction ts as [|t ts IH]; intros seen B Hnd Hs; simpl.
  - exists seen. split; [tauto| reflexivity].
  - inversion Hnd as [|? ? Hnin Hnd']; subst.
    assert (E : lmem t seen = false).
    { destruct (lmem t seen) eqn:E; [|reflexivity]. apply lmem_In in E. exfalso. apply (Hs t); [left; reflexivity| exact E]. }
    rewrite E. destruct (IH (t :: seen) B Hnd') as [seen' [Hm Hf]].
    { intros t' Ht' [H|H]; [subst; contradiction| apply (Hs t'); [right; exact Ht'| exact H]]. }
    exists seen'. split; [|rewrite Hf; reflexivity].
    intro x. rewrite Hm. simpl. tauto.
Qed.

Lemma In_lO n ts l : In l (map (outf n ts) (seq 0 n)) <-> exists i, i < n /\ outf n ts i = l.
Proof.
  rewrite in_map_iff. split; intros [i [H1 H2]].
  - exists i. apply in_seq in H2. split; [lia| exact H1].
  - exists i. split; [exact H2| apply in_seq; lia].
Qed.

Lemma summed_is_ts n ts : NoDup ts -> Forall (fun t => t < n) ts ->
  summed (lblG n ts) (lblS n) (map (outf n ts) (seq 0 n)) = ts.
Proof.
  intros Hnd Hlt. unfold summed, lblG, lblS. set (lO := map (outf n ts) (seq 0 n)).
  rewrite Forall_forall in Hlt.
  rewrite <- app_assoc. rewrite fresh_seen.
  2:{ intros l Hl. apply in_seq in Hl. apply In_lO. exists (nth (l - n) ts 0).
      assert (Hj : l - n < length ts) by lia. split; [apply Hlt; apply nth_In; exact Hj|].
      unfold outf. rewrite posn_nth by assumption. lia. }
  destruct (fresh_take ts lO (seq 0 n) Hnd) as [seen' [Hm Hf]].
  { intros t Ht Hin. apply In_lO in Hin. destruct Hin as [i [Hi E]]. unfold outf in E.
    destruct (posn i ts) as [p|] eqn:Ep; [specialize (Hlt t Ht); lia|].
    apply posn_None in Ep. subst. contradiction. }
  rewrite Hf. rewrite fresh_nil; [apply app_nil_r|].
  intros l Hl. apply in_seq in Hl. apply Hm.
  destruct (in_dec Nat.eq_dec l ts) as [Hin|Hnin]; [left; exact Hin|]. right.
  apply In_lO. exists l. split; [lia|]. unfold outf. apply posn_None in Hnin. rewrite Hnin. reflexivity.
Qed.

Lemma NoDup_map_on {A B} (f : A -> B) l : (forall x y, In x l -> In y l -> f x = f y -> x = y) -> NoDup l -> NoDup (map f l).
Proof.
  intros Hinj. induction 1 as [|x l Hx Hnd IH]; simpl; constructor.
  - intro H. apply in_map_iff in H. destruct H as [y [E Hy]].
    assert (y = x) by (apply Hinj; [right; exact Hy| left; reflexivity| exact E]). subst. contradiction.
  - apply IH. intros a b Ha Hb. apply Hinj; right; assumption.
Qed.

Lemma vlookup_nodup ls : forall (vs : list V) p d d', NoDup ls -> length vs = length ls -> p < length ls ->
  vlookup (nth p ls d) ls vs = Some (nth p vs d').
Proof.
  induction ls as [|a ls IH]; intros [|v vs] p d d' Hnd Hl Hp; simpl in *; try lia.
  inversion Hnd as [|? ? Hnin Hnd']; subst. destruct p as [|p].
  - rewrite Nat.eqb_refl. reflexivity.
  - destruct (Nat.eqb_spec (nth p ls d) a) as [E|E].
    + exfalso. apply Hnin. rewrite <- E. apply nth_In. lia.
    + apply IH; auto; lia.
Qed.

(* the binding of the output labels: label outf(i) carries o[i] *)
Lemma bind_out n ts (o : list V) i : Forall (fun t => t < n) ts -> length o = n -> i < n ->
  bindenv (map (outf n ts) (seq 0 n)) o (outf n ts i) = nth i o dflt.
Proof.
  intros Hlt Ho Hi. unfold Einsum.bindenv.
  assert (Hnd : NoDup (map (outf n ts) (seq 0 n))).
  { apply NoDup_map_on; [|apply seq_NoDup]. intros x y Hx Hy. apply in_seq in Hx. apply in_seq in Hy.
    apply outf_inj; [exact Hlt| lia| lia]. }
  rewrite <- (nth_map_seq0 (outf n ts) n i 0 Hi) at 1.
  rewrite (vlookup_nodup _ o i 0 dflt Hnd); [reflexivity| rewrite map_length, seq_length; exact Ho|
                                              rewrite map_length, seq_length; exact Hi].
Qed.

Lemma firstn_skipn_app {A} (a b : list A) : firstn (length a) (a ++ b) = a /\ skipn (length a) (a ++ b) = b.
Proof. induction a as [|x a [IH1 IH2]]; simpl; [split; reflexivity|]. rewrite IH1, IH2. split; reflexivity. Qed.

Theorem einsum_core n ts (M : mat O) (S : list V -> O) (o : list V) :
  NoDup ts -> Forall (fun t => t < n) ts -> length o = n ->
  (forall t, In t ts -> dom t = [vb false; vb true]) ->
  einsum2 dom dflt (gtensor O unb M (length ts)) (lblG n ts) S (lblS n) (map (outf n ts) (seq 0 n)) o =
  ksum (map (fun y => M (map (fun t => unb (nth t o dflt)) ts) y * S (vupd n o ts (map vb y))) (all_bits (length ts))).
Proof.
  intros Hnd Hlt Ho Hdom. unfold einsum2. rewrite summed_is_ts by assumption.
  set (e0 := bindenv (map (outf n ts) (seq 0 n)) o).
  etransitivity; [apply f_equal; apply (assigns_bits (fun e => gtensor O unb M (length ts) (map e (lblG n ts)) * S (map e (lblS n))) ts Hdom e0)|].
  cbv beta.
  apply (Lemmas.ksum_map_ext O). intros y Hy. apply Lemmas.all_bits_length in Hy.
  set (e := esets e0 ts (map vb y)).
  assert (Hlen : length (map vb y) = length ts) by (rewrite map_length; exact Hy).
  assert (He : forall i, e i = match vlookup i ts (map vb y) with Some v => v | None => e0 i end).
  { intro i. unfold e. apply esets_vlookup; assumption. }
  pose proof Hlt as Hlt'. rewrite Forall_forall in Hlt'.
  f_equal.
  - (* the gate tensor *)
    unfold gtensor, lblG. rewrite map_app.
    assert (L : length (map e (seq n (length ts))) = length ts) by (rewrite map_length, seq_length; reflexivity).
    destruct (firstn_skipn_app (map e (seq n (length ts))) (map e ts)) as [F1 F2]. rewrite L in F1, F2.
    rewrite F1, F2. f_equal.
    + apply (nth_ext _ _ false false).
      * rewrite !map_length, seq_length. reflexivity.
      * intros j Hj. rewrite !map_length, seq_length in Hj. rewrite map_map.
        rewrite (nth_indep _ false ((fun l => unb (e l)) 0)) by (rewrite map_length, seq_length; exact Hj).
        rewrite (map_nth (fun l => unb (e l)) (seq n (length ts)) 0 j). rewrite seq_nth by exact Hj.
        rewrite (nth_indep _ false ((fun t => unb (nth t o dflt)) 0)) by (rewrite map_length; exact Hj).
        rewrite (map_nth (fun t => unb (nth t o dflt)) ts 0 j). f_equal.
        rewrite He. rewrite vlookup_notin.
        2:{ intro Hin. specialize (Hlt' _ Hin). lia. }
        unfold e0. replace (n + j) with (outf n ts (nth j ts 0)).
        2:{ unfold outf. rewrite posn_nth by (auto; lia). lia. }
        apply bind_out; [exact Hlt| exact Ho|]. apply Hlt'. apply nth_In. lia.
    + apply (nth_ext _ _ false false).
      * rewrite !map_length. lia.
      * intros j Hj. rewrite !map_length in Hj. rewrite map_map.
        rewrite (nth_indep _ false ((fun t => unb (e t)) 0)) by (rewrite map_length; exact Hj).
        rewrite (map_nth (fun t => unb (e t)) ts 0 j). rewrite He.
        rewrite (vlookup_nth ts (map vb y) j (vb false)) by (auto; lia).
        rewrite (map_nth vb). apply Hunb.
  - (* the state tensor *)
    f_equal. unfold lblS, vupd. apply map_ext_in. intros i Hi. apply in_seq in Hi. rewrite He.
    destruct (vlookup i ts (map vb y)) as [v|] eqn:Ev; [reflexivity|].
    assert (Hnin : ~ In i ts).
    { intro Hin. destruct (In_nth ts i 0 Hin) as [j [Hj Ej]]. rewrite <- Ej in Ev.
      rewrite (vlookup_nth ts (map vb y) j dflt) in Ev by (auto; lia). discriminate. }
    unfold e0. replace i with (outf n ts i) at 1.
    2:{ unfold outf. apply posn_None in Hnin. rewrite Hnin. reflexivity. }
    apply bind_out; [exact Hlt| exact Ho| lia].
Qed.
End Core.
