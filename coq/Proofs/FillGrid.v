(* C14 -- get_full_tlist: the merged grid is strictly increasing, made of grid points of the pulses,
   its kept points are further apart than the tolerance, and it loses nothing on well-separated grids *)
From Coq Require Import List QArith Bool Arith Lia Lqa Sorted.
From QV Require Import Model.Fill Spec.FillSpec Proofs.FillStep.
Import ListNotations.
Open Scope Q_scope.

(* ---------- insertion sort ---------- *)
Lemma qinsert_in x l y : In y (qinsert x l) <-> y = x \/ In y l.
Proof.
  induction l as [|a l IH]; simpl.
  - intuition.
  - destruct (Qle_bool x a); simpl; rewrite ?IH; intuition.
Qed.
Lemma qsort_in l y : In y (qsort l) <-> In y l.
Proof.
  induction l as [|a l IH]; simpl; [tauto|].
  rewrite qinsert_in, IH. intuition.
Qed.
Lemma qinsert_sorted x l : StronglySorted Qle l -> StronglySorted Qle (qinsert x l).
Proof.
  induction l as [|a l IH]; intros Hs; simpl.
  - constructor; constructor.
  - inversion Hs as [|? ? Hs' Hall]; subst. rewrite Forall_forall in Hall.
    destruct (Qle_bool x a) eqn:E.
    + apply Qle_bool_iff in E. constructor; auto.
      apply Forall_forall. intros y [<-|Hy]; auto. specialize (Hall y Hy). lra.
    + apply Qle_bool_false in E. constructor; auto.
      apply Forall_forall. intros y Hy. apply qinsert_in in Hy. destruct Hy as [->|Hy]; [lra|auto].
Qed.
Lemma qsort_sorted l : StronglySorted Qle (qsort l).
Proof.
  induction l; simpl; [constructor|apply qinsert_sorted; auto].
Qed.

(* ---------- unique ---------- *)
Lemma uniq_in l : forall y, In y (uniq_sorted l) -> In y l.
Proof.
  induction l as [|x l IH]; intros y Hy; [destruct Hy|].
  cbn [uniq_sorted] in Hy. destruct l as [|z l'].
  - exact Hy.
  - destruct (Qeq_bool x z).
    + right. apply IH. exact Hy.
    + destruct Hy as [<-|Hy]; [left; reflexivity|right; apply IH; exact Hy].
Qed.
Lemma uniq_complete l : forall y, In y l -> exists z, In z (uniq_sorted l) /\ z == y.
Proof.
  induction l as [|x l IH]; intros y Hy; [destruct Hy|].
  cbn [uniq_sorted]. destruct l as [|z l'].
  - destruct Hy as [<-|[]]. exists x. split; [left; reflexivity|reflexivity].
  - destruct (Qeq_bool x z) eqn:E.
    + destruct Hy as [<-|Hy]; [|apply IH; exact Hy].
      apply Qeq_bool_iff in E.
      destruct (IH z (or_introl eq_refl)) as [w [Hw Ew]]. exists w. split; [exact Hw|]. lra.
    + destruct Hy as [<-|Hy].
      * exists x. split; [left; reflexivity|reflexivity].
      * destruct (IH y Hy) as [w [Hw Ew]]. exists w. split; [right; exact Hw|exact Ew].
Qed.
Lemma uniq_sorted_strict l : StronglySorted Qle l -> StronglySorted Qlt (uniq_sorted l).
Proof.
  induction l as [|x l IH]; intros Hs; [constructor|].
  inversion Hs as [|? ? Hs' Hall]; subst. rewrite Forall_forall in Hall.
  cbn [uniq_sorted]. destruct l as [|z l'].
  - constructor; constructor.
  - destruct (Qeq_bool x z) eqn:E; [apply IH; exact Hs'|].
    constructor; [apply IH; exact Hs'|].
    apply Forall_forall. intros y Hy. apply uniq_in in Hy.
    assert (Hxz : x <= z) by (apply Hall; left; reflexivity).
    assert (Hne : ~ x == z) by (intro H; apply Qeq_bool_iff in H; congruence).
    assert (Hzy : z <= y).
    { destruct Hy as [<-|Hy]; [lra|].
      inversion Hs' as [|? ? _ Hall']; subst. rewrite Forall_forall in Hall'. auto. }
    destruct (Qlt_le_dec x z) as [Hlt|Hge]; [lra|]. exfalso. apply Hne. lra.
Qed.

(* ---------- tolerance filter ---------- *)
Lemma tol_filter_in tol : forall l p y, In y (tol_filter tol p l) -> In y l.
Proof.
  induction l as [|x l IH]; intros p y Hy; [destruct Hy|].
  cbn [tol_filter] in Hy. destruct (Qltb tol (x - p)).
  - destruct Hy as [<-|Hy]; [left; reflexivity|right; eapply IH; eauto].
  - right; eapply IH; eauto.
Qed.
Lemma tol_filter_sorted tol : forall l p, StronglySorted Qlt l -> StronglySorted Qlt (tol_filter tol p l).
Proof.
  induction l as [|x l IH]; intros p Hs; [constructor|].
  inversion Hs as [|? ? Hs' Hall]; subst. rewrite Forall_forall in Hall.
  cbn [tol_filter]. destruct (Qltb tol (x - p)); [|apply IH; exact Hs'].
  constructor; [apply IH; exact Hs'|].
  apply Forall_forall. intros y Hy. apply tol_filter_in in Hy. auto.
Qed.
Lemma dedup_in tol l y : In y (dedup tol l) -> In y l.
Proof.
  destruct l as [|x l]; [intros []|]. intros [<-|Hy]; [left; reflexivity|].
  right. eapply tol_filter_in; eauto.
Qed.
Lemma dedup_sorted tol l : StronglySorted Qlt l -> StronglySorted Qlt (dedup tol l).
Proof.
  destruct l as [|x l]; intros Hs; [constructor|].
  inversion Hs as [|? ? Hs' Hall]; subst. rewrite Forall_forall in Hall.
  cbn [dedup]. constructor; [apply tol_filter_sorted; exact Hs'|].
  apply Forall_forall. intros y Hy. apply tol_filter_in in Hy. auto.
Qed.

(* adjacent kept points are further apart than tol *)
Fixpoint gaps (tol : Q) (l : list Q) : Prop :=
  match l with
  | [] => True
  | x :: l' => match l' with [] => True | y :: _ => tol < y - x /\ gaps tol l' end
  end.
Lemma tol_filter_gaps tol : forall l p k,
  StronglySorted Qlt (p :: l) -> k <= p -> gaps tol (k :: tol_filter tol p l).
Proof.
  induction l as [|y l IH]; intros p k Hs Hk; [exact I|].
  assert (Hpy : p < y) by (apply (sorted_tail_gt _ _ Hs); left; reflexivity).
  assert (Hs' : StronglySorted Qlt (y :: l)) by (eapply sorted_tail; eauto).
  cbn [tol_filter]. destruct (Qltb tol (y - p)) eqn:E.
  - apply Qltb_true in E. specialize (IH y y Hs' (Qle_refl y)).
    cbn [gaps]. cbn [gaps] in IH. split; [lra|exact IH].
  - apply IH; [exact Hs'|lra].
Qed.
Lemma dedup_gaps tol l : StronglySorted Qlt l -> gaps tol (dedup tol l).
Proof.
  destruct l as [|x l]; intros Hs; [exact I|].
  cbn [dedup]. apply tol_filter_gaps; [exact Hs|lra].
Qed.

(* on well-separated points nothing is dropped *)
Lemma tol_filter_id tol pts :
  (forall x y, In x pts -> In y pts -> x == y \/ tol < x - y \/ tol < y - x) -> 0 <= tol ->
  forall l p, StronglySorted Qlt (p :: l) -> incl (p :: l) pts -> tol_filter tol p l = l.
Proof.
  intros Hsep Htol. induction l as [|y l IH]; intros p Hs Hi; [reflexivity|].
  assert (Hpy : p < y) by (apply (sorted_tail_gt _ _ Hs); left; reflexivity).
  assert (Hs' : StronglySorted Qlt (y :: l)) by (eapply sorted_tail; eauto).
  cbn [tol_filter].
  assert (E : Qltb tol (y - p) = true).
  { apply Qltb_true.
    destruct (Hsep p y) as [H|[H|H]]; try lra; apply Hi; simpl; auto. }
  rewrite E. f_equal. apply IH; [exact Hs'|]. intros z Hz. apply Hi. right. exact Hz.
Qed.

(* ---------- get_full_tlist ---------- *)
Definition all_points (ps : list pulse) : list Q := List.concat (all_tlists ps).

Lemma full_tlist_in tol ps full :
  get_full_tlist tol ps = Some full -> forall t, In t full -> In t (all_points ps).
Proof.
  unfold get_full_tlist, all_points. destruct (all_tlists ps) as [|tl0 tls]; [discriminate|].
  intros H t Ht. injection H as <-.
  apply dedup_in in Ht. apply uniq_in in Ht. apply (proj1 (qsort_in _ _)) in Ht. exact Ht.
Qed.
Lemma full_tlist_sorted tol ps full :
  get_full_tlist tol ps = Some full -> StronglySorted Qlt full.
Proof.
  unfold get_full_tlist. destruct (all_tlists ps) as [|tl0 tls]; [discriminate|].
  intros H. injection H as <-.
  apply dedup_sorted, uniq_sorted_strict, qsort_sorted.
Qed.
Lemma full_tlist_gaps tol ps full :
  get_full_tlist tol ps = Some full -> gaps tol full.
Proof.
  unfold get_full_tlist. destruct (all_tlists ps) as [|tl0 tls]; [discriminate|].
  intros H. injection H as <-.
  apply dedup_gaps, uniq_sorted_strict, qsort_sorted.
Qed.
Lemma full_tlist_complete tol ps full :
  0 <= tol ->
  (forall x y, In x (all_points ps) -> In y (all_points ps) -> x == y \/ tol < x - y \/ tol < y - x) ->
  get_full_tlist tol ps = Some full ->
  forall x, In x (all_points ps) -> exists y, In y full /\ y == x.
Proof.
  unfold get_full_tlist, all_points. intros Htol Hsep H x Hx.
  destruct (all_tlists ps) as [|tl0 tls]; [discriminate|].
  injection H as <-.
  set (pts := List.concat (tl0 :: tls)) in *.
  assert (Hu : StronglySorted Qlt (uniq_sorted (qsort pts)))
    by (apply uniq_sorted_strict, qsort_sorted).
  assert (Hi : incl (uniq_sorted (qsort pts)) pts).
  { intros z Hz. apply uniq_in in Hz. apply (proj1 (qsort_in _ _)) in Hz. exact Hz. }
  assert (Hd : dedup tol (uniq_sorted (qsort pts)) = uniq_sorted (qsort pts)).
  { destruct (uniq_sorted (qsort pts)) as [|p l]; [reflexivity|].
    cbn [dedup]. f_equal. eapply tol_filter_id; eauto. }
  change (exists y, In y (dedup tol (uniq_sorted (qsort pts))) /\ y == x).
  rewrite Hd. apply uniq_complete. apply qsort_in. exact Hx.
Qed.
