(* C05: the gate cycles returned by Scheduler.schedule(..., gates_schedule=True) partition the gates, are
   qubit-exclusive, respect the dependency order, and executing them cycle by cycle has the same effect as the
   original order for ANY semantics `act` in which (H1) gates on disjoint qubits commute and (H2) gates declared
   commuting by the commutation predicate commute. *)
From Coq Require Import String Ascii.
From Coq Require Import List Arith Bool QArith PeanoNat Lia Lqa Permutation.
From QV Require Import Model.Sched Proofs.SchedBase Proofs.SchedList Proofs.SchedGraph Proofs.SchedDist
  Proofs.SchedC11 Proofs.SchedC11Inst.
Import ListNotations.
Open Scope nat_scope.

(* ---------- sorting a permutation of 0..n-1 ---------- *)
Lemma insert_In : forall lt x l y, In y (insert lt x l) <-> y = x \/ In y l.
Proof.
  intros lt x l y. split; intros H.
  - apply (Permutation_in _ (insert_perm lt x l)) in H. simpl in H. destruct H as [<-|H]; tauto.
  - apply (Permutation_in _ (Permutation_sym (insert_perm lt x l))). simpl. destruct H as [->|H]; tauto.
Qed.

Lemma insert_inc : forall x l, inc l -> ~ In x l -> inc (insert Nat.ltb x l).
Proof.
  intros x l. induction l as [|y r IH]; intros Hinc Hn; simpl.
  - split; [intros z []| exact I].
  - destruct Hinc as [Hy Hr]. destruct (Nat.ltb y x) eqn:Hlt.
    + apply Nat.ltb_lt in Hlt. simpl. split.
      * intros z Hz. apply insert_In in Hz. destruct Hz as [->|Hz]; [exact Hlt | apply Hy; exact Hz].
      * apply IH; [exact Hr | intros H; apply Hn; right; exact H].
    + apply Nat.ltb_ge in Hlt. assert (x < y) by (assert (x <> y) by (intros ->; apply Hn; left; reflexivity); lia).
      simpl. split; [|split; assumption].
      intros z [<-|Hz]; [exact H | specialize (Hy z Hz); lia].
Qed.

Lemma isort_inc : forall l, NoDup l -> inc (isort Nat.ltb l).
Proof.
  induction l as [|x r IH]; intros Hnd; simpl; [exact I|].
  inversion Hnd as [|? ? Hx Hr]; subst. apply insert_inc; [apply IH; exact Hr|].
  intros H. apply Hx. apply (Permutation_in _ (isort_perm Nat.ltb r)). exact H.
Qed.

Lemma inc_unique : forall l l', inc l -> inc l' -> (forall x, In x l <-> In x l') -> l = l'.
Proof.
  induction l as [|a r IH]; intros l' Hl Hl' Heq.
  - destruct l' as [|b r']; [reflexivity|]. exfalso. apply (Heq b). left. reflexivity.
  - destruct l' as [|b r']; [exfalso; apply (Heq a); left; reflexivity|].
    destruct Hl as [Ha Hr]. destruct Hl' as [Hb Hr'].
    assert (Hab : a = b).
    { assert (H1 : In a (b :: r')) by (apply Heq; left; reflexivity).
      assert (H2 : In b (a :: r)) by (apply Heq; left; reflexivity).
      destruct H1 as [H1|H1]; [congruence|]. destruct H2 as [H2|H2]; [congruence|].
      specialize (Ha b H2). specialize (Hb a H1). lia. }
    subst b. f_equal. apply IH; try assumption.
    intros x. split; intros Hx.
    + assert (H : In x (a :: r')) by (apply Heq; right; exact Hx).
      destruct H as [<-|H]; [specialize (Ha a Hx); lia | exact H].
    + assert (H : In x (a :: r)) by (apply Heq; right; exact Hx).
      destruct H as [<-|H]; [specialize (Hb a Hx); lia | exact H].
Qed.

Lemma isort_seq : forall l n, Permutation l (seq 0 n) -> isort Nat.ltb l = seq 0 n.
Proof.
  intros l n Hp. apply inc_unique.
  - apply isort_inc. eapply Permutation_NoDup; [apply Permutation_sym; exact Hp | apply seq_NoDup].
  - apply inc_seq.
  - intros x. split; intros H.
    + apply (Permutation_in _ Hp). apply (Permutation_in _ (isort_perm Nat.ltb l)). exact H.
    + apply (Permutation_in _ (Permutation_sym (isort_perm Nat.ltb l))). apply (Permutation_in _ (Permutation_sym Hp)). exact H.
Qed.

(* ---------- a linear extension has the same effect ---------- *)
Section LinExt.
  Variable St : Type.
  Variable f : nat -> St -> St.
  Definition run (l : list nat) (s : St) : St := fold_left (fun s i => f i s) l s.
  Definition commutes (a b : nat) : Prop := forall s, f a (f b s) = f b (f a s).

  Lemma run_insert : forall x l s, (forall y, In y l -> y < x -> commutes x y) ->
    run (insert Nat.ltb x l) s = run (x :: l) s.
  Proof.
    intros x l. induction l as [|y r IH]; intros s Hc; simpl; [reflexivity|].
    destruct (Nat.ltb y x) eqn:Hlt; [|reflexivity].
    apply Nat.ltb_lt in Hlt. simpl.
    unfold run in IH. rewrite IH by (intros z Hz; apply Hc; right; exact Hz). simpl.
    rewrite (Hc y (or_introl eq_refl) Hlt). reflexivity.
  Qed.

  Lemma run_isort : forall (l : list nat) s,
    (forall (l1 : list nat) x (l2 : list nat), l = (l1 ++ x :: l2)%list -> forall y, In y l2 -> y < x -> commutes x y) ->
    run (isort Nat.ltb l) s = run l s.
  Proof.
    induction l as [|x r IH]; intros s Hc; simpl; [reflexivity|].
    rewrite run_insert.
    - simpl. apply (IH (f x s)). intros l1 z l2 He y Hy Hlt. apply (Hc (x :: l1) z l2); [rewrite He; reflexivity | exact Hy | exact Hlt].
    - intros y Hy Hlt. apply (Hc [] x r eq_refl y); [|exact Hlt].
      apply (Permutation_in _ (isort_perm Nat.ltb r)). exact Hy.
  Qed.
End LinExt.

(* ---------- generic statement on the scheduler core ---------- *)
Section Cycles.
  Variable n : nat.
  Variable used : nat -> list nat.
  Variable dur : nat -> Q.
  Variable comm : nat -> nat -> bool.
  Variable alap random : bool.
  Variables sh so : nat -> list nat -> list nat.
  Hypothesis dur_nonneg : forall v, (0 <= dur v)%Q.
  Hypothesis Hn : 0 < n.
  Hypothesis Hq : exists i q, i < n /\ In q (used i).

  Theorem cycles_spec : forall ks ko, exists cycles ks' ko',
    schedule_cycles n used dur comm alap random sh so ks ko = Some (cycles, ks', ko') /\
    Permutation (concat cycles) (seq 0 n) /\
    (forall c, In c cycles -> forall a b, In a c -> In b c -> a <> b -> shares used a b = false) /\
    (forall i j, i < j -> j < n -> shares used i j = true -> comm j i = false -> beforeC cycles i j).
  Proof.
    intros ks ko.
    destruct (core_spec n used dur comm alap random sh so dur_nonneg Hn Hq ks ko)
      as (r & nq & Hnq & Hcore & Hgraph & Hperm & HtW & _ & Hfop).
    rewrite schedule_cycles_unfold by exact Hn. rewrite Hcore.
    set (cycles := cr_cycles r) in *.
    exists (if alap then rev cycles else cycles), (cr_ks r), (cr_ko r). split; [reflexivity|].
    assert (Hnd : NoDup (concat cycles)) by (eapply Permutation_NoDup; [apply Permutation_sym; exact Hperm | apply seq_NoDup]).
    assert (Hexcl : forall c, In c cycles -> forall a b, In a c -> In b c -> a <> b -> shares used a b = false).
    { intros c Hc a b Ha Hb Hne. rewrite Forall_forall in Hfop. specialize (Hfop c Hc).
      destruct (ForallOrdPairs_In Hfop a b Ha Hb) as [H|[H|H]]; [congruence | |]; unfold RR in H.
      - rewrite shares_sym. exact H.
      - exact H. }
    assert (HG : forall a b, In (a, b) (dep_edges n used comm nq) -> beforeC (if alap then rev cycles else cycles) a b).
    { intros a b H. rewrite Hgraph in HtW. destruct alap.
      - apply beforeC_rev; [exact Hnd|]. apply HtW. apply (proj2 (swapE_In _ _ _)). exact H.
      - apply HtW. exact H. }
    split; [|split].
    - destruct alap; [eapply perm_trans; [apply concat_rev_perm | exact Hperm] | exact Hperm].
    - intros c Hc. apply Hexcl. destruct alap; [apply in_rev; exact Hc | exact Hc].
    - intros i j Hij Hj Hs Hc.
      assert (Hi : i < n) by lia.
      apply shares_spec in Hs. destruct Hs as (q & Hqi & Hqj).
      pose proof (num_qubits_bound n used nq Hnq i q Hi Hqi) as Hqn.
      pose proof (dep_edges_D1 n used comm nq q i j Hqn Hij Hj Hqi Hqj Hc) as Hpath.
      apply (path_rel (beforeC (if alap then rev cycles else cycles)) (dep_edges n used comm nq)); [| |exact Hpath].
      + intros a b c. apply beforeC_trans.
      + exact HG.
  Qed.
End Cycles.

(* ---------- on instruction lists ---------- *)
Lemma fold_seq_nth : forall (A St : Type) (act : A -> St -> St) (d : A) (l pre : list A) (s : St),
  fold_left (fun s i => act (nth i (pre ++ l) d) s) (seq (length pre) (length l)) s =
  fold_left (fun s g => act g s) l s.
Proof.
  intros A St act d l. induction l as [|a r IH]; intros pre s; simpl; [reflexivity|].
  rewrite nth_middle.
  replace (pre ++ a :: r) with ((pre ++ [a]) ++ r) by (rewrite <- app_assoc; reflexivity).
  replace (S (length pre)) with (length (pre ++ [a])) by (rewrite app_length; simpl; lia).
  apply IH.
Qed.

Section InstCycles.
  Variable commI : instr -> instr -> bool.
  Variable allow_permutation : bool.
  Variable instrs : list instr.
  Variable alap random : bool.
  Variables sh so : nat -> list nat -> list nat.
  Hypothesis Hvalid : valid_input instrs.

  Definition disjoint_qubits (a b : instr) : Prop := forall q, uses a q -> ~ uses b q.

  Lemma shares_false_disjoint : forall i j, shares (usedI instrs) i j = false -> disjoint_qubits (ith instrs i) (ith instrs j).
  Proof.
    intros i j H q Hi Hj.
    assert (Ht : shares (usedI instrs) i j = true).
    { apply shares_spec. exists q. unfold usedI. split; apply iused_uses; assumption. }
    congruence.
  Qed.

  Lemma cycles_all : forall ks ko, exists cycles ks' ko',
    sched_cycles commI allow_permutation instrs alap random sh so ks ko = Some (cycles, ks', ko') /\
    Permutation (concat cycles) (seq 0 (length instrs)) /\
    (forall c, In c cycles -> forall a b, In a c -> In b c -> a <> b -> disjoint_qubits (ith instrs a) (ith instrs b)) /\
    (forall i j, i < j -> j < length instrs -> (exists q, uses (ith instrs i) q /\ uses (ith instrs j) q) ->
                 commN commI allow_permutation instrs j i = false -> beforeC cycles i j).
  Proof.
    intros ks ko. unfold sched_cycles.
    destruct (cycles_spec (nI instrs) (usedI instrs) (durI instrs) (commN commI allow_permutation instrs)
                alap random sh so (inst_dur instrs Hvalid) (inst_n instrs Hvalid) (inst_q instrs Hvalid) ks ko)
      as (cycles & ks' & ko' & H0 & H1 & H2 & H3).
    exists cycles, ks', ko'. split; [exact H0|]. split; [exact H1|]. split.
    - intros c Hc a b Ha Hb Hne. apply shares_false_disjoint. apply (H2 c Hc a b Ha Hb Hne).
    - intros i j Hij Hj Hs Hc. apply (H3 i j Hij Hj (inst_shares instrs i j Hs) Hc).
  Qed.

  Lemma cycles_defined : forall ks ko, exists cycles ks' ko',
    sched_cycles commI allow_permutation instrs alap random sh so ks ko = Some (cycles, ks', ko').
  Proof. intros. destruct (cycles_all ks ko) as (c & k1 & k2 & H & _). exists c, k1, k2. exact H. Qed.

  Lemma sched_partition : forall ks ko cycles ks' ko',
    sched_cycles commI allow_permutation instrs alap random sh so ks ko = Some (cycles, ks', ko') ->
    Permutation (concat cycles) (seq 0 (length instrs)).
  Proof.
    intros ks ko cycles ks' ko' H. destruct (cycles_all ks ko) as (c & k1 & k2 & H0 & H1 & _).
    rewrite H in H0. inversion H0; subst. exact H1.
  Qed.

  Lemma sched_exclusive : forall ks ko cycles ks' ko',
    sched_cycles commI allow_permutation instrs alap random sh so ks ko = Some (cycles, ks', ko') ->
    forall c, In c cycles -> forall a b, In a c -> In b c -> a <> b -> disjoint_qubits (ith instrs a) (ith instrs b).
  Proof.
    intros ks ko cycles ks' ko' H. destruct (cycles_all ks ko) as (c & k1 & k2 & H0 & _ & H2 & _).
    rewrite H in H0. inversion H0; subst. exact H2.
  Qed.

  Lemma sched_order : forall ks ko cycles ks' ko',
    sched_cycles commI allow_permutation instrs alap random sh so ks ko = Some (cycles, ks', ko') ->
    forall i j, i < j -> j < length instrs -> (exists q, uses (ith instrs i) q /\ uses (ith instrs j) q) ->
      commN commI allow_permutation instrs j i = false -> cidx cycles i < cidx cycles j.
  Proof.
    intros ks ko cycles ks' ko' H. destruct (cycles_all ks ko) as (c & k1 & k2 & H0 & _ & _ & H3).
    rewrite H in H0. inversion H0; subst. intros i j Hij Hj Hs Hc. apply (H3 i j Hij Hj Hs Hc).
  Qed.

  (* semantics *)
  Variable St : Type.
  Variable act : instr -> St -> St.
  Hypothesis H1 : forall a b, disjoint_qubits a b -> forall s, act a (act b s) = act b (act a s).
  Hypothesis H2 : forall a b, commI a b = true -> forall s, act a (act b s) = act b (act a s).

  Lemma sched_sem : forall ks ko cycles ks' ko',
    sched_cycles commI allow_permutation instrs alap random sh so ks ko = Some (cycles, ks', ko') ->
    forall s, fold_left (fun s i => act (ith instrs i) s) (concat cycles) s = fold_left (fun s g => act g s) instrs s.
  Proof.
    intros ks ko cycles ks' ko' H s. destruct (cycles_all ks ko) as (c & k1 & k2 & H0 & Hp & _ & Hord).
    rewrite H in H0. inversion H0; subst c k1 k2. clear H0.
    set (f := fun i => act (ith instrs i)).
    change (run St f (concat cycles) s = fold_left (fun s g => act g s) instrs s).
    rewrite <- (run_isort St f (concat cycles) s).
    - rewrite (isort_seq _ _ Hp). unfold run, f, ith.
      apply (fold_seq_nth instr St act dummy_instr instrs [] s).
    - intros l1 x l2 He y Hy Hlt. unfold commutes, f.
      assert (Hnd : NoDup (concat cycles)) by (eapply Permutation_NoDup; [apply Permutation_sym; exact Hp | apply seq_NoDup]).
      assert (Hx : x < length instrs).
      { assert (Hi : In x (seq 0 (length instrs))) by (apply (Permutation_in _ Hp); rewrite He; apply in_app_iff; right; left; reflexivity).
        apply in_seq in Hi. lia. }
      destruct (shares (usedI instrs) y x) eqn:Hs.
      + destruct (commN commI allow_permutation instrs x y) eqn:Hc.
        * unfold commN in Hc. destruct allow_permutation; [|discriminate]. apply H2. exact Hc.
        * exfalso. apply shares_spec in Hs. destruct Hs as (q & Hqy & Hqx).
          assert (Hb : beforeC cycles y x).
          { apply (Hord y x Hlt Hx); [|exact Hc]. exists q. unfold usedI in *. split; apply iused_uses; assumption. }
          pose proof (beforeC_prefix cycles y x l1 l2 Hb He) as Hyl1.
          rewrite He in Hnd. apply (NoDup_app_disj _ _ y Hnd Hyl1). right. exact Hy.
      + intros s0. apply H1. apply shares_false_disjoint. rewrite shares_sym. exact Hs.
  Qed.
End InstCycles.

Lemma sched_order_no_perm : forall commI instrs alap random sh so, valid_input instrs ->
  forall ks ko cycles ks' ko',
    sched_cycles commI false instrs alap random sh so ks ko = Some (cycles, ks', ko') ->
    forall i j, i < j -> j < length instrs -> (exists q, uses (ith instrs i) q /\ uses (ith instrs j) q) ->
      cidx cycles i < cidx cycles j.
Proof.
  intros commI instrs alap random sh so Hv ks ko cycles ks' ko' H i j Hij Hj Hs.
  apply (sched_order commI false instrs alap random sh so Hv ks ko cycles ks' ko' H i j Hij Hj Hs). reflexivity.
Qed.

(* ---------- examples / the shipped rule for FREDKIN is unsound already on classical bit strings ---------- *)
Local Open Scope string_scope.
Definition c05_example : list instr :=
  [ mkInstr "X" [0] [] [] 1%Q; mkInstr "CNOT" [1] [0] [] 1%Q; mkInstr "X" [1] [] [] 1%Q ].

Lemma c05_example_valid : valid_input c05_example.
Proof.
  unfold valid_input, c05_example. split; [discriminate|]. split.
  - repeat constructor.
  - eexists. exists 0. split; [left; reflexivity|]. unfold uses. simpl. left. reflexivity.
Qed.

Lemma c05_example_cycles :
  sched_cycles commutation_rules true c05_example false false so_asc so_asc 0 0 = Some ([[0; 2]; [1]], 0, 6).
Proof. vm_compute. reflexivity. Qed.

Lemma c05_example_noperm :
  sched_cycles commutation_rules false c05_example false false so_asc so_asc 0 0 = Some ([[0]; [1]; [2]], 0, 6).
Proof. vm_compute. reflexivity. Qed.

(* controlled swap on a classical register (list of bits) *)
Definition bit (s : list bool) (q : nat) : bool := nth q s false.
Fixpoint setbit (s : list bool) (q : nat) (b : bool) : list bool :=
  match s, q with
  | [], _ => []
  | _ :: r, 0 => b :: r
  | x :: r, S q' => x :: setbit r q' b
  end.
Definition fredkin_bits (c t1 t2 : nat) (s : list bool) : list bool :=
  if bit s c then setbit (setbit s t1 (bit s t2)) t2 (bit s t1) else s.

Definition fredkin_a : instr := mkInstr "FREDKIN" [1; 2] [0] [] 1%Q.
Definition fredkin_b : instr := mkInstr "FREDKIN" [2; 3] [0] [] 1%Q.

Lemma commutation_rules_orig_refuted :
  commutation_rules_orig fredkin_b fredkin_a = true /\
  (exists q, uses fredkin_a q /\ uses fredkin_b q) /\
  exists s, fredkin_bits 0 2 3 (fredkin_bits 0 1 2 s) <> fredkin_bits 0 1 2 (fredkin_bits 0 2 3 s).
Proof.
  split; [vm_compute; reflexivity|]. split.
  - exists 2. unfold uses, fredkin_a, fredkin_b. simpl. tauto.
  - exists [true; true; false; false]. vm_compute. discriminate.
Qed.

Lemma commutation_rules_fixed_fredkin : commutation_rules fredkin_b fredkin_a = false.
Proof. vm_compute. reflexivity. Qed.
