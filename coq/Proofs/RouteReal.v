(* C07: the three gate-semantics laws assumed by the routing theorems HOLD for the library's real gate matrices
   (Gen.Gates, regenerated from the source), embedded by `app`, in every phase ring, for all parameter values.
   Hence route_linear_sem / route_circular_sem / route_many / adjacent_gates_* speak about actual unitaries. *)
From Coq Require Import ZArith List String Bool Lia FunctionalExtensionality.
Import ListNotations.
From QV Require Import Found.Circ Found.Comm Found.Closed Gen.Gates Proofs.C09.
From QV Require Import Model.Route Proofs.RouteLoop Proofs.RouteSem Proofs.RouteMain.
Local Open Scope string_scope.
Local Open Scope nat_scope.

(* qubit labels are integers in the model; an injective coding into nat (real circuits only use z >= 0 -> 2z) *)
Definition enc (z : Z) : nat := if (0 <=? z)%Z then 2 * Z.to_nat z else 2 * Z.to_nat (- z)%Z - 1.
Lemma enc_inj x y : enc x = enc y -> x = y.
Proof. unfold enc. destruct (0 <=? x)%Z eqn:Ex; destruct (0 <=? y)%Z eqn:Ey; lia. Qed.

(* the seven overlap patterns of a SWAP(p,q) with a two-qubit gate on [x;y], as local symbolic identities *)
Definition swapm : mexp := match assoc "SWAP" dispatch with Some m => m | None => fn_swap end.
Definition conj_checks (m : mexp) : bool :=
  let S := swapm in
  scirc_eqb 2 [(S,[0;1]); (m,[0;1]); (S,[0;1])] [(m,[1;0])] &&
  scirc_eqb 2 [(S,[0;1]); (m,[1;0]); (S,[0;1])] [(m,[0;1])] &&
  scirc_eqb 3 [(S,[0;1]); (m,[0;2]); (S,[0;1])] [(m,[1;2])] &&
  scirc_eqb 3 [(S,[0;1]); (m,[1;2]); (S,[0;1])] [(m,[0;2])] &&
  scirc_eqb 3 [(S,[0;1]); (m,[2;0]); (S,[0;1])] [(m,[2;1])] &&
  scirc_eqb 3 [(S,[0;1]); (m,[2;1]); (S,[0;1])] [(m,[2;0])] &&
  scirc_eqb 4 [(S,[0;1]); (m,[2;3]); (S,[0;1])] [(m,[2;3])].
Definition sym_check (m : mexp) : bool := scirc_eqb 2 [(m,[0;1])] [(m,[1;0])].

Definition ctrl_names := ["CNOT"; "CSIGN"].
Definition all_ok : bool :=
  forallb (fun n => match assoc n dispatch with Some m => conj_checks m | None => false end) (ctrl_names ++ swap_gates) &&
  forallb (fun n => match assoc n dispatch with Some m => sym_check m | None => false end) swap_gates &&
  match assoc "SWAP" dispatch with Some _ => true | None => false end && mclosed swapm.
Lemma all_ok_true : all_ok = true. Proof. vm_compute. reflexivity. Qed.

Section Real.
Variable R : PhaseRing.
Variable env : option Z -> atoms R.       (* parameter values of a gate, by its arg_value token *)

Definition gmat (A : atoms R) (m : mexp) : mat R := emat (withA R A) (mmat m).
Definition act_real (g : gate) (st : state R) : state R :=
  match assoc (gname g) dispatch with
  | Some m => Base.app (gmat (env (garg g)) m) (map enc (gcontrols g ++ gtargets g)) st
  | None => st
  end.

Lemma swap_any A B : gmat A swapm = gmat B swapm.
Proof.
  apply emat_closed. pose proof all_ok_true as H. unfold all_ok in H.
  apply andb_prop in H. destruct H as [_ H]. exact H.
Qed.

(* generic conjugation law for one matrix expression whose seven checks hold *)
Lemma conj_gen (A : atoms R) (m : mexp) : conj_checks m = true ->
  forall p q x y (st : state R), p <> q -> x <> y ->
  Base.app (gmat A swapm) [enc p; enc q] (Base.app (gmat A m) [enc x; enc y] (Base.app (gmat A swapm) [enc p; enc q] st))
  = Base.app (gmat A m) [enc (tau p q x); enc (tau p q y)] st.
Proof.
  unfold conj_checks. intros C p q x y st Hpq Hxy.
  apply andb_prop in C; destruct C as [C K7]. apply andb_prop in C; destruct C as [C K6].
  apply andb_prop in C; destruct C as [C K5]. apply andb_prop in C; destruct C as [C K4].
  apply andb_prop in C; destruct C as [C K3]. apply andb_prop in C; destruct C as [K1 K2].
  assert (Epq : enc p <> enc q) by (intro E; apply enc_inj in E; contradiction).
  assert (Exy : enc x <> enc y) by (intro E; apply enc_inj in E; contradiction).
  assert (ND2 : forall a b : nat, a <> b -> NoDup [a; b]).
  { intros a b N. constructor; [simpl; intuition| constructor; [simpl; tauto| constructor]]. }
  assert (ND3 : forall a b c : nat, a <> b -> a <> c -> b <> c -> NoDup [a; b; c]).
  { intros a b c N1 N2 N3. constructor; [simpl; intuition|]. apply ND2. exact N3. }
  destruct (Z.eq_dec x p) as [Xp|Xp]; [|destruct (Z.eq_dec x q) as [Xq|Xq]].
  - subst x. rewrite tau_l.
    destruct (Z.eq_dec y q) as [Yq|Yq].
    + subst y. rewrite tau_r.
      pose proof (rule_sound R A 2 _ _ [enc p; enc q] K1 (ND2 _ _ Epq) eq_refl) as E.
      apply (f_equal (fun f => f st)) in E. exact E.
    + rewrite (tau_other p q y) by congruence.
      assert (Ey1 : enc p <> enc y) by (intro E; apply enc_inj in E; congruence).
      assert (Ey2 : enc q <> enc y) by (intro E; apply enc_inj in E; congruence).
      pose proof (rule_sound R A 3 _ _ [enc p; enc q; enc y] K3 (ND3 _ _ _ Epq Ey1 Ey2) eq_refl) as E.
      apply (f_equal (fun f => f st)) in E. exact E.
  - subst x. rewrite tau_r.
    destruct (Z.eq_dec y p) as [Yp|Yp].
    + subst y. rewrite tau_l.
      pose proof (rule_sound R A 2 _ _ [enc p; enc q] K2 (ND2 _ _ Epq) eq_refl) as E.
      apply (f_equal (fun f => f st)) in E. exact E.
    + rewrite (tau_other p q y) by congruence.
      assert (Ey1 : enc p <> enc y) by (intro E; apply enc_inj in E; congruence).
      assert (Ey2 : enc q <> enc y) by (intro E; apply enc_inj in E; congruence).
      pose proof (rule_sound R A 3 _ _ [enc p; enc q; enc y] K4 (ND3 _ _ _ Epq Ey1 Ey2) eq_refl) as E.
      apply (f_equal (fun f => f st)) in E. exact E.
  - rewrite (tau_other p q x) by assumption.
    assert (Ex1 : enc p <> enc x) by (intro E; apply enc_inj in E; congruence).
    assert (Ex2 : enc q <> enc x) by (intro E; apply enc_inj in E; congruence).
    destruct (Z.eq_dec y p) as [Yp|Yp]; [|destruct (Z.eq_dec y q) as [Yq|Yq]].
    + subst y. rewrite tau_l.
      pose proof (rule_sound R A 3 _ _ [enc p; enc q; enc x] K5 (ND3 _ _ _ Epq Ex1 Ex2) eq_refl) as E.
      apply (f_equal (fun f => f st)) in E. exact E.
    + subst y. rewrite tau_r.
      pose proof (rule_sound R A 3 _ _ [enc p; enc q; enc x] K6 (ND3 _ _ _ Epq Ex1 Ex2) eq_refl) as E.
      apply (f_equal (fun f => f st)) in E. exact E.
    + rewrite (tau_other p q y) by assumption.
      assert (Ey1 : enc p <> enc y) by (intro E; apply enc_inj in E; congruence).
      assert (Ey2 : enc q <> enc y) by (intro E; apply enc_inj in E; congruence).
      assert (ND4 : NoDup [enc p; enc q; enc x; enc y]).
      { constructor; [simpl; intuition|]. apply ND3; assumption. }
      pose proof (rule_sound R A 4 _ _ [enc p; enc q; enc x; enc y] K7 ND4 eq_refl) as E.
      apply (f_equal (fun f => f st)) in E. exact E.
Qed.

Lemma checks_of n : In n (ctrl_names ++ swap_gates) -> exists m, assoc n dispatch = Some m /\ conj_checks m = true.
Proof.
  intros H. pose proof all_ok_true as K. unfold all_ok in K.
  apply andb_prop in K. destruct K as [K _]. apply andb_prop in K. destruct K as [K _]. apply andb_prop in K. destruct K as [K _].
  rewrite forallb_forall in K. specialize (K n H). destruct (assoc n dispatch) as [m|]; [|discriminate].
  exists m. split; [reflexivity| exact K].
Qed.
Lemma sym_of n : In n swap_gates -> exists m, assoc n dispatch = Some m /\ sym_check m = true.
Proof.
  intros H. pose proof all_ok_true as K. unfold all_ok in K.
  apply andb_prop in K. destruct K as [K _]. apply andb_prop in K. destruct K as [K _]. apply andb_prop in K. destruct K as [_ K].
  rewrite forallb_forall in K. specialize (K n H). destruct (assoc n dispatch) as [m|]; [|discriminate].
  exists m. split; [reflexivity| exact K].
Qed.
Lemma swap_in : assoc "SWAP" dispatch = Some swapm.
Proof.
  pose proof all_ok_true as K. unfold all_ok in K.
  apply andb_prop in K. destruct K as [K _]. apply andb_prop in K. destruct K as [_ K].
  unfold swapm. destruct (assoc "SWAP" dispatch); [reflexivity| discriminate].
Qed.
Lemma is_ctrl_in n : is_ctrl n = true -> In n (ctrl_names ++ swap_gates).
Proof.
  unfold is_ctrl. intros H. apply orb_prop in H. apply in_or_app. left.
  destruct H as [H|H]; apply String.eqb_eq in H; subst; simpl; auto.
Qed.
Lemma is_swapk_in n : is_swapk n = true -> In n swap_gates.
Proof.
  unfold is_swapk. intros H. apply existsb_exists in H. destruct H as [s [Hs E]].
  apply String.eqb_eq in E. subst. exact Hs.
Qed.

Lemma act_swap p q st : act_real (SWAPg p q) st = Base.app (gmat (env None) swapm) [enc p; enc q] st.
Proof. unfold act_real, SWAPg. cbn [gname garg gcontrols gtargets]. rewrite swap_in. reflexivity. Qed.

Theorem real_laws : sem_laws (state R) act_real.
Proof.
  split; [|split].
  - intros n Hn p q x y st Hpq Hxy.
    destruct (checks_of n (is_ctrl_in n Hn)) as [m [Em Cm]].
    rewrite !act_swap. unfold act_real, Cg. cbn [gname garg gcontrols gtargets List.app map]. rewrite Em.
    apply conj_gen; assumption.
  - intros n a Hn p q x y st Hpq Hxy.
    destruct (checks_of n (in_or_app _ _ _ (or_intror (is_swapk_in n Hn)))) as [m [Em Cm]].
    rewrite !act_swap. unfold act_real, SWg. cbn [gname garg gcontrols gtargets List.app map]. rewrite Em.
    rewrite (swap_any (env None) (env a)). apply conj_gen; assumption.
  - intros n a x y st Hn.
    destruct (sym_of n (is_swapk_in n Hn)) as [m [Em Sm]].
    unfold act_real, SWg. cbn [gname garg gcontrols gtargets List.app map]. rewrite Em.
    destruct (Z.eq_dec x y) as [->|Nxy]; [reflexivity|].
    assert (Exy : enc x <> enc y) by (intro E; apply enc_inj in E; contradiction).
    assert (ND : NoDup [enc x; enc y]).
    { constructor; [simpl; intuition| constructor; [simpl; tauto| constructor]]. }
    pose proof (rule_sound R (env a) 2 _ _ [enc x; enc y] Sm ND eq_refl) as E.
    apply (f_equal (fun f => f st)) in E. exact E.
Qed.
End Real.

(* the routing theorems instantiated at the real matrix semantics *)
Theorem route_one_real (R : PhaseRing) (env : option Z -> atoms R) tp N g :
  wf_handled g = true -> in_rangeb N g = true ->
  exists out, route fixed tp N [g] = Some out /\
              (forall st, run (state R) (act_real R env) out st = act_real R env g st) /\
              forallb (adj2b tp N) out = true /\ forallb (in_rangeb N) out = true.
Proof. apply (route_one (state R) (act_real R env) (real_laws R env)). Qed.

