(* C04 layer D: every program that contains a statement of one of the malformation classes named by the property is
   rejected by the importer model (import_prog = None), whatever else the program contains. *)
From Coq Require Import Lia.
From QV Require Import Model.QasmImport.
Local Open Scope string_scope.
Local Open Scope nat_scope.
Local Open Scope list_scope.

Lemma omap_none {X Y} (f : X -> option Y) l x : In x l -> f x = None -> omap f l = None.
Proof.
  induction l as [|a l IH]; intros Hin Hx; [destruct Hin|]. simpl. destruct Hin as [<-|Hin].
  - rewrite Hx. reflexivity.
  - rewrite (IH Hin Hx). destruct (f a); reflexivity.
Qed.

Section R.
Variable A : VAlg.

(* ---- lifting: one rejected operation rejects the program ---- *)
Lemma final_ops_none Sg G QL CL os o : In o os -> final_op A Sg G QL CL o = None -> final_ops A Sg G QL CL os = None.
Proof.
  induction os as [|a os IH]; intros Hin Ho; [destruct Hin|]. simpl. destruct Hin as [<-|Hin].
  - rewrite Ho. reflexivity.
  - rewrite (IH Hin Ho). destruct (final_op A Sg G QL CL a); reflexivity.
Qed.
Lemma import_none_op p o :
  In o (p_ops p) -> (forall Sg G, final_op A Sg G (layout 0 (p_qregs p)) (layout 0 (p_cregs p)) o = None) -> import_prog A p = None.
Proof.
  intros Hin Ho. unfold import_prog. destruct (has_reset (p_ops p)); [reflexivity|].
  destruct (init_gates sig0 [] (p_gates p)) as [[Sg G]|]; [|reflexivity].
  rewrite (final_ops_none Sg G _ _ _ o Hin (Ho Sg G)). reflexivity.
Qed.

(* ---- reset, opaque ---- *)
Theorem rejects_reset p q : In (OReset q) (p_ops p) -> import_prog A p = None.
Proof.
  intros Hin. unfold import_prog.
  assert (H : has_reset (p_ops p) = true) by (apply existsb_exists; exists (OReset q); split; [exact Hin|reflexivity]).
  rewrite H. reflexivity.
Qed.
Lemma init_gates_opaque items : forall Sg G n ps qs, In (GOpaque n ps qs) items -> init_gates Sg G items = None.
Proof.
  induction items as [|i items IH]; intros Sg G n ps qs Hin; [destruct Hin|].
  destruct Hin as [->|Hin]; [reflexivity|].
  destruct i as [m d|m ps' qs']; [|reflexivity]. cbn [init_gates].
  destruct (init_body Sg (gd_params d) (gd_qubits d) (gd_body d)) as [b|]; try reflexivity.
  eapply IH; eauto.
Qed.
Theorem rejects_opaque p n ps qs : In (GOpaque n ps qs) (p_gates p) -> import_prog A p = None.
Proof.
  intros Hin. unfold import_prog. destruct (has_reset (p_ops p)); [reflexivity|].
  rewrite (init_gates_opaque _ _ _ n ps qs Hin). reflexivity.
Qed.

(* ---- gate applications: OApp g args qs and if(c==k) g args qs share gate_add ---- *)
Definition app_of (o : op) : option (string * list expr * list qarg) :=
  match o with OApp g args qs => Some (g, args, qs) | OIf _ _ g args qs => Some (g, args, qs) | _ => None end.
Lemma final_op_gate_add Sg G QL CL o g args qs :
  app_of o = Some (g, args, qs) -> (forall cc, gate_add A Sg G QL cc g args qs = None) -> final_op A Sg G QL CL o = None.
Proof.
  intros Ho Hg. destruct o; try discriminate; injection Ho as -> -> ->; cbn [final_op].
  - apply Hg.
  - destruct (sassoc c CL) as [[off n]|]; [|reflexivity]. destruct (2 ^ n <=? k); rewrite Hg; reflexivity.
Qed.

(* a register argument that cannot be resolved: undeclared register, or index out of range *)
Definition bad_arg (L : list (string * (nat * nat))) (a : qarg) : Prop :=
  match a with
  | AReg r => sassoc r L = None
  | AIdx r i => match sassoc r L with None => True | Some (_, n) => n <= i end
  end.
Lemma bad_arg_ireg1 L a : bad_arg L a -> ireg1 L a = None.
Proof.
  destruct a as [r|r i]; simpl; intros H.
  - rewrite H. reflexivity.
  - destruct (sassoc r L) as [[off n]|]; [|reflexivity]. destruct (Nat.ltb_spec i n); [lia|reflexivity].
Qed.
Lemma regs_gate_bad b L qs a : In a qs -> bad_arg L a -> regs_gate b L qs = None.
Proof. intros Hin Hb. unfold regs_gate. rewrite (omap_none (ireg1 L) qs a Hin (bad_arg_ireg1 L a Hb)). reflexivity. Qed.

Lemma gate_add_bad_arg Sg G QL cc g args qs a : In a qs -> bad_arg QL a -> gate_add A Sg G QL cc g args qs = None.
Proof.
  intros Hin Hb. unfold gate_add. destruct (sassoc g Sg) as [[np nq]|]; [|reflexivity].
  rewrite (regs_gate_bad true QL qs a Hin Hb). reflexivity.
Qed.
(* undeclared quantum register / index out of range in a gate application *)
Theorem rejects_bad_qubit_argument p o g args qs a :
  In o (p_ops p) -> app_of o = Some (g, args, qs) -> In a qs -> bad_arg (layout 0 (p_qregs p)) a -> import_prog A p = None.
Proof.
  intros Hin Ho Ha Hb. apply (import_none_op p o Hin). intros Sg G.
  apply (final_op_gate_add _ _ _ _ o g args qs Ho). intros cc. apply (gate_add_bad_arg _ _ _ _ _ _ _ a Ha Hb).
Qed.
(* undeclared gate *)
Theorem rejects_undeclared_gate p o g args qs :
  In o (p_ops p) -> app_of o = Some (g, args, qs) ->
  (forall Sg G, init_gates sig0 [] (p_gates p) = Some (Sg, G) -> sassoc g Sg = None) -> import_prog A p = None.
Proof.
  intros Hin Ho Hn. unfold import_prog. destruct (has_reset (p_ops p)); [reflexivity|].
  destruct (init_gates sig0 [] (p_gates p)) as [[Sg G]|] eqn:E; [|reflexivity].
  rewrite (final_ops_none Sg G _ _ _ o Hin); [reflexivity|].
  apply (final_op_gate_add _ _ _ _ o g args qs Ho). intros cc. unfold gate_add. rewrite (Hn Sg G eq_refl). reflexivity.
Qed.
(* the names known after the first pass are the predefined ones and the defined ones *)
Lemma init_gates_names items : forall Sg G Sg' G', init_gates Sg G items = Some (Sg', G') ->
  forall g, sassoc g Sg' <> None -> sassoc g Sg <> None \/ exists d, In (GDef g d) items.
Proof.
  induction items as [|i items IH]; intros Sg G Sg' G' H g Hg.
  - injection H as <- <-. left. exact Hg.
  - destruct i as [m d|m ps qs]; [|discriminate]. cbn [init_gates] in H.
    destruct (init_body Sg (gd_params d) (gd_qubits d) (gd_body d)) as [b|]; try discriminate.
    destruct (IH _ _ _ _ H g Hg) as [Hs|[d' Hd]].
    + cbn [sassoc] in Hs. destruct (String.eqb g m) eqn:E.
      * apply String.eqb_eq in E. subst. right. exists d. left. reflexivity.
      * left. exact Hs.
    + right. exists d'. right. exact Hd.
Qed.
Theorem rejects_undeclared_gate_name p o g args qs :
  In o (p_ops p) -> app_of o = Some (g, args, qs) -> sassoc g sig0 = None -> (forall d, ~ In (GDef g d) (p_gates p)) ->
  import_prog A p = None.
Proof.
  intros Hin Ho Hs Hd. apply (rejects_undeclared_gate p o g args qs Hin Ho). intros Sg G E.
  destruct (sassoc g Sg) eqn:E2; [|reflexivity]. exfalso.
  destruct (init_gates_names _ _ _ _ _ E g) as [H|[d H]]; [rewrite E2; discriminate| rewrite Hs in H; apply H; reflexivity| exact (Hd d H)].
Qed.

(* wrong number of parameters *)
Theorem rejects_param_arity p o g args qs :
  In o (p_ops p) -> app_of o = Some (g, args, qs) ->
  (forall Sg G np nq, init_gates sig0 [] (p_gates p) = Some (Sg, G) -> sassoc g Sg = Some (np, nq) -> length args <> np) ->
  import_prog A p = None.
Proof.
  intros Hin Ho Hn. unfold import_prog. destruct (has_reset (p_ops p)); [reflexivity|].
  destruct (init_gates sig0 [] (p_gates p)) as [[Sg G]|] eqn:E; [|reflexivity].
  rewrite (final_ops_none Sg G _ _ _ o Hin); [reflexivity|].
  apply (final_op_gate_add _ _ _ _ o g args qs Ho). intros cc. unfold gate_add.
  destruct (sassoc g Sg) as [[np nq]|] eqn:E2; [|reflexivity].
  destruct (regs_gate true _ qs); [|reflexivity].
  destruct (Nat.eqb_spec (length args) np) as [Heq|Hne]; [exfalso; exact (Hn Sg G np nq eq_refl E2 Heq)|reflexivity].
Qed.
(* repeated qubit / wrong number of qubits in some instance of the statement *)
Theorem rejects_bad_instance p o g args qs :
  In o (p_ops p) -> app_of o = Some (g, args, qs) ->
  (forall Sg G np nq reg_set, init_gates sig0 [] (p_gates p) = Some (Sg, G) -> sassoc g Sg = Some (np, nq) ->
      regs_gate true (layout 0 (p_qregs p)) qs = Some reg_set -> exists regs, In regs reg_set /\ (length regs <> nq \/ nnodup regs = false)) ->
  import_prog A p = None.
Proof.
  intros Hin Ho Hn. unfold import_prog. destruct (has_reset (p_ops p)); [reflexivity|].
  destruct (init_gates sig0 [] (p_gates p)) as [[Sg G]|] eqn:E; [|reflexivity].
  rewrite (final_ops_none Sg G _ _ _ o Hin); [reflexivity|].
  apply (final_op_gate_add _ _ _ _ o g args qs Ho). intros cc. unfold gate_add.
  destruct (sassoc g Sg) as [[np nq]|] eqn:E2; [|reflexivity].
  destruct (regs_gate true _ qs) as [reg_set|] eqn:E3; [|reflexivity].
  destruct (Hn Sg G np nq reg_set eq_refl E2 eq_refl) as [regs [Hr Hbad]].
  assert (F : forallb (fun regs0 => (length regs0 =? nq) && nnodup regs0) reg_set = false).
  { destruct (forallb _ reg_set) eqn:F; [|reflexivity]. rewrite forallb_forall in F. specialize (F regs Hr).
    apply andb_prop in F. destruct F as [F1 F2]. apply Nat.eqb_eq in F1. destruct Hbad as [Hb|Hb]; [contradiction|congruence]. }
  rewrite F, Bool.andb_false_r. reflexivity.
Qed.

(* expressions: the power operator, a function call or an unknown identifier make evaluation fail *)
Lemma eval_not_plain rho e : plain e = false -> eval A rho e = None.
Proof.
  induction e; cbn [plain eval]; intros H; try discriminate; try reflexivity.
  - rewrite (IHe H). reflexivity.
  - apply Bool.andb_false_iff in H. destruct H as [H|H]; [rewrite (IHe1 H); reflexivity| rewrite (IHe2 H); destruct (eval A rho e1); reflexivity].
  - apply Bool.andb_false_iff in H. destruct H as [H|H]; [rewrite (IHe1 H); reflexivity| rewrite (IHe2 H); destruct (eval A rho e1); reflexivity].
  - apply Bool.andb_false_iff in H. destruct H as [H|H]; [rewrite (IHe1 H); reflexivity| rewrite (IHe2 H); destruct (eval A rho e1); reflexivity].
  - apply Bool.andb_false_iff in H. destruct H as [H|H]; [rewrite (IHe1 H); reflexivity| rewrite (IHe2 H); destruct (eval A rho e1); reflexivity].
Qed.
Lemma eval_open e : plain e = true -> ids e <> [] -> eval A [] e = None.
Proof.
  induction e; cbn [plain ids eval]; intros Hp Hi; try discriminate; try (exfalso; apply Hi; reflexivity); try reflexivity.
  - rewrite (IHe Hp Hi). reflexivity.
  - apply andb_prop in Hp. destruct Hp as [P1 P2]. destruct (ids e1) eqn:E1.
    + rewrite (IHe2 P2 Hi). destruct (eval A [] e1); reflexivity.
    + rewrite (IHe1 P1); [reflexivity|discriminate].
  - apply andb_prop in Hp. destruct Hp as [P1 P2]. destruct (ids e1) eqn:E1.
    + rewrite (IHe2 P2 Hi). destruct (eval A [] e1); reflexivity.
    + rewrite (IHe1 P1); [reflexivity|discriminate].
  - apply andb_prop in Hp. destruct Hp as [P1 P2]. destruct (ids e1) eqn:E1.
    + rewrite (IHe2 P2 Hi). destruct (eval A [] e1); reflexivity.
    + rewrite (IHe1 P1); [reflexivity|discriminate].
  - apply andb_prop in Hp. destruct Hp as [P1 P2]. destruct (ids e1) eqn:E1.
    + rewrite (IHe2 P2 Hi). destruct (eval A [] e1); reflexivity.
    + rewrite (IHe1 P1); [reflexivity|discriminate].
Qed.
Theorem rejects_bad_expression p o g args qs e :
  In o (p_ops p) -> app_of o = Some (g, args, qs) -> In e args -> (plain e = false \/ ids e <> []) -> import_prog A p = None.
Proof.
  intros Hin Ho He Hbad. apply (import_none_op p o Hin). intros Sg G.
  apply (final_op_gate_add _ _ _ _ o g args qs Ho). intros cc. unfold gate_add.
  destruct (sassoc g Sg) as [[np nq]|]; [|reflexivity]. destruct (regs_gate true _ qs); [|reflexivity].
  destruct (_ && _); [|reflexivity].
  assert (E : eval A [] e = None).
  { destruct Hbad as [H|H]; [apply eval_not_plain; exact H|]. destruct (plain e) eqn:P; [apply eval_open; assumption|apply eval_not_plain; exact P]. }
  rewrite (omap_none (eval A []) args e He E). reflexivity.
Qed.

(* measurement and if on undeclared registers / out of range *)
Theorem rejects_bad_measure p q c :
  In (OMeasure q c) (p_ops p) -> (bad_arg (layout 0 (p_qregs p)) q \/ bad_arg (layout 0 (p_cregs p)) c) -> import_prog A p = None.
Proof.
  intros Hin Hb. apply (import_none_op p _ Hin). intros Sg G. cbn [final_op].
  destruct q as [qr|qr i], c as [cr|cr j]; cbn [bad_arg] in Hb; try reflexivity.
  - destruct Hb as [Hb|Hb]; rewrite Hb; [reflexivity|]. destruct (sassoc qr _) as [[? ?]|]; reflexivity.
  - destruct (sassoc qr (layout 0 (p_qregs p))) as [[qo qn]|]; [|reflexivity].
    destruct (sassoc cr (layout 0 (p_cregs p))) as [[co cn]|]; [|reflexivity].
    destruct Hb as [Hb|Hb].
    + destruct (Nat.ltb_spec i qn); [lia|reflexivity].
    + destruct (Nat.ltb_spec j cn); [lia|]. rewrite Bool.andb_false_r. reflexivity.
Qed.
Theorem rejects_undeclared_creg_if p c k g args qs :
  In (OIf c k g args qs) (p_ops p) -> sassoc c (layout 0 (p_cregs p)) = None -> import_prog A p = None.
Proof. intros Hin Hc. apply (import_none_op p _ Hin). intros Sg G. cbn [final_op]. rewrite Hc. reflexivity. Qed.
Theorem rejects_bad_barrier p qs a : In (OBarrier qs) (p_ops p) -> In a qs -> bad_arg (layout 0 (p_qregs p)) a -> import_prog A p = None.
Proof.
  intros Hin Ha Hb. apply (import_none_op p _ Hin). intros Sg G. cbn [final_op].
  rewrite (regs_gate_bad false _ qs a Ha Hb). reflexivity.
Qed.

(* gate definitions: a body statement that is malformed w.r.t. the gates declared before it rejects the program *)
Lemma init_body_bad Sg params qubits b h args hq :
  In (BCall h args hq) b ->
  (match sassoc h Sg with
   | None => True
   | Some (np, nq) => length args <> np \/ length hq <> nq \/ snodup hq = false \/ subset hq qubits = false
                      \/ exists e, In e args /\ check_expr params e = false end) ->
  init_body Sg params qubits b = None.
Proof.
  induction b as [|s b IH]; intros Hin Hbad; [destruct Hin|].
  destruct Hin as [->|Hin].
  - cbn [init_body]. destruct (sassoc h Sg) as [[np nq]|]; [|reflexivity].
    assert (F : (length args =? np) && (length hq =? nq) && snodup hq && subset hq qubits && forallb (check_expr params) args = false).
    { destruct Hbad as [H|[H|[H|[H|[e [He Hc]]]]]].
      - apply Nat.eqb_neq in H. rewrite H. reflexivity.
      - apply Nat.eqb_neq in H. rewrite H, Bool.andb_false_r. reflexivity.
      - rewrite H, Bool.andb_false_r. reflexivity.
      - rewrite H, Bool.andb_false_r. reflexivity.
      - assert (forallb (check_expr params) args = false).
        { destruct (forallb _ args) eqn:F; [|reflexivity]. rewrite forallb_forall in F. rewrite (F e He) in Hc. discriminate. }
        rewrite H, Bool.andb_false_r. reflexivity. }
    rewrite F. reflexivity.
  - destruct s as [h' args' hq'|qs']; cbn [init_body].
    + destruct (sassoc h' Sg) as [[np' nq']|]; [|reflexivity]. destruct (_ && _); [|reflexivity].
      rewrite (IH Hin Hbad). reflexivity.
    + apply (IH Hin Hbad).
Qed.

Lemma init_gates_bad_item items : forall Sg G n d, In (GDef n d) items ->
  (forall Sg', init_body Sg' (gd_params d) (gd_qubits d) (gd_body d) = None) -> init_gates Sg G items = None.
Proof.
  induction items as [|i items IH]; intros Sg G n d Hin Hb; [destruct Hin|].
  destruct Hin as [->|Hin].
  - cbn [init_gates]. rewrite Hb. reflexivity.
  - destruct i as [m d'|m ps qs]; [|reflexivity]. cbn [init_gates].
    destruct (init_body Sg (gd_params d') (gd_qubits d') (gd_body d')) as [b|]; try reflexivity.
    eapply IH; eauto.
Qed.
(* a gate body with a repeated qubit, a qubit that is not a formal of the gate, or a parameter expression using the
   power operator, a function or an identifier that is not a formal parameter *)
Theorem rejects_bad_body p n d h args hq :
  In (GDef n d) (p_gates p) -> In (BCall h args hq) (gd_body d) ->
  (snodup hq = false \/ subset hq (gd_qubits d) = false \/ exists e, In e args /\ check_expr (gd_params d) e = false) ->
  import_prog A p = None.
Proof.
  intros Hg Hb Hbad. unfold import_prog. destruct (has_reset (p_ops p)); [reflexivity|].
  rewrite (init_gates_bad_item _ sig0 [] n d Hg); [reflexivity|].
  intros Sg'. apply (init_body_bad Sg' _ _ _ h args hq Hb).
  destruct (sassoc h Sg') as [[np nq]|]; [|exact I]. right. right. exact Hbad.
Qed.
End R.
