(* C10 export_valid, step 3: the strict reader accepts the whole exported text of a measurement-free circuit and returns an
   EXPLICIT program [prog_of c]: one quantum register q[N], the classical register (if any), the emitted definitions as the
   strict reader parses them, and one gate application per gate of the circuit, in order. *)
From Coq Require Import Lia Ascii String ZArith.
From QV Require Import Spec.QasmStrict Model.QasmImport Model.QasmExport Gen.Qasm.
From QV Require Import Proofs.QasmLex Proofs.QasmLex2 Proofs.QasmLex3 Proofs.QasmLex4 Proofs.QasmLex5 Proofs.QasmValid1 Proofs.QasmValid2.
Local Open Scope string_scope.
Local Open Scope nat_scope.
Local Open Scope list_scope.

(* ---------------------------------------------------------------- the guard on U statements *)
(* The grammar has  U ( explist ) argument ;  only: a QASMU gate must carry parameters and exactly one qubit.  The exporter
   does not check this (u_guard_needed in Props/C10.v). *)
Definition has_args (a : pyval) : bool := match arg_nums a with [] => false | _ => true end.
Definition u_ok (c : ecirc) : bool :=
  forallb (fun o => match o with
                    | EGate name t ct a _ => if String.eqb name "QASMU" then has_args a && (length (ct ++ t) =? 1) else true
                    | EMeas _ _ => true end) (e_ops c).

(* ---------------------------------------------------------------- the program *)
Definition op_prog (m : list (string * string)) (o : eop) : list op :=
  match o with
  | EGate name t ct a _ => match sassoc name m with Some q => [gate_op q a (ct ++ t)] | None => [] end
  | EMeas _ _ => [] end.
Definition prog_of (c : ecirc) : prog :=
  mkProg [("q", e_N c)] (if Nat.eqb (e_ncb c) 0 then [] else [("c", e_ncb c)])
         (List.map (fun n => gitem_of (dtext n)) (def_names export_names (e_ops c)))
         (flat_map (op_prog (final_map c)) (e_ops c)).

(* ---------------------------------------------------------------- what a successful export says *)
Lemma export_inv c txt : export c = Some txt ->
  (exists stmts, omap (op_text (final_map c)) (e_ops c) = Some stmts) /\
  Forall (fun n => sassoc n export_defns <> None) (def_names export_names (e_ops c)) /\
  (forall n q, sassoc n (final_map c) = Some q -> In (n, q) exp_pairs).
Proof.
  intros He. unfold export, export_lines in He. destruct (defs_pass export_names (e_ops c)) as [[m defs]|] eqn:Ed; [|discriminate].
  destruct (omap (op_text m) (e_ops c)) as [stmts|] eqn:Es; [|discriminate].
  destruct (defs_pass_spec _ _ _ _ Ed) as [Hns [_ Hm]]. unfold final_map. rewrite <- Hm.
  split; [exists stmts; exact Es|]. split; [exact Hns|]. intros n q Hq. rewrite Hm in Hq. exact (final_map_exportable _ m n q Hns Hq Hm).
Qed.
Lemma only_qasmu_is_U n : In (n, "U") exp_pairs -> n = "QASMU".
Proof.
  intros H. vm_compute in H.
  repeat (destruct H as [H|H]; [first [discriminate H | injection H as <-; reflexivity]|]). destruct H.
Qed.
Lemma omap_num_ok l ts : omap qasm_number l = Some ts -> Forall num_ok l.
Proof.
  revert ts. induction l as [|x l IH]; intros ts H; [constructor|]. cbn [omap] in H.
  destruct (qasm_number x) as [tx|] eqn:Ex; [|discriminate]. destruct (omap qasm_number l) as [tl|] eqn:El; [|discriminate].
  constructor; [unfold num_ok; rewrite Ex; discriminate|exact (IH _ eq_refl)].
Qed.

Lemma op_text_gate m name t ct a cc line : op_text m (EGate name t ct a cc) = Some line ->
  exists q, sassoc name m = Some q /\ cc = false /\ qasm_str q ct t a = Some line.
Proof. cbn [op_text]. destruct (sassoc name m) as [[|c0 s0]|]; try discriminate; destruct cc; try discriminate; eauto. Qed.

(* ---------------------------------------------------------------- every gate statement is one statement for the parser *)
Definition op_upd (m : list (string * string)) (o : eop) : prog -> prog :=
  fun p => match op_prog m o with [x] => add_op p x | _ => p end.
Lemma PS_stmts m : (forall n q, sassoc n m = Some q -> In (n, q) exp_pairs) -> forall ops stmts,
  forallb (fun o => match o with EMeas _ _ => false | _ => true end) ops = true ->
  forallb (fun o => match o with
                    | EGate name t ct a _ => if String.eqb name "QASMU" then has_args a && (length (ct ++ t) =? 1) else true
                    | EMeas _ _ => true end) ops = true ->
  omap (op_text m) ops = Some stmts ->
  Forall2 PS (List.map (op_toks m) ops) (List.map (op_upd m) ops).
Proof.
  intros Hm. induction ops as [|o ops IH]; intros stmts Hnm Hu Ho; [constructor|].
  cbn [omap] in Ho. destruct (op_text m o) as [line|] eqn:Eo; [|discriminate].
  destruct (omap (op_text m) ops) as [rest|] eqn:Er; [|discriminate].
  cbn [forallb] in Hnm, Hu. apply andb_prop in Hnm. destruct Hnm as [Hn1 Hn2]. apply andb_prop in Hu. destruct Hu as [Hu1 Hu2].
  cbn [List.map]. constructor; [|apply (IH rest); auto].
  destruct o as [name t ct a cc|t s]; [|discriminate]. destruct (op_text_gate _ _ _ _ _ _ _ Eo) as [q [Eq [-> Es]]].
  unfold op_upd. cbn [op_toks op_prog]. rewrite Eq. pose proof (Hm _ _ Eq) as Hin.
  unfold qasm_str in Es. destruct t as [|t0 t']; [discriminate|]. destruct (args_text a) as [txt|] eqn:Ea; [|discriminate].
  destruct (args_text_nums a txt Ea) as [ts [Hts _]]. pose proof (omap_num_ok _ _ Hts) as Hok.
  assert (Hqs : ct ++ t0 :: t' <> []) by (destruct ct; discriminate).
  assert (Hq : In q qnames) by (unfold qnames; apply in_map_iff; exists (name, q); split; [reflexivity|exact Hin]).
  destruct (String.eqb q "U") eqn:EU.
  - apply String.eqb_eq in EU. subst q. rewrite (only_qasmu_is_U _ Hin) in Hu1. cbn in Hu1. apply andb_prop in Hu1. destruct Hu1 as [Ha Hl].
    apply Nat.eqb_eq in Hl. destruct (ct ++ t0 :: t') as [|i [|j l]] eqn:El; try discriminate Hl.
    apply PS_U; [unfold has_args in Ha; destruct (arg_nums a); [discriminate|discriminate]|exact Hok].
  - apply PS_gate; [exact Hq|intros ->; discriminate EU|exact Hqs|exact Hok].
Qed.

(* ---------------------------------------------------------------- running the updates *)
Definition run (upds : list (prog -> prog)) (p : prog) : prog := fold_left (fun p u => u p) upds p.
Lemma run_app u1 u2 p : run (u1 ++ u2) p = run u2 (run u1 p).
Proof. apply fold_left_app. Qed.
Lemma run_gates gs : forall p, run (List.map (fun g p => add_gate p g) gs) p = mkProg (p_qregs p) (p_cregs p) (p_gates p ++ gs) (p_ops p).
Proof.
  induction gs as [|g gs IH]; intros p; [cbn; rewrite app_nil_r; destruct p; reflexivity|].
  cbn [List.map]. change (run (?u :: ?l) p) with (run l (u p)). rewrite IH. unfold add_gate. cbn [p_qregs p_cregs p_gates p_ops].
  rewrite <- app_assoc. reflexivity.
Qed.
Lemma run_ops m ops : forall p, forallb (fun o => match o with EMeas _ _ => false | _ => true end) ops = true ->
  (forall o, In o ops -> match o with EGate name _ _ _ _ => sassoc name m <> None | _ => True end) ->
  run (List.map (op_upd m) ops) p = mkProg (p_qregs p) (p_cregs p) (p_gates p) (p_ops p ++ flat_map (op_prog m) ops).
Proof.
  induction ops as [|o ops IH]; intros p Hnm Hall; [cbn; rewrite app_nil_r; destruct p; reflexivity|].
  cbn [forallb] in Hnm. apply andb_prop in Hnm. destruct Hnm as [H1 H2].
  cbn [List.map flat_map]. change (run (?u :: ?l) p) with (run l (u p)). rewrite IH; [|exact H2|intros o' Ho'; apply Hall; right; exact Ho'].
  destruct o as [name t ct a cc|t s]; [|discriminate]. pose proof (Hall _ (or_introl eq_refl)) as Hn. cbn beta iota in Hn.
  unfold op_upd. cbn [op_prog]. destruct (sassoc name m) as [q|]; [|contradiction]. unfold add_op. cbn [p_qregs p_cregs p_gates p_ops app].
  rewrite <- app_assoc. reflexivity.
Qed.

(* ---------------------------------------------------------------- the whole text *)
Theorem export_parses c txt : export c = Some txt -> no_meas c = true -> shapes_ok c = true -> u_ok c = true ->
  strict_parse txt = Some (prog_of c).
Proof.
  intros He Hnm Hsh Hu. unfold strict_parse. rewrite (export_lexes c txt He Hnm Hsh).
  destruct (export_inv c txt He) as [[stmts Hst] [Hns Hexp]].
  set (ns := def_names export_names (e_ops c)) in *. set (m := final_map c) in *.
  pose (tss := [[TId "include"; TStr "qelib1.inc"; TSym ";"]; reg_toks "qreg" "q" (e_N c)]
               ++ (if Nat.eqb (e_ncb c) 0 then [] else [reg_toks "creg" "c" (e_ncb c)])
               ++ List.map (fun n => dtoks (dtext n)) ns ++ List.map (op_toks m) (e_ops c)).
  pose (upds := [(fun p : prog => p); (fun p => add_qreg p "q" (e_N c))]
                ++ (if Nat.eqb (e_ncb c) 0 then [] else [fun p => add_creg p "c" (e_ncb c)])
                ++ List.map (fun g p => add_gate p g) (List.map (fun n => gitem_of (dtext n)) ns) ++ List.map (op_upd m) (e_ops c)).
  assert (HPS : Forall2 PS tss upds).
  { subst tss upds. apply Forall2_app; [constructor; [exact PS_include|constructor; [apply PS_qreg|constructor]]|].
    apply Forall2_app; [destruct (Nat.eqb (e_ncb c) 0); [constructor|constructor; [apply PS_creg|constructor]]|].
    apply Forall2_app; [|exact (PS_stmts m Hexp (e_ops c) stmts Hnm Hu Hst)].
    rewrite List.map_map. clear - Hns. induction Hns as [|n ns Hn _ IH]; [constructor|]. cbn [List.map]. constructor; [apply PS_defn; exact Hn|exact IH]. }
  assert (Etoks : text_toks c = TId "OPENQASM" :: TReal (real_val (la "2") (la "0") false []) :: TSym ";" :: concat tss).
  { unfold text_toks, creg_toks, hdr_toks. fold ns. fold m. subst tss. rewrite !concat_app, <- !flat_map_concat_map.
    destruct (Nat.eqb (e_ncb c) 0); cbn [concat app]; rewrite ?app_nil_r; reflexivity. }
  rewrite Etoks. unfold strict_parse_toks. change (two_point_zero (real_val (la "2") (la "0") false [])) with true. cbv iota.
  pose proof (PS_length tss upds HPS) as Hlen.
  replace (S (length (concat tss))) with (length tss + S (length (concat tss) - length tss)) by lia.
  rewrite <- (app_nil_r (concat tss)) at 2. rewrite (PS_seq tss upds HPS). cbn [pstmts]. f_equal.
  fold (run upds (mkProg [] [] [] [])). subst upds. rewrite !run_app.
  rewrite run_ops; [|exact Hnm|].
  - rewrite run_gates. unfold prog_of. fold ns. fold m.
    destruct (Nat.eqb (e_ncb c) 0); reflexivity.
  - intros o Ho. destruct o as [name t ct a cc|]; [|exact I].
    clear - Hst Ho. revert stmts Hst. induction (e_ops c) as [|o' ops IH]; intros stmts Hst; [destruct Ho|].
    cbn [omap] in Hst. destruct (op_text m o') as [l|] eqn:E1; [|discriminate]. destruct (omap (op_text m) ops) as [r|] eqn:E2; [|discriminate].
    destruct Ho as [->|Ho]; [|exact (IH Ho _ eq_refl)]. cbn [op_text] in E1. destruct (sassoc name m); [discriminate|discriminate E1].
Qed.
