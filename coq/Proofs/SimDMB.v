(* C02 -- density-matrix mode WITH classical control (branch tracking, fixes/C02-dm-classical-control.diff):
   the evolution returns the probability-weighted mixture of the branches for EVERY circuit.
   Proof: the dict of the code is the image (gmix) of a grouped list of branch vectors G; the flat list of all branch
   vectors E of the specification is, up to permutation, the ungrouped G plus vectors of norm 0. *)
From Coq Require Import List Arith NArith Bool Lia Field Ring Permutation.
From QV Require Import Model.Sim Spec.Branch Proofs.SimLaws Proofs.SimCond Proofs.SimRun Proofs.SimStats Proofs.SimDM.
Import ListNotations.

Lemma upd_nth_set_nth : forall {A} (l : list A) i x l', upd_nth l i x = Some l' -> l' = set_nth l i x.
Proof.
  induction l as [|y l IH]; intros i x l' H; cbn in H; [discriminate|].
  destruct i; [injection H as <-; reflexivity|].
  destruct (upd_nth l i x) eqn:E; [|discriminate]. injection H as <-. cbn. f_equal. apply IH. exact E.
Qed.

Lemma matched_inrange : forall cc conds k l, matched cc conds (Some k) = Ok l -> forall i, In i cc -> i < length k.
Proof.
  induction cc as [|j cc IH]; intros conds k l H i Hi; [destruct Hi|].
  cbn [matched] in H. destruct conds as [|c conds]; [discriminate|].
  destruct (nth_error k j) eqn:E; [|discriminate].
  destruct (matched cc conds (Some k)) eqn:Em; [|discriminate].
  destruct Hi as [<-|Hi]; [apply nth_error_Some; congruence|eapply IH; eassumption].
Qed.

Lemma Permutation_flat_map' : forall {A B} (f : A -> list B) l l', Permutation l l' -> Permutation (flat_map f l) (flat_map f l').
Proof.
  intros A B f l l' H. induction H; cbn.
  - constructor.
  - apply Permutation_app_head. assumption.
  - rewrite !app_assoc. apply Permutation_app_tail. apply Permutation_app_comm.
  - eapply perm_trans; eassumption.
Qed.

Section DMB.
Variable X : Sys.
Hypothesis L : SysLaws X.

Add Field FF5 : (L_field X L).

Notation fO := (f0 X).
Notation fI := (f1 X).
Notation mix := (mix X).

(* ---- sums ---------------------------------------------------------------------------------------------------- *)
Lemma mix_app : forall a b, mix (a ++ b) = dadd X (mix a) (mix b).
Proof.
  unfold SimDM.mix, dsum. induction a as [|u a IH]; intros b; cbn [app map fold_right].
  - symmetry. apply (L_dadd_0l X L).
  - rewrite IH. apply (L_dadd_assoc X L).
Qed.

Lemma mix_perm : forall a b, Permutation a b -> mix a = mix b.
Proof.
  intros a b H. induction H.
  - reflexivity.
  - change (x :: l) with ([x] ++ l). change (x :: l') with ([x] ++ l'). rewrite !mix_app. congruence.
  - change (y :: x :: l) with ([y] ++ [x] ++ l). change (x :: y :: l) with ([x] ++ [y] ++ l).
    rewrite !mix_app, !(L_dadd_assoc X L), (L_dadd_comm X L (mix [y]) (mix [x])). reflexivity.
  - congruence.
Qed.

Lemma mix_zero : forall l, Forall (fun u => nrm X u = fO) l -> mix l = dzero X.
Proof.
  unfold SimDM.mix, dsum. induction 1 as [|u l Hu _ IH]; cbn [map fold_right]; [reflexivity|].
  rewrite (L_dm_of_0 X L u Hu), IH. apply (L_dadd_0l X L).
Qed.

Lemma fsum_nrm0_each : forall l, fsum X (map (nrm X) l) = fO -> Forall (fun u => nrm X u = fO) l.
Proof.
  induction l as [|u l IH]; intros H; constructor.
  - unfold fsum in H. cbn [map fold_right] in H.
    destruct (L_le_add0 X L _ _ (L_nrm_pos X L u) (fsum_nrm_pos X L l) H) as [A _]. exact A.
  - apply IH. unfold fsum in H. cbn [map fold_right] in H.
    destruct (L_le_add0 X L _ _ (L_nrm_pos X L u) (fsum_nrm_pos X L l) H) as [_ B]. exact B.
Qed.

Lemma fold_left_dadd : forall l a, fold_left (dadd X) l a = dadd X a (dsum X l).
Proof.
  induction l as [|x l IH]; intros a; cbn [fold_left dsum fold_right].
  - symmetry. apply (dadd_0r X L).
  - rewrite IH. unfold dsum. symmetry. apply (L_dadd_assoc X L).
Qed.

(* ---- grouped branch vectors ------------------------------------------------------------------------------------ *)
Definition grp := list (list nat * list (St X)).
Definition gmix (G : grp) : bmap X := map (fun ku => (fst ku, mix (snd ku))) G.
Definition ungroup (G : grp) : list (St X * list nat) := flat_map (fun ku => map (fun u => (u, fst ku)) (snd ku)) G.

Fixpoint gadd (k : list nat) (us : list (St X)) (G : grp) : grp :=
  match G with
  | [] => [(k, us)]
  | (k', us0) :: tl => if list_eq_dec Nat.eq_dec k' k then (k', us0 ++ us) :: tl else (k', us0) :: gadd k us tl
  end.

Lemma gmix_gadd : forall k us G, badd X k (mix us) (gmix G) = gmix (gadd k us G).
Proof.
  intros k us. induction G as [|[k' us0] G IH]; cbn [gmix map badd gadd fst snd]; [reflexivity|].
  destruct (list_eq_dec Nat.eq_dec k' k); cbn [map fst snd].
  - rewrite mix_app. reflexivity.
  - f_equal. exact IH.
Qed.

Lemma ungroup_gadd : forall k us G, Permutation (ungroup (gadd k us G)) (map (fun u => (u, k)) us ++ ungroup G).
Proof.
  intros k us. induction G as [|[k' us0] G IH]; cbn [gadd].
  - unfold ungroup. cbn. rewrite !app_nil_r. apply Permutation_refl.
  - destruct (list_eq_dec Nat.eq_dec k' k) as [->|Hne].
    + unfold ungroup. cbn [flat_map fst snd]. rewrite map_app, <- app_assoc. apply Permutation_app_swap_app.
    + unfold ungroup in *. cbn [flat_map fst snd].
      eapply perm_trans; [apply Permutation_app_head; exact IH|]. apply Permutation_app_swap_app.
Qed.

Definition gmerge_from (GL acc : grp) : grp := fold_left (fun a ku => gadd (fst ku) (snd ku) a) GL acc.

Lemma bmerge_gmix : forall GL acc,
  fold_left (fun a kv => badd X (fst kv) (snd kv) a) (gmix GL) (gmix acc) = gmix (gmerge_from GL acc).
Proof.
  induction GL as [|[k us] GL IH]; intros acc; [reflexivity|].
  cbn [gmix map fold_left fst snd gmerge_from]. rewrite gmix_gadd. apply IH.
Qed.

Lemma ungroup_gmerge : forall GL acc, Permutation (ungroup (gmerge_from GL acc)) (ungroup GL ++ ungroup acc).
Proof.
  induction GL as [|[k us] GL IH]; intros acc; [apply Permutation_refl|].
  cbn [gmerge_from fold_left fst snd]. eapply perm_trans; [apply IH|].
  eapply perm_trans; [apply Permutation_app_head; apply ungroup_gadd|].
  unfold ungroup at 3. cbn [flat_map fst snd]. fold (ungroup GL).
  rewrite <- app_assoc. apply Permutation_app_swap_app.
Qed.

(* ---- the specification side: all branch vectors with their classical bits ----------------------------------------- *)
Definition espec (o : op X) (E : list (St X * list nat)) : list (St X * list nat) :=
  match o with
  | OGate g None => map (fun e => (gate X g (fst e), snd e)) E
  | OGate g (Some (cc, v)) => map (fun e => (if cond_true cc v (snd e) then gate X g (fst e) else fst e, snd e)) E
  | OMeas q st => flat_map (fun e => [(proj X q false (fst e), write st false (snd e)); (proj X q true (fst e), write st true (snd e))]) E
  end.

Lemma especs_all : forall ops E,
  fold_left (fun E o => espec o E) ops E
  = flat_map (fun e => map (fun r => ubranch X ops r (fst e) (snd e)) (all_records (nmeas X ops))) E.
Proof.
  induction ops as [|o tl IH]; intros E.
  - unfold nmeas. cbn. induction E as [|[u cb] E IHE]; cbn; congruence.
  - cbn [fold_left]. rewrite IH. destruct o as [g [[cc v]|]|q st].
    + rewrite nmeas_cons_gate. cbn [espec]. rewrite flat_map_map'. apply flat_map_ext'. intros [u cb]. reflexivity.
    + rewrite nmeas_cons_gate. cbn [espec]. rewrite flat_map_map'. apply flat_map_ext'. intros [u cb]. reflexivity.
    + rewrite nmeas_cons_meas. cbn [espec all_records]. rewrite flat_map_flat_map. apply flat_map_ext'. intros [u cb].
      cbn [flat_map fst snd]. rewrite app_nil_r, map_app, !map_map. reflexivity.
Qed.

(* ---- one step of the code on gmix G ------------------------------------------------------------------------------- *)
Definition live (G : grp) (E : list (St X * list nat)) : Prop :=
  exists dead, Permutation E (ungroup G ++ dead) /\ Forall (fun e => nrm X (fst e) = fO) dead.

Lemma ungroup_map_gate : forall (f : list nat -> St X -> St X) G,
  ungroup (map (fun ku => (fst ku, map (f (fst ku)) (snd ku))) G) = map (fun e => (f (snd e) (fst e), snd e)) (ungroup G).
Proof.
  intros f. induction G as [|[k us] G IH]; [reflexivity|].
  unfold ungroup in *. cbn [map flat_map fst snd]. rewrite map_app, IH. f_equal. rewrite !map_map. reflexivity.
Qed.

Lemma gate_step : forall g (cnd : list nat -> bool) G E, live G E ->
  live (map (fun ku => (fst ku, map (fun u => if cnd (fst ku) then gate X g u else u) (snd ku))) G)
       (map (fun e => (if cnd (snd e) then gate X g (fst e) else fst e, snd e)) E).
Proof.
  intros g cnd G E [dead [HP HD]].
  exists (map (fun e => (if cnd (snd e) then gate X g (fst e) else fst e, snd e)) dead). split.
  - rewrite (ungroup_map_gate (fun k u => if cnd k then gate X g u else u)). rewrite <- map_app. apply Permutation_map. exact HP.
  - clear HP. induction HD as [|[u cb] dead Hu _ IH]; cbn [map]; constructor; [|exact IH].
    cbn [fst snd] in *. destruct (cnd cb); [rewrite (L_unitary X L)|]; exact Hu.
Qed.

Lemma bgate_gmix : forall g cc v G m, (v < 2 ^ N.of_nat (length cc))%N ->
  bgate X g cc v (gmix G) = Ok m ->
  m = gmix (map (fun ku => (fst ku, map (fun u => if cond_true cc v (fst ku) then gate X g u else u) (snd ku))) G).
Proof.
  intros g cc v G. induction G as [|[k us] G IH]; intros m Hv H; cbn [gmix map bgate fst snd] in *.
  - injection H as <-. reflexivity.
  - destruct (check_cc cc v (Some k)) as [f|] eqn:Ec; [|discriminate].
    fold (gmix G) in H. destruct (bgate X g cc v (gmix G)) as [tl'|] eqn:Eb; [|discriminate].
    injection H as <-. rewrite (IH tl' Hv eq_refl). f_equal. f_equal.
    assert (Hin : forall i, In i cc -> i < length k).
    { unfold check_cc in Ec. destruct (matched cc (dec_to_bin v (length cc)) (Some k)) eqn:Em; [|discriminate].
      eapply matched_inrange. exact Em. }
    rewrite (check_cc_spec cc v k Hin Hv) in Ec. injection Ec as <-.
    destruct (cond_true cc v k); [apply (dgate_mix X L)|rewrite map_id; reflexivity].
Qed.

(* contributions of a measurement, grouped *)
Definition gcontrib (q : Qb X) (st : option nat) (ku : list nat * list (St X)) (b : bool) : grp :=
  if keepb X (fsum X (map (nrm X) (map (proj X q b) (snd ku))))
  then [(write st b (fst ku), map (proj X q b) (snd ku))] else [].

Lemma bcontrib_gmix : forall q st k us b cl,
  bcontrib X q st (k, mix us) b = Ok cl -> cl = gmix (gcontrib q st (k, us) b).
Proof.
  intros q st k us b cl H. unfold bcontrib, dmeas_out in H. cbn [fst snd] in H.
  rewrite (dproj_mix X L), (dtr_mix X L) in H. unfold gcontrib. cbn [fst snd].
  destruct (keepb X (fsum X (map (nrm X) (map (proj X q b) us)))) eqn:Ek.
  - unfold bkey in H. assert (Hk : exists k', (match st with None => Ok k | Some c => match upd_nth k c (Nat.b2n b) with Some k' => Ok k' | None => Err end end) = Ok k' /\ k' = write st b k \/ (match st with None => Ok k | Some c => match upd_nth k c (Nat.b2n b) with Some k' => Ok k' | None => Err end end) = @Err (list nat)).
    { destruct st as [c|]; cbn [write]; [|exists k; left; auto].
      destruct (upd_nth k c (Nat.b2n b)) eqn:Eu; [exists l; left; split; [reflexivity|apply upd_nth_set_nth; exact Eu]|exists k; right; reflexivity]. }
    destruct Hk as [k' [[Hk1 Hk2]|Hk1]]; rewrite Hk1 in H; [|discriminate]. injection H as <-. subst k'.
    cbn [gmix map fst snd]. f_equal. f_equal.
    apply (L_keep X L) in Ek. rewrite (L_dscale_dscale X L).
    match goal with |- dscale X ?a _ = _ => replace a with fI by (field; exact Ek) end.
    apply (L_dscale_1 X L).
  - injection H as <-. reflexivity.
Qed.

Fixpoint gcontribs (q : Qb X) (st : option nat) (G : grp) : grp :=
  match G with [] => [] | ku :: tl => gcontrib q st ku false ++ gcontrib q st ku true ++ gcontribs q st tl end.

Lemma gmix_app : forall a b, gmix (a ++ b) = gmix a ++ gmix b.
Proof. intros. unfold gmix. apply map_app. Qed.

Lemma bcontribs_gmix : forall q st G cl, bcontribs X q st (gmix G) = Ok cl -> cl = gmix (gcontribs q st G).
Proof.
  intros q st. induction G as [|[k us] G IH]; intros cl H; cbn [gmix map bcontribs fst snd gcontribs] in *.
  - injection H as <-. reflexivity.
  - fold (gmix G) in H.
    destruct (bcontrib X q st (k, mix us) false) as [a|] eqn:Ea; [|discriminate].
    destruct (bcontrib X q st (k, mix us) true) as [b|] eqn:Eb; [|discriminate].
    destruct (bcontribs X q st (gmix G)) as [c|] eqn:Ec; [|discriminate].
    injection H as <-. rewrite (bcontrib_gmix _ _ _ _ _ _ Ea), (bcontrib_gmix _ _ _ _ _ _ Eb), (IH c eq_refl), !gmix_app. reflexivity.
Qed.

(* all contributions of the specification = the kept ones + vectors of norm 0 *)
Lemma interleave_perm : forall {A} (f g : St X -> A) us,
  Permutation (flat_map (fun u => [f u; g u]) us) (map f us ++ map g us).
Proof.
  intros A f g. induction us as [|u us IH]; cbn; [constructor|].
  constructor. eapply perm_trans; [constructor; exact IH|]. apply Permutation_middle.
Qed.

Lemma meas_group : forall q st k us,
  pok X (fsum X (map (nrm X) (map (proj X q false) us))) = true ->
  pok X (fsum X (map (nrm X) (map (proj X q true) us))) = true ->
  exists dead,
    Permutation (flat_map (fun e => [(proj X q false (fst e), write st false (snd e)); (proj X q true (fst e), write st true (snd e))])
                          (map (fun u => (u, k)) us))
                (ungroup (gcontrib q st (k, us) false ++ gcontrib q st (k, us) true) ++ dead)
    /\ Forall (fun e => nrm X (fst e) = fO) dead.
Proof.
  intros q st k us H0 H1.
  set (A b := map (fun u => (u, write st b k)) (map (proj X q b) us)).
  assert (HP : Permutation (flat_map (fun e => [(proj X q false (fst e), write st false (snd e)); (proj X q true (fst e), write st true (snd e))])
                          (map (fun u => (u, k)) us)) (A false ++ A true)).
  { rewrite flat_map_map'. cbn [fst snd]. unfold A. rewrite !map_map.
    apply (interleave_perm (fun u => (proj X q false u, write st false k)) (fun u => (proj X q true u, write st true k))). }
  assert (Hdead : forall b, pok X (fsum X (map (nrm X) (map (proj X q b) us))) = true ->
            keepb X (fsum X (map (nrm X) (map (proj X q b) us))) = false -> Forall (fun e => nrm X (fst e) = fO) (A b)).
  { intros b Hp Hk. pose proof (fsum_nrm0_each _ (pok_cases X L _ Hp Hk)) as Hz. unfold A.
    clear - Hz. induction Hz; cbn [map]; constructor; [cbn; assumption|assumption]. }
  assert (Hlive : forall b, keepb X (fsum X (map (nrm X) (map (proj X q b) us))) = true -> ungroup (gcontrib q st (k, us) b) = A b).
  { intros b Hk. unfold gcontrib. cbn [fst snd]. rewrite Hk. unfold ungroup. cbn. rewrite app_nil_r. reflexivity. }
  assert (Hnone : forall b, keepb X (fsum X (map (nrm X) (map (proj X q b) us))) = false -> ungroup (gcontrib q st (k, us) b) = []).
  { intros b Hk. unfold gcontrib. cbn [fst snd]. rewrite Hk. reflexivity. }
  assert (Hun : forall a b, ungroup (a ++ b) = ungroup a ++ ungroup b) by (intros; unfold ungroup; apply flat_map_app').
  rewrite Hun.
  destruct (keepb X (fsum X (map (nrm X) (map (proj X q false) us)))) eqn:E0;
  destruct (keepb X (fsum X (map (nrm X) (map (proj X q true) us)))) eqn:E1.
  - exists []. rewrite (Hlive false E0), (Hlive true E1), app_nil_r. split; [exact HP|constructor].
  - exists (A true). rewrite (Hlive false E0), (Hnone true E1), app_nil_r. split; [exact HP|apply Hdead; assumption].
  - exists (A false). rewrite (Hnone false E0), (Hlive true E1). cbn [app]. split; [|apply Hdead; assumption].
    eapply perm_trans; [exact HP|apply Permutation_app_comm].
  - exists (A false ++ A true). rewrite (Hnone false E0), (Hnone true E1). cbn [app]. split; [exact HP|].
    apply Forall_app. split; apply Hdead; assumption.
Qed.

Lemma meas_groups : forall q st G,
  forallb (fun kx => pok X (dtr X (dproj X q false (snd kx))) && pok X (dtr X (dproj X q true (snd kx)))) (gmix G) = true ->
  exists dead,
    Permutation (flat_map (fun e => [(proj X q false (fst e), write st false (snd e)); (proj X q true (fst e), write st true (snd e))]) (ungroup G))
                (ungroup (gcontribs q st G) ++ dead)
    /\ Forall (fun e => nrm X (fst e) = fO) dead.
Proof.
  intros q st. induction G as [|[k us] G IH]; intros Hg.
  - exists []. split; [constructor|constructor].
  - cbn [gmix map forallb fst snd] in Hg. apply andb_true_iff in Hg. destruct Hg as [Hh Hg]. apply andb_true_iff in Hh. destruct Hh as [H0 H1].
    rewrite (dproj_mix X L), (dtr_mix X L) in H0, H1.
    destruct (IH Hg) as [d2 [P2 D2]]. destruct (meas_group q st k us H0 H1) as [d1 [P1 D1]].
    exists (d1 ++ d2). split; [|apply Forall_app; split; assumption].
    unfold ungroup at 1. cbn [flat_map fst snd]. fold (ungroup G). rewrite flat_map_app'.
    cbn [gcontribs]. assert (Hun : forall a b, ungroup (a ++ b) = ungroup a ++ ungroup b) by (intros; unfold ungroup; apply flat_map_app').
    replace (gcontrib q st (k, us) false ++ gcontrib q st (k, us) true ++ gcontribs q st G)
      with ((gcontrib q st (k, us) false ++ gcontrib q st (k, us) true) ++ gcontribs q st G) by (rewrite app_assoc; reflexivity).
    rewrite Hun.
    eapply perm_trans; [apply Permutation_app; [exact P1|exact P2]|].
    rewrite <- !app_assoc. apply Permutation_app_head. apply Permutation_app_swap_app.
Qed.

Lemma dead_meas : forall q st dead, Forall (fun e : St X * list nat => nrm X (fst e) = fO) dead ->
  Forall (fun e : St X * list nat => nrm X (fst e) = fO)
         (flat_map (fun e => [(proj X q false (fst e), write st false (snd e)); (proj X q true (fst e), write st true (snd e))]) dead).
Proof.
  induction 1 as [|e dead He _ IH]; cbn [flat_map app]; [constructor|].
  constructor; [cbn; apply (proj_nrm0 X L); exact He|]. constructor; [cbn; apply (proj_nrm0 X L); exact He|exact IH].
Qed.

(* ---- the whole evolution ------------------------------------------------------------------------------------------- *)
Lemma dm_bops_live : forall ncb ops G E m,
  wf X ncb ops = true -> live G E ->
  dm_bclear X ops (gmix G) = true -> dm_bops X ops (gmix G) = Ok m ->
  exists G', m = gmix G' /\ G' <> [] /\ live G' (fold_left (fun E o => espec o E) ops E).
Proof.
  intros ncb. induction ops as [|o tl IH]; intros G E m Hwf Hl Hcl Hrun.
  - cbn in Hrun. injection Hrun as <-. exists G. split; [reflexivity|]. split; [|exact Hl].
    cbn in Hcl. destruct G; [discriminate|discriminate].
  - cbn [wf forallb] in Hwf. apply andb_true_iff in Hwf. destruct Hwf as [Hwo Hwt].
    cbn [dm_bclear] in Hcl. apply andb_true_iff in Hcl. destruct Hcl as [Hpk Hcl].
    cbn [dm_bops] in Hrun. destruct (dm_bstep X o (gmix G)) as [m1|] eqn:Es; [|discriminate].
    cbn [fold_left].
    destruct o as [g [[cc v]|]|q st]; cbn [dm_bstep espec] in *.
    + cbn in Hwo. apply andb_true_iff in Hwo. destruct Hwo as [_ Hv]. apply N.ltb_lt in Hv.
      pose proof (bgate_gmix g cc v G m1 Hv Es) as ->.
      apply (IH _ _ m Hwt (gate_step g (fun k => cond_true cc v k) G E Hl) Hcl Hrun).
    + injection Es as <-.
      assert (Eg : map (fun kx : list nat * Dm X => (fst kx, dgate X g (snd kx))) (gmix G)
                   = gmix (map (fun ku => (fst ku, map (fun u => if (fun _ : list nat => true) (fst ku) then gate X g u else u) (snd ku))) G)).
      { unfold gmix. rewrite !map_map. apply map_ext. intros [k us]. cbn [fst snd]. f_equal. apply (dgate_mix X L). }
      rewrite Eg in Hcl, Hrun.
      apply (IH _ _ m Hwt (gate_step g (fun _ => true) G E Hl) Hcl Hrun).
    + destruct (bcontribs X q st (gmix G)) as [cl|] eqn:Ec; [|discriminate]. injection Es as <-.
      pose proof (bcontribs_gmix q st G cl Ec) as ->.
      unfold bmerge in Hcl, Hrun. change (@nil (list nat * Dm X)) with (gmix []) in Hcl, Hrun.
      rewrite bmerge_gmix in Hcl, Hrun.
      refine (IH _ _ m Hwt _ Hcl Hrun).
      destruct Hl as [dead [HP HD]]. destruct (meas_groups q st G Hpk) as [d1 [P1 D1]].
      exists (d1 ++ flat_map (fun e => [(proj X q false (fst e), write st false (snd e)); (proj X q true (fst e), write st true (snd e))]) dead).
      split; [|apply Forall_app; split; [exact D1|apply dead_meas; exact HD]].
      eapply perm_trans; [apply Permutation_flat_map'; exact HP|]. rewrite flat_map_app'.
      eapply perm_trans; [apply Permutation_app_tail; exact P1|].
      rewrite <- app_assoc. apply Permutation_app_tail.
      eapply perm_trans; [|apply Permutation_sym; apply ungroup_gmerge]. unfold ungroup at 3. cbn. rewrite app_nil_r. apply Permutation_refl.
Qed.

Lemma ungroup_fst : forall G, map fst (ungroup G) = concat (map snd G).
Proof.
  induction G as [|[k us] G IH]; [reflexivity|]. unfold ungroup in *. cbn [flat_map map concat fst snd].
  rewrite map_app, IH, map_map. cbn [fst]. rewrite map_id. reflexivity.
Qed.

Lemma bsum_gmix : forall G, G <> [] -> bsum X (gmix G) = Ok (mix (concat (map snd G))).
Proof.
  intros [|[k us] G] H; [congruence|]. unfold bsum. cbn [gmix map fst snd concat]. f_equal.
  rewrite fold_left_dadd, mix_app. f_equal.
  clear H k us. induction G as [|[k us] G IH]; cbn [map fst snd concat dsum fold_right]; [reflexivity|].
  rewrite mix_app. f_equal. exact IH.
Qed.

Lemma dm_branch_mixture : forall ncb ops s0 cb0 m,
  wf X ncb ops = true ->
  dm_bclear X ops [(cb0, dm_of X s0)] = true -> dm_bops X ops [(cb0, dm_of X s0)] = Ok m ->
  bsum X m = Ok (mixture X ops s0 cb0).
Proof.
  intros ncb ops s0 cb0 m Hwf Hcl Hrun.
  assert (E1 : dm_of X s0 = mix [s0]) by (unfold SimDM.mix, dsum; cbn [map fold_right]; symmetry; apply (dadd_0r X L)).
  change [(cb0, dm_of X s0)] with [(cb0, dm_of X s0)] in *. rewrite E1 in Hcl, Hrun.
  change [(cb0, mix [s0])] with (gmix [(cb0, [s0])]) in Hcl, Hrun.
  assert (Hl0 : live [(cb0, [s0])] [(s0, cb0)]).
  { exists []. split; [cbn; apply Permutation_refl|constructor]. }
  destruct (dm_bops_live ncb ops _ _ m Hwf Hl0 Hcl Hrun) as [G' [-> [Hne [dead [HP HD]]]]].
  rewrite (bsum_gmix G' Hne). f_equal.
  rewrite especs_all in HP. cbn [flat_map fst snd] in HP. rewrite app_nil_r in HP.
  assert (Emx : mixture X ops s0 cb0 = mix (map (fun r => bvec X ops r s0 cb0) (all_records (nmeas X ops))))
    by (unfold mixture, SimDM.mix; rewrite map_map; reflexivity).
  rewrite Emx.
  assert (Em : map (fun r => bvec X ops r s0 cb0) (all_records (nmeas X ops))
               = map fst (map (fun r => ubranch X ops r s0 cb0) (all_records (nmeas X ops)))) by (rewrite map_map; reflexivity).
  rewrite Em, (mix_perm _ _ (Permutation_map fst HP)), map_app, mix_app, ungroup_fst.
  rewrite (mix_zero (map fst dead)); [symmetry; apply (dadd_0r X L)|].
  clear - HD. induction HD; cbn [map]; constructor; assumption.
Qed.

(* not branching => the guard dm_safe of the old path holds *)
Lemma no_cc_safe : forall ops, existsb (cc_truthy X) ops = false -> dm_safe X ops = true.
Proof.
  intros ops H. assert (R : reads X ops = []).
  { induction ops as [|o tl IH]; [reflexivity|]. cbn [existsb] in H. apply orb_false_iff in H. destruct H as [Ho Ht].
    cbn [reads flat_map]. fold (reads X tl). rewrite (IH Ht), app_nil_r.
    destruct o as [g [[[|i cc] v]|]|q st]; try reflexivity. discriminate Ho. }
  clear H. induction ops as [|o tl IH]; [reflexivity|].
  cbn [reads flat_map] in R. fold (reads X tl) in R. apply app_eq_nil in R. destruct R as [_ Rt].
  destruct o as [g cc|q [c|]]; cbn [dm_safe]; try (apply IH; exact Rt). rewrite Rt. cbn. apply IH. exact Rt.
Qed.

Lemma no_store_safe : forall ops, existsb (has_store X) ops = false -> dm_safe X ops = true.
Proof.
  induction ops as [|o tl IH]; intros H; [reflexivity|]. cbn [existsb] in H. apply orb_false_iff in H. destruct H as [Ho Ht].
  destruct o as [g cc|q [c|]]; cbn [dm_safe]; try (apply IH; exact Ht). discriminate Ho.
Qed.

Lemma wf0_no_store : forall ops, wf X 0 ops = true -> existsb (has_store X) ops = false.
Proof.
  induction ops as [|o tl IH]; intros H; [reflexivity|]. cbn [wf forallb] in H. apply andb_true_iff in H. destruct H as [Ho Ht].
  cbn [existsb]. rewrite (IH Ht), orb_false_r. destruct o as [g cc|q [c|]]; try reflexivity. cbn in Ho. discriminate Ho.
Qed.

(* dm_is_mixture: every circuit *)
Lemma dm_run_mixture_all : forall (c : circ X) s0 cbarg h,
  wf X (c_ncb X c) (c_ops X c) = true -> valid_arg h cbarg ->
  dm_guard X (c_ncb X c) (c_ops X c) (init_cbits (c_ncb X c) (arg_val h cbarg)) (dm_of X s0) = true ->
  exists h' ref, dm_run X false c (dm_of X s0) cbarg h
                 = Ok (h', (mixture X (c_ops X c) s0 (init_cbits (c_ncb X c) (arg_val h cbarg)), fI, ref))
                 /\ untouched h h'.
Proof.
  intros c s0 cbarg h Hwf V Hg.
  set (cb0 := init_cbits (c_ncb X c) (arg_val h cbarg)) in *.
  unfold dm_guard in Hg.
  destruct (initialize_fresh (c_ncb X c) cbarg h V) as [[Hpos Hini]|[Hz [Hini Hnil]]]; fold cb0 in Hini.
  - assert (Hlt : Nat.ltb 0 (c_ncb X c) = true) by (apply Nat.ltb_lt; exact Hpos). rewrite Hlt in Hg. cbn [andb] in Hg.
    destruct (dm_branching X (c_ops X c)) eqn:Eb.
    + unfold dm_run. rewrite Hini, hget_app_new, Eb.
      destruct (dm_bops X (c_ops X c) [(cb0, dm_of X s0)]) as [m|] eqn:Er.
      2:{ exfalso. clear - Hg Er. revert Hg Er. generalize [(cb0, dm_of X s0)]. induction (c_ops X c) as [|o tl IH]; intros m0 Hg Er; [discriminate|].
          cbn [dm_bclear dm_bops] in *. apply andb_true_iff in Hg. destruct Hg as [_ Hg].
          destruct (dm_bstep X o m0); [eapply IH; eassumption|discriminate]. }
      rewrite (dm_branch_mixture (c_ncb X c) (c_ops X c) s0 cb0 m Hwf Hg Er).
      eexists. eexists. split; [reflexivity|]. split; [rewrite app_length; lia|]. intros x Hx. apply hget_app_old. exact Hx.
    + assert (Hsafe : dm_safe X (c_ops X c) = true).
      { unfold dm_branching in Eb. apply andb_false_iff in Eb. destruct Eb; [apply no_cc_safe|apply no_store_safe]; assumption. }
      destruct (dm_run_mixture X L c s0 cbarg h Hwf V Hsafe Hg) as [h' [ref [Hrun U]]].
      exists h', ref. split; [|exact U]. unfold dm_run, dm_run_orig in *. rewrite Hini, hget_app_new in *. rewrite Eb. exact Hrun.
  - assert (Hlt : Nat.ltb 0 (c_ncb X c) = false) by (rewrite Hz; reflexivity). rewrite Hlt in Hg. cbn [andb] in Hg.
    assert (Hsafe : dm_safe X (c_ops X c) = true) by (apply no_store_safe, wf0_no_store; rewrite <- Hz; exact Hwf).
    destruct (dm_run_mixture X L c s0 cbarg h Hwf V Hsafe Hg) as [h' [ref [Hrun U]]].
    exists h', ref. split; [|exact U]. unfold dm_run, dm_run_orig in *. rewrite Hini in *. exact Hrun.
Qed.

End DMB.
