(* C13, semantics: the transpiled circuit acts on every state of every register exactly as the input circuit, for all
   parameter values (every phase ring, every environment of atoms), global phase included.

   The three passes are handled separately:
     - _decompose_multi_qubit_gates and the final resolve_gates: gate-wise, by the C03 theorem gate_sound (source gates) and
       by resolve_native_id (gates that already are native are returned unchanged);
     - topology_map: by the C07 theorem route_many, instantiated at a gate semantics [act] that is the C07 real-matrix
       semantics act_real on the gates the router handles and the C03 semantics on everything else; the two agree on the
       gates that occur (their matrices carry no parameter).
   The C07 development labels qubits by integers and embeds them in the register by an injective coding (z >= 0 -> 2z), so
   the routing step yields the equality on the circuit relabelled by q -> 2q; [place_reflect] (a local circuit identity can
   be read back from any injective placement) brings it back to the circuit itself. *)
From Coq Require Import ZArith List String Bool Arith Lia FunctionalExtensionality FinFun.
From QV Require Import Found.Circ Found.Closed Model.ResolveTypes Gen.Decompose Gen.Gates Model.Resolve.
From QV Require Import Proofs.ResolveLemmas Proofs.ResolveChkDefs Proofs.ResolveSem.
From QV Require Import Model.TranspileTypes Gen.Devices Model.Transpile.
From QV Require Import Proofs.TranspileShape Proofs.TranspileRoute Proofs.TranspileMain.
From QV Require Model.Route Proofs.RouteLoop Proofs.RouteSem Proofs.RouteMain Proofs.RouteReal Proofs.C09.
Import ListNotations.
Local Open Scope string_scope.
Local Open Scope nat_scope.

(* ---- A. reading a local identity back from an injective placement ---------------------------------------------------- *)
Section Reflect.
Variable O : Ops.

Lemma map_lget_seq (r : list bool) : map (lget r) (seq 0 (List.length r)) = r.
Proof.
  induction r as [|a r IH]; [reflexivity|]. cbn [List.length seq map]. f_equal.
  rewrite <- seq_shift, map_map. exact IH.
Qed.

Lemma fapp_ext_len k (M : mat O) ts (f f' : fvec O) :
  (forall r, List.length r = k -> f r = f' r) -> forall r, fapp k M ts f r = fapp k M ts f' r.
Proof.
  intros H r. unfold fapp. apply ksum_map_ext. intros y _. rewrite (H (lupd k r ts y)) by apply lupd_length. reflexivity.
Qed.

Lemma fsem_ext_len k (c : circ O) : forall f f' : fvec O,
  (forall r, List.length r = k -> f r = f' r) -> forall r, List.length r = k -> fsem k c f r = fsem k c f' r.
Proof.
  induction c as [|g c IH]; intros f f' H r Hr; [exact (H r Hr)|].
  unfold fsem in *. cbn [fold_left]. apply IH; [|exact Hr]. intros r' _. apply fapp_ext_len. exact H.
Qed.

Theorem place_reflect ts (c1 c2 : circ O) : NoDup ts -> local (List.length ts) c1 -> local (List.length ts) c2 ->
  sem (place ts c1) = sem (place ts c2) -> sem c1 = sem c2.
Proof.
  intros Hnd H1 H2 E. set (k := List.length ts) in *.
  apply (local_eq_global O k c1 c2 H1 H2). intros v r Hr.
  set (phi := fun x' : asg => v (map x' (seq 0 k))).
  set (psi := fun x : asg => v (map (fun j => x (pl ts j)) (seq 0 k))).
  assert (W : forall x0, window ts psi x0 = phi).
  { intros x0. apply functional_extensionality; intro x'. unfold window, psi, phi. f_equal.
    apply map_ext_in. intros j Hj. apply in_seq in Hj. unfold upd. unfold k in Hj.
    rewrite (lookup_nth_seq x' ts j Hnd) by lia. reflexivity. }
  assert (Ephi : sem c1 phi = sem c2 phi).
  { set (x0 := fun _ : nat => false).
    rewrite <- (W x0). rewrite <- (window_sem O ts c1 Hnd H1 psi x0), <- (window_sem O ts c2 Hnd H2 psi x0). rewrite E. reflexivity. }
  set (x := fun _ : nat => false).
  assert (Fv : forall r', List.length r' = k -> (fun r'' => phi (overlay k r'' x)) r' = v r').
  { intros r' Hr'. unfold phi. rewrite overlay_map by (apply Forall_forall; intros t Ht; apply in_seq in Ht; lia).
    rewrite <- Hr'. rewrite map_lget_seq. reflexivity. }
  rewrite <- (fsem_ext_len k c1 _ v Fv r Hr), <- (fsem_ext_len k c2 _ v Fv r Hr).
  rewrite <- (sem_window O k c1 H1 phi x), <- (sem_window O k c2 H2 phi x). rewrite Ephi. reflexivity.
Qed.
End Reflect.

(* ---- B. the two decomposition passes ------------------------------------------------------------------------------- *)
Lemma sem_cden_cons R env g c psi : sem (cden R env (g :: c)) psi = sem (cden R env c) (sem (cden R env [g]) psi).
Proof. change (g :: c) with ([g] ++ c)%list. rewrite cden_app. apply (sem_app R). Qed.

Lemma sem_cden_app R env a b psi : sem (cden R env (a ++ b)) psi = sem (cden R env b) (sem (cden R env a) psi).
Proof. rewrite cden_app. apply (sem_app R). Qed.

Section DecompSem.
Variable P : string -> Prop.
Variable l : list string.
Variable keep : string -> bool.
Hypothesis Hparse : parse_basis (BList l) = Ok (cfg_of l, keep).
Hypothesis Hdev : In (cfg_of l) dev_cfgs.
Hypothesis Hall : In (cfg_of l) all_cfgs.
Let cf := cfg_of l.

Lemma expand_sem c pre : Forall wf_gate c -> expand (BList l) c = Ok pre ->
  forall (R : PhaseRing) (env : nat -> atoms R), sem (cden R env pre) = sem (cden R env c).
Proof.
  unfold expand. revert pre. induction c as [|g c IH]; intros pre Hw H R env.
  - rewrite rflat_nil in H. injection H as <-. reflexivity.
  - apply rflat_ok_cons in H. destruct H as [x [y [Hx [Hy ->]]]]. inversion Hw as [|? ? Hg Hc]; subst.
    apply functional_extensionality; intro psi. rewrite sem_cden_app, sem_cden_cons. rewrite (IH y Hc Hy R env). f_equal.
    unfold expand_gate in Hx. destruct (big g).
    + rewrite (resolve_one l keep Hparse) in Hx. rewrite (gate_sound _ keep g x Hall Hg Hx R env). reflexivity.
    + injection Hx as <-. reflexivity.
Qed.

Lemma final_sem N mid out : Forall (midok P cf N) mid -> resolve (BList l) mid = Ok out ->
  forall (R : PhaseRing) (env : nat -> atoms R), sem (cden R env out) = sem (cden R env mid).
Proof.
  intros Hm H R env. rewrite resolve_unfold, Hparse in H. cbn [rbind fst snd] in H. fold cf in H.
  revert out H. induction Hm as [|g c Hg Hc IH]; intros out H.
  - rewrite rflat_nil in H. injection H as <-. reflexivity.
  - apply rflat_ok_cons in H. destruct H as [x [y [Hx [Hy ->]]]].
    apply functional_extensionality; intro psi. rewrite sem_cden_app, sem_cden_cons. rewrite (IH y Hy). f_equal.
    destruct Hg as [_ [_ [_ [[Hw _]|Hb]]]].
    + rewrite (gate_sound _ keep g x Hall Hw Hx R env). reflexivity.
    + rewrite (resolve_native_id cf keep g Hdev Hb) in Hx. injection Hx as <-. reflexivity.
Qed.
End DecompSem.

(* ---- C. the topology map ----------------------------------------------------------------------------------------------- *)
Definition dbl (q : nat) : nat := 2 * q.
Definition D (g : mgate) : mgate := retag dbl (gsrc g) g.

Lemma enc_of_nat q : RouteReal.enc (Z.of_nat q) = dbl q.
Proof. unfold RouteReal.enc, dbl. replace (0 <=? Z.of_nat q)%Z with true by (symmetry; apply Z.leb_le; lia). rewrite Nat2Z.id. reflexivity. Qed.
Lemma enc_nonneg z : (0 <= z)%Z -> RouteReal.enc z = dbl (Z.to_nat z).
Proof. intros H. rewrite <- (Z2Nat.id z H) at 1. apply enc_of_nat. Qed.

Lemma dbl_inj : Injective dbl.
Proof. intros a b H. unfold dbl in H. lia. Qed.

Lemma gate_mexp_retag f s g : gate_mexp (retag f s g) = gate_mexp g.
Proof. reflexivity. Qed.

Lemma cden_D R env K c : Forall (fun g => in_range K g = true) c ->
  cden R env (map D c) = place (map dbl (seq 0 K)) (cden R env c).
Proof.
  intros H. unfold cden, iden, place. rewrite !map_map. apply map_ext_in. intros g Hg.
  rewrite Forall_forall in H. specialize (H g Hg). apply in_range_iff in H.
  unfold to_inst, gden, to_sgate, D. cbn [fst snd]. rewrite gate_mexp_retag. cbn [retag gsrc gcontrols gtargets].
  f_equal. rewrite <- map_app. apply map_ext_in. intros q Hq. rewrite Forall_forall in H. specialize (H q Hq).
  unfold pl. symmetry. apply nth_map_seq. exact H.
Qed.

Lemma cden_local R env K c : Forall (fun g => in_range K g = true) c -> local K (cden R env c).
Proof.
  intros H. unfold local, cden, iden. rewrite Forall_forall in *. intros x Hx. rewrite map_map in Hx. apply in_map_iff in Hx.
  destruct Hx as [g [<- Hg]]. cbn [snd gden to_inst to_sgate]. apply in_range_iff. exact (H g Hg).
Qed.

(* equality on the relabelled circuits gives equality on the circuits *)
Lemma D_reflect R env K c1 c2 : Forall (fun g => in_range K g = true) c1 -> Forall (fun g => in_range K g = true) c2 ->
  sem (cden R env (map D c1)) = sem (cden R env (map D c2)) -> sem (cden R env c1) = sem (cden R env c2).
Proof.
  intros H1 H2 E. rewrite (cden_D R env K c1 H1), (cden_D R env K c2 H2) in E.
  assert (Hlen : List.length (map dbl (seq 0 K)) = K) by (rewrite map_length, seq_length; reflexivity).
  apply (place_reflect R (map dbl (seq 0 K))).
  - apply Injective_map_NoDup; [exact dbl_inj|apply seq_NoDup].
  - rewrite Hlen. apply cden_local. exact H1.
  - rewrite Hlen. apply cden_local. exact H2.
  - exact E.
Qed.

(* the parameter-free matrices of the gates the router handles *)
Definition six : list string := ["CNOT"; "CSIGN"; "SWAP"; "ISWAP"; "SQRTSWAP"; "SQRTISWAP"].
Definition six_ok : bool :=
  forallb (fun n => negb (String.eqb n "GLOBALPHASE") &&
                    match assoc n dispatch, C09.assoc n dispatch with
                    | Some m, Some m' => mclosed m && mclosed m' && meqb m m'
                    | _, _ => false
                    end) six.
Lemma six_ok_true : six_ok = true. Proof. vm_compute. reflexivity. Qed.

Lemma assoc_same {A} k (l : list (string * A)) : C09.assoc k l = assoc k l.
Proof. induction l as [|[k' v] l IH]; [reflexivity|]. cbn. rewrite IH. reflexivity. Qed.

Lemma six_facts n : In n six -> exists m, assoc n dispatch = Some m /\ C09.assoc n dispatch = Some m /\ mclosed m = true /\
  (String.eqb n "GLOBALPHASE") = false.
Proof.
  intros H. pose proof six_ok_true as K. unfold six_ok in K. rewrite forallb_forall in K. specialize (K n H).
  apply andb_prop in K. destruct K as [K1 K2]. apply negb_true_iff in K1.
  pose proof (assoc_same n dispatch) as Es.
  destruct (assoc n dispatch) as [m|]; [|discriminate]. rewrite Es in K2.
  apply andb_prop in K2. destruct K2 as [K2 _]. apply andb_prop in K2. destruct K2 as [K2 _].
  exists m. auto.
Qed.

Lemma subst_nil e : subst [] e = e.
Proof. induction e; cbn [subst]; try congruence. destruct j; reflexivity. Qed.
Lemma msubst_nil m : msubst [] m = m.
Proof.
  induction m as [rows|a IHa b IHb|e a IHa|nc cv a IHa]; cbn [msubst]; try congruence.
  - f_equal. rewrite <- (map_id rows) at 2. apply map_ext. intros r. rewrite <- (map_id r) at 2. apply map_ext. apply subst_nil.
  - rewrite subst_nil, IHa. reflexivity.
Qed.

Section RouteSemantics.
Variable R : PhaseRing.
Variable env : nat -> atoms R.
Variable tbl : list mgate.

Definition envT (a : option Z) : atoms R := env 0.
Definition fromRe (rg : Route.gate) : mgate :=
  let a := arg_of tbl (Route.garg rg) in
  MG (Route.gname rg) (map RouteReal.enc (Route.gtargets rg)) (map RouteReal.enc (Route.gcontrols rg)) (fst a) (snd a).
(* the gate semantics handed to the routing theorem *)
Definition act (rg : Route.gate) (st : state R) : state R :=
  if Route.handledb rg then RouteReal.act_real R envT rg st else sem (cden R env [fromRe rg]) st.

Lemma act_SWAP p q : act (Route.SWAPg p q) = RouteReal.act_real R envT (Route.SWAPg p q).
Proof. reflexivity. Qed.
Lemma act_Cg n x y : Route.is_ctrl n = true -> act (Route.Cg n x y) = RouteReal.act_real R envT (Route.Cg n x y).
Proof. intros H. unfold act, Route.handledb. cbn [Route.gname Route.Cg]. rewrite H. reflexivity. Qed.
Lemma act_SWg n a x y : Route.is_swapk n = true -> act (Route.SWg n a x y) = RouteReal.act_real R envT (Route.SWg n a x y).
Proof. intros H. unfold act, Route.handledb. cbn [Route.gname Route.SWg]. rewrite H, orb_true_r. reflexivity. Qed.

Lemma act_laws : RouteMain.sem_laws (state R) act.
Proof.
  destruct (RouteReal.real_laws R envT) as [L1 [L2 L3]]. split; [|split].
  - intros n Hn p q x y st Hpq Hxy. rewrite !act_SWAP, !(act_Cg n _ _ Hn). apply L1; assumption.
  - intros n a Hn p q x y st Hpq Hxy. rewrite !act_SWAP, !(act_SWg n a _ _ Hn). apply L2; assumption.
  - intros n a x y st Hn. rewrite !(act_SWg n a _ _ Hn). apply L3. exact Hn.
Qed.

(* a handled gate on non-negative qubits: the real-matrix semantics of C07 is the C03 semantics of the converted gate on the
   doubled qubits, whatever source number it carries (its matrix has no parameter) *)
Lemma handled_bridge n ts cs tok s : In n six ->
  RouteReal.act_real R envT (Route.mkGate n (map Z.of_nat ts) (map Z.of_nat cs) tok) =
  sem (cden R env [MG n (map dbl ts) (map dbl cs) [] s]).
Proof.
  intros Hn. destruct (six_facts n Hn) as [m [E1 [E2 [Hc Hg]]]].
  apply functional_extensionality; intro st.
  unfold RouteReal.act_real. cbn [Route.gname Route.garg Route.gcontrols Route.gtargets]. rewrite E2.
  unfold cden, iden, to_inst, to_sgate, gden, sem. cbn [map fold_left fst snd gsrc gcontrols gtargets].
  unfold gate_mexp. cbn [gname gargs]. rewrite Hg, E1, msubst_nil.
  unfold RouteReal.gmat. rewrite (emat_closed R (envT tok) (env s) m Hc).
  f_equal. rewrite map_app, !map_map. f_equal; apply map_ext; intros q; apply enc_of_nat.
Qed.

Lemma nonneg_list (lz : list Z) : Forall (fun z => (0 <= z)%Z) lz -> lz = map Z.of_nat (map Z.to_nat lz).
Proof.
  intros H. rewrite map_map. rewrite <- (map_id lz) at 1. apply map_ext_in. intros z Hz. rewrite Forall_forall in H.
  symmetry. apply Z2Nat.id. exact (H z Hz).
Qed.

Lemma in_rangeb_nonneg N rg : Route.in_rangeb N rg = true ->
  Forall (fun z => (0 <= z)%Z) (Route.gtargets rg) /\ Forall (fun z => (0 <= z)%Z) (Route.gcontrols rg).
Proof.
  unfold Route.in_rangeb, Route.qubits. rewrite forallb_app. intros H. apply andb_prop in H. destruct H as [H1 H2].
  rewrite forallb_forall in H1, H2. split; apply Forall_forall; intros z Hz; [specialize (H2 z Hz) as H|specialize (H1 z Hz) as H];
    apply andb_prop in H; destruct H as [H _]; apply Z.leb_le; exact H.
Qed.

(* every gate of the routed circuit: [act] is the C03 semantics of the gate converted back, on the doubled qubits *)
Lemma act_eq N rg : Route.in_rangeb N rg = true ->
  (Route.handledb rg = true -> In (Route.gname rg) six /\ fst (arg_of tbl (Route.garg rg)) = []) ->
  act rg = sem (cden R env [D (fromR tbl rg)]).
Proof.
  intros Hr Hh. destruct (in_rangeb_nonneg N rg Hr) as [Ht Hc].
  unfold act. destruct (Route.handledb rg) eqn:Eh.
  - destruct (Hh eq_refl) as [Hn Ha]. destruct rg as [n ts cs tok]. cbn [Route.gname Route.garg Route.gtargets Route.gcontrols] in *.
    rewrite (nonneg_list ts Ht), (nonneg_list cs Hc).
    rewrite (handled_bridge n _ _ tok (snd (arg_of tbl tok)) Hn).
    unfold D, fromR, retag. cbn [Route.gname Route.garg Route.gtargets Route.gcontrols gname gtargets gcontrols gargs gsrc].
    rewrite Ha, !map_to_of. reflexivity.
  - apply functional_extensionality; intro st. f_equal. f_equal. f_equal.
    unfold fromRe, D, fromR, retag. cbn [gname gtargets gcontrols gargs gsrc]. rewrite !map_map.
    f_equal; apply map_ext_in; intros z Hz; apply enc_nonneg; [rewrite Forall_forall in Ht; exact (Ht z Hz)|rewrite Forall_forall in Hc; exact (Hc z Hz)].
Qed.
End RouteSemantics.

(* the names of the handled gates that can occur between the passes *)
Lemma midok_six P c N g : In c dev_cfgs -> midok P c N g -> handled_name (gname g) = true -> In (gname g) six.
Proof.
  intros Hc [_ [_ [_ Hor]]] Hh. destruct Hor as [[Hw _]|Hb].
  - destruct Hw as [nc [nt [np [Hk _]]]]. unfold kinds in Hk. cbn [In] in Hk.
    repeat (destruct Hk as [Hk|Hk]; [injection Hk as E _ _ _; rewrite <- E in *; first [discriminate Hh | (cbn; tauto)]|]). destruct Hk.
  - unfold in_basis in Hb.
    assert (Hall : forall c', In c' dev_cfgs -> forall n, handled_name n = true ->
              mem n (c2q c') || mem n (crot c') || (String.eqb n "GLOBALPHASE") || (String.eqb n "IDLE") = true -> In n six).
    { clear. intros c' Hc'. cbv in Hc'.
      repeat (destruct Hc' as [<-|Hc']; [intros n Hh Hm; cbn [c2q crot mem existsb] in Hm;
        repeat (apply orb_prop in Hm; destruct Hm as [Hm|Hm]);
        try discriminate Hm; apply String.eqb_eq in Hm; subst n; first [discriminate Hh | (cbn; tauto)]|]). destruct Hc'. }
    exact (Hall c Hc _ Hh Hb).
Qed.

Section TopoSem.
Variable P : string -> Prop.
Variable l0 : list string.
Let c := cfg_of l0.
Hypothesis Hdev : In c dev_cfgs.
Hypothesis HP : P "SWAP".
Variable R : PhaseRing.
Variable env : nat -> atoms R.

Lemma toR_in_range N k g : in_range N g = true -> Route.in_rangeb (Z.of_nat N) (toR k g) = true.
Proof.
  intros H. apply in_range_iff in H. unfold qubits in H. unfold Route.in_rangeb, Route.qubits, toR.
  cbn [Route.gtargets Route.gcontrols]. rewrite <- map_app. rewrite forallb_forall. intros z Hz. apply in_map_iff in Hz.
  destruct Hz as [q [<- Hq]]. rewrite Forall_forall in H. specialize (H q Hq).
  apply andb_true_iff. split; [apply Z.leb_le|apply Z.ltb_lt]; lia.
Qed.

(* the input side: gate number k of the circuit *)
Lemma act_toR tbl N k g : nth_error tbl k = Some g -> midok P c N g -> act R env tbl (toR k g) = sem (cden R env [D g]).
Proof.
  intros Hk Hm. destruct (handled_name (gname g)) eqn:Eh.
  - destruct (handled_pair P c N g Hm Eh) as [a [b [_ [_ [_ [_ [Ha _]]]]]]].
    pose proof (midok_six P c N g Hdev Hm Eh) as Hn.
    unfold act. rewrite handled_toR, Eh. unfold toR.
    rewrite (handled_bridge R env (gname g) (gtargets g) (gcontrols g) (tokenof k g) (gsrc g) Hn).
    unfold D, retag. rewrite Ha. reflexivity.
  - destruct Hm as [Hr _]. rewrite (act_eq R env tbl (Z.of_nat N) (toR k g) (toR_in_range N k g Hr)).
    + unfold handled_name in Eh. apply orb_false_iff in Eh. destruct Eh as [E1 _]. rewrite (fromR_toR tbl k g Hk E1). reflexivity.
    + rewrite handled_toR, Eh. discriminate.
Qed.

Lemma run_pre tbl N : forall l k, (forall j g, nth_error l j = Some g -> nth_error tbl (k + j) = Some g) ->
  Forall (midok P c N) l -> forall st, RouteSem.run (state R) (act R env tbl) (toRs k l) st = sem (cden R env (map D l)) st.
Proof.
  induction l as [|g l IH]; intros k Htbl Hm st; [reflexivity|].
  inversion Hm as [|? ? Hg Hl]; subst. cbn [toRs map]. rewrite RouteSem.run_cons, sem_cden_cons.
  assert (Hk : nth_error tbl k = Some g) by (rewrite <- (Nat.add_0_r k); apply Htbl; reflexivity).
  rewrite (act_toR tbl N k g Hk Hg). apply (IH (S k)); [|exact Hl].
  intros j g' Hj. replace (S k + j) with (k + S j) by lia. apply Htbl. exact Hj.
Qed.

(* the output side *)
Lemma run_out tbl N : forall r, Forall (fun rg => Route.in_rangeb (Z.of_nat N) rg = true) r ->
  Forall (midok P c N) (map (fromR tbl) r) ->
  forall st, RouteSem.run (state R) (act R env tbl) r st = sem (cden R env (map D (map (fromR tbl) r))) st.
Proof.
  induction r as [|rg r IH]; intros Hr Hm st; [reflexivity|].
  inversion Hr as [|? ? Hr1 Hr2]; subst. cbn [map] in Hm. inversion Hm as [|? ? Hm1 Hm2]; subst.
  cbn [map]. rewrite RouteSem.run_cons, sem_cden_cons.
  rewrite (act_eq R env tbl (Z.of_nat N) rg Hr1).
  - apply IH; assumption.
  - intros Hh. assert (Hh' : handled_name (gname (fromR tbl rg)) = true) by exact Hh.
    split; [exact (midok_six P c N _ Hdev Hm1 Hh')|].
    destruct (handled_pair P c N _ Hm1 Hh') as [a [b [_ [_ [_ [_ [Ha _]]]]]]]. exact Ha.
Qed.

Lemma pieces_in_range tp N S act : forall gs outs,
  Forall (fun rg => Route.in_rangeb N rg = true) gs -> Forall2 (RouteSem.piece_ok S act tp N) gs outs ->
  Forall (fun rg => Route.in_rangeb N rg = true) (concat outs).
Proof.
  intros gs outs Hr H2. induction H2 as [|g o gs outs Hp _ IH]; [constructor|].
  inversion Hr as [|? ? Hg Hgs]; subst. cbn [concat]. apply Forall_app. split; [|exact (IH Hgs)].
  destruct Hp as [[_ ->]|[_ [_ [_ Hin]]]]; [constructor; [exact Hg|constructor]|].
  rewrite forallb_forall in Hin. apply Forall_forall. exact Hin.
Qed.

Theorem topo_sem tp N pre mid : Forall (midok P c N) pre -> topo_pass tp N pre = Ok mid ->
  sem (cden R env mid) = sem (cden R env pre).
Proof.
  intros Hpre H.
  assert (Hmid : Forall (midok P c N) mid).
  { pose proof (topo_ok P l0 HP tp N pre mid Hpre H) as X.
    eapply Forall_impl; [|exact X]. intros x [Hx _]. exact Hx. }
  assert (Rpre : Forall (fun g => in_range N g = true) pre) by (eapply Forall_impl; [|exact Hpre]; intros g [Hg _]; exact Hg).
  assert (Rmid : Forall (fun g => in_range N g = true) mid) by (eapply Forall_impl; [|exact Hmid]; intros g [Hg _]; exact Hg).
  apply (D_reflect R env N mid pre Rmid Rpre).
  unfold topo_pass in H.
  assert (G : Forall (RouteSem.gate_ok (Z.of_nat N)) (toRs 0 pre)).
  { clear H Hmid Rmid Rpre. generalize 0 as k. induction Hpre as [|g l Hg Hl IH]; intros k; cbn [toRs]; constructor; [|apply IH].
    unfold RouteSem.gate_ok. rewrite handled_toR. destruct (handled_name (gname g)) eqn:Eh; [right|left; reflexivity].
    exact (midok_handled P c N k g Hg Eh). }
  destruct (RouteMain.route_many (state R) (act R env pre) (act_laws R env pre) tp (Z.of_nat N) (toRs 0 pre) G) as [outs [E [H2 Hrun]]].
  rewrite E in H. injection H as <-.
  assert (Rin : Forall (fun rg => Route.in_rangeb (Z.of_nat N) rg = true) (toRs 0 pre)).
  { clear -Rpre R env. generalize 0 as k. induction Rpre as [|g l Hg Hl IH]; intros k; cbn [toRs]; [constructor|].
    constructor; [apply toR_in_range; exact Hg|apply IH]. }
  pose proof (pieces_in_range tp (Z.of_nat N) _ _ _ _ Rin H2) as Rout.
  apply functional_extensionality; intro st.
  rewrite <- (run_out pre N (concat outs) Rout Hmid st). rewrite Hrun.
  apply (run_pre pre N pre 0); auto.
Qed.
End TopoSem.
