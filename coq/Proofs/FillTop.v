(* C14 -- the statements exported to Props/C14.v *)
From Coq Require Import String.
From Coq Require Import List QArith Bool Arith Lia Lqa Sorted.
From QV Require Import Model.Fill Spec.FillSpec Proofs.FillStep Proofs.FillGrid Proofs.FillMain Proofs.FillWhile.
Import ListNotations.
Open Scope Q_scope.

Definition resample_statement (coeffs : Q -> list pulse -> option (list (list Q))) tol ps : Prop :=
  exists full rows,
    get_full_tlist tol ps = Some full /\ coeffs tol ps = Some rows /\
    length rows = length ps /\
    (forall row, In row rows -> length row = length full) /\
    forall m p n a b t,
      nth_error ps m = Some p ->
      nth_error full n = Some a -> nth_error full (S n) = Some b -> a <= t -> t < b ->
      exists row, nth_error rows m = Some row /\ nth_error row n = Some (pulse_fn p t).

Lemma Forall2_rows_shape full ps rows :
  Forall2 (fun p row => ok_out (pulse_fn p) full row) ps rows ->
  length rows = length ps /\ forall row, In row rows -> length row = length full.
Proof.
  induction 1 as [|p row ps rows H0 HF [IH1 IH2]]; [split; [reflexivity|intros ? []]|].
  split; [cbn; lia|]. intros r [<-|Hr]; [eapply ok_out_length; eauto|auto].
Qed.

Lemma resample_pointwise tol ps :
  inputs_okb tol ps = true -> resample_statement get_full_coeffs tol ps.
Proof.
  intros H. destruct (coeffs_ok _ _ H) as [full [rows [Hf [Hr HF]]]].
  exists full, rows. destruct (Forall2_rows_shape _ _ _ HF) as [S1 S2].
  repeat split; auto. intros. eapply rows_pointwise; eauto.
Qed.

Lemma resample_pointwise_v1 tol ps :
  inputs_okb_v1 tol ps = true -> resample_statement get_full_coeffs_v1 tol ps.
Proof.
  intros H. destruct (coeffs_ok_v1 _ _ H) as [full [rows [Hf [Hr HF]]]].
  exists full, rows. destruct (Forall2_rows_shape _ _ _ HF) as [S1 S2].
  repeat split; auto. intros. eapply rows_pointwise; eauto.
Qed.

Lemma resample_pointwise_v0 tol ps :
  inputs_okb_v1 tol ps = true -> forallb no_tail_sampleb ps = true ->
  resample_statement get_full_coeffs_v0 tol ps.
Proof.
  intros H Hg. destruct (coeffs_ok_v0 _ _ H Hg) as [full [rows [Hf [Hr HF]]]].
  exists full, rows. destruct (Forall2_rows_shape _ _ _ HF) as [S1 S2].
  repeat split; auto. intros. eapply rows_pointwise; eauto.
Qed.

Lemma grid_sorted_unique tol ps full :
  get_full_tlist tol ps = Some full ->
  StronglySorted Qlt full /\ gaps tol full /\ (forall t, In t full -> In t (all_points ps)).
Proof.
  intros H. split; [eapply full_tlist_sorted; eauto|].
  split; [eapply full_tlist_gaps; eauto|eapply full_tlist_in; eauto].
Qed.

Lemma grid_complete tol ps full :
  inputs_okb tol ps = true -> get_full_tlist tol ps = Some full ->
  forall x, In x (all_points ps) -> exists y, In y full /\ y == x.
Proof.
  intros H Hf. destruct (inputs_okb_unpack _ _ H) as [Htol [_ [Hsep _]]].
  eapply full_tlist_complete; eauto.
Qed.

Lemma piecewise_H (M : Type) (madd : M -> M -> M) (mscale : Q -> M -> M) (drift : M) (ops : list M)
      tol ps :
  inputs_okb tol ps = true ->
  exists full sl,
    get_full_tlist tol ps = Some full /\ run_slices tol ps = Some sl /\
    hslices_ok M madd mscale drift ops (map pulse_fn ps) full (ham_slices M madd mscale drift ops sl) /\
    Forall (fun s => 0 < fst s) sl /\
    (forall t0 F', full = t0 :: F' -> total_time sl == last full t0 - t0).
Proof.
  intros H. destruct (run_slices_ok _ _ H) as [full [sl [Hf [Hr [Hok [Hpos Htot]]]]]].
  exists full, sl. repeat split; auto. apply hslices_of_slices. exact Hok.
Qed.

(* the code as found: the last sample of a pulse given one sample per grid point is applied on the
   merged interval that FOLLOWS the end of that pulse's grid *)
Definition leak_tol : Q := 1 # 10000000000.
Definition leak_input : list pulse :=
  [ mkPulse (Some [0; 1]) (CArr [1; 2]);
    mkPulse (Some [0; 1; 2; 3]) (CArr [5; 6; 7]) ].

Lemma leak_v0 :
  inputs_okb_v1 leak_tol leak_input = true /\
  exists full rows p row,
    get_full_tlist leak_tol leak_input = Some full /\
    get_full_coeffs_v0 leak_tol leak_input = Some rows /\
    nth_error leak_input 0 = Some p /\ nth_error rows 0 = Some row /\
    nth_error full 1 = Some 1 /\ nth_error full 2 = Some 2 /\
    (* on [1,2) the pulse's own grid [0,1] has ended, yet the resampled value is 2 *)
    pulse_fn p 1 = 0 /\ nth_error row 1 = Some 2.
Proof.
  split; [vm_compute; reflexivity|].
  exists [0; 1; 2; 3], [[1; 2; 0; 0]; [5; 6; 7; 0]],
    (mkPulse (Some [0; 1]) (CArr [1; 2])), [1; 2; 0; 0].
  repeat split; vm_compute; reflexivity.
Qed.

(* the one-step advance (v1): a pulse grid that repeats a time point -- the zero-duration instruction
   that a spin-chain rotation by angle 0 compiles to -- shifts all later coefficients by one slot *)
Definition zero_dur_input : list pulse :=
  [ mkPulse (Some [0; 1 # 8; 1 # 8; 1 # 4]) (CArr [1; 0; 1]) ].

Lemma zero_duration_v1 :
  inputs_okb leak_tol zero_dur_input = true /\
  exists full rows p row,
    get_full_tlist leak_tol zero_dur_input = Some full /\
    get_full_coeffs_v1 leak_tol zero_dur_input = Some rows /\
    nth_error zero_dur_input 0 = Some p /\ nth_error rows 0 = Some row /\
    nth_error full 1 = Some (1 # 8) /\ nth_error full 2 = Some (1 # 4) /\
    (* on [1/8, 1/4) the pulse's step function is 1 (third sample), the one-step loop gives 0 *)
    pulse_fn p (1 # 8) = 1 /\ nth_error row 1 = Some 0 /\
    (* the repaired loop *)
    get_full_coeffs leak_tol zero_dur_input = Some [[1; 1; 0]].
Proof.
  split; [vm_compute; reflexivity|].
  exists [0; 1 # 8; 1 # 4], [[1; 0; 1]],
    (mkPulse (Some [0; 1 # 8; 1 # 8; 1 # 4]) (CArr [1; 0; 1])), [1; 0; 1].
  repeat split; vm_compute; reflexivity.
Qed.
