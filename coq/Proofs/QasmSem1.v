(* C04 import_sound, part 1: denotation of imported gates and of library-level leaves in a phase ring, the relation
   "equal up to a unit scalar" and its preservation by gate application, and the per-leaf semantic lemma obtained from
   shortcut_ok (layer A) by parametricity of the importer's table of predefined gates. *)
From Coq Require Import Lia FunctionalExtensionality Ring.
From QV Require Import Model.QasmImport Spec.QasmSem Found.Circ Gen.Gates Gen.Qasm Proofs.QasmShortcut.
Local Open Scope string_scope.
Local Open Scope nat_scope.
Local Open Scope list_scope.

(* ---- pickn ---- *)
Lemma pickn_pl regs ix r : pickn regs ix = Some r -> r = map (pl regs) ix.
Proof.
  unfold pickn. revert r. induction ix as [|i ix IH]; intros r H; simpl in H.
  - injection H as <-. reflexivity.
  - destruct (nth_error regs i) as [x|] eqn:E; [|discriminate].
    destruct (omap (fun i0 => nth_error regs i0) ix) as [r'|] eqn:E2; [|discriminate]. injection H as <-.
    simpl. f_equal; [|apply IH; reflexivity].
    unfold pl. symmetry. apply nth_error_nth. exact E.
Qed.
Lemma pickn_seq n ix r : pickn (seq 0 n) ix = Some r -> r = ix.
Proof.
  unfold pickn. revert r. induction ix as [|i ix IH]; intros r H; simpl in H.
  - injection H as <-. reflexivity.
  - destruct (nth_error (seq 0 n) i) as [x|] eqn:E; [|discriminate].
    destruct (omap (fun i0 => nth_error (seq 0 n) i0) ix) as [r'|] eqn:E2; [|discriminate]. injection H as <-.
    f_equal; [|apply IH; reflexivity].
    assert (Hi : i < n). { rewrite <- (seq_length n 0). apply nth_error_Some. rewrite E. discriminate. }
    apply (nth_error_nth _ _ 0) in E. rewrite seq_nth in E by exact Hi. simpl in E. symmetry. exact E.
Qed.
Lemma pickn_map f regs ix : pickn (map f regs) ix = option_map (map f) (pickn regs ix).
Proof.
  induction ix as [|i ix IH]; [reflexivity|]. unfold pickn in *. simpl. rewrite nth_error_map, IH.
  destruct (nth_error regs i); [|reflexivity]. simpl.
  destruct (omap (fun i0 => nth_error regs i0) ix); reflexivity.
Qed.
Lemma smem_in g l : smem g l = true -> In g l.
Proof.
  unfold smem. intros H. apply existsb_exists in H. destruct H as [x [Hx E]]. apply String.eqb_eq in E. subst. exact Hx.
Qed.

(* sc_args = false only for parameterless gates (checked on the regenerated tables) *)
Definition chk_noargs : bool :=
  forallb (fun g => match sassoc g shortcuts, sassoc g sig0 with
                    | Some sc, Some (np, _) => sc_args sc || (np =? 0)
                    | _, _ => true end) predefined.
Lemma chk_noargs_true : chk_noargs = true. Proof. vm_compute. reflexivity. Qed.

Section D.
Variable R : PhaseRing.
Variable A : VAlg.
Variable aenv : list A -> atoms R.       (* the atoms e^{i v_j/4} of a list of parameter values *)
Add Ring RRsem : (PR_ring R).
Infix "*" := (kmul R).

(* ---- equal up to a scalar ---- *)
Definition rel (p1 p2 : state R) : Prop := exists s : R, forall x, p1 x = s * p2 x.
Lemma rel_refl p : rel p p. Proof. exists (k1 R). intros x. ring. Qed.
Lemma rel_trans p1 p2 p3 : rel p1 p2 -> rel p2 p3 -> rel p1 p3.
Proof. intros [s H1] [t H2]. exists (s * t). intros x. rewrite H1, H2. ring. Qed.
Lemma app_lin (M : mat R) ts s (psi : state R) : Base.app M ts (fun x => s * psi x) = fun x => s * Base.app M ts psi x.
Proof.
  apply functional_extensionality; intro x. unfold Base.app.
  rewrite (Lemmas.ksum_scale R (PR_ring R)), map_map. apply Lemmas.ksum_map_ext. intros; ring.
Qed.
Lemma rel_app (M : mat R) ts p1 p2 : rel p1 p2 -> rel (Base.app M ts p1) (Base.app M ts p2).
Proof.
  intros [s H]. exists s. assert (E : p1 = fun x => s * p2 x) by (apply functional_extensionality; exact H).
  rewrite E, app_lin. reflexivity.
Qed.
Lemma rel_sem (c : circ R) : forall p1 p2, rel p1 p2 -> rel (sem c p1) (sem c p2).
Proof.
  induction c as [|g c IH]; intros p1 p2 H; [exact H|]. unfold sem in *. simpl. apply IH. apply rel_app. exact H.
Qed.
Lemma rel_phase (M : mat R) (psi : state R) : rel (Base.app M [] psi) psi.
Proof.
  exists (M [] []). intros x. unfold Base.app. simpl.
  assert (E : upd x [] [] = x) by (apply functional_extensionality; intro i; reflexivity).
  rewrite E. ring.
Qed.
Lemma rel_zero_l (p1 p2 : state R) : rel p1 p2 -> rel (fun x => k0 R * p1 x) (fun x => k0 R * p2 x).
Proof. intros [s H]. exists s. intros x. rewrite H. ring. Qed.

(* ---- denotations ---- *)
Definition idv (k : nat) : list ex := map Var (seq 0 k).
(* a gate of the imported circuit: the matrix family registered for its name, instantiated at the atoms of its
   parameter values, on controls ++ targets *)
Definition den_ig (g : igate A) : circ R :=
  match nat_mat (ig_name g) with
  | Some m => [gden R (aenv (ig_args g)) (msubst (idv (length (ig_args g))) m, ig_controls g ++ ig_targets g)]
  | None => [] end.
Definition den_igs (gs : list (igate A)) : circ R := flat_map den_ig gs.
Definition glob (f : nat -> nat) (g : igate A) : igate A :=
  mkIG (ig_name g) (map f (ig_targets g)) (map f (ig_controls g)) (ig_args g).
Lemma den_glob ts g : place ts (den_ig g) = den_ig (glob (pl ts) g).
Proof.
  unfold den_ig, glob. cbn [ig_name ig_args ig_targets ig_controls]. destruct (nat_mat (ig_name g)); [|reflexivity].
  unfold place, gden. cbn [map fst snd]. rewrite map_app. reflexivity.
Qed.
Lemma den_igs_glob ts gs : place ts (den_igs gs) = den_igs (map (glob (pl ts)) gs).
Proof.
  induction gs as [|g gs IH]; [reflexivity|]. unfold den_igs in *. cbn [flat_map map].
  rewrite (Lemmas.place_app R), den_glob, IH. reflexivity.
Qed.
Lemma den_igs_app a b : den_igs (a ++ b) = den_igs a ++ den_igs b.
Proof. unfold den_igs. apply flat_map_app. Qed.

(* a library-level leaf of the standard's expansion: the standard's symbolic meaning of the gate (U / CX circuit on
   local qubits 0..), instantiated at the atoms of the leaf's parameter values, placed on the leaf's qubits *)
Definition std_c (h : string) : scirc := match std_sym h with Some c => c | None => [] end.
Definition stdph_c (h : string) : scirc := match std_with_phase h with Some c => c | None => [] end.
Definition den_leaf (l : leaf A) : circ R :=
  match l with (h, vs, qs) => place qs (map (gden R (aenv vs)) (std_c h)) end.
Definition den_leaf_ph (l : leaf A) : circ R :=
  match l with (h, vs, qs) => place qs (map (gden R (aenv vs)) (stdph_c h)) end.

(* the explicit phase of layer A is one scalar gate in front *)
Lemma leaf_ph_rel l p1 p2 : rel p1 p2 -> rel (sem (den_leaf_ph l) p1) (sem (den_leaf l) p2).
Proof.
  destruct l as [[h vs] qs]. unfold den_leaf_ph, den_leaf, stdph_c, std_c, std_with_phase.
  destruct (std_sym h) as [c|]; [|exact (fun H => H)].
  destruct (phase_of h) as [a|]; [|apply rel_sem].
  intros H. cbn [map place]. unfold sem at 1. cbn [fold_left]. fold (@sem R).
  apply rel_sem. cbn [phase_gate gden fst snd map]. eapply rel_trans; [apply rel_phase|exact H].
Qed.

(* ---- per-leaf lemma: the gates the importer adds for a predefined gate denote the leaf (with its phase) ---- *)
Lemma leaf_sem h np nq vs qs gs :
  smem h predefined = true -> sassoc h sig0 = Some (np, nq) -> length vs = np -> length qs = nq -> NoDup qs ->
  add_predefined h qs vs = Some gs -> sem (den_igs gs) = sem (den_leaf_ph (h, vs, qs)).
Proof.
  intros Hm Hs Hv Hq Hnd Ha.
  pose proof chk_shortcuts_true as C. unfold chk_shortcuts in C. rewrite forallb_forall in C.
  specialize (C h (smem_in _ _ Hm)). unfold shortcut_chk in C. rewrite Hs in C.
  destruct (imp_sym h) as [c1|] eqn:E1; [|discriminate]. destruct (std_with_phase h) as [c2|] eqn:E2; [|discriminate].
  pose proof (shortcut_sem R (aenv vs) h np nq c1 c2 qs (smem_in _ _ Hm) Hs E1 E2 Hnd Hq) as S.
  unfold den_leaf_ph, stdph_c. rewrite E2, <- S. f_equal.
  (* den_igs gs = place qs (map gden c1) *)
  pose proof chk_noargs_true as N. unfold chk_noargs in N. rewrite forallb_forall in N. specialize (N h (smem_in _ _ Hm)). rewrite Hs in N.
  unfold imp_sym in E1. rewrite Hs in E1. unfold add_predefined in Ha, E1.
  destruct (sassoc h shortcuts) as [sc|].
  - destruct (pickn qs (sc_targets sc)) as [tg|] eqn:P1; [|discriminate].
    destruct (pickn qs (sc_controls sc)) as [ct|] eqn:P2; [|discriminate]. injection Ha as <-.
    destruct (pickn (seq 0 nq) (sc_targets sc)) as [tgs|] eqn:Q1; [|discriminate].
    destruct (pickn (seq 0 nq) (sc_controls sc)) as [cts|] eqn:Q2; [|discriminate].
    apply pickn_seq in Q1. apply pickn_seq in Q2. subst tgs cts.
    apply pickn_pl in P1. apply pickn_pl in P2. subst tg ct.
    cbn [omap] in E1. unfold igate_sgate in E1. cbn [ig_name ig_args ig_targets ig_controls] in E1.
    unfold den_igs. cbn [flat_map]. unfold den_ig. cbn [ig_name ig_args ig_targets ig_controls].
    destruct (nat_mat (sc_native sc)) as [m|]; [|discriminate]. injection E1 as <-.
    rewrite app_nil_r. unfold place, gden. cbn [map fst snd]. rewrite map_app.
    destruct (sc_args sc) eqn:Ea.
    + rewrite Hv. reflexivity.
    + cbn [orb] in N. apply Nat.eqb_eq in N. subst np. destruct vs; [reflexivity|discriminate].
  - injection Ha as <-. cbn [omap] in E1. injection E1 as <-. reflexivity.
Qed.
End D.
