(* C01 - the repaired compact product is TOTAL and CORRECT on every well-formed input: non-empty list of duplicate-free
   index lists (an empty index list = a scalar factor, e.g. a GLOBALPHASE propagator). *)
From Coq Require Import List Arith Bool Lia Permutation Sorted.
Import ListNotations.
From QV Require Import Found.Base Found.Lemmas Model.GSP Proofs.GSPLists Proofs.GSPSem Proofs.GSPAny Proofs.GSPTop Proofs.GSPTotal.

Lemma number_snd {A} (l : list A) g : In g (number l) -> In (snd g) l.
Proof. unfold number. destruct g as [i x]. intro H. apply in_combine_r in H. exact H. Qed.

Lemma number_length {A} (l : list A) : length (number l) = length l.
Proof. unfold number. rewrite combine_length, seq_length. lia. Qed.

Lemma filter_len_le {A} (f : A -> bool) l : length (filter f l) <= length l.
Proof. induction l as [|x l IH]; simpl; [lia|]. destruct (f x); simpl; lia. Qed.

Lemma nonempty_inds_ok gs : (forall g, In g gs -> NoDup (snd g)) -> nonempty_inds gs = true -> gs_ok gs.
Proof.
  intros Hnd H. unfold nonempty_inds in H. rewrite forallb_forall in H. apply Forall_forall. intros g Hg.
  split; [|apply Hnd; exact Hg]. specialize (H g Hg). destruct (snd g); [discriminate| discriminate].
Qed.

Theorem gsp_top_total ord (l : list (list nat)) : ord_asc ord -> l <> [] -> Forall (@NoDup nat) l ->
  exists r, gsp_top ord l = Some r.
Proof.
  intros Hord Hne Hnd. unfold gsp_top, gsp_any.
  assert (Hg : forall g, In g (number l) -> NoDup (snd g)).
  { intros g Hg. rewrite Forall_forall in Hnd. apply Hnd. apply number_snd. exact Hg. }
  destruct (nonempty_inds (number l)) eqn:E.
  - destruct (gsp_total ord Hord (S (length l)) (number l)) as [r [Hr _]].
    + intro E0. apply (f_equal (@length _)) in E0. rewrite number_length in E0. destruct l; [congruence| discriminate].
    + apply nonempty_inds_ok; assumption.
    + rewrite number_length. lia.
    + exists r. exact Hr.
  - destruct (filter (fun g => negb (is_empty g)) (number l)) as [|g0 ne] eqn:Ene; [eexists; reflexivity|].
    destruct (gsp_total ord Hord (S (length l)) (g0 :: ne)) as [[c inds] [Hr _]].
    + discriminate.
    + rewrite <- Ene. apply Forall_forall. intros g Hgf. apply filter_In in Hgf. destruct Hgf as [Hin Hemp]. split.
      * unfold is_empty in Hemp. destruct (snd g); [discriminate| discriminate].
      * apply Hg. exact Hin.
    + rewrite <- Ene. pose proof (filter_len_le (fun g => negb (is_empty g)) (number l)) as Hle.
      rewrite number_length in Hle. lia.
    + rewrite Hr. eexists; reflexivity.
Qed.

Section Correct.
Variable O : Ops.
Hypothesis Kring : ring_theory (k0 O) (k1 O) (kadd O) (kmul O) (ksub O) (kopp O) eq.
Variable G : nat -> mat O.

(* for ALL well-formed inputs the compact product of the repaired code IS the ordered product *)
Theorem gsp_total_correct (l : list (list nat)) : l <> [] -> Forall (@NoDup nat) l ->
  exists c inds, gsp_top ord_sorted l = Some (c, inds) /\
    forall psi : state O, sem (den O G (fplace inds c)) psi = sem (den O G (number l)) psi.
Proof.
  intros Hne Hnd. destruct (gsp_top_total ord_sorted l ord_sorted_asc Hne Hnd) as [[c inds] Hr].
  exists c, inds. split; [exact Hr|]. exact (gsp_correct O Kring G l c inds Hr).
Qed.
End Correct.

(* a circuit with global phases: three scalar factors around X on qubit 4 and a two-qubit gate on (4, 2) *)
Example gsp_phase_example : gsp_top ord_sorted [[]; [4]; []; [4; 2]; []] =
  Some ([(1, [1]); (3, [1; 0]); (0, []); (2, []); (4, [])], [2; 4]).
Proof. vm_compute. reflexivity. Qed.

Example gsp_only_phases_example : gsp_top ord_sorted [[]; []] = Some ([(0, []); (1, [])], []).
Proof. vm_compute. reflexivity. Qed.
