(* C08 -- proofs about Model/Expand.v, part 1: the positive clause (valid calls). *)
From Coq Require Import List ZArith Bool Arith Lia Permutation.
Import ListNotations.
From QV Require Import Model.Expand.

(* ------------------------------------------------------------------------------------------ *)
(* Specification vocabulary (what the property text talks about)                               *)
(* ------------------------------------------------------------------------------------------ *)

(* a Python list of non-negative ints as the model's `targets` argument *)
Definition tz (ts : list nat) : list tgt := map (fun t => TInt (Z.of_nat t)) ts.

(* the digits of basis label x on the subsystems ts, in the listed order *)
Definition digits_at (x : list nat) (ts : list nat) : list nat := map (fun t => nth t x 0) ts.

(* Kronecker delta on all digits outside ts *)
Definition rest_agree (N : nat) (ts x y : list nat) : bool :=
  forallb (fun q => existsb (Nat.eqb q) ts || Nat.eqb (nth q x 0) (nth q y 0)) (seq 0 N).

(* "injective list of k target positions whose dimensions match the operator" *)
Definition valid_targets (dims orow ocol ts : list nat) : Prop :=
  NoDup ts /\ Forall (fun t => t < length dims) ts /\ orow = digits_at dims ts /\ ocol = orow.

(* ------------------------------------------------------------------------------------------ *)
(* Small list facts                                                                            *)
(* ------------------------------------------------------------------------------------------ *)

Lemma list_eqb_eq : forall a b, list_eqb a b = true <-> a = b.
Proof.
  induction a as [|x a IH]; destruct b as [|y b]; cbn; split; intro H; try congruence; auto.
  - apply andb_true_iff in H as [H1 H2]. apply Nat.eqb_eq in H1. apply IH in H2. congruence.
  - inversion H; subst. rewrite Nat.eqb_refl. cbn. apply IH. reflexivity.
Qed.

Lemma list_eqb_refl : forall a, list_eqb a a = true.
Proof. intro a. apply list_eqb_eq. reflexivity. Qed.

Lemma list_eqb_neq : forall a b, a <> b -> list_eqb a b = false.
Proof.
  intros a b H. destruct (list_eqb a b) eqn:E; auto. apply list_eqb_eq in E. contradiction.
Qed.

Lemma map_opt_some {A B} (f : A -> option B) (g : A -> B) : forall l,
  (forall a, In a l -> f a = Some (g a)) -> map_opt f l = Some (map g l).
Proof.
  induction l as [|a l IH]; intro H; cbn; auto.
  rewrite (H a (or_introl eq_refl)). rewrite IH; auto. intros; apply H; right; auto.
Qed.

Lemma map_opt_Forall2 {A B} (f : A -> option B) : forall l r,
  map_opt f l = Some r -> Forall2 (fun a b => f a = Some b) l r.
Proof.
  induction l as [|a l IH]; intros r H; cbn in H.
  - inversion H. constructor.
  - destruct (f a) eqn:Ea; try discriminate. destruct (map_opt f l) eqn:El; try discriminate.
    inversion H; subst. constructor; auto.
Qed.

Lemma set_nth_length {A} : forall (l : list A) i v, length (set_nth l i v) = length l.
Proof. induction l as [|a l IH]; intros [|i] v; cbn; auto. Qed.

Lemma nth_set_nth_eq {A} : forall (l : list A) i v d, i < length l -> nth i (set_nth l i v) d = v.
Proof.
  induction l as [|a l IH]; intros [|i] v d H; cbn in *; try lia; auto. apply IH. lia.
Qed.

Lemma nth_set_nth_neq {A} : forall (l : list A) i j v d, i <> j -> nth j (set_nth l i v) d = nth j l d.
Proof.
  induction l as [|a l IH]; intros [|i] [|j] v d H; cbn; auto; try congruence.
Qed.

Lemma nth_map_lt {A B} (f : A -> B) : forall l i d d',
  i < length l -> nth i (map f l) d' = f (nth i l d).
Proof.
  induction l as [|a l IH]; intros [|i] d d' H; cbn in *; try lia; auto. apply IH. lia.
Qed.

Lemma firstn_app_len {A} : forall (a b : list A) k, length a = k -> firstn k (a ++ b) = a.
Proof.
  induction a as [|x a IH]; intros b k H; cbn in *; subst; cbn; auto. f_equal. apply IH. reflexivity.
Qed.

Lemma skipn_app_len {A} : forall (a b : list A) k, length a = k -> skipn k (a ++ b) = b.
Proof.
  induction a as [|x a IH]; intros b k H; cbn in *; subst; cbn; auto.
Qed.

Lemma map_nth_seq {A B} (f : A -> B) (d : A) : forall l,
  map (fun j => f (nth j l d)) (seq 0 (length l)) = map f l.
Proof.
  induction l as [|a l IH]; cbn; auto. f_equal. rewrite <- seq_shift, map_map. exact IH.
Qed.

Lemma NoDup_app_intro {A} : forall (l1 l2 : list A),
  NoDup l1 -> NoDup l2 -> (forall x, In x l1 -> ~ In x l2) -> NoDup (l1 ++ l2).
Proof.
  induction l1 as [|a l1 IH]; intros l2 H1 H2 H; cbn; auto.
  inversion H1; subst. constructor.
  - rewrite in_app_iff. intros [Hin|Hin]; auto. apply (H a); cbn; auto.
  - apply IH; auto. intros x Hx. apply H. right. exact Hx.
Qed.

Lemma nodupb_NoDup : forall l, nodupb l = true <-> NoDup l.
Proof.
  induction l as [|a l IH]; cbn.
  - split; auto. constructor.
  - rewrite andb_true_iff, negb_true_iff, IH. split.
    + intros [H1 H2]. constructor; auto. intro Hin.
      assert (existsb (Nat.eqb a) l = true) as E.
      { apply existsb_exists. exists a. split; auto. apply Nat.eqb_refl. }
      congruence.
    + intro H. inversion H; subst. split; auto.
      destruct (existsb (Nat.eqb a) l) eqn:E; auto.
      apply existsb_exists in E as [x [Hx Hax]]. apply Nat.eqb_eq in Hax. subst. contradiction.
Qed.

Lemma existsb_eqb_In : forall q l, existsb (Nat.eqb q) l = true <-> In q l.
Proof.
  intros q l. rewrite existsb_exists. split.
  - intros [x [Hx E]]. apply Nat.eqb_eq in E. subst. exact Hx.
  - intro H. exists q. split; auto. apply Nat.eqb_refl.
Qed.

Lemma nth_error_seq : forall k m i, i < m -> nth_error (seq k m) i = Some (k + i).
Proof.
  intros k m i H. rewrite (nth_error_nth' _ 0) by (rewrite seq_length; exact H).
  rewrite seq_nth by exact H. reflexivity.
Qed.

(* ------------------------------------------------------------------------------------------ *)
(* Python indexing on in-range non-negative indices                                            *)
(* ------------------------------------------------------------------------------------------ *)

Lemma py_index_nat : forall n t, t < n -> py_index n (Z.of_nat t) = Some t.
Proof.
  intros n t H. unfold py_index.
  destruct (0 <=? Z.of_nat t)%Z eqn:E1; [|apply Z.leb_gt in E1; lia].
  destruct (Z.of_nat t <? Z.of_nat n)%Z eqn:E2; [|apply Z.ltb_ge in E2; lia].
  rewrite Nat2Z.id. reflexivity.
Qed.

Lemma py_get_nat {A} : forall (l : list A) t d, t < length l -> py_get l (Z.of_nat t) = Some (nth t l d).
Proof.
  intros l t d H. unfold py_get. rewrite py_index_nat by exact H. apply nth_error_nth'. exact H.
Qed.

(* ------------------------------------------------------------------------------------------ *)
(* The two assignment loops are a scatter                                                      *)
(* ------------------------------------------------------------------------------------------ *)

Fixpoint scatter (o ps vs : list nat) : list nat :=
  match ps, vs with
  | p :: ps', v :: vs' => scatter (set_nth o p v) ps' vs'
  | _, _ => o
  end.

Lemma scatter_length : forall ps vs o, length (scatter o ps vs) = length o.
Proof.
  induction ps as [|p ps IH]; intros [|v vs] o; cbn; auto. rewrite IH. apply set_nth_length.
Qed.

Lemma scatter_notin : forall ps vs o p d, ~ In p ps -> nth p (scatter o ps vs) d = nth p o d.
Proof.
  induction ps as [|q ps IH]; intros [|v vs] o p d H; cbn; auto.
  rewrite IH by (intro; apply H; right; assumption).
  apply nth_set_nth_neq. intro; apply H; left; assumption.
Qed.

Lemma scatter_nth : forall ps vs o j d,
  NoDup ps -> Forall (fun p => p < length o) ps -> length vs = length ps -> j < length ps ->
  nth (nth j ps 0) (scatter o ps vs) d = nth j vs d.
Proof.
  induction ps as [|p ps IH]; intros vs o j d Hnd Hlt Hlen Hj; cbn in Hj; [lia|].
  destruct vs as [|v vs]; cbn in Hlen; [lia|].
  inversion Hnd; subst. inversion Hlt; subst.
  destruct j as [|j]; cbn.
  - rewrite scatter_notin by assumption. apply nth_set_nth_eq. assumption.
  - apply IH; auto; try lia.
    rewrite set_nth_length. assumption.
Qed.

Lemma scatter_app : forall p1 v1 p2 v2 o, length p1 = length v1 ->
  scatter o (p1 ++ p2) (v1 ++ v2) = scatter (scatter o p1 v1) p2 v2.
Proof.
  induction p1 as [|p p1 IH]; intros [|v v1] p2 v2 o H; cbn in *; try lia; auto.
Qed.

Lemma assign_targets_scatter : forall ts o i,
  Forall (fun t => t < length o) ts ->
  assign_targets o i (map Z.of_nat ts) = Ok (scatter o ts (seq i (length ts))).
Proof.
  induction ts as [|t ts IH]; intros o i H; cbn; auto.
  inversion H; subst. rewrite py_index_nat by assumption.
  apply IH. rewrite set_nth_length. assumption.
Qed.

Lemma assign_rest_scatter : forall rp o i k m,
  Forall (fun p => p < length o) rp -> i + length rp <= m ->
  assign_rest o i rp (seq k m) = Ok (scatter o rp (seq (k + i) (length rp))).
Proof.
  induction rp as [|p rp IH]; intros o i k m H Hm; [reflexivity|].
  cbn [assign_rest length] in *. inversion H; subst.
  rewrite nth_error_seq by lia.
  assert ((p <? length o) = true) as E by (apply Nat.ltb_lt; assumption). rewrite E.
  rewrite IH; [|rewrite set_nth_length; assumption|lia].
  cbn [seq scatter]. rewrite Nat.add_succ_r. reflexivity.
Qed.

(* ------------------------------------------------------------------------------------------ *)
(* rest_pos on non-negative targets                                                            *)
(* ------------------------------------------------------------------------------------------ *)

Definition rest_nat (N : nat) (ts : list nat) : list nat :=
  filter (fun q => negb (existsb (Nat.eqb q) ts)) (seq 0 N).

Lemma zmem_of_nat : forall q ts, zmem (Z.of_nat q) (map Z.of_nat ts) = existsb (Nat.eqb q) ts.
Proof.
  intros q ts. unfold zmem. induction ts as [|t ts IH]; cbn; auto. rewrite IH. f_equal.
  destruct (Nat.eqb q t) eqn:E.
  - apply Nat.eqb_eq in E. subst. apply Z.eqb_refl.
  - apply Nat.eqb_neq in E. apply Z.eqb_neq. lia.
Qed.

Lemma rest_pos_nat : forall N ts, rest_pos N (map Z.of_nat ts) = rest_nat N ts.
Proof.
  intros N ts. unfold rest_pos, rest_nat. apply filter_ext. intro q. rewrite zmem_of_nat. reflexivity.
Qed.

Lemma In_rest_nat : forall N ts q, In q (rest_nat N ts) <-> q < N /\ ~ In q ts.
Proof.
  intros N ts q. unfold rest_nat. rewrite filter_In, in_seq, negb_true_iff. split.
  - intros [H1 H2]. split; [lia|]. intro Hin. apply existsb_eqb_In in Hin. congruence.
  - intros [H1 H2]. split; [lia|]. destruct (existsb (Nat.eqb q) ts) eqn:E; auto.
    apply existsb_eqb_In in E. contradiction.
Qed.

Lemma NoDup_rest_nat : forall N ts, NoDup (rest_nat N ts).
Proof. intros. apply NoDup_filter. apply seq_NoDup. Qed.

Lemma inv_perm : forall N ts, NoDup ts -> Forall (fun t => t < N) ts ->
  Permutation (ts ++ rest_nat N ts) (seq 0 N).
Proof.
  intros N ts Hnd Hlt. apply NoDup_Permutation.
  - apply NoDup_app_intro; auto using NoDup_rest_nat.
    intros x Hx Hr. apply In_rest_nat in Hr. tauto.
  - apply seq_NoDup.
  - intro q. rewrite in_app_iff, In_rest_nat, in_seq. rewrite Forall_forall in Hlt. split.
    + intros [H|[H _]]; [apply Hlt in H|]; lia.
    + intros [_ H]. destruct (in_dec Nat.eq_dec q ts) as [Hi|Hn]; [left; exact Hi | right; split; [lia | exact Hn]].
Qed.

Lemma inv_length : forall N ts, NoDup ts -> Forall (fun t => t < N) ts ->
  length ts + length (rest_nat N ts) = N.
Proof.
  intros N ts H1 H2. pose proof (Permutation_length (inv_perm N ts H1 H2)) as H.
  rewrite app_length, seq_length in H. exact H.
Qed.

(* ------------------------------------------------------------------------------------------ *)
(* new_order for valid targets, and its inverse  ts ++ rest                                    *)
(* ------------------------------------------------------------------------------------------ *)

Definition inv_of (N : nat) (ts : list nat) : list nat := ts ++ rest_nat N ts.
Definition order_of (N : nat) (ts : list nat) : list nat := scatter (repeat 0 N) (inv_of N ts) (seq 0 N).

Section ValidOrder.
  Variable N : nat.
  Variable ts : list nat.
  Hypothesis Hnd : NoDup ts.
  Hypothesis Hlt : Forall (fun t => t < N) ts.

  Let inv := inv_of N ts.
  Let order := order_of N ts.

  Lemma inv_len : length inv = N.
  Proof. unfold inv, inv_of. rewrite app_length. apply inv_length; assumption. Qed.

  Lemma inv_nodup : NoDup inv.
  Proof.
    unfold inv, inv_of. apply (Permutation_NoDup (l := seq 0 N)).
    - apply Permutation_sym. apply inv_perm; assumption.
    - apply seq_NoDup.
  Qed.

  Lemma inv_lt : Forall (fun p => p < N) inv.
  Proof.
    apply Forall_forall. intros p Hp.
    apply (Permutation_in _ (inv_perm N ts Hnd Hlt)) in Hp. apply in_seq in Hp. lia.
  Qed.

  Lemma new_order_valid : new_order N (map Z.of_nat ts) = Ok order.
  Proof.
    unfold new_order.
    rewrite assign_targets_scatter by (rewrite repeat_length; exact Hlt).
    cbn [bind]. rewrite rest_pos_nat, map_length. unfold rest_qubits.
    pose proof (inv_length N ts Hnd Hlt) as Hlen.
    rewrite assign_rest_scatter.
    - unfold order, order_of, inv_of. rewrite Nat.add_0_r.
      replace (seq 0 N) with (seq 0 (length ts) ++ seq (length ts) (length (rest_nat N ts))).
      + rewrite scatter_app by (rewrite seq_length; reflexivity). reflexivity.
      + transitivity (seq 0 (length ts + length (rest_nat N ts))).
        * rewrite seq_app. reflexivity.
        * f_equal. exact Hlen.
    - rewrite scatter_length, repeat_length. apply Forall_forall. intros p Hp.
      apply In_rest_nat in Hp. tauto.
    - lia.
  Qed.

  Lemma order_len : length order = N.
  Proof. unfold order, order_of. rewrite scatter_length. apply repeat_length. Qed.

  (* order[inv[j]] = j *)
  Lemma order_inv : forall j, j < N -> nth (nth j inv 0) order 0 = j.
  Proof.
    intros j Hj. unfold order, order_of. fold inv.
    rewrite scatter_nth.
    - apply seq_nth. exact Hj.
    - apply inv_nodup.
    - rewrite repeat_length. apply inv_lt.
    - rewrite seq_length. symmetry. apply inv_len.
    - rewrite inv_len. exact Hj.
  Qed.

  Lemma order_incl : incl (seq 0 N) order.
  Proof.
    intros j Hj. apply in_seq in Hj. rewrite <- (order_inv j) by lia.
    apply nth_In. rewrite order_len.
    pose proof inv_lt as H. rewrite Forall_forall in H. apply H. apply nth_In. rewrite inv_len. lia.
  Qed.

  Lemma order_nodup : NoDup order.
  Proof.
    apply (@NoDup_incl_NoDup _ (seq 0 N) order).
    - apply seq_NoDup.
    - rewrite order_len, seq_length. lia.
    - apply order_incl.
  Qed.

  Lemma order_perm : Permutation order (seq 0 N).
  Proof.
    apply Permutation_sym. apply NoDup_Permutation_bis.
    - apply seq_NoDup.
    - rewrite order_len, seq_length. lia.
    - apply order_incl.
  Qed.

  Lemma order_lt : forall v, In v order -> v < N.
  Proof.
    intros v Hv. apply (Permutation_in _ order_perm) in Hv. apply in_seq in Hv. lia.
  Qed.

  (* inv[order[a]] = a *)
  Lemma inv_order : forall a, a < N -> nth (nth a order 0) inv 0 = a.
  Proof.
    intros a Ha.
    assert (In a inv) as Hin.
    { apply (Permutation_in (l := seq 0 N)).
      - apply Permutation_sym. apply inv_perm; assumption.
      - apply in_seq. lia. }
    destruct (In_nth _ _ 0 Hin) as [j [Hj Hja]]. rewrite inv_len in Hj.
    rewrite <- Hja at 1. rewrite order_inv by exact Hj. exact Hja.
  Qed.

  Lemma order_targets : forall i, i < length ts -> nth (nth i ts 0) order 0 = i.
  Proof.
    intros i Hi.
    replace (nth i ts 0) with (nth i inv 0) by (unfold inv, inv_of; apply app_nth1; exact Hi).
    apply order_inv. pose proof (inv_length N ts Hnd Hlt). lia.
  Qed.

  Lemma perm_valid_order : perm_valid order N = true.
  Proof.
    unfold perm_valid. rewrite order_len, Nat.eqb_refl. cbn [andb].
    apply andb_true_iff. split.
    - apply forallb_forall. intros v Hv. apply Nat.ltb_lt. apply order_lt. exact Hv.
    - apply nodupb_NoDup. apply order_nodup.
  Qed.
End ValidOrder.

Lemma index_of_nodup : forall l a j, NoDup l -> nth_error l a = Some j -> index_of j l = Some a.
Proof.
  induction l as [|b l IH]; intros a j Hnd H.
  - destruct a; discriminate.
  - destruct a as [|a]; cbn in *.
    + inversion H; subst. rewrite Nat.eqb_refl. reflexivity.
    + inversion Hnd; subst.
      destruct (Nat.eqb b j) eqn:E.
      * apply Nat.eqb_eq in E. subst. exfalso. apply H2. eapply nth_error_In. eassumption.
      * rewrite (IH a j); auto.
Qed.

(* ------------------------------------------------------------------------------------------ *)
(* The plan and the entries of a valid call                                                    *)
(* ------------------------------------------------------------------------------------------ *)

Lemma digits_at_app : forall x a b, digits_at x (a ++ b) = digits_at x a ++ digits_at x b.
Proof. intros. unfold digits_at. apply map_app. Qed.

Lemma digits_at_length : forall x a, length (digits_at x a) = length a.
Proof. intros. unfold digits_at. apply map_length. Qed.

Lemma targets_to_list_valid : forall k N ts,
  length ts = k -> Forall (fun t => t < N) ts ->
  targets_to_list k N (TsList (tz ts)) = Ok (map Z.of_nat ts).
Proof.
  intros k N ts Hk Hlt. unfold targets_to_list, tz.
  rewrite (map_opt_some tgt_int (fun t => match t with TInt z => z | TOther => 0%Z end)).
  - rewrite map_map. cbn. rewrite map_length, Hk, Nat.eqb_refl. cbn.
    replace (forallb _ _) with true; [reflexivity|].
    symmetry. apply forallb_forall. intros z Hz. apply in_map_iff in Hz as [t [Ht Hin]]. subst.
    rewrite Forall_forall in Hlt. apply Z.ltb_lt. apply Hlt in Hin. lia.
  - intros a Ha. apply in_map_iff in Ha as [t [Ht _]]. subst. reflexivity.
Qed.

Lemma check_oper_dims_valid : forall dims ts,
  Forall (fun t => t < length dims) ts ->
  check_oper_dims (digits_at dims ts) (digits_at dims ts) dims (map Z.of_nat ts) = Ok tt.
Proof.
  intros dims ts Hlt. unfold check_oper_dims. rewrite list_eqb_refl. cbn.
  rewrite (map_opt_some (py_get dims) (fun z => nth (Z.to_nat z) dims 0)).
  - rewrite map_map.
    replace (map (fun x => nth (Z.to_nat (Z.of_nat x)) dims 0) ts) with (digits_at dims ts).
    + rewrite list_eqb_refl. reflexivity.
    + unfold digits_at. apply map_ext. intro t. rewrite Nat2Z.id. reflexivity.
  - intros z Hz. apply in_map_iff in Hz as [t [Ht Hin]]. subst. rewrite Nat2Z.id.
    apply py_get_nat. rewrite Forall_forall in Hlt. apply Hlt. exact Hin.
Qed.

Lemma expand_plan_valid : forall dims orow ocol ts,
  valid_targets dims orow ocol ts ->
  expand_plan dims orow ocol (TsList (tz ts)) =
    Ok (mkPlan (length ts) (order_of (length dims) ts)
               (digits_at dims (inv_of (length dims) ts)) dims).
Proof.
  intros dims orow ocol ts [Hnd [Hlt [Hrow Hcol]]]. subst ocol. subst orow.
  set (N := length dims).
  unfold expand_plan. fold N.
  rewrite digits_at_length.
  rewrite targets_to_list_valid by auto. cbn [bind].
  rewrite check_oper_dims_valid by exact Hlt. cbn [bind].
  rewrite (new_order_valid N ts Hnd Hlt). cbn [bind].
  rewrite rest_pos_nat.
  rewrite (map_opt_some (nth_error dims) (fun t => nth t dims 0)).
  2:{ intros a Ha. apply In_rest_nat in Ha. apply nth_error_nth'. tauto. }
  fold (digits_at dims (rest_nat N ts)). rewrite <- digits_at_app. fold (inv_of N ts).
  rewrite digits_at_length, (inv_len N ts Hnd Hlt).
  rewrite (perm_valid_order N ts Hnd Hlt).
  rewrite (map_opt_some (nth_error (digits_at dims (inv_of N ts))) (fun v => nth v (digits_at dims (inv_of N ts)) 0)).
  2:{ intros v Hv. apply nth_error_nth'. rewrite digits_at_length, (inv_len N ts Hnd Hlt).
      apply (order_lt N ts Hnd Hlt). exact Hv. }
  replace (map (fun v => nth v (digits_at dims (inv_of N ts)) 0) (order_of N ts)) with dims; [reflexivity|].
  apply (nth_ext _ _ 0 0).
  - rewrite map_length. symmetry. apply (order_len N ts).
  - intros a Ha. fold N in Ha.
    assert (nth a (order_of N ts) 0 < N) as Hoa.
    { apply (order_lt N ts Hnd Hlt). apply nth_In. rewrite (order_len N ts). exact Ha. }
    rewrite (nth_map_lt _ (order_of N ts) a 0 0) by (rewrite (order_len N ts); exact Ha).
    unfold digits_at.
    rewrite (nth_map_lt _ (inv_of N ts) _ 0 0) by (rewrite (inv_len N ts Hnd Hlt); exact Hoa).
    rewrite (inv_order N ts Hnd Hlt a Ha). reflexivity.
Qed.

Lemma unpermute_valid : forall N ts x,
  NoDup ts -> Forall (fun t => t < N) ts -> length x = N ->
  unpermute (order_of N ts) x = Some (digits_at x (inv_of N ts)).
Proof.
  intros N ts x Hnd Hlt Hx. unfold unpermute.
  rewrite (order_len N ts), Hx, Nat.eqb_refl.
  rewrite (map_opt_some _ (fun j => nth (nth j (inv_of N ts) 0) x 0)).
  - f_equal. rewrite <- (inv_len N ts Hnd Hlt) at 1.
    apply (map_nth_seq (fun t => nth t x 0) 0 (inv_of N ts)).
  - intros j Hj. apply in_seq in Hj.
    assert (nth j (inv_of N ts) 0 < N) as Hlt'.
    { pose proof (inv_lt N ts Hnd Hlt) as H. rewrite Forall_forall in H. apply H.
      apply nth_In. rewrite (inv_len N ts Hnd Hlt). lia. }
    rewrite (index_of_nodup _ (nth j (inv_of N ts) 0) j).
    + apply nth_error_nth'. lia.
    + apply (order_nodup N ts Hnd Hlt).
    + rewrite (nth_error_nth' _ 0) by (rewrite (order_len N ts); exact Hlt').
      f_equal. apply (order_inv N ts Hnd Hlt). lia.
Qed.

Lemma rest_agree_spec : forall N ts x y,
  rest_agree N ts x y = true <-> (forall q, q < N -> ~ In q ts -> nth q x 0 = nth q y 0).
Proof.
  intros N ts x y. unfold rest_agree. rewrite forallb_forall. split.
  - intros H q Hq Hnin. specialize (H q). rewrite in_seq in H.
    assert (0 <= q < 0 + N) as Hr by lia. apply H in Hr. apply orb_true_iff in Hr as [Hr|Hr].
    + apply existsb_eqb_In in Hr. contradiction.
    + apply Nat.eqb_eq. exact Hr.
  - intros H q Hq. apply in_seq in Hq. apply orb_true_iff.
    destruct (in_dec Nat.eq_dec q ts) as [Hin|Hnin].
    + left. apply existsb_eqb_In. exact Hin.
    + right. apply Nat.eqb_eq. apply H; auto. lia.
Qed.

Lemma rest_digits_agree : forall N ts x y,
  list_eqb (digits_at x (rest_nat N ts)) (digits_at y (rest_nat N ts)) = rest_agree N ts x y.
Proof.
  intros N ts x y. apply eq_true_iff_eq. rewrite list_eqb_eq, rest_agree_spec. split.
  - intros H q Hq Hnin.
    assert (In q (rest_nat N ts)) as Hin by (apply In_rest_nat; auto).
    destruct (In_nth _ _ 0 Hin) as [j [Hj Hjq]].
    assert (nth j (digits_at x (rest_nat N ts)) 0 = nth j (digits_at y (rest_nat N ts)) 0) as E
      by (rewrite H; reflexivity).
    unfold digits_at in E.
    rewrite (nth_map_lt _ _ j 0 0), (nth_map_lt (fun t => nth t y 0) _ j 0 0) in E by exact Hj.
    rewrite Hjq in E. exact E.
  - intro H. unfold digits_at. apply map_ext_in. intros q Hq. apply In_rest_nat in Hq. apply H; tauto.
Qed.

Theorem expand_element_lemma : forall dims orow ocol ts x y,
  valid_targets dims orow ocol ts -> length x = length dims -> length y = length dims ->
  expand_elem dims orow ocol (TsList (tz ts)) x y =
    Ok (if rest_agree (length dims) ts x y then Some (digits_at x ts, digits_at y ts) else None).
Proof.
  intros dims orow ocol ts x y Hv Hx Hy. unfold expand_elem.
  rewrite (expand_plan_valid _ _ _ _ Hv). cbn [bind].
  destruct Hv as [Hnd [Hlt _]].
  unfold plan_elem. cbn [p_order p_k].
  rewrite (unpermute_valid _ _ x Hnd Hlt Hx), (unpermute_valid _ _ y Hnd Hlt Hy).
  cbn [elem_of]. unfold tensor_elem, inv_of.
  rewrite !digits_at_app.
  rewrite !firstn_app_len, !skipn_app_len by apply digits_at_length.
  rewrite rest_digits_agree. reflexivity.
Qed.

Lemma expand_dims_lemma : forall dims orow ocol ts,
  valid_targets dims orow ocol ts -> expand_dims dims orow ocol (TsList (tz ts)) = Ok dims.
Proof.
  intros dims orow ocol ts Hv. unfold expand_dims. rewrite (expand_plan_valid _ _ _ _ Hv). reflexivity.
Qed.

Lemma expand_order_lemma : forall dims orow ocol ts,
  valid_targets dims orow ocol ts ->
  exists order, expand_order dims orow ocol (TsList (tz ts)) = Ok order /\
                Permutation order (seq 0 (length dims)) /\
                (forall i, i < length ts -> nth (nth i ts 0) order 0 = i).
Proof.
  intros dims orow ocol ts Hv. exists (order_of (length dims) ts).
  unfold expand_order. rewrite (expand_plan_valid _ _ _ _ Hv).
  destruct Hv as [Hnd [Hlt _]]. split; [reflexivity|]. split.
  - apply order_perm; assumption.
  - apply order_targets; assumption.
Qed.
