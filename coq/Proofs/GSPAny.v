(* C01 - entries with an empty index list (GLOBALPHASE propagators) in the compact product: the repaired code takes
   them out as scalar factors ([gsp_any]); soundness on top of [gsp_sound]. *)
From Coq Require Import List Arith Bool Lia FunctionalExtensionality.
Import ListNotations.
From QV Require Import Found.Base Found.Lemmas Found.Comm Model.GSP Proofs.GSPLists Proofs.GSPSem.

Lemma is_empty_nil g : is_empty g = true -> snd g = [].
Proof. unfold is_empty. destruct (snd g); [reflexivity| discriminate]. Qed.

Lemma fplace_phases T (c : fcirc) : Forall (fun g => is_empty g = true) c -> fplace T c = c.
Proof.
  induction 1 as [|[id qs] c Hg _ IH]; [reflexivity|]. apply is_empty_nil in Hg. simpl in Hg. subst qs.
  unfold fplace, frelabel in *. simpl. rewrite IH. reflexivity.
Qed.

Lemma filter_Forall {A} (f : A -> bool) l : Forall (fun x => f x = true) (filter f l).
Proof. apply Forall_forall. intros x Hx. apply filter_In in Hx. tauto. Qed.

Section S.
Variable O : Ops.
Hypothesis Kring : ring_theory (k0 O) (k1 O) (kadd O) (kmul O) (ksub O) (kopp O) eq.
Variable G : nat -> mat O.
Notation den := (den O G).

(* scalar factors commute with everything: they may be collected at the end *)
Lemma phases_last (gates : fcirc) : forall psi : state O,
  sem (den gates) psi =
  sem (den (filter is_empty gates)) (sem (den (filter (fun g => negb (is_empty g)) gates)) psi).
Proof.
  induction gates as [|g gates IH]; intro psi; [reflexivity|].
  change (sem (den (g :: gates)) psi) with (sem (den gates) (app (G (fst g)) (snd g) psi)).
  rewrite IH. simpl filter. destruct (is_empty g) eqn:E; simpl negb; cbv iota.
  - change (sem (den (g :: filter is_empty gates)) ?x) with (sem (den (filter is_empty gates)) (app (G (fst g)) (snd g) x)).
    f_equal. apply (app_sem_comm O Kring). intros g' _ t Ht. apply is_empty_nil in E. rewrite E in Ht. destruct Ht.
  - reflexivity.
Qed.

Theorem gsp_any_sound ord : ord_asc ord -> forall fuel gates res, gsp_any ord fuel gates = Some res ->
  forall psi : state O, sem (den (fplace (snd res) (fst res))) psi = sem (den gates) psi.
Proof.
  intros Hord fuel gates res H psi. unfold gsp_any in H.
  destruct (nonempty_inds gates).
  - exact (proj2 (gsp_sound O Kring G ord Hord _ _ _ H) psi).
  - rewrite (phases_last gates psi).
    destruct (filter (fun g => negb (is_empty g)) gates) as [|g0 ne] eqn:Ene.
    + injection H as <-. simpl fst. simpl snd. rewrite fplace_phases by apply filter_Forall. reflexivity.
    + destruct (gsp ord fuel (g0 :: ne)) as [[c inds]|] eqn:Eg; [|discriminate]. injection H as <-.
      simpl fst. simpl snd. rewrite fplace_app, (den_app O G), (sem_app O).
      rewrite fplace_phases by apply filter_Forall. f_equal.
      exact (proj2 (gsp_sound O Kring G ord Hord _ _ _ Eg) psi).
Qed.
End S.
