(* C06: the coupling chosen by _swap_compiler connects exactly the gate's qubits (repaired code), the code as found
   does not (refutation), the reported global phase is the sum of the GLOBALPHASE arguments, and every compiled
   instruction has area = coefficient * duration equal to the translated area expression. *)
From Coq Require Import ZArith QArith Qabs String List Bool Lia.
From QV Require Import Found.Sym Model.SpinChainTypes Gen.SpinChain Model.Concat Model.SpinChain Proofs.SpinChainCal.
Import ListNotations.
Local Open Scope string_scope.
Local Open Scope Z_scope.

Definition setup_ok (c : cfg) : Prop := c_setup c = "linear" \/ c_setup c = "circular".

(* ---- the label rule, as generated from the current source, in closed form ---- *)
Lemma rule_closed_form setup e :
  choose_label setup e swap_branches swap_else =
  Some (if (e_q2 e - e_q1 e =? 1) then LLabel "g" IQ1
        else if (String.eqb setup "circular" && (e_q1 e =? 0) && (e_q2 e =? e_n e - 1))%bool then LLabel "g" IQ2
        else LRaise).
Proof.
  (* by evaluation of the generated decision list: every integer comparison is decided, inconsistent cases are closed
     by arithmetic -- independent of the order / nesting / redundancy of the generated conditions *)
  unfold swap_branches, swap_else. cbn [choose_label beval ieval].
  destruct (String.eqb setup "circular");
    repeat match goal with |- context [Z.eqb ?a ?b] => destruct (Z.eqb_spec a b) end;
    cbn; first [reflexivity | exfalso; lia].
Qed.

(* the scale factors of the control Hamiltonians, whatever expression the source uses for them *)
Definition fam_scale (p : string) : ex :=
  match find_family p ctrl_families 0 with Some (_, f) => cf_scale f | None => Num 0 end.
Lemma family_g : find_family "g" ctrl_families 0 =
  Some (2%nat, mkCF "g" HXY (fam_scale "g") INumCoupling [ILoop; IMod (IAdd ILoop (IConst 1)) IN]).
Proof. reflexivity. Qed.

Lemma num_coupling_linear c : c_setup c = "linear" -> num_coupling c = Some (Z.of_nat (c_n c) - 1).
Proof. unfold num_coupling. intros ->. reflexivity. Qed.
Lemma num_coupling_circular c : c_setup c = "circular" -> num_coupling c = Some (Z.of_nat (c_n c)).
Proof. unfold num_coupling. intros ->. reflexivity. Qed.

Lemma control_g c j cnt : num_coupling c = Some cnt -> 0 <= j < cnt -> 0 < Z.of_nat (c_n c) ->
  control_of c ("g", j) = Some (HXY, [j; (j + 1) mod Z.of_nat (c_n c)]).
Proof.
  intros Hn Hj HN. unfold control_of. cbn [fst snd]. rewrite family_g. cbn [cf_count cf_targets cf_kind ieval e_nc e_loop e_n map].
  rewrite Hn. replace (0 <=? j) with true by (symmetry; apply Z.leb_le; lia).
  replace (j <? cnt) with true by (symmetry; apply Z.ltb_lt; lia). cbn [andb].
  replace (Z.of_nat (c_n c) =? 0) with false by (symmetry; apply Z.eqb_neq; lia). reflexivity.
Qed.

Lemma control_g_none c j cnt : num_coupling c = Some cnt -> ~ (0 <= j < cnt) -> control_of c ("g", j) = None.
Proof.
  intros Hn Hj. unfold control_of. cbn [fst snd]. rewrite family_g. cbn [cf_count cf_targets cf_kind ieval e_nc e_loop e_n map].
  rewrite Hn. destruct (0 <=? j) eqn:E1; [|reflexivity]. destruct (j <? cnt) eqn:E2; [|reflexivity].
  apply Z.leb_le in E1. apply Z.ltb_lt in E2. exfalso. apply Hj. lia.
Qed.

(* smallest / largest target *)
Lemma fold_min_le r : forall a, (fold_left Nat.min r a <= a)%nat /\ Forall (fun t => (fold_left Nat.min r a <= t)%nat) r.
Proof.
  induction r as [|x r IH]; intros a; cbn [fold_left]; [split; [lia|constructor]|].
  destruct (IH (Nat.min a x)) as [H1 H2]. split; [lia|]. constructor; [lia|exact H2].
Qed.
Lemma fold_max_ge r : forall a, (a <= fold_left Nat.max r a)%nat /\ Forall (fun t => (t <= fold_left Nat.max r a)%nat) r.
Proof.
  induction r as [|x r IH]; intros a; cbn [fold_left]; [split; [lia|constructor]|].
  destruct (IH (Nat.max a x)) as [H1 H2]. split; [lia|]. constructor; [lia|exact H2].
Qed.
Lemma fold_max_bound n r : forall a, (a < n)%nat -> Forall (fun t => (t < n)%nat) r -> (fold_left Nat.max r a < n)%nat.
Proof.
  induction r as [|x r IH]; intros a Ha Hr; cbn [fold_left]; [exact Ha|].
  inversion Hr; subst. apply IH; [lia|assumption].
Qed.

(* ---- coupling_connects, repaired code: a label is produced only for neighbours of the topology, and it names the
        exchange Hamiltonian on exactly the two extreme (for a two-qubit gate: the two) target qubits ---- *)
Theorem coupling_connects c g lb :
  setup_ok c -> Forall (fun t => (t < c_n c)%nat) (g_targets g) ->
  swap_label c g = Ok lb ->
  exists q1 q2, zmin (g_targets g) = Some q1 /\ zmax (g_targets g) = Some q2 /\
    coupled c q1 q2 = true /\
    exists ts, control_of c lb = Some (HXY, ts) /\ (ts = [q1; q2] \/ ts = [q2; q1]).
Proof.
  intros Hs Hr. unfold swap_label, swap_label_with.
  destruct (g_targets g) as [|a r] eqn:Et; [discriminate|].
  rewrite rule_closed_form. unfold genv. rewrite Et. cbn [zmin zmax e_q1 e_q2 e_n].
  set (q1 := Z.of_nat (fold_left Nat.min r a)). set (q2 := Z.of_nat (fold_left Nat.max r a)).
  assert (Hq2 : q2 < Z.of_nat (c_n c)).
  { unfold q2. apply Nat2Z.inj_lt. inversion Hr; subst. apply fold_max_bound; assumption. }
  assert (Hq12 : 0 <= q1 <= q2).
  { unfold q1, q2. destruct (fold_min_le r a) as [H1 _]. destruct (fold_max_ge r a) as [H2 _]. lia. }
  intros H. exists q1, q2. split; [reflexivity|]. split; [reflexivity|].
  destruct (q2 - q1 =? 1) eqn:E1.
  - apply Z.eqb_eq in E1. cbn [ieval e_q1] in H. injection H as <-.
    split; [unfold coupled; replace (q2 - q1 =? 1) with true by (symmetry; apply Z.eqb_eq; lia); reflexivity|].
    exists [q1; q2]. split; [|left; reflexivity].
    destruct Hs as [Hl|Hc].
    + rewrite (control_g c q1 _ (num_coupling_linear c Hl)) by lia. rewrite Z.mod_small by lia.
      replace (q1 + 1) with q2 by lia. reflexivity.
    + rewrite (control_g c q1 _ (num_coupling_circular c Hc)) by lia. rewrite Z.mod_small by lia.
      replace (q1 + 1) with q2 by lia. reflexivity.
  - destruct (String.eqb (c_setup c) "circular" && (q1 =? 0) && (q2 =? Z.of_nat (c_n c) - 1))%bool eqn:E2; [|discriminate].
    cbn [ieval e_q2] in H. injection H as <-.
    split; [unfold coupled; rewrite E2; apply orb_true_r|].
    apply andb_prop in E2. destruct E2 as [E2 E4]. apply andb_prop in E2. destruct E2 as [E2 E3].
    apply String.eqb_eq in E2. apply Z.eqb_eq in E3. apply Z.eqb_eq in E4.
    exists [q2; q1]. split; [|right; reflexivity].
    rewrite (control_g c q2 _ (num_coupling_circular c E2)) by lia.
    replace (q2 + 1) with (Z.of_nat (c_n c)) by lia. rewrite Z_mod_same_full. rewrite E3. reflexivity.
Qed.

(* ... and every other pair is refused *)
Theorem coupling_refuses c g q1 q2 :
  zmin (g_targets g) = Some q1 -> zmax (g_targets g) = Some q2 -> coupled c q1 q2 = false -> swap_label c g = Err.
Proof.
  intros H1 H2 Hc. unfold swap_label, swap_label_with.
  destruct (g_targets g) as [|a r] eqn:Et; [reflexivity|].
  rewrite rule_closed_form. unfold genv. rewrite Et, H1, H2. cbn [e_q1 e_q2 e_n].
  unfold coupled in Hc. apply orb_false_elim in Hc. destruct Hc as [-> ->]. reflexivity.
Qed.

(* a swap-type gate that compiles has a coupled pair *)
Corollary swap_compiles_coupled c g area r : setup_ok c -> Forall (fun t => (t < c_n c)%nat) (g_targets g) ->
  swap_compiler c g area = Ok r ->
  exists q1 q2 lb coeff dur ts, zmin (g_targets g) = Some q1 /\ zmax (g_targets g) = Some q2 /\ coupled c q1 q2 = true /\
    r = CInstr dur [(lb, coeff)] /\ control_of c lb = Some (HXY, ts) /\ (ts = [q1; q2] \/ ts = [q2; q1]).
Proof.
  intros Hs Hr. unfold swap_compiler. destruct (swap_label c g) as [lb|] eqn:El; [|discriminate]. cbn [rbind].
  destruct (coupling_connects c g lb Hs Hr El) as [q1 [q2 [H1 [H2 [Hc [ts [Ht Ho]]]]]]].
  destruct (of_opt (ieval (genv c g) swap_max_index)) as [im|]; [|discriminate]. cbn [rbind].
  destruct (of_opt (zth (c_sxsy c) im)) as [mx|]; [|discriminate]. cbn [rbind].
  destruct (of_opt (area_at area None)) as [a|]; [|discriminate]. cbn [rbind].
  destruct (of_opt (rect_pulse mx a)) as [[co du]|]; [|discriminate]. cbn [rbind fst snd]. intros [= <-].
  exists q1, q2, lb, co, du, ts. repeat (split; [assumption || reflexivity|]). exact Ho.
Qed.

(* ---- the code as found: refuted ---- *)
Definition c_ring4 : cfg := mkCfg 4 "circular" [1#4;1#4;1#4;1#4]%Q [1;1;1;1]%Q [1#10;1#10;1#10;1#10]%Q.
Definition c_line3 : cfg := mkCfg 3 "linear" [1#4;1#4;1#4]%Q [1;1;1]%Q [1#10;1#10]%Q.
Definition g13 : ngate := mkG "ISWAP" [1%nat; 3%nat] None.
Definition g02 : ngate := mkG "ISWAP" [0%nat; 2%nat] None.

(* ISWAP(1,3) on the 4-ring is compiled onto g1, the interaction between the qubits 1 and 2 *)
Theorem coupling_connects_refuted :
  exists c g lb ts, setup_ok c /\ Forall (fun t => (t < c_n c)%nat) (g_targets g) /\
    swap_label_orig c g = Ok lb /\ control_of c lb = Some (HXY, ts) /\
    zmin (g_targets g) = Some 1 /\ zmax (g_targets g) = Some 3 /\ ts = [1; 2] /\ coupled c 1 3 = false.
Proof.
  exists c_ring4, g13, ("g", 1), [1; 2]. split; [right; reflexivity|]. split; [repeat constructor|].
  repeat split; vm_compute; reflexivity.
Qed.
(* ISWAP(0,2) on the open 3-chain is compiled onto "g2", which is not a control of the model at all *)
Theorem coupling_label_missing_refuted :
  exists c g lb, setup_ok c /\ Forall (fun t => (t < c_n c)%nat) (g_targets g) /\
    swap_label_orig c g = Ok lb /\ control_of c lb = None /\ coupled c 0 2 = false.
Proof.
  exists c_line3, g02, ("g", 2). split; [left; reflexivity|]. split; [repeat constructor|].
  repeat split; vm_compute; reflexivity.
Qed.
(* on these inputs the repaired rule raises *)
Example fixed_rule_refuses : swap_label c_ring4 g13 = Err /\ swap_label c_line3 g02 = Err.
Proof. split; vm_compute; reflexivity. Qed.

(* ---- global phase ---- *)
Local Open Scope Q_scope.
Definition is_phase_gate (g : ngate) : bool :=
  match SpinChain.assoc (g_name g) gate_methods with Some MPhase => true | _ => false end.
Fixpoint sum_phase (gs : list ngate) : Q :=
  match gs with
  | [] => 0
  | g :: r => (if is_phase_gate g then match g_arg g with Some a => a | None => 0 end else 0) + sum_phase r
  end.

Lemma rotation_shape c g op pa r : rotation_compiler c g op pa = Ok r -> exists d ps, r = CInstr d ps.
Proof.
  unfold rotation_compiler.
  repeat match goal with |- rbind ?x _ = _ -> _ => destruct x; cbn [rbind]; [|discriminate] end.
  intros [= <-]. eauto.
Qed.
Lemma swap_shape c g ar r : swap_compiler c g ar = Ok r -> exists d ps, r = CInstr d ps.
Proof.
  unfold swap_compiler.
  repeat match goal with |- rbind ?x _ = _ -> _ => destruct x; cbn [rbind]; [|discriminate] end.
  intros [= <-]. eauto.
Qed.

Lemma compile_gate_phase c g r : compile_gate c g = Ok r ->
  match r with
  | CPhase a => is_phase_gate g = true /\ g_arg g = Some a
  | _ => is_phase_gate g = false
  end.
Proof.
  unfold compile_gate, is_phase_gate.
  destruct (SpinChain.assoc (g_name g) gate_methods) as [[op pa|ar| | |]|]; try discriminate.
  - intros H. destruct (rotation_shape _ _ _ _ _ H) as [d [ps ->]]. reflexivity.
  - intros H. destruct (swap_shape _ _ _ _ H) as [d [ps ->]]. reflexivity.
  - destruct (g_arg g); [|discriminate]. intros [= <-]. split; reflexivity.
  - destruct (g_arg g); [|discriminate]. intros [= <-]. reflexivity.
  - intros [= <-]. reflexivity.
Qed.

Lemma compile_gates_phase c gs : forall p il ph, compile_gates c gs p = Ok (il, ph) -> ph == p + sum_phase gs.
Proof.
  induction gs as [|g r IH]; intros p il ph H; cbn [compile_gates] in H.
  - injection H as <- <-. cbn [sum_phase]. ring.
  - cbn [sum_phase]. destruct (compile_gate c g) as [x|] eqn:Eg; cbn [rbind] in H; [|discriminate].
    pose proof (compile_gate_phase c g x Eg) as Hx. destruct x as [d ps|a|].
    + rewrite Hx. destruct (compile_gates c r p) as [[il' ph']|] eqn:E; cbn [rbind fst snd] in H; [|discriminate].
      injection H as <- <-. rewrite (IH _ _ _ E). ring.
    + destruct Hx as [-> ->]. rewrite (IH _ _ _ H). ring.
    + rewrite Hx. rewrite (IH _ _ _ H). ring.
Qed.

(* the phase handed to the processor by load_circuit (fresh compiler, phase 0) is the sum of the GLOBALPHASE
   arguments of the transpiled circuit (in units of pi); the three translated flags say: the compiler is created
   per load, its phase is copied after compiling, run_analytically appends globalphase(self.global_phase) *)
Theorem global_phase_reported c sched gs tab ph :
  load c sched gs = Ok (tab, ph) ->
  ph == sum_phase gs /\ load_fresh_compiler = true /\ load_reports_phase = true /\ run_appends_phase = true.
Proof.
  unfold load. destruct (compile_gates c gs 0) as [[il p]|] eqn:E; cbn [rbind fst snd]; [|discriminate].
  intros H. assert (ph = p).
  { destruct il; [destruct load_accepts_empty; [injection H as _ <-; reflexivity|discriminate]|].
    destruct (forallb _ _); [|discriminate].
    destruct (of_opt (to_instrs _)); cbn [rbind] in H; [|discriminate].
    destruct (of_opt (compile _ _ _ _)); cbn [rbind] in H; [|discriminate]. injection H as _ <-. reflexivity. }
  subst ph. split; [|repeat split]. rewrite (compile_gates_phase _ _ _ _ _ E). ring.
Qed.

(* ---- every compiled instruction carries exactly the translated area ---- *)
Theorem compiled_area c g d lb co :
  compile_gate c g = Ok (CInstr d [(lb, co)]) ->
  exists area_e, (SpinChain.assoc (g_name g) gate_methods = Some (MSwap area_e) \/
                  exists op pa, SpinChain.assoc (g_name g) gate_methods = Some (MRot op pa) /\ area_e = rot_area) /\
    exists a, area_at area_e (g_arg g) = Some a /\ co * d == a /\ 0 <= d.
Proof.
  unfold compile_gate. destruct (SpinChain.assoc (g_name g) gate_methods) as [[op pa|ar| | |]|]; try discriminate.
  - unfold rotation_compiler.
    destruct (of_opt (strengths c pa)) as [v|]; cbn [rbind]; [|discriminate].
    destruct (of_opt (ieval (genv c g) rot_max_index)) as [im|]; cbn [rbind]; [|discriminate].
    destruct (of_opt (zth v im)) as [mx|]; cbn [rbind]; [|discriminate].
    destruct (area_at rot_area (g_arg g)) as [a|] eqn:Ea; cbn [of_opt rbind]; [|discriminate].
    destruct (rect_pulse mx a) as [[co' d']|] eqn:Er; cbn [of_opt rbind]; [|discriminate].
    destruct (of_opt (ieval (genv c g) rot_label_index)) as [il|]; cbn [rbind fst snd]; [|discriminate].
    intros [= <- _ <-]. exists rot_area. split; [right; eauto|]. exists a. split; [exact Ea|].
    destruct (area_independent_of_strength _ _ _ _ Er) as [H1 [H2 _]]. split; assumption.
  - unfold swap_compiler.
    destruct (swap_label c g) as [lb'|]; cbn [rbind]; [|discriminate].
    destruct (of_opt (ieval (genv c g) swap_max_index)) as [im|]; cbn [rbind]; [|discriminate].
    destruct (of_opt (zth (c_sxsy c) im)) as [mx|]; cbn [rbind]; [|discriminate].
    destruct (area_at ar None) as [a|] eqn:Ea; cbn [of_opt rbind]; [|discriminate].
    destruct (rect_pulse mx a) as [[co' d']|] eqn:Er; cbn [of_opt rbind fst snd]; [|discriminate].
    intros [= <- _ <-]. exists ar. split; [left; reflexivity|]. exists a. split.
    + unfold area_at in *. destruct (amono ar) as [[[q0 h0] b0]|]; [|discriminate]. destruct h0.
      * destruct (b0 =? -1)%Z; discriminate.
      * exact Ea.
    + destruct (area_independent_of_strength _ _ _ _ Er) as [H1 [H2 _]]. split; assumption.
  - destruct (g_arg g); discriminate.
  - destruct (g_arg g); [|discriminate]. discriminate.
Qed.
