(* C14 -- assembly: get_full_coeffs_v1 rows are the pulses' step functions on every merged interval;
   the slices of run_analytically are the piecewise-constant H(t) *)
From Coq Require Import String.
From Coq Require Import List QArith Bool Arith Lia Lqa Sorted.
From QV Require Import Model.Fill Spec.FillSpec Proofs.FillStep Proofs.FillGrid.
Import ListNotations.
Open Scope Q_scope.

(* ---------- reflection of the boolean side conditions ---------- *)
Lemma incrb_sorted l : incrb l = true -> StronglySorted Qlt l.
Proof.
  induction l as [|x l IH]; intros H; [constructor|].
  cbn [incrb] in H. destruct l as [|y l'].
  - constructor; constructor.
  - apply andb_true_iff in H. destruct H as [Hxy Hr]. apply Qltb_true in Hxy.
    specialize (IH Hr). constructor; [exact IH|].
    apply Forall_forall. intros z [<-|Hz]; [exact Hxy|].
    pose proof (sorted_tail_gt _ _ IH _ Hz). lra.
Qed.

Lemma wellsepb_sep tol pts : wellsepb tol pts = true ->
  forall x y, In x pts -> In y pts -> x == y \/ tol < x - y \/ tol < y - x.
Proof.
  unfold wellsepb. intros H x y Hx Hy.
  rewrite forallb_forall in H. specialize (H x Hx). rewrite forallb_forall in H.
  specialize (H y Hy). unfold sepb in H.
  apply orb_true_iff in H. destruct H as [H|H].
  - apply orb_true_iff in H. destruct H as [H|H].
    + left. apply Qeq_bool_iff. exact H.
    + right; left. apply Qltb_true. exact H.
  - right; right. apply Qltb_true. exact H.
Qed.

Lemma Qsame_eq a b : Qsame a b = true -> a = b.
Proof.
  destruct a as [an ad], b as [bn bd]. unfold Qsame. cbn [Qnum Qden].
  intros H. apply andb_true_iff in H. destruct H as [H1 H2].
  apply Z.eqb_eq in H1. apply Pos.eqb_eq in H2. subst. reflexivity.
Qed.

(* ---------- ok_out ---------- *)
Lemma ok_out_ext g g' F r : (forall t, g t = g' t) -> ok_out g F r -> ok_out g' F r.
Proof.
  intros E H. induction H; constructor; auto. intros t Ha Hb. rewrite <- E. auto.
Qed.
Lemma ok_out_repeat c F : ok_out (fun _ => c) F (repeat c (length F)).
Proof.
  induction F as [|t1 F IH]; [constructor|].
  destruct F as [|t2 F']; [constructor|].
  cbn [length repeat]. apply ok_cons; [reflexivity|exact IH].
Qed.
Lemma ok_out_nth g F res : ok_out g F res ->
  forall n a b t, nth_error F n = Some a -> nth_error F (S n) = Some b -> a <= t -> t < b ->
  nth_error res n = Some (g t).
Proof.
  induction 1 as [|t0 c0|t1 t2 F c res Hc Hok IH]; intros n a b t Ha Hb H1 H2.
  - destruct n; discriminate.
  - destruct n as [|[|n]]; discriminate.
  - destruct n as [|n].
    + cbn in Ha, Hb. injection Ha as <-. injection Hb as <-. cbn. f_equal. apply Hc; assumption.
    + cbn [nth_error] in Ha, Hb |- *. eapply IH; eauto.
Qed.
Lemma ok_out_length g F res : ok_out g F res -> length res = length F.
Proof. induction 1; cbn [length]; auto. Qed.

(* ---------- coefficient padding ---------- *)
Lemma step_fn_app tl : forall cf extra t, (length tl <= length cf + 1)%nat ->
  step_fn tl (cf ++ extra) t = step_fn tl cf t.
Proof.
  induction tl as [|a tl IH]; intros cf extra t H; [reflexivity|].
  destruct tl as [|b r].
  - cbn [step_fn]. destruct (cf ++ extra), cf; reflexivity.
  - destruct cf as [|c cf]; [cbn [length] in H; lia|].
    cbn [app]. cbn [step_fn].
    destruct (Qle_bool a t && Qltb t b); [reflexivity|].
    apply IH. cbn [length] in H |- *. lia.
Qed.

Lemma nth_error_app_last {A} (l : list A) x : nth_error (l ++ [x]) (length l) = Some x.
Proof. induction l; cbn; auto. Qed.

Lemma removelast_length {A} (l : list A) : l <> [] -> S (length (removelast l)) = length l.
Proof.
  intros H. destruct (exists_last H) as [l' [x ->]].
  rewrite removelast_last, app_length. cbn. lia.
Qed.

Lemma pad_coeff_ok cf tl :
  (1 <= length tl)%nat -> (length cf + 1 = length tl \/ length cf = length tl)%nat ->
  length (pad_coeff cf tl) = length tl /\
  nth_error (pad_coeff cf tl) (length tl - 1) = Some 0 /\
  forall t, step_fn tl (pad_coeff cf tl) t = step_fn tl cf t.
Proof.
  intros H2 [H|H]; unfold pad_coeff.
  - assert (E : (length cf + 1 =? length tl)%nat = true) by (apply Nat.eqb_eq; exact H).
    rewrite E. split; [rewrite app_length; cbn; lia|]. split.
    + replace (length tl - 1)%nat with (length cf) by lia. apply nth_error_app_last.
    + intros t. apply step_fn_app. lia.
  - assert (E1 : (length cf + 1 =? length tl)%nat = false) by (apply Nat.eqb_neq; lia).
    assert (E2 : (length cf =? length tl)%nat = true) by (apply Nat.eqb_eq; exact H).
    rewrite E1, E2.
    assert (Hne : cf <> []) by (intro E; subst cf; cbn in H; lia).
    pose proof (removelast_length cf Hne) as Hl.
    split; [rewrite app_length; cbn; lia|]. split.
    + replace (length tl - 1)%nat with (length (removelast cf)) by lia. apply nth_error_app_last.
    + intros t. rewrite step_fn_app by lia.
      rewrite (app_removelast_last 0 Hne) at 2. rewrite step_fn_app by lia. reflexivity.
Qed.

Lemma pad_coeff_v0_ok cf tl :
  (2 <= length tl)%nat ->
((length cf + 1 = length tl)%nat \/ ((length cf = length tl)%nat /\ last cf 0 = 0)) ->
  length (pad_coeff_v0 cf tl) = length tl /\
  nth_error (pad_coeff_v0 cf tl) (length tl - 1) = Some 0 /\
  forall t, step_fn tl (pad_coeff_v0 cf tl) t = step_fn tl cf t.
Proof.
  intros H2 [H|[H Hz]]; unfold pad_coeff_v0.
  - assert (E : (length cf + 1 =? length tl)%nat = true) by (apply Nat.eqb_eq; exact H).
    rewrite E. split; [rewrite app_length; cbn; lia|]. split.
    + replace (length tl - 1)%nat with (length cf) by lia. apply nth_error_app_last.
    + intros t. apply step_fn_app. lia.
  - assert (E1 : (length cf + 1 =? length tl)%nat = false) by (apply Nat.eqb_neq; lia).
    rewrite E1. split; [exact H|]. split; [|reflexivity].
    assert (Hne : cf <> []) by (intro E; subst cf; cbn in H; lia).
    pose proof (removelast_length cf Hne) as Hl.
    rewrite (app_removelast_last 0 Hne). rewrite Hz.
    replace (length tl - 1)%nat with (length (removelast cf)) by lia. apply nth_error_app_last.
Qed.

(* ---------- l[-1] ---------- *)
Lemma last_opt_cons a b r : last_opt (a :: b :: r) = last_opt (b :: r).
Proof.
  unfold last_opt. cbn [length]. replace (S (S (length r)) - 1)%nat with (S (length r)) by lia.
  replace (S (length r) - 1)%nat with (length r) by lia. reflexivity.
Qed.
Lemma last_opt_sorted l : StronglySorted Qlt l -> l <> [] ->
  exists z, last_opt l = Some z /\ In z l /\ forall x, In x l -> x <= z.
Proof.
  induction l as [|a l IH]; intros Hs Hne; [congruence|].
  destruct l as [|b r].
  - exists a. split; [reflexivity|]. split; [left; reflexivity|].
    intros x [<-|[]]. lra.
  - destruct IH as [z [Hz [Hin Hmax]]]; [eapply sorted_tail; eauto|discriminate|].
    exists z. rewrite last_opt_cons. split; [exact Hz|]. split; [right; exact Hin|].
    intros x [<-|Hx]; [|auto].
    pose proof (sorted_tail_gt _ _ Hs b (or_introl eq_refl)).
    specialize (Hmax b (or_introl eq_refl)). lra.
Qed.

(* ---------- one row ---------- *)
Section Row.
  Variable tol : Q.
  Variable pts : list Q.
  Hypothesis Htol : 0 <= tol.
  Hypothesis Hsep : forall x y, In x pts -> In y pts -> x == y \/ tol < x - y \/ tol < y - x.

  Lemma fill_with_ok pad cf tl full :
    StronglySorted Qlt full -> incl full pts ->
    StronglySorted Qlt tl -> incl tl pts -> (2 <= length tl)%nat ->
    (forall x, In x tl -> exists y, In y full /\ y == x) ->
    length (pad cf tl) = length tl ->
    nth_error (pad cf tl) (length tl - 1) = Some 0 ->
    (forall t, step_fn tl (pad cf tl) t = step_fn tl cf t) ->
    exists row, fill_with_v1 pad tol cf tl full = Some row /\ ok_out (step_fn tl cf) full row.
  Proof.
    intros HsF HiF HsT HiT Hlen2 Hcov Hplen Hpz Hpst.
    unfold fill_with_v1, fill_gen. destruct full as [|f0 full'] eqn:EF.
    { exists []. split; [reflexivity|constructor]. }
    rewrite <- EF in *. clear EF f0 full'.
    destruct tl as [|o0 ost]; [cbn in Hlen2; lia|].
    destruct (last_opt_sorted (o0 :: ost) HsT) as [z [Hz [Hzin Hzmax]]]; [discriminate|].
    cbn [nth_error]. rewrite Hz. rewrite fill_loop_sfx. cbn [skipn].
    destruct (fill_sfx_ok tol o0 z pts (step_fn (o0 :: ost) (pad cf (o0 :: ost))) Htol Hsep)
      with (F := full) (o0 := o0) (ost := ost) (cs := pad cf (o0 :: ost)) as [row [Hrow Hok]]; auto.
    - apply HiT. left; reflexivity.
    - intros t Ht. apply step_fn_before.
      intros x [<-|Hx]; [exact Ht|]. pose proof (sorted_tail_gt _ _ HsT _ Hx). lra.
    - lra.
    - intros E. subst ost. cbn in Hlen2. lia.
    - intros x Hx. destruct (Hcov x (or_intror Hx)) as [y [Hy Exy]]. exists y. split; [exact Hy|lra].
    - left. apply Hcov. left; reflexivity.
    - cbn [length] in Hpz. replace (S (length ost) - 1)%nat with (length ost) in Hpz by lia. exact Hpz.
    - exists row. split; [exact Hrow|]. eapply ok_out_ext; [|exact Hok]. exact Hpst.
  Qed.
End Row.

(* ---------- all rows ---------- *)
Lemma mapM_Forall2 {A B} (f : A -> option B) (R : A -> B -> Prop) l :
  Forall (fun a => exists b, f a = Some b /\ R a b) l ->
  exists r, mapM f l = Some r /\ Forall2 R l r.
Proof.
  induction 1 as [|a l [b [Hb HR]] _ [r [Hr HF]]].
  - exists []. split; [reflexivity|constructor].
  - exists (b :: r). cbn [mapM]. rewrite Hb, Hr. split; [reflexivity|constructor; assumption].
Qed.

Lemma in_all_tlists ps p tl : In p ps -> ptl p = Some tl -> In tl (all_tlists ps).
Proof.
  induction ps as [|q ps IH]; intros Hin E; [destruct Hin|].
  cbn [all_tlists]. destruct Hin as [->|Hin].
  - rewrite E. left; reflexivity.
  - destruct (ptl q); [right|]; apply IH; assumption.
Qed.

(* what a padding function must guarantee for a given array pulse *)
Definition pad_good (pad : list Q -> list Q -> list Q) (p : pulse) : Prop :=
  match pco p, ptl p with
  | CArr cf, Some tl =>
      length (pad cf tl) = length tl /\ nth_error (pad cf tl) (length tl - 1) = Some 0 /\
      forall t, step_fn tl (pad cf tl) t = step_fn tl cf t
  | _, _ => True
  end.

Lemma inputs_okb_v1_unpack tol ps : inputs_okb_v1 tol ps = true ->
  0 <= tol /\ (forall p, In p ps -> pulse_okb_v1 p = true) /\
  (forall x y, In x (all_points ps) -> In y (all_points ps) -> x == y \/ tol < x - y \/ tol < y - x) /\
  all_tlists ps <> [].
Proof.
  unfold inputs_okb_v1. intros H.
  apply andb_true_iff in H. destruct H as [H H4].
  apply andb_true_iff in H. destruct H as [H H3].
  apply andb_true_iff in H. destruct H as [H1 H2].
  split; [apply Qle_bool_iff; exact H1|]. split; [apply forallb_forall; exact H2|].
  split; [apply wellsepb_sep; exact H3|].
  destruct (all_tlists ps); [discriminate|discriminate].
Qed.

Lemma pulse_okb_v1_valid p : pulse_okb_v1 p = true -> pulse_valid p = true.
Proof.
  unfold pulse_okb_v1, pulse_valid. destruct (pco p) as [| |cf]; auto.
  destruct (ptl p) as [tl|]; [|discriminate].
  intros H. apply andb_true_iff in H. destruct H as [_ H]. exact H.
Qed.

Lemma coeffs_ok_with_v1 pad tol ps :
  inputs_okb_v1 tol ps = true -> (forall p, In p ps -> pad_good pad p) ->
  exists full rows,
    get_full_tlist tol ps = Some full /\
    full_coeffs_with (fill_with_v1 pad) tol ps = Some rows /\
    Forall2 (fun p row => ok_out (pulse_fn p) full row) ps rows.
Proof.
  intros Hok Hpad. destruct (inputs_okb_v1_unpack _ _ Hok) as [Htol [Hp [Hsep Hne]]].
  destruct (get_full_tlist tol ps) as [full|] eqn:Efull.
  2:{ unfold get_full_tlist in Efull. destruct (all_tlists ps); [congruence|discriminate]. }
  exists full.
  pose proof (full_tlist_sorted _ _ _ Efull) as HsF.
  pose proof (full_tlist_in _ _ _ Efull) as HiF.
  pose proof (full_tlist_complete _ _ _ Htol Hsep Efull) as Hcomp.
  unfold full_coeffs_with.
  assert (Hval : forallb pulse_valid ps = true).
  { apply forallb_forall. intros p Hin. apply pulse_okb_v1_valid. auto. }
  rewrite Hval, Efull.
  assert (Hps : ps <> []) by (intro E; subst ps; apply Hne; reflexivity).
  destruct (mapM_Forall2 (row_with (fill_with_v1 pad) tol full)
              (fun p row => ok_out (pulse_fn p) full row) ps) as [rows [Hrows HF]].
  { apply Forall_forall. intros p Hin. specialize (Hp p Hin). specialize (Hpad p Hin).
    unfold pulse_okb_v1 in Hp. unfold pad_good in Hpad. unfold row_with, pulse_fn.
    destruct (pco p) as [|b|cf] eqn:Eco.
    - destruct (ptl p); [discriminate|]. eexists. split; [reflexivity|]. apply ok_out_repeat.
    - eexists. split; [reflexivity|]. apply ok_out_repeat.
    - destruct (ptl p) as [tl|] eqn:Etl; [|discriminate].
      apply andb_true_iff in Hp. destruct Hp as [Hp Hlen].
      apply andb_true_iff in Hp. destruct Hp as [Hinc Hl2].
      apply Nat.leb_le in Hl2. destruct Hpad as [Hp1 [Hp2 Hp3]].
      assert (HiT : incl tl (all_points ps)).
      { intros x Hx. unfold all_points. apply in_concat. exists tl. split; [|exact Hx].
        eapply in_all_tlists; eauto. }
      eapply (fill_with_ok tol (all_points ps) Htol Hsep pad cf tl full); auto.
      + apply incrb_sorted. exact Hinc.
  }
  exists rows. destruct ps; [congruence|]. split; [reflexivity|]. split; [exact Hrows|exact HF].
Qed.

Lemma pad_good_fixed_v1 p : pulse_okb_v1 p = true -> pad_good pad_coeff p.
Proof.
  unfold pulse_okb_v1, pad_good. destruct (pco p) as [| |cf]; auto.
  destruct (ptl p) as [tl|]; auto. intros H.
  apply andb_true_iff in H. destruct H as [H Hlen].
  apply andb_true_iff in H. destruct H as [_ Hl2]. apply Nat.leb_le in Hl2.
  apply pad_coeff_ok; [lia|].
  apply orb_true_iff in Hlen. destruct Hlen as [E|E]; apply Nat.eqb_eq in E; auto.
Qed.

Lemma pad_good_v0 p : pulse_okb_v1 p = true -> no_tail_sampleb p = true -> pad_good pad_coeff_v0 p.
Proof.
  unfold pulse_okb_v1, no_tail_sampleb, pad_good. destruct (pco p) as [| |cf]; auto.
  destruct (ptl p) as [tl|]; auto. intros H Hg.
  apply andb_true_iff in H. destruct H as [H Hlen].
  apply andb_true_iff in H. destruct H as [_ Hl2]. apply Nat.leb_le in Hl2.
  apply pad_coeff_v0_ok; [exact Hl2|].
  apply orb_true_iff in Hlen. destruct Hlen as [E|E]; apply Nat.eqb_eq in E; [left; exact E|].
  right. split; [exact E|].
  apply orb_true_iff in Hg. destruct Hg as [Hg|Hg].
  - apply negb_true_iff, Nat.eqb_neq in Hg. congruence.
  - apply Qsame_eq. exact Hg.
Qed.

Lemma coeffs_ok_v1 tol ps :
  inputs_okb_v1 tol ps = true ->
  exists full rows,
    get_full_tlist tol ps = Some full /\ get_full_coeffs_v1 tol ps = Some rows /\
    Forall2 (fun p row => ok_out (pulse_fn p) full row) ps rows.
Proof.
  intros H. apply coeffs_ok_with_v1; [exact H|].
  intros p Hin. apply pad_good_fixed_v1. destruct (inputs_okb_v1_unpack _ _ H) as [_ [Hp _]]. auto.
Qed.

Lemma coeffs_ok_v0 tol ps :
  inputs_okb_v1 tol ps = true -> forallb no_tail_sampleb ps = true ->
  exists full rows,
    get_full_tlist tol ps = Some full /\ get_full_coeffs_v0 tol ps = Some rows /\
    Forall2 (fun p row => ok_out (pulse_fn p) full row) ps rows.
Proof.
  intros H Hg. apply coeffs_ok_with_v1; [exact H|].
  intros p Hin. destruct (inputs_okb_v1_unpack _ _ H) as [_ [Hp _]].
  rewrite forallb_forall in Hg. apply pad_good_v0; auto.
Qed.

(* pointwise reading of the Forall2/ok_out statement *)
Lemma rows_pointwise full ps rows :
  Forall2 (fun p row => ok_out (pulse_fn p) full row) ps rows ->
  forall m p n a b t,
    nth_error ps m = Some p -> nth_error full n = Some a -> nth_error full (S n) = Some b ->
    a <= t -> t < b ->
    exists row, nth_error rows m = Some row /\ nth_error row n = Some (pulse_fn p t).
Proof.
  induction 1 as [|p0 row0 ps rows H0 HF IH]; intros m p n a b t Hm Ha Hb H1 H2.
  - destruct m; discriminate.
  - destruct m as [|m].
    + cbn in Hm. injection Hm as <-. exists row0. split; [reflexivity|].
      eapply ok_out_nth; eauto.
    + cbn [nth_error] in Hm |- *. eapply IH; eauto.
Qed.

(* ---------- slices ---------- *)
Lemma ok_out_inv g t1 t2 F row : ok_out g (t1 :: t2 :: F) row ->
  exists c res, row = c :: res /\ (forall t, t1 <= t -> t < t2 -> c = g t) /\ ok_out g (t2 :: F) res.
Proof. intros H. inversion H; subst. eauto. Qed.

Lemma column_ok t1 t2 F ps rows :
  Forall2 (fun p row => ok_out (pulse_fn p) (t1 :: t2 :: F) row) ps rows ->
  exists cs, mapM (@hd_error Q) rows = Some cs /\
    (forall t, t1 <= t -> t < t2 -> cs = map (fun f => f t) (map pulse_fn ps)) /\
    Forall2 (fun p row => ok_out (pulse_fn p) (t2 :: F) row) ps (map (@tl Q) rows).
Proof.
  induction 1 as [|p row ps rows H0 HF [cs [Hcs [Hval Hrest]]]].
  - exists []. split; [reflexivity|]. split; [reflexivity|constructor].
  - destruct (ok_out_inv _ _ _ _ _ H0) as [c [res [-> [Hc Hres]]]].
    exists (c :: cs). cbn [mapM hd_error map tl]. rewrite Hcs. split; [reflexivity|]. split.
    + intros t Ha Hb. f_equal; [apply Hc; assumption|apply Hval; assumption].
    + constructor; assumption.
Qed.

Lemma slices_okL : forall full ps rows,
  Forall2 (fun p row => ok_out (pulse_fn p) full row) ps rows ->
  exists sl, slices full rows = Some sl /\ slices_ok (map pulse_fn ps) full sl.
Proof.
  induction full as [|t1 rest IH]; intros ps rows HF.
  - exists []. split; [reflexivity|constructor].
  - destruct rest as [|t2 F].
    + exists []. split; [reflexivity|constructor].
    + destruct (column_ok _ _ _ _ _ HF) as [cs [Hcs [Hval Hrest]]].
      destruct (IH ps (map (@tl Q) rows) Hrest) as [sl [Hsl Hok]].
      exists ((t2 - t1, cs) :: sl). split.
      * change (slices (t1 :: t2 :: F) rows) with
          (match mapM (@hd_error Q) rows, slices (t2 :: F) (map (@tl Q) rows) with
           | Some cs, Some r => Some ((t2 - t1, cs) :: r) | _, _ => None end).
        rewrite Hcs, Hsl. reflexivity.
      * apply sl_cons; auto.
Qed.

Lemma last_indep (l : list Q) x d d' : last (x :: l) d = last (x :: l) d'.
Proof.
  revert x. induction l as [|y l IH]; intros x; [reflexivity|].
  change (last (y :: l) d = last (y :: l) d'). apply IH.
Qed.

Lemma slices_total fs F sl : slices_ok fs F sl ->
  forall t0 F', F = t0 :: F' -> total_time sl == last F t0 - t0.
Proof.
  induction 1 as [|t|t1 t2 F dt cs sl Hdt Hc Hok IH]; intros t0 F' E.
  - discriminate.
  - injection E as <- <-. unfold total_time. cbn [map fold_right last]. ring.
  - injection E as <- <-. unfold total_time in *. cbn [map fst fold_right].
    specialize (IH t2 F eq_refl). rewrite IH, Hdt.
    change (last (t1 :: t2 :: F) t1) with (last (t2 :: F) t1).
    rewrite (last_indep F t2 t1 t2). ring.
Qed.

Lemma slices_positive fs F sl : slices_ok fs F sl -> StronglySorted Qlt F ->
  Forall (fun s => 0 < fst s) sl.
Proof.
  induction 1 as [|t|t1 t2 F dt cs sl Hdt Hc Hok IH]; intros Hs; constructor.
  - cbn [fst]. rewrite Hdt. pose proof (sorted_tail_gt _ _ Hs t2 (or_introl eq_refl)). lra.
  - apply IH. eapply sorted_tail; eauto.
Qed.

Lemma hslices_of_slices M madd mscale drift ops fs F sl :
  slices_ok fs F sl -> hslices_ok M madd mscale drift ops fs F (ham_slices M madd mscale drift ops sl).
Proof.
  induction 1 as [|t|t1 t2 F dt cs sl Hdt Hc Hok IH]; cbn; try constructor; auto.
  intros t Ha Hb. unfold H_of. rewrite <- (Hc t Ha Hb). reflexivity.
Qed.
