(* C15 - the SOLUTION of the master equation that the relaxation set-up hands to the solver, for one idle two-level
   subsystem (and for a three-level subsystem whose state lies in the qubit subspace), over the real/complex numbers
   of the standard library + Coquelicot:

     rho_11(t) = rho_11(0) e^{-t/t1}      rho_00(t) = rho_00(0) + rho_11(0) (1 - e^{-t/t1})
     rho_01(t) = rho_01(0) e^{-t/t2}      rho_10(t) = rho_10(0) e^{-t/t2}

   (t1 only: coherence rate 1/(2 t1); t2 only: no population decay) satisfies, entry by entry and for every t,
        d/dt rho(t) = sum_k D[C_k] rho(t)
   where the C_k are exactly the collapse terms `spec_ops a b` that the translated set-up code emits (Proofs/Relax.v),
   and rho(0) is the given initial state.  On that closed form, for every t >= 0 and every admissible pair
   (t2 <= 2 t1): unit trace, Hermitian, positive semidefinite; the determinant inequality is where t2 <= 2 t1 enters,
   and with t2 > 2 t1 (which the code rejects) the closed form leaves the positive cone.
   NOT proved: uniqueness of solutions of the linear ODE (Picard-Lindelof) and anything about the numerical solver. *)
From Coq Require Import Reals Lra Psatz QArith Qreals List.
From Coquelicot Require Import Coquelicot.
From QV Require Import Model.Relax Model.Lindblad Gen.Noise Proofs.Relax Proofs.Lindblad Proofs.RelaxLaw Proofs.LindbladC.
Import ListNotations.
Local Open Scope R_scope.

(* derivative of a complex-valued function of a real variable (C as a normed module over R) *)
Definition derC (f : R -> C) (t : R) (l : C) : Prop := @is_derive R_AbsRing C_R_NormedModule f t l.

Lemma derC_intro f t l :
  is_derive (fun s => fst (f s)) t (fst l) -> is_derive (fun s => snd (f s)) t (snd l) -> derC f t l.
Proof.
  intros H1 H2. unfold derC.
  pose (e1 := ((1, 0) : C)). pose (e2 := ((0, 1) : C)).
  assert (D1 := @is_derive_scal_l R_AbsRing C_R_NormedModule (fun s => fst (f s)) t (fst l) e1 H1).
  assert (D2 := @is_derive_scal_l R_AbsRing C_R_NormedModule (fun s => snd (f s)) t (snd l) e2 H2).
  assert (D := @is_derive_plus R_AbsRing C_R_NormedModule _ _ t _ _ D1 D2).
  match type of D with is_derive ?g _ ?v =>
    assert (El : v = l) by (destruct l as [x y]; unfold e1, e2; apply injective_projections; simpl;
                            repeat (unfold scal, plus, mult; simpl); ring);
    assert (Eg : forall s, g s = f s) by (intro s; cbv beta; generalize (f s); intros [x y]; unfold e1, e2;
                            apply injective_projections; simpl; repeat (unfold scal, plus, mult; simpl); ring)
  end.
  rewrite El in D. eapply is_derive_ext; [exact Eg | exact D].
Qed.

(* Derivatives of the real and imaginary parts are computed by the Coquelicot rules for + - * exp directly
   (not by `auto_derive`, whose reflection machinery depends on Classical_Prop.classic). *)
Lemma der_val (f : R -> R) t d l : is_derive f t d -> d = l -> is_derive f t l.
Proof. intros H <-. exact H. Qed.

Ltac der :=
  lazymatch goal with
  | |- is_derive (fun s => s) _ _ => apply (@is_derive_id R_AbsRing)
  | |- is_derive (fun s => @?f s + @?g s) ?t _ => eapply (@is_derive_plus R_AbsRing R_NormedModule f g t); [der | der]
  | |- is_derive (fun s => @?f s - @?g s) ?t _ => eapply (@is_derive_minus R_AbsRing R_NormedModule f g t); [der | der]
  | |- is_derive (fun s => - @?f s) ?t _ => eapply (@is_derive_opp R_AbsRing R_NormedModule f t); der
  | |- is_derive (fun s => @?f s * @?g s) ?t _ =>
      eapply (@is_derive_mult R_AbsRing f g t); [der | der | intros; apply Rmult_comm]
  | |- is_derive (fun s => exp (@?g s)) ?t _ =>
      eapply (@is_derive_comp R_AbsRing R_NormedModule exp g t); [apply is_derive_exp | der]
  | |- is_derive (fun s => ?c) _ _ => apply (@is_derive_const R_AbsRing R_NormedModule)
  end.
Ltac dreal := eapply der_val; [der | repeat (unfold plus, minus, opp, scal, mult, zero, one; simpl); try ring].

(* monotonicity of exp from its power series (the standard-library proof goes through the mean value theorem and
   Classical_Prop.classic) *)
Lemma exp_ge_1 x : 0 <= x -> 1 <= exp x.
Proof.
  intro Hx. unfold exp. destruct (exist_exp x) as [l Hl]. simpl. unfold exp_in in Hl.
  assert (H := sum_incr (fun i => / INR (fact i) * x ^ i) 0 l).
  simpl in H. replace (/ 1 * 1) with 1 in H by field. apply H.
  - exact Hl.
  - intro n. apply Rmult_le_pos; [left; apply Rinv_0_lt_compat, INR_fact_lt_0 | apply pow_le; exact Hx].
Qed.
Lemma exp_le x y : x <= y -> exp x <= exp y.
Proof.
  intro H. replace y with (x + (y - x)) by ring. rewrite exp_plus.
  pose proof (exp_pos x). pose proof (exp_ge_1 (y - x)). nra.
Qed.
Lemma exp1_ge_2 : 2 <= exp 1.
Proof.
  unfold exp. destruct (exist_exp 1) as [l Hl]. simpl. unfold exp_in in Hl.
  assert (H := sum_incr (fun i => / INR (fact i) * 1 ^ i) 1 l).
  assert (H' : sum_f_R0 (fun i => / INR (fact i) * 1 ^ i) 1 <= l).
  { apply H; [exact Hl|]. intro n. apply Rmult_le_pos; [left; apply Rinv_0_lt_compat, INR_fact_lt_0 | apply pow_le; lra]. }
  simpl in H'. lra.
Qed.

(* ---------------------------------------------------------------------------------------------- *)
(* rates and closed form                                                                           *)
(* ---------------------------------------------------------------------------------------------- *)
Definition gp (a : option Q) : R := match a with Some t1 => / Q2R t1 | None => 0 end.
Definition gc (a b : option Q) : R :=
  match b with
  | Some t2 => / Q2R t2
  | None => match a with Some t1 => / (2 * Q2R t1) | None => 0 end
  end.

Definition sol (a b : option Q) (r00 r01 r10 r11 : C) (t : R) : mat CC :=
  gen2 CC (Cplus r00 (Cmult (RtoC (1 - exp (- gp a * t))) r11)) (Cmult (RtoC (exp (- gc a b * t))) r01)
          (Cmult (RtoC (exp (- gc a b * t))) r10) (Cmult (RtoC (exp (- gp a * t))) r11).

(* right-hand side of the master equation: the generator of the collapse terms the set-up code emits *)
Definition rhs (a b : option Q) (rho : mat CC) : mat CC := gen_terms CC CC_hom 2 (opmat2 CC) (spec_ops a b) rho.
Definition rhs3 (a b : option Q) (rho : mat CC) : mat CC := gen_terms CC CC_hom 3 (opmat3 CC) (spec_ops a b) rho.

Lemma Cdiv_real z x w : Cmult z (RtoC x) = w -> x <> 0 -> z = (fst w / x, snd w / x).
Proof.
  destruct z as [u v]. intros H Hx. subst w. unfold Cmult, RtoC. simpl. apply injective_projections; simpl; field; exact Hx.
Qed.

Lemma Q2R_2 : Q2R 2 = 2.
Proof. unfold Q2R. simpl. field. Qed.

Lemma law_real a b gd gn : valid a -> valid b -> law CC CC_hom a b gd gn ->
  gd = RtoC (gp a) /\ Cmult (RtoC (/ 2)) (Cplus gd gn) = RtoC (gc a b).
Proof.
  intros Va Vb [La Lb]. cbn in La, Lb.
  assert (Hd : gd = RtoC (gp a)).
  { destruct a as [t1|]; cbn [gp].
    - pose proof (Q2R_pos t1 Va) as P. rewrite (Cdiv_real gd (Q2R t1) _ La) by lra. unfold RtoC. simpl. f_equal; field; lra.
    - exact La. }
  split; [exact Hd|].
  destruct b as [t2|]; cbn [gc].
  - pose proof (Q2R_pos t2 Vb) as P. rewrite (Cdiv_real _ (Q2R t2) _ Lb) by lra. unfold Cmult, Cplus, RtoC. simpl. f_equal; field; lra.
  - rewrite Lb, Hd. destruct a as [t1|]; cbn [gp].
    + pose proof (Q2R_pos t1 Va) as P. unfold Cmult, Cplus, RtoC. simpl. f_equal; field; lra.
    + unfold Cmult, Cplus, RtoC. simpl. f_equal; ring.
Qed.

Lemma rhs_closed a b s00 s01 s10 s11 : valid a -> valid b -> compat a b ->
  rhs a b (gen2 CC s00 s01 s10 s11)
  = gen2 CC (Cmult (RtoC (gp a)) s11) (Copp (Cmult (RtoC (gc a b)) s01))
            (Copp (Cmult (RtoC (gc a b)) s10)) (Copp (Cmult (RtoC (gp a)) s11)).
Proof.
  intros Va Vb Vc. unfold rhs. rewrite gen_terms2_total, relax2_generator.
  destruct (law_real a b _ _ Va Vb (rates_law CC CC_hom a b _ (spec_ops_rates a b Va Vb Vc))) as [Hd Hc].
  cbn [kadd kmul kopp half CC] in *. rewrite Hc, Hd. reflexivity.
Qed.

Lemma rhs3_closed a b s00 s01 s10 s11 : valid a -> valid b -> compat a b ->
  rhs3 a b (gen3 CC s00 s01 (RtoC 0) s10 s11 (RtoC 0) (RtoC 0) (RtoC 0) (RtoC 0))
  = gen3 CC (Cmult (RtoC (gp a)) s11) (Copp (Cmult (RtoC (gc a b)) s01)) (RtoC 0)
            (Copp (Cmult (RtoC (gc a b)) s10)) (Copp (Cmult (RtoC (gp a)) s11)) (RtoC 0)
            (RtoC 0) (RtoC 0) (RtoC 0).
Proof.
  intros Va Vb Vc. unfold rhs3. change (RtoC 0) with (k0 CC). rewrite gen_terms3_total, relax3_generator_qubit.
  destruct (law_real a b _ _ Va Vb (rates_law CC CC_hom a b _ (spec_ops_rates a b Va Vb Vc))) as [Hd Hc].
  cbn [kadd kmul kopp half CC] in *. rewrite Hc, Hd. reflexivity.
Qed.

(* ---------------------------------------------------------------------------------------------- *)
(* (1) the closed form solves the master equation                                                  *)
(* ---------------------------------------------------------------------------------------------- *)
Ltac dentry := apply derC_intro; unfold Cmult, Cplus, Copp, RtoC; simpl; dreal.

Theorem sol_master_equation a b r00 r01 r10 r11 : valid a -> valid b -> compat a b -> forall t : R,
  derC (fun s => entry CC (sol a b r00 r01 r10 r11 s) 0 0) t (entry CC (rhs a b (sol a b r00 r01 r10 r11 t)) 0 0) /\
  derC (fun s => entry CC (sol a b r00 r01 r10 r11 s) 0 1) t (entry CC (rhs a b (sol a b r00 r01 r10 r11 t)) 0 1) /\
  derC (fun s => entry CC (sol a b r00 r01 r10 r11 s) 1 0) t (entry CC (rhs a b (sol a b r00 r01 r10 r11 t)) 1 0) /\
  derC (fun s => entry CC (sol a b r00 r01 r10 r11 s) 1 1) t (entry CC (rhs a b (sol a b r00 r01 r10 r11 t)) 1 1).
Proof.
  intros Va Vb Vc t. unfold sol. rewrite rhs_closed by assumption. cbn [entry gen2 nth].
  destruct r00 as [x00 y00], r01 as [x01 y01], r10 as [x10 y10], r11 as [x11 y11].
  generalize (gp a) (gc a b). intros p c.
  split; [dentry | split; [dentry | split; dentry]].
Qed.

Theorem sol_initial a b r00 r01 r10 r11 : sol a b r00 r01 r10 r11 0 = gen2 CC r00 r01 r10 r11.
Proof.
  unfold sol. rewrite !Rmult_0_r, exp_0.
  destruct r00, r01, r10, r11. unfold gen2, Cmult, Cplus, RtoC. simpl. repeat f_equal; ring.
Qed.

(* three-level subsystem, initial state in the qubit subspace: the embedded closed form solves the
   three-level master equation (no leakage) *)
Definition sol3 (a b : option Q) (r00 r01 r10 r11 : C) (t : R) : mat CC :=
  gen3 CC (Cplus r00 (Cmult (RtoC (1 - exp (- gp a * t))) r11)) (Cmult (RtoC (exp (- gc a b * t))) r01) (RtoC 0)
          (Cmult (RtoC (exp (- gc a b * t))) r10) (Cmult (RtoC (exp (- gp a * t))) r11) (RtoC 0)
          (RtoC 0) (RtoC 0) (RtoC 0).

Theorem sol3_master_equation a b r00 r01 r10 r11 : valid a -> valid b -> compat a b -> forall (t : R) (i j : nat),
  (i < 3)%nat -> (j < 3)%nat ->
  derC (fun s => entry CC (sol3 a b r00 r01 r10 r11 s) i j) t (entry CC (rhs3 a b (sol3 a b r00 r01 r10 r11 t)) i j).
Proof.
  intros Va Vb Vc t i j Hi Hj. unfold sol3. rewrite rhs3_closed by assumption.
  destruct r00 as [x00 y00], r01 as [x01 y01], r10 as [x10 y10], r11 as [x11 y11].
  generalize (gp a) (gc a b). intros p c.
  destruct i as [|[|[|i]]]; [| | |exfalso; apply (Nat.lt_irrefl 3); do 3 apply Nat.succ_lt_mono in Hi; inversion Hi];
  (destruct j as [|[|[|j]]]; [| | |exfalso; do 3 apply Nat.succ_lt_mono in Hj; inversion Hj]);
  cbn [entry gen3 nth]; dentry.
Qed.

Theorem sol3_initial a b r00 r01 r10 r11 :
  sol3 a b r00 r01 r10 r11 0 = gen3 CC r00 r01 (RtoC 0) r10 r11 (RtoC 0) (RtoC 0) (RtoC 0) (RtoC 0).
Proof.
  unfold sol3. rewrite !Rmult_0_r, exp_0.
  destruct r00, r01, r10, r11. unfold gen3, Cmult, Cplus, RtoC. simpl. repeat f_equal; ring.
Qed.
