(* C06, calibration layer: the closed-form pulse unitary at the compiled area IS the library gate matrix
   (symbolically in theta, hence for every phase ring and for every real theta), the closed forms obey the
   one-parameter group law, and area = coefficient * duration for every non-zero strength. *)
From Coq Require Import Reals Lra Lia ZArith QArith Qabs Qreals String List Bool Ring Field.
From Coquelicot Require Import Coquelicot.
From QV Require Import Found.Base Found.KS Found.KSProofs Found.Sym Found.SymProofs Found.Conj Found.CInst
  Gen.Gates Model.SpinChainTypes Gen.SpinChain Model.Concat Model.SpinChain Spec.SpinChainSpec Proofs.C09R Proofs.C17Sem.
Import ListNotations.
Local Open Scope string_scope.

(* ---- which Hamiltonian kind / scale / area a gate name is compiled to ---------------------------- *)
Definition family_of (p : string) : option ctrl_family :=
  match find_family p ctrl_families 0 with Some (_, f) => Some f | None => None end.
Definition lres_prefix (r : lres) : list string := match r with LLabel p _ => [p] | LRaise => [] end.
Definition swap_prefixes : list string := flat_map (fun b => lres_prefix (snd b)) swap_branches ++ lres_prefix swap_else.

(* (kind, scale of the Hamiltonian, area expression) of the pulse a gate name is compiled to *)
Definition gate_cal (name : string) : option (hkind * ex * ex) :=
  match SpinChain.assoc name gate_methods with
  | Some (MRot op _) => match family_of op with Some f => Some (cf_kind f, cf_scale f, rot_area) | None => None end
  | Some (MSwap a) =>
      match swap_prefixes with
      | p :: r => if forallb (String.eqb p) r then
                    match family_of p with Some f => Some (cf_kind f, cf_scale f, a) | None => None end
                  else None
      | [] => None end
  | _ => None
  end.

(* phase angle  scale * area  of the pulse as an expression in Var 0 = theta (None: not of the form q*theta or q*pi) *)
Definition pulse_phase (scale area : ex) : option ex :=
  match amono (Mul scale area) with
  | Some (q, true, b) => if (b =? 0)%Z then Some (Mul (Num q) (Var 0)) else None
  | Some (q, false, b) => if (b =? 1)%Z then Some (Mul (Num q) Pi) else None
  | None => None
  end.

Definition lib_matrix (name : string) : option mexp := SpinChain.assoc name dispatch.

Definition cal_ok (name : string) : bool :=
  match gate_cal name, lib_matrix name with
  | Some (k, s, a), Some m =>
      match pulse_phase s a with
      | Some ph => meqb (msubst [ph] (closed k)) m
      | None => false end
  | _, _ => false
  end.
Definition pulse_gates : list string :=
  map fst (filter (fun p => match snd p with MRot _ _ | MSwap _ => true | _ => false end) gate_methods).
Definition chk_cal : bool := forallb cal_ok pulse_gates.
(* the native gates of the processor are exactly compiled by pulses; GLOBALPHASE is accumulated *)
Definition chk_native : bool :=
  forallb (fun n => existsb (String.eqb n) pulse_gates) native_gates &&
  match SpinChain.assoc "GLOBALPHASE" gate_methods with Some MPhase => true | _ => false end.

Lemma chk_cal_true : chk_cal = true. Proof. vm_compute. reflexivity. Qed.
Lemma chk_native_true : chk_native = true. Proof. vm_compute. reflexivity. Qed.
Lemma group_law_true k : group_law k = true. Proof. destruct k; vm_compute; reflexivity. Qed.
Lemma unit_law_true k : unit_law k = true. Proof. destruct k; vm_compute; reflexivity. Qed.
Lemma quarter_true k : quarter k = true. Proof. destruct k; vm_compute; reflexivity. Qed.
Lemma commutes_true k : commutes_with_generator k = true. Proof. destruct k; vm_compute; reflexivity. Qed.
Definition closed_unitary (k : hkind) : bool :=
  match mtab (closed k) with
  | Some U => square U && table_eqb (ptmul U (ptadj U)) (ptid (length U))
  | None => false end.
Lemma closed_unitary_true k : closed_unitary k = true. Proof. destruct k; vm_compute; reflexivity. Qed.

(* ---- symbolic statement: every phase ring = every value of theta -------------------------------- *)
Lemma cal_ok_in name : In name pulse_gates -> cal_ok name = true.
Proof. intros H. pose proof chk_cal_true as C. unfold chk_cal in C. rewrite forallb_forall in C. exact (C name H). Qed.

Theorem calibration_sym (R : PhaseRing) name : In name pulse_gates ->
  exists k s a ph m, gate_cal name = Some (k, s, a) /\ pulse_phase s a = Some ph /\ lib_matrix name = Some m /\
    forall r c, eval R (mmat (msubst [ph] (closed k)) r c) = eval R (mmat m r c).
Proof.
  intros H. apply cal_ok_in in H. unfold cal_ok in H.
  destruct (gate_cal name) as [[[k s] a]|]; [|discriminate]. destruct (lib_matrix name) as [m|]; [|discriminate].
  destruct (pulse_phase s a) as [ph|] eqn:Eph; [|discriminate].
  exists k, s, a, ph, m. split; [reflexivity|]. split; [exact Eph|]. split; [reflexivity|]. intros r c. apply meqb_sound. exact H.
Qed.

(* ---- real angles: soundness of the monomial normal form ----------------------------------------- *)
Local Open Scope R_scope.
Definition thpow (th : nat -> R) (h : bool) : R := if h then th 0%nat else 1.
Definition mval (th : nat -> R) (m : Q * bool * Z) : R :=
  Q2R (fst (fst m)) * thpow th (snd (fst m)) * powerRZ PI (snd m).

Lemma RtoC_mul a b : Cmult (RtoC a) (RtoC b) = RtoC (a * b).
Proof. apply Ceq; cbn; ring. Qed.
Lemma RtoC_opp' a : Copp (RtoC a) = RtoC (- a).
Proof. apply Ceq; cbn; ring. Qed.
Lemma RtoC_div' a b : b <> 0 -> Cdiv (RtoC a) (RtoC b) = RtoC (a / b).
Proof. intros Hb. symmetry. apply RtoC_div. exact Hb. Qed.

Lemma thpow_or th h1 h2 : (h1 && h2)%bool = false -> thpow th (h1 || h2) = thpow th h1 * thpow th h2.
Proof. destruct h1, h2; cbn; intros; try discriminate; ring. Qed.

Lemma amono_sound th e : forall m, amono e = Some m -> cden th e = RtoC (mval th m).
Proof.
  induction e; intros m H; cbn [amono] in H; try discriminate.
  - injection H as <-. cbn [cden]. unfold mval, thpow. cbn [fst snd powerRZ]. apply (f_equal RtoC). ring.
  - injection H as <-. cbn [cden]. unfold mval, thpow. cbn [fst snd]. apply (f_equal RtoC).
    replace (Q2R 1) with 1 by (unfold Q2R; cbn; lra). rewrite powerRZ_1. ring.
  - destruct j; [|discriminate]. injection H as <-. cbn [cden]. unfold mval, thpow. cbn [fst snd powerRZ].
    replace (Q2R 1) with 1 by (unfold Q2R; cbn; lra). apply (f_equal RtoC). ring.
  - (* Mul *)
    destruct (amono e1) as [[[q1 h1] b1]|]; [|discriminate]. destruct (amono e2) as [[[q2 h2] b2]|]; [|discriminate].
    destruct (h1 && h2)%bool eqn:Eh; [discriminate|]. injection H as <-.
    cbn [cden]. rewrite (IHe1 _ eq_refl), (IHe2 _ eq_refl), RtoC_mul. apply (f_equal RtoC). unfold mval. cbn [fst snd].
    rewrite Q2R_mult, thpow_or by exact Eh. rewrite powerRZ_add by exact PI_neq0. ring.
  - (* Div *)
    destruct (amono e1) as [[[q1 h1] b1]|]; [|discriminate]. destruct (amono e2) as [[[q2 h2] b2]|]; [|discriminate].
    destruct (h2 || Qeq_bool q2 0)%bool eqn:Eh; [discriminate|]. injection H as <-.
    apply orb_false_elim in Eh. destruct Eh as [-> Eq0].
    assert (Hq : Q2R q2 <> 0).
    { intro Z. apply Qeq_bool_neq in Eq0. apply Eq0. apply eqR_Qeq. rewrite Z. unfold Q2R; cbn; lra. }
    assert (Hp : powerRZ PI b2 <> 0) by (apply powerRZ_NOR; exact PI_neq0).
    cbn [cden]. rewrite (IHe1 _ eq_refl), (IHe2 _ eq_refl). unfold mval. cbn [fst snd thpow].
    rewrite RtoC_div' by (apply Rmult_integral_contrapositive_currified; [apply Rmult_integral_contrapositive_currified; [exact Hq|lra]|exact Hp]).
    apply (f_equal RtoC). unfold Qdiv. rewrite Q2R_mult, Q2R_inv by (intro Z; apply Hq; rewrite Z; unfold Q2R; cbn; lra).
    unfold Zminus. rewrite powerRZ_add by exact PI_neq0. rewrite powerRZ_neg'.
    field. split; [exact Hp|exact Hq].
  - (* Neg *)
    destruct (amono e) as [[[q h] b]|]; [|discriminate]. injection H as <-.
    cbn [cden]. rewrite (IHe _ eq_refl), RtoC_opp'. apply (f_equal RtoC). unfold mval. cbn [fst snd]. rewrite Q2R_opp. ring.
Qed.

(* the phase expression denotes  scale * area, a REAL number *)
Lemma pulse_phase_sound th s a ph : pulse_phase s a = Some ph ->
  exists phi : R, cden th ph = RtoC phi /\ Cmult (cden th s) (cden th a) = RtoC phi.
Proof.
  unfold pulse_phase. destruct (amono (Mul s a)) as [[[q h] b]|] eqn:E; [|discriminate].
  pose proof (amono_sound th (Mul s a) _ E) as S. cbn [cden] in S. rewrite S. unfold mval. cbn [fst snd].
  destruct h.
  - destruct (b =? 0)%Z eqn:Eb; [|discriminate]. apply Z.eqb_eq in Eb. subst b. intros [= <-].
    exists (Q2R q * th 0%nat). cbn [cden]. rewrite RtoC_mul. split; [reflexivity|]. apply (f_equal RtoC). cbn [thpow powerRZ]. ring.
  - destruct (b =? 1)%Z eqn:Eb; [|discriminate]. apply Z.eqb_eq in Eb. subst b. intros [= <-].
    exists (Q2R q * PI). cbn [cden]. rewrite RtoC_mul. split; [reflexivity|]. apply (f_equal RtoC). cbn [thpow]. rewrite powerRZ_1. ring.
Qed.

Definition at_phase (phi : R) (th : nat -> R) : nat -> R := fun j => match j with O => phi | S _ => th j end.

(* for every REAL theta (th 0) the closed form evaluated at the real phase  phi = scale * area(theta)  has exactly the
   entries of the library gate matrix evaluated at theta *)
Theorem calibration_real (th : nat -> R) name : In name pulse_gates ->
  exists k s a m (phi : R), gate_cal name = Some (k, s, a) /\ lib_matrix name = Some m /\
    Cmult (cden th s) (cden th a) = RtoC phi /\
    mdim (closed k) = mdim m /\
    forall i j, (i < mdim m)%nat -> (j < mdim m)%nat -> mden (at_phase phi th) (closed k) i j = mden th m i j.
Proof.
  intros H. apply cal_ok_in in H. unfold cal_ok in H.
  destruct (gate_cal name) as [[[k s] a]|]; [|discriminate]. destruct (lib_matrix name) as [m|]; [|discriminate].
  destruct (pulse_phase s a) as [ph|] eqn:Eph; [|discriminate].
  destruct (pulse_phase_sound th s a ph Eph) as [phi [Hph Hsa]].
  exists k, s, a, m, phi. split; [reflexivity|]. split; [reflexivity|]. split; [exact Hsa|].
  destruct (meqb_real th _ _ H) as [Hd He]. rewrite (mdim_msubst [ph]) in Hd. split; [exact Hd|].
  intros i j Hi Hj. rewrite <- He by (rewrite (mdim_msubst [ph]), Hd; assumption).
  symmetry. apply (mden_msubst th (at_phase phi th) [ph]).
  intros [|n]; cbn [nth]; [exact Hph|]. destruct n; reflexivity.
Qed.

(* ---- area = coefficient * duration, whatever the (non-zero) strength ------------------------------ *)
Local Open Scope Q_scope.
Lemma Qlt_b_true x y : Qlt_b x y = true -> x < y.
Proof. unfold Qlt_b. intros H. apply negb_true_iff in H. apply Qnot_le_lt. intro L. apply Qle_bool_iff in L. congruence. Qed.
Lemma Qlt_b_false x y : Qlt_b x y = false -> y <= x.
Proof. unfold Qlt_b. intros H. apply negb_false_iff in H. apply Qle_bool_iff. exact H. Qed.

Theorem area_independent_of_strength maximum area coeff dur :
  rect_pulse maximum area = Some (coeff, dur) ->
  coeff * dur == area /\ 0 <= dur /\ Qabs coeff == Qabs maximum * Qabs (qsign area) /\ ~ maximum == 0.
Proof.
  unfold rect_pulse. destruct (Qeq_bool maximum 0) eqn:E0; [discriminate|]. intros [= <- <-].
  assert (Hm : ~ maximum == 0) by (apply Qeq_bool_neq; exact E0).
  assert (Ha : ~ Qabs maximum == 0).
  { intro Z. apply Hm. apply Qle_antisym.
    - rewrite <- Z. apply Qle_Qabs.
    - pose proof (Qle_Qabs (- maximum)) as H. rewrite Qabs_opp, Z in H. apply Qopp_le_compat in H.
      rewrite Qopp_involutive in H. exact H. }
  assert (Hp : 0 < Qabs maximum).
  { destruct (Qle_lteq 0 (Qabs maximum)) as [L _]. destruct (L (Qabs_nonneg maximum)) as [P|P]; [exact P|].
    exfalso. apply Ha. symmetry. exact P. }
  split; [|split; [|split; [|exact Hm]]].
  - unfold qsign. destruct (Qlt_b 0 area) eqn:E1.
    + apply Qlt_b_true in E1. rewrite (Qabs_pos area) by (apply Qlt_le_weak; exact E1). field. exact Ha.
    + apply Qlt_b_false in E1. destruct (Qlt_b area 0) eqn:E2.
      * apply Qlt_b_true in E2. rewrite (Qabs_neg area) by exact E1. field. exact Ha.
      * apply Qlt_b_false in E2. assert (area == 0) by (apply Qle_antisym; assumption).
        rewrite H. field. exact Ha.
  - apply Qle_shift_div_l; [exact Hp|]. rewrite Qmult_0_l. apply Qabs_nonneg.
  - rewrite Qabs_Qmult. rewrite Qabs_pos by apply Qabs_nonneg. reflexivity.
Qed.
