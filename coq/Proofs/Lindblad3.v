(* C15 - the complete generator of one idle THREE-level subsystem (damping rate g1 on destroy(3), dephasing rate g2 on
   num(3)) for an arbitrary 3x3 table, over every commutative ring with involution, 1/2 and sqrt 2. *)
From Coq Require Import List Arith Ring Ring_theory QArith.
From QV Require Import Model.Lindblad Proofs.Lindblad.
Import ListNotations.

Section P.
  Variable R : cring.
  Add Ring RR : (kring R).
  Notation z0 := (k0 R). Notation hf := (half R). Notation sq2 := (s2 R).
  Notation "a +' b" := (kadd R a b) (at level 50, left associativity).
  Notation "a *' b" := (kmul R a b) (at level 40, left associativity).
  Notation "a -' b" := (ksub R a b) (at level 50, left associativity).
  Notation "-' a" := (kopp R a) (at level 35).
  Ltac pushc := repeat (rewrite ?(conj_add R), ?(conj_mul R), ?(conj_sub R), ?(conj_opp R), ?(conj_inv R),
                                ?(conj_half R), ?(conj_s2 R), ?(conj_0 R), ?(conj_1 R)).
  Ltac meq := repeat match goal with
                     | |- cons _ _ = cons _ _ => apply f_equal2
                     | |- @nil _ = @nil _ => reflexivity
                     end.
  Ltac unf := cbv -[K k0 k1 kadd kmul ksub kopp conj half s2].

  Lemma relax3_generator g1 g2 r00 r01 r02 r10 r11 r12 r20 r21 r22 :
    relax_gen3 R g1 g2 (gen3 R r00 r01 r02 r10 r11 r12 r20 r21 r22)
    = gen3 R
        (g1 *' r11)
        (g1 *' (sq2 *' r12) -' hf *' (g1 +' g2) *' r01)
        (-' ((g1 +' two R *' g2) *' r02))
        (g1 *' (sq2 *' r21) -' hf *' (g1 +' g2) *' r10)
        (two R *' g1 *' r22 -' g1 *' r11)
        (-' ((g1 +' hf *' (g1 +' g2)) *' r12))
        (-' ((g1 +' two R *' g2) *' r20))
        (-' ((g1 +' hf *' (g1 +' g2)) *' r21))
        (-' (two R *' g1 *' r22)).
  Proof. unf; pushc; meq; ring [(half_ok R) (s2_ok R)]. Qed.
End P.
