(* C10: the exporter model extended by the user-gate refusal and the parameterless-gate argument rule (Model/QasmExport2.v).
   export2 = user-gate refusal, then the unchanged exporter on the projected circuit; the theorems about `export` are transported. *)
From Coq Require Import Lia Ascii String Bool.
From QV Require Import Spec.QasmStrict Model.QasmImport Model.QasmExport Model.QasmExport2 Gen.Qasm.
From QV Require Import Proofs.QasmLex5 Proofs.QasmValid1 Proofs.QasmValid3 Proofs.QasmValid4.
Local Open Scope string_scope.
Local Open Scope nat_scope.
Local Open Scope list_scope.

(* ---------------------------------------------------------------- user gates are refused *)
Lemma x2_refuses_user x n t ct a cc :
  In (EGate n t ct a cc) (e_ops (x_c x)) -> In n (x_user x) -> export2 x = None.
Proof.
  intros Hin Hu. unfold export2.
  assert (H : has_user_gate x = true).
  { unfold has_user_gate. apply existsb_exists. exists (EGate n t ct a cc). split; [exact Hin|].
    cbn [is_user]. apply smem_In. exact Hu. }
  rewrite H. reflexivity.
Qed.

(* ---------------------------------------------------------------- the argument of a parameterless gate is ignored *)
(* two operations that are equal, or the same gate application with two arguments where the gate's QASM name takes no parameter *)
Definition same_upto_ignored_arg (o1 o2 : eop) : Prop :=
  o1 = o2 \/
  exists n t ct a1 a2 cc q, o1 = EGate n t ct a1 cc /\ o2 = EGate n t ct a2 cc /\ qname_of n = Some q /\ takes_params q = false.

Lemma same_upto_proj o1 o2 : same_upto_ignored_arg o1 o2 -> proj_op o1 = proj_op o2.
Proof.
  intros [->|(n & t & ct & a1 & a2 & cc & q & -> & -> & Hq & Ht)]; [reflexivity|].
  cbn [proj_op]. rewrite Hq, Ht. reflexivity.
Qed.
Lemma same_upto_user u o1 o2 : same_upto_ignored_arg o1 o2 -> is_user u o1 = is_user u o2.
Proof. intros [->|(n & t & ct & a1 & a2 & cc & q & -> & -> & _)]; reflexivity. Qed.

Lemma same_upto_map l1 l2 : Forall2 same_upto_ignored_arg l1 l2 -> map proj_op l1 = map proj_op l2.
Proof. intros Hf. induction Hf as [|o1 o2 l1 l2 Ho _ IH]; [reflexivity|]. cbn [map]. rewrite (same_upto_proj _ _ Ho), IH. reflexivity. Qed.
Lemma same_upto_existsb u l1 l2 : Forall2 same_upto_ignored_arg l1 l2 -> existsb (is_user u) l1 = existsb (is_user u) l2.
Proof. intros Hf. induction Hf as [|o1 o2 l1 l2 Ho _ IH]; [reflexivity|]. cbn [existsb]. rewrite (same_upto_user _ _ _ Ho), IH. reflexivity. Qed.

Lemma x2_ignores_arg x1 x2 :
  e_N (x_c x1) = e_N (x_c x2) -> e_ncb (x_c x1) = e_ncb (x_c x2) -> x_user x1 = x_user x2 ->
  Forall2 same_upto_ignored_arg (e_ops (x_c x1)) (e_ops (x_c x2)) ->
  export2 x1 = export2 x2.
Proof.
  intros HN Hc Hu Hf. unfold export2, has_user_gate, proj_circ.
  rewrite HN, Hc, Hu, (same_upto_map _ _ Hf), (same_upto_existsb (x_user x2) _ _ Hf). reflexivity.
Qed.

(* ---------------------------------------------------------------- takes_parameters agrees with the signatures *)
(* for every exportable gate name: the QASM name takes parameters iff the signature of the gate it is exported as (qelib1 /
   emitted definition) has a parameter.  Checked on the regenerated tables, then lifted to all names. *)
Definition tp_chk (n : string) : bool :=
  match qname_of n, name_sig n with
  | Some q, Some (np, _) => Bool.eqb (takes_params q) (0 <? np)
  | _, _ => true
  end.
Lemma tp_tables : forallb tp_chk (List.map fst export_names ++ List.map fst export_defns) = true.
Proof. vm_compute. reflexivity. Qed.
Lemma tp_all n : tp_chk n = true.
Proof.
  destruct (in_dec string_dec n (List.map fst export_names ++ List.map fst export_defns)) as [Hin|Hnin].
  - pose proof tp_tables as H. rewrite forallb_forall in H. exact (H n Hin).
  - unfold tp_chk, qname_of.
    rewrite (sassoc_notin n export_names) by (intros H; apply Hnin, in_or_app; left; exact H).
    rewrite (sassoc_notin n export_defns) by (intros H; apply Hnin, in_or_app; right; exact H).
    reflexivity.
Qed.
Lemma takes_params_sig n q np nq : qname_of n = Some q -> name_sig n = Some (np, nq) -> takes_params q = (0 <? np).
Proof.
  intros Hq Hs. pose proof (tp_all n) as H. unfold tp_chk in H. rewrite Hq, Hs in H. apply eqb_prop in H. exact H.
Qed.

(* ---------------------------------------------------------------- the projection preserves the guards of export_valid *)
Lemma proj_no_meas c : no_meas (proj_circ c) = no_meas c.
Proof.
  unfold no_meas, proj_circ. cbn [e_ops]. induction (e_ops c) as [|o l IH]; [reflexivity|].
  cbn [map forallb]. rewrite IH. f_equal.
  destruct o as [n t ct a cc|t s]; [|reflexivity]. cbn [proj_op].
  destruct (qname_of n) as [q|]; [|reflexivity]. destruct (takes_params q); reflexivity.
Qed.
Lemma proj_shapes_ok c : shapes_ok c = true -> shapes_ok (proj_circ c) = true.
Proof.
  unfold shapes_ok, proj_circ. cbn [e_ops]. induction (e_ops c) as [|o l IH]; [reflexivity|].
  cbn [map forallb]. intros H. apply andb_prop in H. destruct H as [H1 H2]. rewrite (IH H2), andb_true_r.
  destruct o as [n t ct a cc|t s]; [|reflexivity]. cbn [proj_op].
  destruct (qname_of n) as [q|]; [|exact H1]. destruct (takes_params q); [exact H1|reflexivity].
Qed.
Lemma proj_gate_wf N o : gate_wf N o = true -> gate_wf N (proj_op o) = true.
Proof.
  destruct o as [n t ct a cc|t s]; [|intros H; exact H]. cbn [proj_op].
  destruct (qname_of n) as [q|] eqn:Hq; [|intros H; exact H]. destruct (takes_params q) eqn:Ht; [intros H; exact H|].
  unfold gate_wf. destruct (name_sig n) as [[np nq]|] eqn:Hs; [|intros H; exact H].
  pose proof (takes_params_sig n q np nq Hq Hs) as Hnp. rewrite Ht in Hnp.
  symmetry in Hnp. apply Nat.ltb_ge in Hnp. assert (np = 0) as -> by lia.
  intros H. apply andb_prop in H. destruct H as [H H3]. apply andb_prop in H. destruct H as [H H2].
  apply andb_prop in H. destruct H as [_ H1]. rewrite H1, H2, H3. reflexivity.
Qed.
Lemma proj_circ_wf c : circ_wf c = true -> circ_wf (proj_circ c) = true.
Proof.
  unfold circ_wf, proj_circ. cbn [e_N e_ops]. intros H. apply andb_prop in H. destruct H as [H1 H2]. rewrite H1. cbn [andb].
  induction (e_ops c) as [|o l IH]; [reflexivity|]. cbn [map forallb] in *. apply andb_prop in H2. destruct H2 as [Ho Hl].
  rewrite (proj_gate_wf _ _ Ho), (IH Hl). reflexivity.
Qed.

(* ---------------------------------------------------------------- export_valid transported *)
Lemma x2_export x txt : export2 x = Some txt -> has_user_gate x = false /\ export (proj_circ (x_c x)) = Some txt.
Proof. unfold export2. destruct (has_user_gate x); [discriminate|]. intros H. split; [reflexivity|exact H]. Qed.

Lemma x2_valid x txt : export2 x = Some txt ->
  no_meas (proj_circ (x_c x)) = true -> shapes_ok (proj_circ (x_c x)) = true -> circ_wf (proj_circ (x_c x)) = true ->
  exists p, strict_parse txt = Some p /\ wf lib_sigs p = true /\ p = prog_of (proj_circ (x_c x)).
Proof. intros He. apply x2_export in He. destruct He as [_ He]. exact (valid _ _ He). Qed.

(* ... with the guards stated for the circuit as it is given (a corollary: the projection preserves them) *)
Lemma x2_valid_orig x txt : export2 x = Some txt ->
  no_meas (x_c x) = true -> shapes_ok (x_c x) = true -> circ_wf (x_c x) = true ->
  exists p, strict_parse txt = Some p /\ wf lib_sigs p = true /\ p = prog_of (proj_circ (x_c x)).
Proof.
  intros He Hm Hs Hw. apply (x2_valid x txt He); [rewrite proj_no_meas; exact Hm|exact (proj_shapes_ok _ Hs)|exact (proj_circ_wf _ Hw)].
Qed.

(* ---------------------------------------------------------------- export2 = export on the old input language *)
(* no gate whose QASM name takes no parameter carries an argument *)
Definition no_extra_arg (o : eop) : bool :=
  match o with
  | EGate n _ _ a _ =>
      match qname_of n with
      | Some q => takes_params q || match a with PNone => true | _ => false end
      | None => true end
  | EMeas _ _ => true end.
Definition no_extra_args (c : ecirc) : bool := forallb no_extra_arg (e_ops c).

Lemma proj_op_id o : no_extra_arg o = true -> proj_op o = o.
Proof.
  destruct o as [n t ct a cc|t s]; [|reflexivity]. cbn [no_extra_arg proj_op].
  destruct (qname_of n) as [q|]; [|reflexivity]. destruct (takes_params q); [reflexivity|].
  cbn [orb]. destruct a; try discriminate. reflexivity.
Qed.
Lemma proj_circ_id c : no_extra_args c = true -> proj_circ c = c.
Proof.
  destruct c as [N ncb ops]. unfold no_extra_args, proj_circ. cbn [e_N e_ncb e_ops]. intros H. f_equal.
  induction ops as [|o l IH]; [reflexivity|]. cbn [map forallb] in *. apply andb_prop in H. destruct H as [H1 H2].
  rewrite (proj_op_id _ H1), (IH H2). reflexivity.
Qed.
Lemma no_user_nil c : has_user_gate (mkXC c []) = false.
Proof.
  unfold has_user_gate. cbn [x_user x_c]. induction (e_ops c) as [|o l IH]; [reflexivity|]. cbn [existsb]. rewrite IH.
  destruct o; reflexivity.
Qed.
Lemma x2_is_export c : no_extra_args c = true -> export2 (mkXC c []) = export c.
Proof. intros H. unfold export2. rewrite no_user_nil. cbn [x_c]. rewrite (proj_circ_id _ H). reflexivity. Qed.
