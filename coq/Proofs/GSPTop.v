(* C01 - compact product: correctness of the repaired code (ascending enumeration) and refutation for an
   admissible set order (the one CPython produces for {8, 1}). *)
From Coq Require Import List Arith Bool Lia Permutation Sorted ZArith.
Import ListNotations.
From QV Require Import Found.Base Found.Lemmas Model.GSP Model.GateSim Proofs.GSPLists Proofs.GSPSem Proofs.GSPAny.

Lemma ord_sorted_asc : ord_asc ord_sorted.
Proof.
  intros a b. unfold ord_sorted. split.
  - apply isort_ssorted. apply dedup_NoDup.
  - intro x. rewrite isort_In, dedup_In, in_app_iff. tauto.
Qed.

Section Correct.
Variable O : Ops.
Hypothesis Kring : ring_theory (k0 O) (k1 O) (kadd O) (kmul O) (ksub O) (kopp O) eq.
Variable G : nat -> mat O.

(* gate_sequence_product(U_list, inds_list=l, expand=True) of the repaired code: the returned matrix, read on the returned
   index list, is the ordered product of the U_list entries embedded on their index lists *)
Theorem gsp_correct (l : list (list nat)) c inds : gsp_top ord_sorted l = Some (c, inds) ->
  forall psi : state O, sem (den O G (fplace inds c)) psi = sem (den O G (number l)) psi.
Proof.
  intros H psi. unfold gsp_top in H.
  exact (gsp_any_sound O Kring G ord_sorted ord_sorted_asc _ _ _ H psi).
Qed.

(* the same for any oracle that enumerates ascending *)
Theorem gsp_correct_asc ord (l : list (list nat)) c inds : ord_asc ord -> gsp_top ord l = Some (c, inds) ->
  forall psi : state O, sem (den O G (fplace inds c)) psi = sem (den O G (number l)) psi.
Proof.
  intros Ho H psi. unfold gsp_top in H. exact (gsp_any_sound O Kring G ord Ho _ _ _ H psi).
Qed.
End Correct.

(* ---- refutation: an enumeration order that is a permutation of the union, but not ascending ---- *)
Definition bad_ord : list nat -> list nat -> list nat := ord_table [(([0; 1], [1; 0]), [1; 0])].

Lemma list_eqb_eq a : forall b, list_eqb a b = true -> a = b.
Proof.
  induction a as [|x a IH]; intros [|y b] H; simpl in H; try discriminate; [reflexivity|].
  apply andb_true_iff in H. destruct H as [H1 H2]. apply Nat.eqb_eq in H1. f_equal; auto.
Qed.

Lemma bad_ord_perm a b : Permutation (bad_ord a b) (dedup (a ++ b)).
Proof.
  unfold bad_ord. simpl. destruct (list_eqb a [0; 1] && list_eqb b [1; 0]) eqn:E.
  - apply andb_true_iff in E. destruct E as [E1 E2]. apply list_eqb_eq in E1. apply list_eqb_eq in E2. subst.
    simpl. apply perm_swap.
  - apply isort_perm.
Qed.

Definition Xm : mat GI := fun r c =>
  match r, c with [a], [b] => if xorb a b then (1, 0)%Z else (0, 0)%Z | _, _ => (0, 0)%Z end.
Definition badG (id : nat) : mat GI := if Nat.eqb id 0 then Xm else mid.
Definition bad_gates : list (list nat) := [[1]; [8]; [8; 1]].
Definition psi0 : state GI := fun x => if x 1 || x 8 then (0, 0)%Z else (1, 0)%Z.
Definition x0 : asg := fun i => Nat.eqb i 1.

(* X on qubit 1, identity on qubit 8, then a two-qubit identity on (8, 1): with the merged set {rank 0, rank 1}
   enumerated as [1; 0] the model (= the unchanged code under that order) applies X to qubit 8 instead *)
Theorem gsp_refuted_unsorted :
  exists ord, (forall a b, Permutation (ord a b) (dedup (a ++ b))) /\
  exists l c inds, gsp_top ord l = Some (c, inds) /\
  exists (G : nat -> mat GI) psi x, sem (den GI G (fplace inds c)) psi x <> sem (den GI G (number l)) psi x.
Proof.
  exists bad_ord. split; [exact bad_ord_perm|].
  exists bad_gates, [(0, [1]); (1, [0]); (2, [0; 1])], [1; 8]. split; [vm_compute; reflexivity|].
  exists badG, psi0, x0. vm_compute. intro H. discriminate.
Qed.

(* non-vacuity of gsp_correct: a run of the repaired model on TOFFOLI after X, Y, Z, and a run that takes the
   recursive branch (one block covers all qubits, more gates follow) *)
Example gsp_example_1 : gsp_top ord_sorted [[0]; [1]; [2]; [0; 1; 3]] =
  Some ([(2, [2]); (0, [0]); (1, [1]); (3, [0; 1; 3])], [0; 1; 2; 3]).
Proof. vm_compute. reflexivity. Qed.

Example gsp_example_2 : gsp_top ord_sorted [[5]; [3]; [5; 3]; [3]; [5]] =
  Some ([(0, [1]); (1, [0]); (2, [1; 0]); (3, [0]); (4, [1])], [3; 5]).
Proof. vm_compute. reflexivity. Qed.

(* the failing class of the unchanged code: ranks 8 and 1 merged *)
Example gsp_example_big : exists c, gsp_top ord_sorted [[0]; [1]; [2]; [3]; [4]; [5]; [6]; [7]; [8]; [9]; [8; 1]] =
  Some (c, [0; 1; 2; 3; 4; 5; 6; 7; 8; 9]).
Proof. eexists. vm_compute. reflexivity. Qed.

(* the Gaussian integers used by the exact correspondence runs form a commutative ring with an involution:
   the hypotheses of the C01 theorems are satisfiable *)
Lemma GI_ring : ring_theory (k0 GI) (k1 GI) (kadd GI) (kmul GI) (ksub GI) (kopp GI) eq.
Proof.
  constructor; intros;
    repeat match goal with x : K GI |- _ => destruct x end;
    cbn; unfold gi_sub, gi_add, gi_mul, gi_opp; cbn [fst snd]; f_equal; ring.
Qed.

Lemma gi_conj_add a b : gi_conj (gi_add a b) = gi_add (gi_conj a) (gi_conj b).
Proof. destruct a, b. unfold gi_conj, gi_add. simpl. f_equal. ring. Qed.
Lemma gi_conj_mul a b : gi_conj (gi_mul a b) = gi_mul (gi_conj a) (gi_conj b).
Proof. destruct a, b. unfold gi_conj, gi_mul. simpl. f_equal; ring. Qed.
Lemma gi_conj_0 : gi_conj (0, 0)%Z = (0, 0)%Z.
Proof. reflexivity. Qed.
