(* Shared foundation: states over an infinite register, gate application, finite windows, tables.
   Definitions only need the ring OPERATIONS (record [Ops]); laws are assumed in the proof files. *)
From Coq Require Export List Arith Bool Lia.
Export ListNotations.

Record Ops := mkOps {
  K :> Type;
  k0 : K; k1 : K;
  kadd : K -> K -> K; kmul : K -> K -> K; ksub : K -> K -> K; kopp : K -> K }.

Section Defs.
Variable O : Ops.
Notation kz := (k0 O). Notation ko := (k1 O).
Infix "+" := (kadd O). Infix "*" := (kmul O).

Definition asg := nat -> bool.          (* a bit for every qubit index *)
Definition state := asg -> O.
Definition mat := list bool -> list bool -> O.   (* row bits -> column bits -> entry *)

Fixpoint lookup (i : nat) (ts : list nat) (y : list bool) : option bool :=
  match ts, y with
  | t :: ts', b :: y' => if Nat.eqb i t then Some b else lookup i ts' y'
  | _, _ => None
  end.
Definition upd (x : asg) (ts : list nat) (y : list bool) : asg :=
  fun i => match lookup i ts y with Some b => b | None => x i end.

Fixpoint all_bits (k : nat) : list (list bool) :=
  match k with
  | 0%nat => [[]]
  | S k' => map (cons false) (all_bits k') ++ map (cons true) (all_bits k')
  end.
Fixpoint ksum (l : list O) : O := match l with [] => kz | a :: l' => a + ksum l' end.

(* the defining matrix M of a gate, embedded on the qubits ts (first listed qubit = most significant
   bit of the matrix index), applied to a state *)
Definition app (M : mat) (ts : list nat) (psi : state) : state :=
  fun x => ksum (map (fun y => M (map x ts) y * psi (upd x ts y)) (all_bits (length ts))).

Definition mmul (k : nat) (A B : mat) : mat :=
  fun r c => ksum (map (fun m => A r m * B m c) (all_bits k)).
Definition mscale (c : O) (A : mat) : mat := fun r s => c * A r s.
Definition beqb (a b : list bool) : bool := if list_eq_dec Bool.bool_dec a b then true else false.
Definition mid : mat := fun r c => if beqb r c then ko else kz.

Definition gate := (mat * list nat)%type.
Definition circ := list gate.
Definition sem (c : circ) (psi : state) : state := fold_left (fun p g => app (fst g) (snd g) p) c psi.

(* ---- finite register of k qubits: the same formula on bit lists ---- *)
Definition fvec := list bool -> O.
Definition lget (r : list bool) (i : nat) : bool := nth i r false.
Definition lupd (k : nat) (r : list bool) (ts : list nat) (y : list bool) : list bool :=
  map (fun i => match lookup i ts y with Some b => b | None => lget r i end) (seq 0 k).
Definition fapp (k : nat) (M : mat) (ts : list nat) (v : fvec) : fvec :=
  fun r => ksum (map (fun y => M (map (lget r) ts) y * v (lupd k r ts y)) (all_bits (length ts))).
Definition fsem k (c : circ) (v : fvec) : fvec := fold_left (fun p g => fapp k (fst g) (snd g) p) c v.
Definition overlay (k : nat) (r : list bool) (x : asg) : asg := fun i => if i <? k then lget r i else x i.
Definition local (k : nat) (c : circ) : Prop := Forall (fun g => Forall (fun t => t < k) (snd g)) c.
Definition localb (k : nat) (c : circ) : bool := forallb (fun g => forallb (fun t => t <? k) (snd g)) c.

(* ---- placement of a local circuit through a list of qubits ---- *)
Definition pl (ts : list nat) (j : nat) : nat := nth j ts 0%nat.
Definition place (ts : list nat) (c : circ) : circ := map (fun g => (fst g, map (pl ts) (snd g))) c.
Definition window (ts : list nat) (psi : state) (x : asg) : state :=
  fun x' => psi (upd x ts (map x' (seq 0 (length ts)))).
Definition pull (ts : list nat) (x : asg) : asg := fun j => x (pl ts j).

(* ---- memoised evaluation on tables (what vm_compute runs) ---- *)
Fixpoint idx (r : list bool) : nat :=                          (* big-endian index of a bit list *)
  match r with [] => 0%nat | b :: r' => ((if b then 2 ^ length r' else 0) + idx r')%nat end.
Definition tvec := list O.                                     (* indexed by idx over all_bits k *)
Definition tget (tv : tvec) (r : list bool) : O := nth (idx r) tv kz.
Definition tapp (k : nat) (M : mat) (ts : list nat) (tv : tvec) : tvec :=
  map (fun r => ksum (map (fun y => M (map (lget r) ts) y * tget tv (lupd k r ts y)) (all_bits (length ts))))
      (all_bits k).
Definition delta (c : list bool) : fvec := fun r => if beqb r c then ko else kz.
Definition tdelta (k : nat) (c : list bool) : tvec := map (delta c) (all_bits k).
Definition tsem k (c : circ) (tv : tvec) : tvec := fold_left (fun p g => tapp k (fst g) (snd g) p) c tv.
(* the full matrix of a local circuit: one column per basis vector *)
Definition ttable k (c : circ) : list tvec := map (fun col => tsem k c (tdelta k col)) (all_bits k).

(* dense matrices as row lists *)
Definition tab := list (list O).
Definition mat_of_tab (T : tab) : mat := fun r c => nth (idx c) (nth (idx r) T []) kz.
End Defs.

Arguments app {O}. Arguments sem {O}. Arguments fapp {O}. Arguments fsem {O}. Arguments mmul {O}.
Arguments ksum {O}. Arguments tapp {O}. Arguments tsem {O}. Arguments ttable {O}. Arguments tdelta {O}.
Arguments delta {O}. Arguments mat_of_tab {O}. Arguments place {O}. Arguments local {O}. Arguments localb {O}.
Arguments window {O}. Arguments tget {O}. Arguments mid {O}. Arguments mscale {O}.
