(* Soundness of the symbolic checks used by the property files: a boolean computed by vm_compute over KS
   implies an equality in every phase ring (hence for all parameter values), at every placement. *)
From Coq Require Import Ring FunctionalExtensionality.
From QV Require Import Found.Base Found.Lemmas Found.Table Found.KS Found.KSProofs Found.Sym.

Section S.
Variable R : PhaseRing.
Notation ev := (eval R).

Lemma eval_mat_of_tab (A : ptab) r c : ev (smat A r c) = @mat_of_tab R (map (map ev) A) r c.
Proof.
  unfold smat, mat_of_tab.
  change (k0 R) with (ev (k0 POps)).
  change (@nil R) with (map ev (@nil poly)).
  rewrite (map_nth (map ev)). rewrite (map_nth ev). reflexivity.
Qed.

Theorem ptab_eqb_mat (A B : ptab) : ptab_eqb A B = true -> forall r c, ev (smat A r c) = ev (smat B r c).
Proof.
  intros E r c. rewrite !eval_mat_of_tab. apply (table_eqb_sound R) in E. rewrite E. reflexivity.
Qed.

Theorem meqb_sound (a b : mexp) : meqb a b = true -> forall r c, ev (mmat a r c) = ev (mmat b r c).
Proof.
  unfold meqb, mmat. destruct (mtab a) as [A|]; [|discriminate]. destruct (mtab b) as [B|]; [|discriminate].
  apply ptab_eqb_mat.
Qed.
End S.

(* symbolic circuits: gates given by matrix expressions on local qubit lists *)
Definition sgate := (mexp * list nat)%type.
Definition scirc := list sgate.
Definition sden (sc : scirc) : circ POps := map (fun g => (mmat (fst g), snd g)) sc.
Definition arity_ok (g : sgate) : bool :=
  match mtab (fst g) with Some tb => Nat.eqb (length tb) (2 ^ length (snd g)) | None => false end.
Fixpoint nodupb (l : list nat) : bool := match l with [] => true | x :: l' => negb (existsb (Nat.eqb x) l') && nodupb l' end.
Definition swf (k : nat) (sc : scirc) : bool :=
  forallb (fun g => arity_ok g && nodupb (snd g) && forallb (fun t => t <? k) (snd g)) sc.
Definition scirc_eqb (k : nat) (c1 c2 : scirc) : bool :=
  swf k c1 && swf k c2 && table_eqb (@ttable POps k (sden c1)) (@ttable POps k (sden c2)).

(* the denotation of a symbolic circuit in a phase ring, placed on the qubits ts *)
Definition cden (R : PhaseRing) (sc : scirc) : circ R := ecirc R (sden sc).

Lemma swf_localb k sc : swf k sc = true -> localb k (sden sc) = true.
Proof.
  unfold swf, localb, sden. rewrite !forallb_forall. intros H g Hg.
  apply in_map_iff in Hg. destruct Hg as [g0 [<- Hg0]]. specialize (H g0 Hg0).
  apply andb_prop in H. destruct H as [_ H]. exact H.
Qed.

Theorem scirc_eqb_sound (R : PhaseRing) k c1 c2 ts :
  scirc_eqb k c1 c2 = true -> NoDup ts -> length ts = k ->
  sem (place ts (cden R c1)) = sem (place ts (cden R c2)).
Proof.
  unfold scirc_eqb. intros H Hnd Hlen.
  apply andb_prop in H. destruct H as [H HT]. apply andb_prop in H. destruct H as [H1 H2].
  apply (sym_lift R k); auto using swf_localb.
Qed.
