(* Conjugation on phase rings: [pconj] is sound for any ring involution that inverts u and the z_j;
   soundness of the table comparisons [table_eqb]/[meqb]; evaluation of [ptmul]; and the transfer of the
   vm_compute-checkable unitarity condition  U * U^dagger == I  to every conjugation ring. *)
From Coq Require Import Ring Setoid Lia ZArith.
From QV Require Import Found.Base Found.Lemmas Found.Table Found.KS Found.KSProofs Found.Sym.

Record ConjRing := mkCR {
  CR :> PhaseRing;
  gconj : CR -> CR;
  gconj_add : forall a b : CR, gconj (kadd CR a b) = kadd CR (gconj a) (gconj b);
  gconj_mul : forall a b : CR, gconj (kmul CR a b) = kmul CR (gconj a) (gconj b);
  gconj_opp : forall a : CR, gconj (kopp CR a) = kopp CR (gconj a);
  gconj_1 : gconj (k1 CR) = k1 CR;
  gconj_u : gconj (gu CR) = kpow (gu CR) 31;
  gconj_hf : gconj (ghf CR) = ghf CR;
  gconj_z : forall j, gconj (gz CR j) = gzi CR j;
  gconj_zi : forall j, gconj (gzi CR j) = gz CR j }.

(* ------------------------------------------------------------------------------------------------ *)
(* facts that hold in every phase ring                                                              *)
Section PR.
Variable R : PhaseRing.
Notation kz := (k0 R). Notation ko := (k1 R).
Infix "+" := (kadd R). Infix "*" := (kmul R). Notation "- x" := (kopp R x).
Definition Rring' := PR_ring R.
Add Ring Rr' : Rring'.

Lemma kpow_gu_mod n m : (n mod 32 = m mod 32)%nat -> kpow (gu R) n = kpow (gu R) m.
Proof. intros H. rewrite <- (kpow_mod32 R n), <- (kpow_mod32 R m), H. reflexivity. Qed.

Lemma zpow_swap (a ai : R) e : zpow R a ai (- e) = zpow R ai a e.
Proof.
  unfold zpow. destruct e as [|p|p]; simpl; reflexivity.
Qed.

Lemma pentry_map_eval (A : ptab) i j :
  eval R (pentry A i j) = nth j (nth i (map (map (eval R)) A) []) kz.
Proof.
  unfold pentry. change (@nil R) with (map (eval R) []). rewrite (map_nth (map (eval R))).
  change kz with (eval R pzero). rewrite (map_nth (eval R)). reflexivity.
Qed.

Theorem ptab_eqb_sound (A B : ptab) : table_eqb A B = true ->
  forall i j, eval R (pentry A i j) = eval R (pentry B i j).
Proof.
  intros H i j. rewrite !pentry_map_eval, (table_eqb_sound R A B H). reflexivity.
Qed.

Lemma smat_pentry (A : ptab) r c : smat A r c = pentry A (idx r) (idx c).
Proof. reflexivity. Qed.

Theorem mmat_meqb (a b : mexp) : meqb a b = true ->
  forall r c, eval R (mmat a r c) = eval R (mmat b r c).
Proof.
  unfold meqb, mmat. destruct (mtab a) as [A|]; [|discriminate]. destruct (mtab b) as [B|]; [|discriminate].
  intros H r c. rewrite !smat_pentry. apply ptab_eqb_sound. exact H.
Qed.

Lemma eval_fold_padd (f : nat -> poly) l :
  eval R (fold_right (fun k acc => padd (f k) acc) pzero l) = ksum (map (fun k => eval R (f k)) l).
Proof.
  induction l as [|k l IH]; [reflexivity|]. cbn [fold_right map ksum]. rewrite eval_padd, IH. reflexivity.
Qed.

Lemma pentry_map_seq (f : nat -> nat -> poly) n i j : (i < n)%nat -> (j < n)%nat ->
  pentry (map (fun i => map (fun j => f i j) (seq 0 n)) (seq 0 n)) i j = f i j.
Proof.
  intros Hi Hj. unfold pentry.
  rewrite (nth_map_seq (fun i => map (fun j => f i j) (seq 0 n))) by assumption.
  rewrite (nth_map_seq (fun j => f i j)) by assumption. reflexivity.
Qed.

Theorem eval_ptmul (A B : ptab) i j : (i < length A)%nat -> (j < length A)%nat ->
  eval R (pentry (ptmul A B) i j) =
  ksum (map (fun k => eval R (pentry A i k) * eval R (pentry B k j)) (seq 0 (length A))).
Proof.
  intros Hi Hj. unfold ptmul. cbv zeta.
  rewrite (pentry_map_seq (fun i j => fold_right (fun k acc => padd (pmul (pentry A i k) (pentry B k j)) acc)
                                                   pzero (seq 0 (length A)))) by assumption.
  rewrite (eval_fold_padd (fun k => pmul (pentry A i k) (pentry B k j))).
  apply (Lemmas.ksum_map_ext R). intros k _. apply eval_pmul.
Qed.

Lemma eval_ptid n i j : (i < n)%nat -> (j < n)%nat ->
  eval R (pentry (ptid n) i j) = if Nat.eqb i j then ko else kz.
Proof.
  intros Hi Hj. unfold ptid.
  rewrite (pentry_map_seq (fun i j => if Nat.eqb i j then pone else pzero)) by assumption.
  destruct (Nat.eqb i j); [apply eval_pone| apply eval_pzero].
Qed.

Lemma pentry_ptadj (A : ptab) i j : (i < length A)%nat -> (j < length A)%nat ->
  pentry (ptadj A) i j = pconj (pentry A j i).
Proof.
  intros Hi Hj. unfold ptadj. cbv zeta.
  apply (pentry_map_seq (fun i j => pconj (pentry A j i))); assumption.
Qed.

Lemma eval_ptscale c (A : ptab) i j :
  eval R (pentry (ptscale c A) i j) = eval R c * eval R (pentry A i j).
Proof.
  unfold ptscale, pentry.
  change (@nil poly) with (map (pmul c) []) at 1. rewrite (map_nth (map (pmul c))).
  destruct (Nat.lt_ge_cases j (length (nth i A []))) as [Hj|Hj].
  - rewrite (nth_indep _ pzero (pmul c pzero)) by (rewrite map_length; assumption).
    rewrite (map_nth (pmul c)). apply eval_pmul.
  - rewrite !nth_overflow by (try rewrite map_length; assumption).
    rewrite eval_pzero. ring.
Qed.
End PR.

(* ------------------------------------------------------------------------------------------------ *)
Section CJ.
Variable R : ConjRing.
Notation kz := (k0 R). Notation ko := (k1 R).
Infix "+" := (kadd R). Infix "*" := (kmul R). Notation "- x" := (kopp R x).
Notation cj := (gconj R).
Definition CRring := PR_ring R.
Add Ring CRr : CRring.

Lemma gconj_0 : cj kz = kz.
Proof.
  pose proof (gconj_add R kz kz) as H. replace (kz + kz) with kz in H by ring.
  transitivity (cj kz + cj kz + - cj kz); [ring| rewrite <- H; ring].
Qed.

Lemma gconj_ksum l : cj (ksum l) = ksum (map cj l).
Proof. induction l as [|a l IH]; cbn [ksum map]; [apply gconj_0| rewrite gconj_add, IH; reflexivity]. Qed.

Lemma gconj_kpow a n : cj (kpow a n) = kpow (cj a) n.
Proof. induction n as [|n IH]; cbn [kpow]; [apply gconj_1| rewrite gconj_mul, IH; reflexivity]. Qed.

Lemma gconj_kofZ_pos p : cj (kofZ R (Zpos p)) = kofZ R (Zpos p).
Proof.
  induction p using Pos.peano_ind.
  - apply gconj_1.
  - rewrite Pos2Z.inj_succ. unfold Z.succ. rewrite kofZ_add, gconj_add, IHp, kofZ_1, gconj_1. reflexivity.
Qed.
Lemma gconj_kofZ c : cj (kofZ R c) = kofZ R c.
Proof.
  destruct c as [|p|p].
  - apply gconj_0.
  - apply gconj_kofZ_pos.
  - change (Zneg p) with (Z.opp (Zpos p)). rewrite kofZ_opp, gconj_opp, gconj_kofZ_pos. reflexivity.
Qed.

Lemma gconj_gu_pow e : cj (kpow (gu R) e) = kpow (gu R) ((32 - e mod 32) mod 32).
Proof.
  rewrite gconj_kpow, gconj_u, <- kpow_mul. apply kpow_gu_mod.
  rewrite Nat.mod_mod by lia.
  pose proof (Nat.div_mod e 32) as H. pose proof (Nat.mod_upper_bound e 32) as Hb.
  set (q := (e / 32)%nat) in *. set (r := (e mod 32)%nat) in *.
  rewrite H by lia. specialize (Hb ltac:(lia)).
  destruct (Nat.eq_dec r 0) as [E|E].
  - rewrite E. replace (31 * (32 * q + 0))%nat with (0 + (31 * q) * 32)%nat by lia.
    replace (32 - 0)%nat with (0 + 1 * 32)%nat by lia. rewrite !Nat.mod_add by lia. reflexivity.
  - replace (31 * (32 * q + r))%nat with ((32 - r) + (31 * q + r - 1) * 32)%nat by lia.
    rewrite Nat.mod_add by lia. reflexivity.
Qed.

Lemma gconj_zpow j e : cj (zpow R (gz R j) (gzi R j) e) = zpow R (gz R j) (gzi R j) (- e).
Proof.
  rewrite zpow_swap. unfold zpow. destruct (0 <=? e)%Z; rewrite gconj_kpow; [rewrite gconj_z| rewrite gconj_zi]; reflexivity.
Qed.

Lemma gconj_evalz l : forall j, cj (evalz R l j) = evalz R (map Z.opp l) j.
Proof.
  induction l as [|e l IH]; intro j; cbn [evalz map]; [apply gconj_1|].
  rewrite gconj_mul, gconj_zpow, IH. reflexivity.
Qed.

Lemma evalt_conj t :
  evalt R (T (tc t) (th t) ((32 - tu t mod 32) mod 32) (map Z.opp (tz t))) = cj (evalt R t).
Proof.
  unfold evalt. cbn [tc th tu tz].
  rewrite !gconj_mul, gconj_kofZ, gconj_kpow, gconj_hf, gconj_gu_pow, gconj_evalz. reflexivity.
Qed.

Theorem eval_pconj p : eval R (pconj p) = cj (eval R p).
Proof.
  unfold eval, pconj. rewrite gconj_ksum, !map_map. apply (Lemmas.ksum_map_ext R).
  intros t _. apply evalt_conj.
Qed.

(* [square U] is part of the interface the callers check; the transfer itself does not need it *)
Theorem unitary_sound (U : ptab) : square U = true ->
  table_eqb (ptmul U (ptadj U)) (ptid (length U)) = true ->
  forall i j, (i < length U)%nat -> (j < length U)%nat ->
  ksum (map (fun k => eval R (pentry U i k) * cj (eval R (pentry U j k))) (seq 0 (length U)))
  = if Nat.eqb i j then ko else kz.
Proof.
  intros _ H i j Hi Hj.
  rewrite <- (eval_ptid R (length U) i j Hi Hj), <- (ptab_eqb_sound R _ _ H i j).
  rewrite (eval_ptmul R U (ptadj U) i j Hi Hj).
  apply (Lemmas.ksum_map_ext R). intros k Hk. apply in_seq in Hk.
  rewrite pentry_ptadj by lia. rewrite eval_pconj. reflexivity.
Qed.
End CJ.
