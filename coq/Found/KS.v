(* Exact symbolic scalars: Laurent polynomials in u = e^{i pi/16} and z_j = e^{i theta_j/4} with
   coefficients in Z[1/2].  Definitions only (what vm_compute runs); soundness is in KSProofs.v. *)
From Coq Require Export ZArith List Bool.
From QV Require Import Found.Base.
Export ListNotations.
Local Open Scope Z_scope.

(* tc * (1/2)^th * u^tu * prod_j z_j^(tz_j) *)
Record term := T { tc : Z; th : nat; tu : nat; tz : list Z }.
Definition poly := list term.

Fixpoint zadd (a b : list Z) : list Z :=
  match a, b with
  | [], _ => b
  | _, [] => a
  | x :: a', y :: b' => (x + y) :: zadd a' b'
  end.
Fixpoint zall0 (a : list Z) : bool := match a with [] => true | x :: a' => (x =? 0) && zall0 a' end.
Fixpoint zeq (a b : list Z) : bool :=
  match a, b with
  | [], _ => zall0 b
  | _, [] => zall0 a
  | x :: a', y :: b' => (x =? y) && zeq a' b'
  end.

Definition tmul (a b : term) : term :=
  T (tc a * tc b) (th a + th b) ((tu a + tu b) mod 32) (zadd (tz a) (tz b)).
(* canonical u-exponent in [0,16): u^16 = -1 *)
Definition canon (t : term) : term :=
  let e := (tu t mod 32)%nat in
  if (16 <=? e)%nat then T (- tc t) (th t) (e - 16) (tz t) else T (tc t) (th t) e (tz t).
Definition samekey (a b : term) : bool := (tu a =? tu b)%nat && zeq (tz a) (tz b).
(* a + b for terms with the same key, over the common denominator *)
Definition tcomb (a b : term) : term :=
  let H := Nat.max (th a) (th b) in
  T (tc a * 2 ^ Z.of_nat (H - th a) + tc b * 2 ^ Z.of_nat (H - th b)) H (tu a) (tz a).
Fixpoint insert (t : term) (p : poly) : poly :=
  match p with
  | [] => if tc t =? 0 then [] else [t]
  | s :: p' => if samekey t s
               then let c := tcomb t s in if tc c =? 0 then p' else c :: p'
               else s :: insert t p'
  end.
Definition pnorm (p : poly) : poly := fold_right (fun t acc => insert (canon t) acc) [] p.

Definition pzero : poly := [].
Definition pone : poly := [T 1 0 0 []].
Definition padd (p q : poly) : poly := pnorm (p ++ q).
Definition pmul_raw (p q : poly) : poly := flat_map (fun a => map (tmul a) q) p.
Definition pmul (p q : poly) : poly := pnorm (pmul_raw p q).
Definition popp (p : poly) : poly := map (fun t => T (- tc t) (th t) (tu t) (tz t)) p.
Definition psub (p q : poly) : poly := padd p (popp q).
Definition pconj (p : poly) : poly :=
  map (fun t => T (tc t) (th t) ((32 - tu t mod 32) mod 32) (map Z.opp (tz t))) p.
Definition pis0 (p : poly) : bool := match pnorm p with [] => true | _ => false end.
Definition peqb (p q : poly) : bool := pis0 (p ++ popp q).

Definition POps : Ops := mkOps poly pzero pone padd pmul psub popp.

(* handy constants *)
Definition pconst (c : Z) : poly := [T c 0 0 []].
Definition pu (e : nat) : poly := [T 1 0 (e mod 32) []].                 (* u^e *)
Definition pI : poly := pu 8.                                            (* i *)
Definition phalf : poly := [T 1 1 0 []].
Definition psqrt2 : poly := [T 1 0 4 []; T 1 0 28 []].                    (* u^4 + u^-4 = 2 cos(pi/4) *)
Definition pisqrt2 : poly := [T 1 1 4 []; T 1 1 28 []].                   (* 1/sqrt 2 *)
Fixpoint zunit (j : nat) (e : Z) : list Z := match j with O => [e] | S j' => 0 :: zunit j' e end.
Definition pz (j : nat) (e : Z) : poly := [T 1 0 0 (zunit j e)].          (* z_j^e *)

(* comparison of tables *)
Fixpoint list_eqb {A} (eqb : A -> A -> bool) (a b : list A) : bool :=
  match a, b with
  | [], [] => true
  | x :: a', y :: b' => eqb x y && list_eqb eqb a' b'
  | _, _ => false
  end.
Definition tvec_eqb : list poly -> list poly -> bool := list_eqb peqb.
Definition table_eqb : list (list poly) -> list (list poly) -> bool := list_eqb tvec_eqb.
