(* Expression language emitted by the translators (tools/translate/*.py) for scalars and gate matrices,
   and its symbolic interpretation in the exact ring KS.  Definitions only. *)
From Coq Require Export QArith String.
From QV Require Export Found.Base Found.KS.
Local Open Scope Z_scope.

(* scalar expressions as they appear in the Python source *)
Inductive ex :=
| Num (q : Q)            (* real literal *)
| Imag (q : Q)           (* q * 1j *)
| Pi
| Var (j : nat)          (* j-th gate parameter *)
| Add (a b : ex) | Sub (a b : ex) | Mul (a b : ex) | Div (a b : ex) | Neg (a : ex)
| Cos (a : ex) | Sin (a : ex) | Exp (a : ex) | Sqrt (a : ex).

(* linear forms  c + p*pi + sum_j v_j theta_j + sum_j w_j (pi*theta_j), possibly times 1j *)
Record lin := L { lim : bool; lc : Q; lpi : Q; lv : list Q; lpv : list Q }.
Fixpoint qzip (f : Q -> Q -> Q) (a b : list Q) : list Q :=
  match a, b with
  | [], _ => map (f 0%Q) b
  | _, [] => map (fun x => f x 0%Q) a
  | x :: a', y :: b' => f x y :: qzip f a' b'
  end.
Definition lscale (s : Q) (f : lin) : lin :=
  L (lim f) (s * lc f) (s * lpi f) (map (Qmult s) (lv f)) (map (Qmult s) (lpv f)).
Definition qall0 (l : list Q) : bool := forallb (fun q => Qeq_bool q 0) l.
Definition lconst (f : lin) : bool := Qeq_bool (lpi f) 0 && qall0 (lv f) && qall0 (lpv f).
Definition lpionly (f : lin) : bool := Qeq_bool (lc f) 0 && qall0 (lv f) && qall0 (lpv f).
Definition lvaronly (f : lin) : bool := Qeq_bool (lc f) 0 && Qeq_bool (lpi f) 0 && qall0 (lpv f).
Fixpoint qunit (j : nat) : list Q := match j with O => [1%Q] | S j' => 0%Q :: qunit j' end.
Definition lset_im (im : bool) (r : lin) : lin := L im (lc r) (lpi r) (lv r) (lpv r).

Fixpoint linof (e : ex) : option lin :=
  match e with
  | Num q => Some (L false q 0 [] [])
  | Imag q => Some (L true q 0 [] [])
  | Pi => Some (L false 0 1 [] [])
  | Var j => Some (L false 0 0 (qunit j) [])
  | Add a b => match linof a, linof b with
               | Some f, Some g => if Bool.eqb (lim f) (lim g)
                   then Some (L (lim f) (lc f + lc g) (lpi f + lpi g) (qzip Qplus (lv f) (lv g)) (qzip Qplus (lpv f) (lpv g))) else None
               | _, _ => None end
  | Sub a b => match linof a, linof b with
               | Some f, Some g => if Bool.eqb (lim f) (lim g)
                   then Some (L (lim f) (lc f - lc g) (lpi f - lpi g) (qzip Qminus (lv f) (lv g)) (qzip Qminus (lpv f) (lpv g))) else None
               | _, _ => None end
  | Neg a => match linof a with Some f => Some (lscale (-1) f) | None => None end
  | Mul a b => match linof a, linof b with
               | Some f, Some g =>
                   let sgn := if lim f && lim g then (-1)%Q else 1%Q in
                   let im := xorb (lim f) (lim g) in
                   if lconst f then Some (lset_im im (lscale (sgn * lc f) g))
                   else if lconst g then Some (lset_im im (lscale (sgn * lc g) f))
                   else if lpionly f && lvaronly g then Some (L im 0 0 [] (map (Qmult (sgn * lpi f)) (lv g)))
                   else if lpionly g && lvaronly f then Some (L im 0 0 [] (map (Qmult (sgn * lpi g)) (lv f)))
                   else None
               | _, _ => None end
  | Div a b => match linof a, linof b with
               | Some f, Some g => if lconst g && negb (lim g) && negb (Qeq_bool (lc g) 0)
                                   then Some (lscale (/ lc g) f) else None
               | _, _ => None end
  | _ => None
  end.

(* integer value of a rational, if it is one *)
Definition qint (q : Q) : option Z := let r := Qred q in if (Zpos (Qden r) =? 1) then Some (Qnum r) else None.
Fixpoint qints (l : list Q) : option (list Z) :=
  match l with [] => Some [] | q :: l' => match qint q, qints l' with Some z, Some zs => Some (z :: zs) | _, _ => None end end.
(* cis f = exp(i f) as a monomial u^(16 p) * prod z_j^(4 v_j); needs zero constant part *)
Fixpoint inter0 (a : list Z) : list Z := match a with [] => [] | x :: a' => x :: 0 :: inter0 a' end.
Fixpoint inter1 (b : list Z) : list Z := match b with [] => [] | y :: b' => 0 :: y :: inter1 b' end.
Fixpoint interleave (a b : list Z) : list Z :=
  match a, b with
  | [], _ => inter1 b
  | _, [] => inter0 a
  | x :: a', y :: b' => x :: y :: interleave a' b'
  end.
(* atom 2j is z_j = e^{i theta_j/4}; atom 2j+1 is e^{i pi theta_j/4} (only SWAPalpha needs the latter) *)
Definition cis_mono (f : lin) : option (nat * list Z) :=
  if Qeq_bool (lc f) 0 then
    match qint (16 * lpi f), qints (map (Qmult 4) (lv f)), qints (map (Qmult 4) (lpv f)) with
    | Some p, Some zs, Some ws => Some (Z.to_nat (p mod 32), interleave zs ws)
    | _, _, _ => None end
  else None.
Definition mono (uz : nat * list Z) : poly := [T 1 0 (fst uz) (snd uz)].
Definition mono_inv (uz : nat * list Z) : poly := [T 1 0 ((32 - fst uz mod 32) mod 32) (map Z.opp (snd uz))].

(* dyadic rational as a constant polynomial *)
Fixpoint log2pos (p : positive) : option nat :=
  match p with xH => Some O | xO p' => match log2pos p' with Some n => Some (S n) | None => None end | xI _ => None end.
Definition pdyadic (q : Q) : option poly :=
  let r := Qred q in match log2pos (Qden r) with Some h => Some (pnorm [T (Qnum r) h 0 []]) | None => None end.
(* inverse of +-2^k *)
Definition pinv_dyadic (q : Q) : option poly :=
  if Qeq_bool q 0 then None else pdyadic (/ q).

Definition obind {A B} (o : option A) (f : A -> option B) : option B := match o with Some a => f a | None => None end.

Fixpoint topoly (e : ex) : option poly :=
  match e with
  | Num q => pdyadic q
  | Imag q => obind (pdyadic q) (fun p => Some (pmul pI p))
  | Pi | Var _ => None
  | Add a b => obind (topoly a) (fun p => obind (topoly b) (fun q => Some (padd p q)))
  | Sub a b => obind (topoly a) (fun p => obind (topoly b) (fun q => Some (psub p q)))
  | Mul a b => obind (topoly a) (fun p => obind (topoly b) (fun q => Some (pmul p q)))
  | Neg a => obind (topoly a) (fun p => Some (pnorm (popp p)))
  | Div a b =>
      obind (topoly a) (fun p =>
        match b with
        | Sqrt (Num q) => if Qeq_bool q 2 then Some (pmul p pisqrt2) else None
        | _ => match linof b with
               | Some g => if lconst g && negb (lim g) then obind (pinv_dyadic (lc g)) (fun i => Some (pmul p i)) else None
               | None => None end
        end)
  | Cos a => match linof a with
             | Some f => if lim f then None else
                 obind (cis_mono f) (fun m => Some (pmul phalf (padd (mono m) (mono_inv m))))
             | None => None end
  | Sin a => match linof a with   (* (cis f - cis(-f)) / (2i) = -i/2 (cis f - cis(-f)),  -i = u^24 *)
             | Some f => if lim f then None else
                 obind (cis_mono f) (fun m => Some (pmul (pmul phalf (pu 24)) (psub (mono m) (mono_inv m))))
             | None => None end
  | Exp a => match linof a with
             | Some f => if lim f then obind (cis_mono f) (fun m => Some (mono m)) else None
             | None => None end
  | Sqrt (Num q) => if Qeq_bool q 2 then Some psqrt2 else None
  | Sqrt _ => None
  end.

(* renaming of parameters (to give two gates disjoint parameter sets) *)
Fixpoint shift (d : nat) (e : ex) : ex :=
  match e with
  | Var j => Var (d + j)
  | Add a b => Add (shift d a) (shift d b) | Sub a b => Sub (shift d a) (shift d b)
  | Mul a b => Mul (shift d a) (shift d b) | Div a b => Div (shift d a) (shift d b)
  | Neg a => Neg (shift d a) | Cos a => Cos (shift d a) | Sin a => Sin (shift d a)
  | Exp a => Exp (shift d a) | Sqrt a => Sqrt (shift d a)
  | _ => e
  end.
(* substitution of parameters by expressions *)
Fixpoint subst (env : list ex) (e : ex) : ex :=
  match e with
  | Var j => nth j env (Var j)
  | Add a b => Add (subst env a) (subst env b) | Sub a b => Sub (subst env a) (subst env b)
  | Mul a b => Mul (subst env a) (subst env b) | Div a b => Div (subst env a) (subst env b)
  | Neg a => Neg (subst env a) | Cos a => Cos (subst env a) | Sin a => Sin (subst env a)
  | Exp a => Exp (subst env a) | Sqrt a => Sqrt (subst env a)
  | _ => e
  end.

(* matrix expressions *)
Inductive mexp :=
| MLit (rows : list (list ex))                 (* Qobj([[...]]) *)
| MMul (a b : mexp)                            (* Qobj * Qobj *)
| MScale (e : ex) (m : mexp)                   (* scalar * Qobj *)
| MCtrl (nc : nat) (cv : nat) (m : mexp).      (* controlled_gate(U, control_value=cv), nc controls: block diagonal *)

Fixpoint msubst (env : list ex) (m : mexp) : mexp :=
  match m with
  | MLit rows => MLit (map (map (subst env)) rows)
  | MMul a b => MMul (msubst env a) (msubst env b)
  | MScale e a => MScale (subst env e) (msubst env a)
  | MCtrl nc cv a => MCtrl nc cv (msubst env a)
  end.
Definition mshift (d : nat) (m : mexp) : mexp := msubst (map (fun j => Var (d + j)) (seq 0 8)) m.

Definition ptab := list (list poly).
Fixpoint osequence {A} (l : list (option A)) : option (list A) :=
  match l with [] => Some [] | o :: l' => match o, osequence l' with Some a, Some r => Some (a :: r) | _, _ => None end end.
Definition pentry (tb : ptab) (i j : nat) : poly := nth j (nth i tb []) pzero.
Definition ptmul (A B : ptab) : ptab :=
  let n := length A in
  map (fun i => map (fun j => fold_right (fun k acc => padd (pmul (pentry A i k) (pentry B k j)) acc) pzero (seq 0 n))
                    (seq 0 n)) (seq 0 n).
Definition ptscale (c : poly) (A : ptab) : ptab := map (map (pmul c)) A.
Definition ptid (n : nat) : ptab := map (fun i => map (fun j => if Nat.eqb i j then pone else pzero) (seq 0 n)) (seq 0 n).
Definition ptctrl (nc cv : nat) (U : ptab) : ptab :=
  let d := length U in let nb := (2 ^ nc)%nat in
  map (fun i => map (fun j =>
         let bi := (i / d)%nat in let bj := (j / d)%nat in
         if Nat.eqb bi bj then
           (if Nat.eqb bi cv then pentry U (i mod d) (j mod d) else if Nat.eqb (i mod d) (j mod d) then pone else pzero)
         else pzero) (seq 0 (nb * d))) (seq 0 (nb * d)).
Definition ptadj (A : ptab) : ptab :=
  let n := length A in map (fun i => map (fun j => pconj (pentry A j i)) (seq 0 n)) (seq 0 n).
Definition square (tb : ptab) : bool := forallb (fun r => Nat.eqb (length r) (length tb)) tb.

Fixpoint mtab (m : mexp) : option ptab :=
  match m with
  | MLit rows => obind (osequence (map (fun r => osequence (map topoly r)) rows))
                       (fun tb => if square tb then Some tb else None)
  | MMul a b => obind (mtab a) (fun A => obind (mtab b) (fun B =>
                  if Nat.eqb (length A) (length B) then Some (ptmul A B) else None))
  | MScale e a => obind (topoly e) (fun c => obind (mtab a) (fun A => Some (ptscale c A)))
  | MCtrl nc cv a => obind (mtab a) (fun A => if (cv <? 2 ^ nc)%nat then Some (ptctrl nc cv A) else None)
  end.

(* number of qubits of a 2^k x 2^k table *)
Fixpoint log2n (fuel n : nat) : nat := match fuel with O => O | S f => if (n <=? 1)%nat then O else S (log2n f (n / 2)) end.
Definition tqubits (tb : ptab) : nat := log2n (length tb) (length tb).

(* the gate matrix as a function of bit lists, over KS *)
Definition smat (tb : ptab) : mat POps := @mat_of_tab POps tb.
Definition mmat (m : mexp) : mat POps := match mtab m with Some tb => smat tb | None => fun _ _ => pzero end.
Definition mok (m : mexp) : bool := match mtab m with Some tb => negb (Nat.eqb (length tb) 0) | None => false end.
Definition ptab_eqb (A B : ptab) : bool := table_eqb A B.
Definition meqb (a b : mexp) : bool :=
  match mtab a, mtab b with Some A, Some B => ptab_eqb A B | _, _ => false end.
