(* The block-diagonal table built by controlled_gate (Sym.ptctrl = scipy block_diag of 2^nc blocks, block cv = U)
   is the matrix cmat of Ctrl.v on bit lists: index arithmetic (i / d, i mod d) = splitting the bit list. *)
From Coq Require Import Lia.
From QV Require Import Found.Base Found.Lemmas Found.Table Found.KS Found.Sym Found.Ctrl.

Lemma idx_app a b : idx (a ++ b) = (idx a * 2 ^ length b + idx b)%nat.
Proof.
  induction a as [|x a IH]; simpl; [lia|]. rewrite IH, app_length, Nat.pow_add_r. destruct x; lia.
Qed.

Lemma split_bits nc (r : list bool) : (nc <= length r)%nat -> r = firstn nc r ++ skipn nc r /\ length (firstn nc r) = nc.
Proof. intros H. split; [symmetry; apply firstn_skipn| apply firstn_length_le; exact H]. Qed.

Lemma nth_map_seq' {A} (f : nat -> A) n i d : (i < n)%nat -> nth i (map f (seq 0 n)) d = f i.
Proof.
  intros H. rewrite (nth_indep _ d (f 0%nat)) by (rewrite map_length, seq_length; lia).
  rewrite (map_nth f (seq 0 n) 0%nat i), seq_nth by lia. reflexivity.
Qed.

Lemma pentry_gen (f : nat -> nat -> poly) n i j : (i < n)%nat -> (j < n)%nat ->
  pentry (map (fun i => map (fun j => f i j) (seq 0 n)) (seq 0 n)) i j = f i j.
Proof.
  intros Hi Hj. unfold pentry. rewrite (nth_map_seq' (fun i => map (fun j => f i j) (seq 0 n)) n i []) by assumption.
  apply nth_map_seq'. assumption.
Qed.

Lemma beqb_idx (a b : list bool) : length a = length b -> beqb a b = Nat.eqb (idx a) (idx b).
Proof.
  revert b; induction a as [|x a IH]; intros [|y b] H; simpl in *; try lia; [reflexivity|].
  injection H as H. rewrite beqb_cons, (IH b H).
  pose proof (idx_lt a) as La. pose proof (idx_lt b) as Lb. rewrite H in La.
  rewrite H.
  destruct (Nat.eqb_spec (idx a) (idx b)) as [E|E].
  - rewrite E. destruct x, y; simpl; symmetry; first [apply Nat.eqb_eq; lia | apply Nat.eqb_neq; lia].
  - rewrite andb_false_r. symmetry. apply Nat.eqb_neq. destruct x, y; lia.
Qed.

Theorem ptctrl_cmat nc cv (U : ptab) k (r c : list bool) :
  length U = (2 ^ k)%nat -> length r = (nc + k)%nat -> length c = (nc + k)%nat ->
  smat (ptctrl nc cv U) r c = cmat POps nc cv (smat U) r c.
Proof.
  intros HU Hr Hc.
  destruct (split_bits nc r ltac:(lia)) as [Er Lr]. destruct (split_bits nc c ltac:(lia)) as [Ec Lc].
  set (rc := firstn nc r) in *. set (rt := skipn nc r) in *.
  set (cc := firstn nc c) in *. set (ct := skipn nc c) in *.
  assert (Lrt : length rt = k) by (apply (f_equal (@length bool)) in Er; rewrite app_length in Er; lia).
  assert (Lct : length ct = k) by (apply (f_equal (@length bool)) in Ec; rewrite app_length in Ec; lia).
  unfold smat at 1, mat_of_tab. fold (pentry (ptctrl nc cv U) (idx r) (idx c)).
  pose proof (idx_lt rc) as B1. pose proof (idx_lt rt) as B2. pose proof (idx_lt cc) as B3. pose proof (idx_lt ct) as B4.
  rewrite Lr in B1. rewrite Lrt in B2. rewrite Lc in B3. rewrite Lct in B4.
  assert (P : (0 < 2 ^ k)%nat) by (apply Nat.neq_0_lt_0, Nat.pow_nonzero; lia).
  unfold ptctrl. cbv zeta. rewrite HU. change (k0 POps) with pzero.
  match goal with |- nth ?j (nth ?i ?tb []) pzero = ?rhs => change (pentry tb i j = rhs) end.
  rewrite pentry_gen.
  2,3: rewrite ?Er, ?Ec, idx_app, ?Lrt, ?Lct; nia.
  rewrite Er, Ec, !idx_app, Lrt, Lct.
  rewrite !Nat.div_add_l, !(Nat.div_small (idx _) (2 ^ k)), !Nat.add_0_r by lia.
  rewrite !(Nat.add_comm (_ * 2 ^ k)), !Nat.mod_add, !Nat.mod_small by lia.
  unfold cmat. fold rc rt cc ct.
  rewrite !firstn_app_len, !skipn_app_len by assumption.
  rewrite (beqb_idx rc cc) by lia.
  destruct (Nat.eqb (idx rc) (idx cc)); [|reflexivity].
  destruct (Nat.eqb (idx rc) cv); [reflexivity|].
  rewrite (beqb_idx rt ct) by lia. reflexivity.
Qed.
