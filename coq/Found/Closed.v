(* Parameter-free gate matrices do not depend on the parameter values (atoms). *)
From Coq Require Import FunctionalExtensionality.
From QV Require Import Found.Circ.

Definition term_closed (t : term) : bool := match tz t with [] => true | _ => false end.
Definition poly_closed (p : poly) : bool := forallb term_closed p.
Definition ptab_closed (tb : ptab) : bool := forallb (forallb poly_closed) tb.
Definition mclosed (m : mexp) : bool := match mtab m with Some tb => ptab_closed tb | None => true end.

Lemma evalt_closed R (A B : atoms R) t : term_closed t = true -> evalt (withA R A) t = evalt (withA R B) t.
Proof. unfold term_closed, evalt. destruct (tz t); [reflexivity| discriminate]. Qed.

Lemma eval_closed R (A B : atoms R) p : poly_closed p = true -> eval (withA R A) p = eval (withA R B) p.
Proof.
  unfold poly_closed, eval. induction p as [|t p IH]; intros H; [reflexivity|].
  simpl in H. apply andb_prop in H. destruct H as [Ht Hp]. cbn [map ksum].
  rewrite (evalt_closed R A B t Ht). rewrite (IH Hp). reflexivity.
Qed.

Lemma nth_forallb {X} (f : X -> bool) l i d : forallb f l = true -> f d = true -> f (nth i l d) = true.
Proof.
  revert i; induction l as [|x l IH]; intros [|i] H Hd; simpl in *; auto;
    apply andb_prop in H; destruct H; auto.
Qed.

Theorem emat_closed R (A B : atoms R) m : mclosed m = true ->
  emat (withA R A) (mmat m) = emat (withA R B) (mmat m).
Proof.
  unfold mclosed, mmat, emat. intros H.
  apply functional_extensionality; intro r. apply functional_extensionality; intro c.
  destruct (mtab m) as [tb|]; [|reflexivity].
  apply eval_closed. unfold smat, mat_of_tab.
  apply (nth_forallb poly_closed); [|reflexivity].
  apply (nth_forallb (forallb poly_closed)); [exact H| reflexivity].
Qed.
