(* Controlled gates: the block-diagonal matrix "U on the targets iff the control bits read the value cv"
   embedded on controls ++ targets acts as U exactly on the assignments whose control bits read cv. *)
From Coq Require Import FunctionalExtensionality Ring.
From QV Require Import Found.Base Found.Lemmas Found.Table Found.Comm.

Section S.
Variable O : Ops.
Hypothesis Kring : ring_theory (k0 O) (k1 O) (kadd O) (kmul O) (ksub O) (kopp O) eq.
Add Ring Kr : Kring.
Notation kz := (k0 O). Notation ko := (k1 O).
Infix "+" := (kadd O). Infix "*" := (kmul O).
Notation state := (state O). Notation mat := (mat O).
Notation ksum_app := (Lemmas.ksum_app O Kring). Notation ksum_scale := (Lemmas.ksum_scale O Kring).
Notation ksum_zero := (Lemmas.ksum_zero O Kring). Notation ksum_map_ext := (Lemmas.ksum_map_ext O).

(* matrix of the controlled gate on bit lists: first nc bits are the controls *)
Definition cmat (nc cv : nat) (U : mat) : mat := fun r c =>
  if beqb (firstn nc r) (firstn nc c)
  then (if Nat.eqb (idx (firstn nc r)) cv then U (skipn nc r) (skipn nc c)
        else if beqb (skipn nc r) (skipn nc c) then ko else kz)
  else kz.

Lemma map_cons_flat (b : bool) m l :
  map (cons b) (flat_map (fun a => map (fun y => a ++ y) (all_bits m)) l) =
  flat_map (fun a => map (fun y => a ++ y) (all_bits m)) (map (cons b) l).
Proof.
  induction l as [|a l IH]; simpl; [reflexivity|].
  rewrite map_app, IH, map_map. reflexivity.
Qed.

Lemma all_bits_add n m : all_bits (n + m) = flat_map (fun a => map (fun b => a ++ b) (all_bits m)) (all_bits n).
Proof.
  induction n as [|n IH]; simpl.
  - rewrite app_nil_r. rewrite map_id. reflexivity.
  - rewrite IH, flat_map_app, !map_cons_flat. reflexivity.
Qed.

Lemma ksum_flat_map {A B} (f : A -> list B) (g : B -> O) l :
  ksum (map g (flat_map f l)) = ksum (map (fun a => ksum (map g (f a))) l).
Proof. induction l as [|a l IH]; simpl; [reflexivity|]. rewrite map_app, ksum_app, IH. reflexivity. Qed.

Lemma firstn_app_len {A} (a b : list A) n : length a = n -> firstn n (a ++ b) = a.
Proof. intros <-. rewrite firstn_app, Nat.sub_diag, firstn_all. simpl. apply app_nil_r. Qed.
Lemma skipn_app_len {A} (a b : list A) n : length a = n -> skipn n (a ++ b) = b.
Proof. intros <-. rewrite skipn_app, Nat.sub_diag, skipn_all. reflexivity. Qed.

Lemma lookup_app_l i ts1 ts2 y1 y2 : length y1 = length ts1 -> In i ts1 ->
  lookup i (ts1 ++ ts2) (y1 ++ y2) = lookup i ts1 y1.
Proof.
  revert y1; induction ts1 as [|t ts IH]; intros [|b y] Hl Hin; simpl in *; try lia; try contradiction.
  destruct (Nat.eqb_spec i t); [reflexivity|]. destruct Hin as [->|Hin]; [congruence|]. apply IH; [lia| exact Hin].
Qed.
Lemma lookup_app_r i ts1 ts2 y1 y2 : length y1 = length ts1 -> ~ In i ts1 ->
  lookup i (ts1 ++ ts2) (y1 ++ y2) = lookup i ts2 y2.
Proof.
  revert y1; induction ts1 as [|t ts IH]; intros [|b y] Hl Hin; simpl in *; try lia; [reflexivity|].
  destruct (Nat.eqb_spec i t); [subst; tauto|]. apply IH; [lia| tauto].
Qed.

Lemma lookup_map_self x i ts : In i ts -> NoDup ts -> lookup i ts (map x ts) = Some (x i).
Proof.
  induction ts as [|t ts IH]; intros Hin Hnd; simpl in *; [contradiction|].
  destruct (Nat.eqb_spec i t) as [->|N]; [reflexivity|]. inversion Hnd; subst.
  destruct Hin as [->|Hin]; [congruence|]. apply IH; assumption.
Qed.

(* updating the controls with their own values and the targets with y = updating the targets *)
Lemma upd_self_app x cs ts y : NoDup cs -> disjoint cs ts -> upd x (cs ++ ts) (map x cs ++ y) = upd x ts y.
Proof.
  intros Hnd D. apply functional_extensionality; intro i. unfold upd.
  destruct (in_dec Nat.eq_dec i cs) as [Hin|Hnin].
  - rewrite lookup_app_l by (rewrite ?map_length; auto).
    rewrite lookup_map_self by assumption.
    rewrite lookup_notin; [reflexivity|]. intro Ht. exact (D i Hin Ht).
  - rewrite lookup_app_r by (rewrite ?map_length; auto). reflexivity.
Qed.

Lemma beqb_false r s : r <> s -> beqb r s = false.
Proof. intros N. destruct (beqb r s) eqn:E; [|reflexivity]. apply beqb_true in E. contradiction. Qed.

Lemma map_app_bits (x : asg) cs ts : map x (cs ++ ts) = map x cs ++ map x ts.
Proof. apply map_app. Qed.

(* sum over y of [a = y] f y, for a among the enumerated bit lists *)
Lemma delta_sum k (a : list bool) (f : list bool -> O) : length a = k ->
  ksum (map (fun y => if beqb a y then f y else kz) (all_bits k)) = f a.
Proof.
  intros H. rewrite <- (delta_collapse O Kring k a f H). apply ksum_map_ext. intros y _.
  destruct (beqb a y); ring.
Qed.

Theorem app_ctrl nc cv (U : mat) cs ts (psi : state) x :
  length cs = nc -> NoDup cs -> disjoint cs ts ->
  app (cmat nc cv U) (cs ++ ts) psi x =
  if Nat.eqb (idx (map x cs)) cv then app U ts psi x else psi x.
Proof.
  intros Hl Hnd D. unfold app. rewrite app_length, Hl, all_bits_add, ksum_flat_map, map_app_bits.
  assert (Lc : length (map x cs) = nc) by (rewrite map_length; exact Hl).
  (* only yc = map x cs contributes *)
  transitivity (ksum (map (fun yc => if beqb (map x cs) yc then
      ksum (map (fun b => cmat nc cv U (map x cs ++ map x ts) (yc ++ b) * psi (upd x (cs ++ ts) (yc ++ b)))
                (all_bits (length ts))) else kz) (all_bits nc))).
  { apply ksum_map_ext. intros yc Hyc. rewrite map_map.
    destruct (beqb (map x cs) yc) eqn:E; [reflexivity|].
    rewrite (ksum_map_ext _ (fun _ => kz)); [apply ksum_zero|].
    intros b _. unfold cmat. apply all_bits_length in Hyc.
    rewrite !firstn_app_len by assumption. rewrite E. ring. }
  rewrite (delta_sum nc (map x cs) _ Lc).
  destruct (Nat.eqb (idx (map x cs)) cv) eqn:Ev.
  - apply ksum_map_ext. intros b _. unfold cmat.
    rewrite !firstn_app_len, !skipn_app_len by assumption. rewrite beqb_refl, Ev.
    rewrite upd_self_app by assumption. reflexivity.
  - transitivity (ksum (map (fun b => if beqb (map x ts) b then psi (upd x ts b) else kz) (all_bits (length ts)))).
    { apply ksum_map_ext. intros b _. unfold cmat.
      rewrite !firstn_app_len, !skipn_app_len by assumption. rewrite beqb_refl, Ev.
      rewrite upd_self_app by assumption. destruct (beqb (map x ts) b); ring. }
    rewrite (delta_sum (length ts) (map x ts) (fun b => psi (upd x ts b))) by apply map_length.
    f_equal. apply functional_extensionality; intro i. unfold upd.
    destruct (lookup i ts (map x ts)) eqn:E; [|reflexivity].
    clear -E. revert E. induction ts as [|t ts IH]; simpl; [discriminate|].
    destruct (Nat.eqb_spec i t) as [->|N]; [intros [= <-]; reflexivity| exact IH].
Qed.
End S.
