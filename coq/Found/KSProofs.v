(* Soundness of the symbolic ring: evaluation into any commutative ring that contains a primitive
   32nd root of unity u (u^16 = -1), 1/2, and units z_j is a homomorphism for every KS operation. *)
From Coq Require Import Ring InitialRing Setoid Lia ZArith.
From QV Require Import Found.Base Found.Lemmas Found.Table Found.KS.

Fixpoint kpow {O : Ops} (a : O) (n : nat) : O := match n with 0%nat => k1 O | S n' => kmul O a (kpow a n') end.

Record PhaseRing := mkPR {
  PO :> Ops;
  PR_ring : ring_theory (k0 PO) (k1 PO) (kadd PO) (kmul PO) (ksub PO) (kopp PO) eq;
  gu : PO; gu16 : kpow gu 16 = kopp PO (k1 PO);
  ghf : PO; ghf2 : kmul PO (kadd PO (k1 PO) (k1 PO)) ghf = k1 PO;
  gz : nat -> PO; gzi : nat -> PO; gz_inv : forall j, kmul PO (gz j) (gzi j) = k1 PO }.

Section S.
Variable R : PhaseRing.
Notation kz := (k0 R). Notation ko := (k1 R).
Infix "+" := (kadd R). Infix "*" := (kmul R). Notation "- x" := (kopp R x).
Definition Rring := PR_ring R.
Add Ring Rr : Rring.
Notation ksum_app := (Lemmas.ksum_app R Rring).

Definition kofZ (c : Z) : R := gen_phiZ kz ko (kadd R) (kmul R) (kopp R) c.
Lemma kofZ_morph : ring_morph kz ko (kadd R) (kmul R) (ksub R) (kopp R) eq
                              0%Z 1%Z Z.add Z.mul Z.sub Z.opp Zeq_bool kofZ.
Proof. apply gen_phiZ_morph; [apply Eqsth | apply Eq_ext | apply Rring]. Qed.
Lemma kofZ_add a b : kofZ (a + b) = kofZ a + kofZ b. Proof. apply (morph_add kofZ_morph). Qed.
Lemma kofZ_mul a b : kofZ (a * b) = kofZ a * kofZ b. Proof. apply (morph_mul kofZ_morph). Qed.
Lemma kofZ_opp a : kofZ (- a) = - kofZ a. Proof. apply (morph_opp kofZ_morph). Qed.
Lemma kofZ_0 : kofZ 0 = kz. Proof. reflexivity. Qed.
Lemma kofZ_1 : kofZ 1 = ko. Proof. reflexivity. Qed.
Lemma kofZ_2 : kofZ 2 = ko + ko. Proof. change 2%Z with (1 + 1)%Z. rewrite kofZ_add. reflexivity. Qed.

Definition zpow (a ai : R) (e : Z) : R :=
  if (0 <=? e)%Z then kpow a (Z.to_nat e) else kpow ai (Z.to_nat (- e)).
Fixpoint evalz (l : list Z) (j : nat) : R :=
  match l with [] => ko | e :: l' => zpow (gz R j) (gzi R j) e * evalz l' (S j) end.
Definition evalt (t : term) : R :=
  kofZ (tc t) * kpow (ghf R) (th t) * kpow (gu R) (tu t) * evalz (tz t) 0.
Definition eval (p : poly) : R := ksum (map evalt p).

Lemma kpow_add (a : R) n m : kpow a (n + m) = kpow a n * kpow a m.
Proof. induction n; simpl; [ring| rewrite IHn; ring]. Qed.
Lemma kpow_1 n : kpow ko n = ko.
Proof. induction n; simpl; [reflexivity| rewrite IHn; ring]. Qed.
Lemma kpow_mul (a : R) n m : kpow a (n * m) = kpow (kpow a n) m.
Proof. induction m; simpl; [rewrite Nat.mul_0_r; reflexivity|].
  rewrite Nat.mul_succ_r, Nat.add_comm, kpow_add, IHm. reflexivity. Qed.

Lemma gu32 : kpow (gu R) 32 = ko.
Proof. change 32%nat with (16 + 16)%nat. rewrite kpow_add, (gu16 R). ring. Qed.
Lemma kpow_mod32 n : kpow (gu R) (n mod 32) = kpow (gu R) n.
Proof.
  rewrite (Nat.div_mod n 32) at 2 by lia. rewrite kpow_add, kpow_mul, gu32, kpow_1. ring.
Qed.

Lemma pow_diff (a ai : R) : a * ai = ko -> forall n m,
  kpow a n * kpow ai m = zpow a ai (Z.of_nat n - Z.of_nat m).
Proof.
  intros Hinv. induction n as [|n IH]; intros m.
  - unfold zpow. simpl Z.of_nat. destruct m as [|m].
    + simpl. ring.
    + replace (0 <=? 0 - Z.of_nat (S m))%Z with false by (symmetry; apply Z.leb_gt; lia).
      replace (Z.to_nat (- (0 - Z.of_nat (S m)))) with (S m) by lia. simpl. ring.
  - destruct m as [|m].
    + unfold zpow. replace (0 <=? Z.of_nat (S n) - Z.of_nat 0)%Z with true by (symmetry; apply Z.leb_le; lia).
      replace (Z.to_nat (Z.of_nat (S n) - Z.of_nat 0)) with (S n) by lia. simpl. ring.
    + replace (Z.of_nat (S n) - Z.of_nat (S m))%Z with (Z.of_nat n - Z.of_nat m)%Z by lia.
      rewrite <- IH. simpl.
      transitivity ((a * ai) * (kpow a n * kpow ai m)); [ring| rewrite Hinv; ring].
Qed.

Lemma zpow_split (a ai : R) e : exists n m, zpow a ai e = kpow a n * kpow ai m /\ (Z.of_nat n - Z.of_nat m = e)%Z.
Proof.
  unfold zpow. destruct (0 <=? e)%Z eqn:E.
  - apply Z.leb_le in E. exists (Z.to_nat e), 0%nat. split; [simpl; ring| lia].
  - apply Z.leb_gt in E. exists 0%nat, (Z.to_nat (- e)). split; [simpl; ring| lia].
Qed.

Lemma zpow_add (a ai : R) : a * ai = ko -> forall e1 e2, zpow a ai (e1 + e2) = zpow a ai e1 * zpow a ai e2.
Proof.
  intros Hinv e1 e2.
  destruct (zpow_split a ai e1) as [n1 [m1 [E1 H1]]]. destruct (zpow_split a ai e2) as [n2 [m2 [E2 H2]]].
  rewrite E1, E2.
  transitivity (kpow a (n1 + n2) * kpow ai (m1 + m2)); [| rewrite !kpow_add; ring].
  rewrite (pow_diff a ai Hinv). f_equal. lia.
Qed.
Lemma zpow_0 (a ai : R) : zpow a ai 0 = ko. Proof. reflexivity. Qed.

Lemma evalz_zadd a : forall b j, evalz (zadd a b) j = evalz a j * evalz b j.
Proof.
  induction a as [|x a IH]; intros b j; simpl; [ring|].
  destruct b as [|y b]; simpl; [ring|].
  rewrite IH, (zpow_add _ _ (gz_inv R j)). ring.
Qed.
Lemma evalz_all0 a : forall j, zall0 a = true -> evalz a j = ko.
Proof.
  induction a as [|x a IH]; intros j H; simpl in *; [reflexivity|].
  apply andb_prop in H. destruct H as [Hx Ha]. apply Z.eqb_eq in Hx. subst.
  rewrite IH by assumption. rewrite zpow_0. ring.
Qed.
Lemma evalz_zeq a : forall b j, zeq a b = true -> evalz a j = evalz b j.
Proof.
  induction a as [|x a IH]; intros b j H.
  - simpl in H. simpl. symmetry. apply evalz_all0. assumption.
  - destruct b as [|y b].
    + simpl in H. apply (evalz_all0 (x :: a) j). assumption.
    + simpl in H. apply andb_prop in H. destruct H as [Hx Ha]. apply Z.eqb_eq in Hx. subst.
      simpl. rewrite (IH b (S j) Ha). reflexivity.
Qed.

Lemma evalt_tmul a b : evalt (tmul a b) = evalt a * evalt b.
Proof.
  unfold evalt, tmul. cbn [tc th tu tz].
  rewrite kofZ_mul, kpow_add, kpow_mod32, kpow_add, evalz_zadd. ring.
Qed.

Lemma evalt_canon t : evalt (canon t) = evalt t.
Proof.
  unfold canon. destruct (16 <=? tu t mod 32)%nat eqn:E; unfold evalt; cbn [tc th tu tz].
  - apply Nat.leb_le in E. rewrite <- (kpow_mod32 (tu t)).
    replace (tu t mod 32)%nat with (16 + (tu t mod 32 - 16))%nat at 2 by lia.
    rewrite kpow_add, (gu16 R), kofZ_opp. ring.
  - rewrite kpow_mod32. reflexivity.
Qed.

Lemma two_hf d : kofZ (2 ^ Z.of_nat d) * kpow (ghf R) d = ko.
Proof.
  induction d as [|d IH].
  - simpl. ring.
  - rewrite Nat2Z.inj_succ, Z.pow_succ_r by lia. rewrite kofZ_mul, kofZ_2. simpl.
    transitivity (((ko + ko) * ghf R) * (kofZ (2 ^ Z.of_nat d) * kpow (ghf R) d)); [ring|].
    rewrite IH, (ghf2 R). ring.
Qed.

Lemma scale_hf c h H : (h <= H)%nat ->
  kofZ (c * 2 ^ Z.of_nat (H - h)) * kpow (ghf R) H = kofZ c * kpow (ghf R) h.
Proof.
  intros Hle. replace H with (h + (H - h))%nat at 2 by lia. rewrite kpow_add, kofZ_mul.
  transitivity (kofZ c * kpow (ghf R) h * (kofZ (2 ^ Z.of_nat (H - h)) * kpow (ghf R) (H - h))); [ring|].
  rewrite two_hf. ring.
Qed.

Lemma evalt_tcomb a b : samekey a b = true -> evalt (tcomb a b) = evalt a + evalt b.
Proof.
  unfold samekey. intros H. apply andb_prop in H. destruct H as [Hu Hz]. apply Nat.eqb_eq in Hu.
  unfold evalt, tcomb. cbn [tc th tu tz]. rewrite <- Hu, <- (evalz_zeq _ _ 0%nat Hz).
  rewrite kofZ_add.
  set (H := Nat.max (th a) (th b)).
  transitivity ((kofZ (tc a * 2 ^ Z.of_nat (H - th a)) * kpow (ghf R) H
               + kofZ (tc b * 2 ^ Z.of_nat (H - th b)) * kpow (ghf R) H) * kpow (gu R) (tu a) * evalz (tz a) 0).
  { ring. }
  rewrite !scale_hf by (unfold H; lia). ring.
Qed.

Lemma evalt_c0 t : tc t = 0%Z -> evalt t = kz.
Proof. intros H. unfold evalt. rewrite H. simpl. ring. Qed.

Lemma eval_cons t p : eval (t :: p) = evalt t + eval p. Proof. reflexivity. Qed.
Lemma eval_app p q : eval (p ++ q) = eval p + eval q.
Proof. unfold eval. rewrite map_app. apply ksum_app. Qed.

Lemma eval_insert t p : eval (insert t p) = evalt t + eval p.
Proof.
  induction p as [|s p IH]; cbn [insert]; cbv zeta.
  - destruct (tc t =? 0)%Z eqn:E.
    + apply Z.eqb_eq in E. rewrite (evalt_c0 t E). unfold eval; cbn [map ksum]; ring.
    + unfold eval; cbn [map ksum]; ring.
  - destruct (samekey t s) eqn:Ek.
    + destruct (tc (tcomb t s) =? 0)%Z eqn:E.
      * apply Z.eqb_eq in E. rewrite eval_cons. pose proof (evalt_tcomb t s Ek) as Hc.
        rewrite (evalt_c0 _ E) in Hc.
        transitivity (kz + eval p); [ring| rewrite Hc; ring].
      * rewrite !eval_cons, (evalt_tcomb t s Ek). ring.
    + rewrite !eval_cons, IH. ring.
Qed.

Lemma eval_pnorm p : eval (pnorm p) = eval p.
Proof.
  induction p as [|t p IH]; [reflexivity|]. unfold pnorm in *. simpl.
  rewrite eval_insert, IH, evalt_canon. reflexivity.
Qed.

Lemma eval_padd p q : eval (padd p q) = eval p + eval q.
Proof. unfold padd. rewrite eval_pnorm, eval_app. reflexivity. Qed.

Lemma eval_map_tmul a q : eval (map (tmul a) q) = evalt a * eval q.
Proof.
  induction q as [|b q IH]; [unfold eval; cbn [map ksum]; ring|].
  cbn [map]. rewrite !eval_cons, IH, evalt_tmul. ring.
Qed.
Lemma eval_pmul_raw p q : eval (pmul_raw p q) = eval p * eval q.
Proof.
  induction p as [|a p IH]; [unfold pmul_raw, eval; cbn [flat_map map ksum]; ring|].
  unfold pmul_raw in *. cbn [flat_map]. rewrite eval_app, IH, eval_map_tmul, eval_cons. ring.
Qed.
Lemma eval_pmul p q : eval (pmul p q) = eval p * eval q.
Proof. unfold pmul. rewrite eval_pnorm. apply eval_pmul_raw. Qed.
Lemma eval_popp p : eval (popp p) = - eval p.
Proof.
  induction p as [|a p IH]; [unfold popp, eval; cbn [map ksum]; ring|].
  unfold popp in *. cbn [map]. rewrite !eval_cons, IH. unfold evalt at 1. cbn [tc th tu tz]. rewrite kofZ_opp.
  unfold evalt. ring.
Qed.
Lemma eval_psub p q : eval (psub p q) = eval p + - eval q.
Proof. unfold psub. rewrite eval_padd, eval_popp. reflexivity. Qed.
Lemma eval_pzero : eval pzero = kz. Proof. reflexivity. Qed.
Lemma eval_pone : eval pone = ko.
Proof. unfold eval, pone, evalt; simpl. ring. Qed.

Lemma pis0_sound p : pis0 p = true -> eval p = kz.
Proof.
  unfold pis0. intros H. rewrite <- eval_pnorm. destruct (pnorm p); [reflexivity| discriminate].
Qed.
Theorem peqb_sound p q : peqb p q = true -> eval p = eval q.
Proof.
  unfold peqb. intros H. apply pis0_sound in H. rewrite eval_app, eval_popp in H.
  transitivity (eval p + - eval q + eval q); [ring| rewrite H; ring].
Qed.

(* constants *)
Lemma eval_pconst c : eval (pconst c) = kofZ c.
Proof. unfold eval, pconst, evalt; simpl. ring. Qed.
Lemma eval_pu e : eval (pu e) = kpow (gu R) e.
Proof. unfold eval, pu, evalt; cbn [map ksum tc th tu tz]. rewrite kpow_mod32. simpl. ring. Qed.
Lemma eval_phalf : eval phalf = ghf R.
Proof. unfold eval, phalf, evalt; simpl. ring. Qed.
Lemma evalz_zunit j e : forall s, evalz (zunit j e) s = zpow (gz R (s + j)) (gzi R (s + j)) e.
Proof.
  induction j as [|j IH]; intro s; simpl.
  - rewrite Nat.add_0_r. ring.
  - rewrite IH, zpow_0. replace (S s + j)%nat with (s + S j)%nat by lia. ring.
Qed.
Lemma eval_pz j e : eval (pz j e) = zpow (gz R j) (gzi R j) e.
Proof. unfold eval, pz, evalt; cbn [map ksum tc th tu tz]. rewrite evalz_zunit. simpl. ring. Qed.

(* ---- transport of table evaluation along eval ---- *)
Definition emat (M : mat POps) : mat R := fun r c => eval (M r c).
Definition ecirc (c : circ POps) : circ R := map (fun g => (emat (fst g), snd g)) c.

Lemma eval_ksum (l : list poly) : eval (@ksum POps l) = ksum (map eval l).
Proof. induction l as [|p l IH]; [reflexivity|].
  change (eval (padd p (@ksum POps l)) = eval p + ksum (map eval l)).
  rewrite eval_padd, IH. reflexivity. Qed.

Lemma eval_tget (tv : list poly) r : eval (@tget POps tv r) = @tget R (map eval tv) r.
Proof. unfold tget. change (k0 R) with (eval (k0 POps)). rewrite map_nth. reflexivity. Qed.

Lemma eval_tapp k (M : mat POps) ts (tv : list poly) :
  map eval (@tapp POps k M ts tv) = @tapp R k (emat M) ts (map eval tv).
Proof.
  unfold tapp. rewrite map_map. apply map_ext. intro r.
  rewrite eval_ksum, map_map. apply (Lemmas.ksum_map_ext R). intros y _.
  change (kmul POps ?a ?b) with (pmul a b). rewrite eval_pmul, eval_tget. reflexivity.
Qed.

Lemma eval_tsem k (c : circ POps) : forall tv, map eval (@tsem POps k c tv) = @tsem R k (ecirc c) (map eval tv).
Proof.
  induction c as [|g c IH]; intro tv; [reflexivity|].
  unfold tsem in *. simpl. rewrite IH, eval_tapp. reflexivity.
Qed.

Lemma eval_tdelta k col : map eval (@tdelta POps k col) = @tdelta R k col.
Proof.
  unfold tdelta. rewrite map_map. apply map_ext. intro r. unfold delta.
  destruct (beqb r col); [apply eval_pone| apply eval_pzero].
Qed.

Lemma eval_ttable k (c : circ POps) : map (map eval) (@ttable POps k c) = @ttable R k (ecirc c).
Proof.
  unfold ttable. rewrite map_map. apply map_ext. intro col. rewrite eval_tsem, eval_tdelta. reflexivity.
Qed.

Lemma list_eqb_sound {A B} (eqb : A -> A -> bool) (f : A -> B) :
  (forall x y, eqb x y = true -> f x = f y) -> forall a b, list_eqb eqb a b = true -> map f a = map f b.
Proof.
  intros H. induction a as [|x a IH]; intros [|y b] E; simpl in *; try discriminate; [reflexivity|].
  apply andb_prop in E. destruct E as [E1 E2]. rewrite (H x y E1), (IH b E2). reflexivity.
Qed.

Theorem table_eqb_sound (T1 T2 : list (list poly)) : table_eqb T1 T2 = true -> map (map eval) T1 = map (map eval) T2.
Proof.
  apply list_eqb_sound. intros x y. apply list_eqb_sound. apply peqb_sound.
Qed.

(* MAIN: a vm_compute-checkable condition on symbolic local circuits gives equality of the denoted
   circuits on every register, at every injective placement, in every phase ring *)
Theorem sym_lift k (c1 c2 : circ POps) ts :
  localb k c1 = true -> localb k c2 = true ->
  table_eqb (@ttable POps k c1) (@ttable POps k c2) = true ->
  NoDup ts -> length ts = k -> sem (place ts (ecirc c1)) = sem (place ts (ecirc c2)).
Proof.
  intros L1 L2 E Hnd Hlen.
  apply (Table.lift_local R Rring k); try assumption.
  - apply localb_local. unfold ecirc, localb in *. rewrite forallb_forall in *. intros g Hg.
    apply in_map_iff in Hg. destruct Hg as [g0 [<- Hg0]]. apply L1. assumption.
  - apply localb_local. unfold ecirc, localb in *. rewrite forallb_forall in *. intros g Hg.
    apply in_map_iff in Hg. destruct Hg as [g0 [<- Hg0]]. apply L2. assumption.
  - rewrite <- !eval_ttable. apply table_eqb_sound. assumption.
Qed.
End S.
