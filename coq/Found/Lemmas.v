(* Laws of gate application: composition, windows onto finite registers, placement. *)
From Coq Require Import FunctionalExtensionality Ring.
From QV Require Import Found.Base.

Section S.
Variable O : Ops.
Hypothesis Kring : ring_theory (k0 O) (k1 O) (kadd O) (kmul O) (ksub O) (kopp O) eq.
Add Ring Kr : Kring.
Notation kz := (k0 O). Notation ko := (k1 O).
Infix "+" := (kadd O). Infix "*" := (kmul O).
Notation state := (state O). Notation mat := (mat O). Notation circ := (circ O).

Lemma ksum_app (l1 l2 : list O) : ksum (l1 ++ l2) = ksum l1 + ksum l2.
Proof. induction l1; simpl; [ring| rewrite IHl1; ring]. Qed.

Lemma ksum_scale c (l : list O) : c * ksum l = ksum (map (fun a => c * a) l).
Proof. induction l; simpl; [ring| rewrite <- IHl; ring]. Qed.

Lemma ksum_scale_r c (l : list O) : ksum l * c = ksum (map (fun a => a * c) l).
Proof. induction l; simpl; [ring| rewrite <- IHl; ring]. Qed.

Lemma ksum_map_ext {A} (f g : A -> O) l : (forall a, In a l -> f a = g a) -> ksum (map f l) = ksum (map g l).
Proof. induction l; simpl; intros H; [reflexivity|]. rewrite H by auto. rewrite IHl; auto. Qed.

Lemma ksum_zero {A} (l : list A) : ksum (map (fun _ => kz) l) = kz.
Proof. induction l; simpl; [reflexivity| rewrite IHl; ring]. Qed.

Lemma ksum_add {A} (f g : A -> O) l : ksum (map (fun a => f a + g a) l) = ksum (map f l) + ksum (map g l).
Proof. induction l; simpl; [ring| rewrite IHl; ring]. Qed.

Lemma ksum_swap {A B} (f : A -> B -> O) la lb :
  ksum (map (fun a => ksum (map (fun b => f a b) lb)) la) =
  ksum (map (fun b => ksum (map (fun a => f a b) la)) lb).
Proof.
  induction la as [|a la IH]; simpl.
  - induction lb; simpl; [reflexivity| rewrite <- IHlb; ring].
  - rewrite IH. clear IH. induction lb as [|b lb IHb]; simpl; [ring|].
    rewrite <- IHb. ring.
Qed.

Lemma all_bits_length k y : In y (all_bits k) -> length y = k.
Proof.
  revert y; induction k; simpl; intros y H.
  - destruct H as [<-|[]]; reflexivity.
  - apply in_app_or in H. destruct H as [H|H]; apply in_map_iff in H; destruct H as [y' [<- H]]; simpl; f_equal; auto.
Qed.

Lemma all_bits_in y : In y (all_bits (length y)).
Proof.
  induction y as [|b y IH]; simpl; [auto|]. apply in_or_app.
  destruct b; [right|left]; apply in_map; exact IH.
Qed.


Lemma upd_upd x ts y z : length y = length ts -> length z = length ts ->
  upd (upd x ts y) ts z = upd x ts z.
Proof.
  intros Hy Hz. apply functional_extensionality; intro i. unfold upd.
  destruct (lookup i ts z) eqn:E; [reflexivity|].
  assert (H: lookup i ts y = None).
  { revert y z Hy Hz E. induction ts as [|t ts IH]; intros [|b y] [|c z] Hy Hz E; simpl in *; try lia; try reflexivity.
    destruct (Nat.eqb i t); [discriminate|]. eapply IH; eauto. }
  rewrite H. reflexivity.
Qed.

Lemma map_upd x ts y : NoDup ts -> length y = length ts -> map (upd x ts y) ts = y.
Proof.
  revert y; induction ts as [|t ts IH]; intros [|b y] Hnd Hy; simpl in *; try lia; try reflexivity.
  inversion Hnd as [|? ? Hnin Hnd']; subst.
  unfold upd at 1. simpl. rewrite Nat.eqb_refl. f_equal.
  transitivity (map (upd x ts y) ts); [|apply IH; auto; lia].
  apply map_ext_in. intros a Ha. unfold upd. simpl.
  destruct (Nat.eqb a t) eqn:E; [apply Nat.eqb_eq in E; subst; contradiction| reflexivity].
Qed.

Theorem app_mmul (A B : mat) ts (psi : state) : NoDup ts ->
  app (mmul (length ts) A B) ts psi = app A ts (app B ts psi).
Proof.
  intros Hnd. apply functional_extensionality; intro x. unfold app, mmul.
  transitivity (ksum (map (fun m => ksum (map (fun z => A (map x ts) m * B m z * psi (upd x ts z)) (all_bits (length ts)))) (all_bits (length ts)))).
  2:{ apply ksum_map_ext. intros m Hm. apply all_bits_length in Hm.
      rewrite map_upd by auto. rewrite ksum_scale, map_map.
      apply ksum_map_ext. intros z Hz. apply all_bits_length in Hz.
      rewrite upd_upd by auto. ring. }
  rewrite ksum_swap. apply ksum_map_ext. intros z Hz.
  set (p := psi (upd x ts z)).
  generalize (all_bits (length ts)). intro l. induction l; simpl; [ring| rewrite <- IHl; ring].
Qed.

Lemma app_scale c (M : mat) ts (psi : state) : app (mscale c M) ts psi = fun x => c * app M ts psi x.
Proof.
  apply functional_extensionality; intro x. unfold app, mscale. rewrite ksum_scale, map_map.
  apply ksum_map_ext. intros; ring.
Qed.

(* ---------------- windows onto a finite register ---------------- *)
Lemma lookup_some_in i ts y b : lookup i ts y = Some b -> In i ts.
Proof.
  revert y; induction ts as [|t ts IH]; intros [|c y]; simpl; try discriminate.
  destruct (Nat.eqb_spec i t); [auto| intros H; right; eauto].
Qed.

Lemma nth_map_seq {A} (f : nat -> A) k i d : i < k -> nth i (map f (seq 0 k)) d = f i.
Proof.
  intros H. rewrite (nth_indep _ d (f 0%nat)) by (rewrite map_length, seq_length; lia).
  rewrite (map_nth f (seq 0 k) 0%nat i). rewrite seq_nth by lia. reflexivity.
Qed.

Lemma overlay_upd k r x ts y : Forall (fun t => t < k) ts ->
  upd (overlay k r x) ts y = overlay k (lupd k r ts y) x.
Proof.
  intros Hts. apply functional_extensionality; intro i. unfold upd, overlay, lupd, lget.
  destruct (i <? k) eqn:E.
  - apply Nat.ltb_lt in E. rewrite nth_map_seq by assumption. reflexivity.
  - destruct (lookup i ts y) eqn:L; [|reflexivity].
    apply lookup_some_in in L. rewrite Forall_forall in Hts. apply Hts in L. apply Nat.ltb_ge in E. lia.
Qed.

Lemma overlay_map k r x ts : Forall (fun t => t < k) ts -> map (overlay k r x) ts = map (lget r) ts.
Proof.
  intros H. apply map_ext_in. intros a Ha. rewrite Forall_forall in H. specialize (H a Ha).
  unfold overlay. apply Nat.ltb_lt in H. rewrite H. reflexivity.
Qed.

Theorem app_window k (M : mat) ts (psi : state) x : Forall (fun t => t < k) ts ->
  (fun r => app M ts psi (overlay k r x)) = fapp k M ts (fun r' => psi (overlay k r' x)).
Proof.
  intros Hts. apply functional_extensionality; intro r. unfold app, fapp. rewrite overlay_map by assumption.
  apply ksum_map_ext. intros y _. rewrite overlay_upd by assumption. reflexivity.
Qed.

Theorem sem_window k (c : circ) : local k c ->
  forall psi x, (fun r => sem c psi (overlay k r x)) = fsem k c (fun r' => psi (overlay k r' x)).
Proof.
  induction c as [|g c IH]; intros Hc psi x; simpl; [reflexivity|].
  inversion Hc; subst. unfold sem, fsem in *. simpl. rewrite IH by assumption.
  rewrite app_window by assumption. reflexivity.
Qed.

Lemma overlay_self k x : overlay k (map x (seq 0 k)) x = x.
Proof.
  apply functional_extensionality; intro i. unfold overlay, lget.
  destruct (i <? k) eqn:E; [|reflexivity]. apply Nat.ltb_lt in E. apply nth_map_seq; assumption.
Qed.

(* equality on the finite register (for index lists of the right length) gives equality on every register *)
Theorem local_eq_global k (c1 c2 : circ) : local k c1 -> local k c2 ->
  (forall v r, length r = k -> fsem k c1 v r = fsem k c2 v r) -> sem c1 = sem c2.
Proof.
  intros H1 H2 H. apply functional_extensionality; intro psi. apply functional_extensionality; intro x.
  pose proof (sem_window k c1 H1 psi x) as E1. pose proof (sem_window k c2 H2 psi x) as E2.
  apply (f_equal (fun f => f (map x (seq 0 k)))) in E1.
  apply (f_equal (fun f => f (map x (seq 0 k)))) in E2.
  simpl in E1, E2. rewrite overlay_self in E1, E2. rewrite E1, E2.
  apply H. rewrite map_length, seq_length. reflexivity.
Qed.

(* ---------------- placement through an injective list ---------------- *)
Lemma lookup_notin i ts y : ~ In i ts -> lookup i ts y = None.
Proof.
  revert y; induction ts as [|t ts IH]; intros [|b y] H; simpl in *; auto.
  destruct (Nat.eqb_spec i t); [subst; tauto| apply IH; tauto].
Qed.

Lemma lookup_nth_seq_gen (f : nat -> bool) ts s j : NoDup ts -> j < length ts ->
  lookup (nth j ts 0%nat) ts (map f (seq s (length ts))) = Some (f (s + j)%nat).
Proof.
  revert s j; induction ts as [|t ts IH]; intros s j Hnd Hj; simpl in *; [lia|].
  inversion Hnd as [|? ? Hnin Hnd']; subst.
  destruct j as [|j].
  - rewrite Nat.eqb_refl. f_equal. f_equal. lia.
  - destruct (Nat.eqb_spec (nth j ts 0%nat) t) as [E|E].
    + exfalso. apply Hnin. rewrite <- E. apply nth_In. lia.
    + rewrite IH by (auto; lia). f_equal. f_equal. lia.
Qed.

Lemma lookup_nth_seq (f : nat -> bool) ts j : NoDup ts -> j < length ts ->
  lookup (pl ts j) ts (map f (seq 0 (length ts))) = Some (f j).
Proof. intros. unfold pl. rewrite lookup_nth_seq_gen by assumption. reflexivity. Qed.

Lemma lookup_pl ts sub y j : NoDup ts -> j < length ts -> Forall (fun t => t < length ts) sub ->
  lookup (pl ts j) (map (pl ts) sub) y = lookup j sub y.
Proof.
  intros Hnd Hj. revert y. induction sub as [|s sub IH]; intros [|b y] Hs; simpl; auto.
  inversion Hs; subst.
  destruct (Nat.eqb_spec j s) as [E|E].
  - subst. rewrite Nat.eqb_refl. reflexivity.
  - destruct (Nat.eqb_spec (pl ts j) (pl ts s)) as [E'|E'].
    + exfalso. apply E. unfold pl in E'.
      apply (proj1 (NoDup_nth ts 0%nat) Hnd) in E'; auto.
    + apply IH; assumption.
Qed.

Lemma in_nth_pl i ts : In i ts -> exists j, j < length ts /\ pl ts j = i.
Proof. intros H. destruct (In_nth ts i 0%nat H) as [j [Hj E]]. exists j; auto. Qed.

Lemma map_pl_in ts sub i : Forall (fun t => t < length ts) sub -> In i (map (pl ts) sub) -> In i ts.
Proof.
  intros Hs H. apply in_map_iff in H. destruct H as [s [<- Hin]].
  rewrite Forall_forall in Hs. apply nth_In. auto.
Qed.

Theorem window_app (M : mat) ts sub (psi : state) x : NoDup ts -> Forall (fun t => t < length ts) sub ->
  window ts (app M (map (pl ts) sub) psi) x = app M sub (window ts psi x).
Proof.
  intros Hnd Hs. apply functional_extensionality; intro x'. unfold window, app.
  rewrite map_length.
  set (X := upd x ts (map x' (seq 0 (length ts)))).
  assert (E1 : map X (map (pl ts) sub) = map x' sub).
  { rewrite map_map. apply map_ext_in. intros j Hj. rewrite Forall_forall in Hs. specialize (Hs j Hj).
    unfold X, upd. rewrite lookup_nth_seq by assumption. reflexivity. }
  rewrite E1. apply ksum_map_ext. intros y _. f_equal. f_equal.
  apply functional_extensionality; intro i. unfold X, upd.
  destruct (in_dec Nat.eq_dec i ts) as [Hin|Hnin].
  - destruct (in_nth_pl i ts Hin) as [j [Hj <-]].
    rewrite lookup_pl by assumption.
    rewrite (lookup_nth_seq (fun i0 => match lookup i0 sub y with Some b => b | None => x' i0 end)) by assumption.
    rewrite (lookup_nth_seq x') by assumption. reflexivity.
  - rewrite (lookup_notin i (map (pl ts) sub)).
    2:{ intro H. apply Hnin. eapply map_pl_in; eauto. }
    rewrite !(lookup_notin i ts) by assumption. reflexivity.
Qed.

Theorem window_sem ts (c : circ) : NoDup ts -> local (length ts) c ->
  forall psi x, window ts (sem (place ts c) psi) x = sem c (window ts psi x).
Proof.
  intros Hnd. induction c as [|g c IH]; intros Hc psi x; simpl; [reflexivity|].
  inversion Hc; subst. unfold sem in *. simpl. rewrite IH by assumption.
  rewrite window_app by assumption. reflexivity.
Qed.

Lemma window_pull ts (phi : state) x : NoDup ts -> window ts phi x (pull ts x) = phi x.
Proof.
  intros Hnd. unfold window. f_equal. apply functional_extensionality; intro i. unfold upd.
  destruct (in_dec Nat.eq_dec i ts) as [Hin|Hnin].
  - destruct (in_nth_pl i ts Hin) as [j [Hj <-]]. rewrite lookup_nth_seq by assumption. reflexivity.
  - rewrite lookup_notin by assumption. reflexivity.
Qed.

(* equal local semantics => equal semantics at every injective placement, in every register *)
Theorem lift_place ts (c1 c2 : circ) : NoDup ts -> local (length ts) c1 -> local (length ts) c2 ->
  sem c1 = sem c2 -> sem (place ts c1) = sem (place ts c2).
Proof.
  intros Hnd H1 H2 E. apply functional_extensionality; intro psi. apply functional_extensionality; intro x.
  rewrite <- (window_pull ts (sem (place ts c1) psi) x Hnd).
  rewrite <- (window_pull ts (sem (place ts c2) psi) x Hnd).
  rewrite !window_sem by assumption. rewrite E. reflexivity.
Qed.

Lemma sem_app (c1 c2 : circ) psi : sem (c1 ++ c2) psi = sem c2 (sem c1 psi).
Proof. unfold sem. apply fold_left_app. Qed.

Lemma place_app ts (c1 c2 : circ) : place ts (c1 ++ c2) = place ts c1 ++ place ts c2.
Proof. unfold place. apply map_app. Qed.

Lemma localb_local k (c : circ) : localb k c = true -> local k c.
Proof.
  unfold localb, local. rewrite forallb_forall, Forall_forall. intros H g Hg. specialize (H g Hg).
  rewrite forallb_forall in H. rewrite Forall_forall. intros t Ht. apply Nat.ltb_lt. auto.
Qed.
End S.
