(* Circuits of library gates with per-gate parameter values.
   A gate instance = a matrix expression (family over its own parameters Var 0..k-1), the qubits it acts on
   (controls ++ targets, in matrix-index order) and the number of the SOURCE gate whose parameter values it uses.
   Parameter values are supplied per source gate as [atoms]: arbitrary units z_j ("e^{i theta_j/4}") of the ring.
   All views [withA R A] share the operations of R, so gates with different parameter values live in one circuit. *)
From Coq Require Import FunctionalExtensionality.
From QV Require Export Found.Base Found.Lemmas Found.Table Found.KS Found.KSProofs Found.Sym Found.SymProofs.

Record atoms (R : PhaseRing) := mkAtoms {
  az : nat -> R; azi : nat -> R; a_inv : forall j, kmul R (az j) (azi j) = k1 R }.
Arguments az {R}. Arguments azi {R}. Arguments a_inv {R}.

Definition withA (R : PhaseRing) (A : atoms R) : PhaseRing :=
  mkPR (PO R) (PR_ring R) (gu R) (gu16 R) (ghf R) (ghf2 R) (az A) (azi A) (a_inv A).

Definition gden (R : PhaseRing) (A : atoms R) (g : sgate) : gate R := (emat (withA R A) (mmat (fst g)), snd g).

(* instance = (source index, symbolic gate) *)
Definition inst := (nat * sgate)%type.
Definition icirc := list inst.
Definition iden (R : PhaseRing) (env : nat -> atoms R) (c : icirc) : circ R :=
  map (fun ig => gden R (env (fst ig)) (snd ig)) c.

(* a checked local identity between two symbolic circuits over the same parameters holds for every ring,
   every parameter values and every injective placement *)
Theorem rule_sound (R : PhaseRing) (A : atoms R) k (c1 c2 : scirc) ts :
  scirc_eqb k c1 c2 = true -> NoDup ts -> length ts = k ->
  sem (place ts (map (gden R A) c1)) = sem (place ts (map (gden R A) c2)).
Proof.
  intros H Hnd Hlen. pose proof (scirc_eqb_sound (withA R A) k c1 c2 ts H Hnd Hlen) as E.
  unfold cden, ecirc, sden in E. rewrite !map_map in E. exact E.
Qed.

(* gate-wise rewriting: if every instance is replaced by a list with the same semantics, the circuit keeps its semantics *)
Lemma sem_flat_map (R : PhaseRing) {X} (f g : X -> circ R) (l : list X) :
  (forall x, In x l -> sem (f x) = sem (g x)) -> sem (flat_map f l) = sem (flat_map g l).
Proof.
  induction l as [|x l IH]; intros H; [reflexivity|]. simpl.
  apply functional_extensionality; intro psi. rewrite !(sem_app R). rewrite (H x (or_introl eq_refl)).
  rewrite IH; [reflexivity|]. intros y Hy. apply H. right. exact Hy.
Qed.

Lemma sem_single_flat (R : PhaseRing) (c : circ R) : flat_map (fun g => [g]) c = c.
Proof. induction c; simpl; congruence. Qed.

(* placing through the identity list [0..k-1] changes nothing *)
Lemma pl_seq (k j : nat) : (j < k)%nat -> pl (seq 0 k) j = j.
Proof. intros H. unfold pl. rewrite seq_nth by assumption. reflexivity. Qed.
