(* Gates on disjoint qubit lists commute. *)
From Coq Require Import FunctionalExtensionality Ring.
From QV Require Import Found.Base Found.Lemmas.

Section S.
Variable O : Ops.
Hypothesis Kring : ring_theory (k0 O) (k1 O) (kadd O) (kmul O) (ksub O) (kopp O) eq.
Add Ring Kr : Kring.
Infix "+" := (kadd O). Infix "*" := (kmul O).
Notation state := (state O). Notation mat := (mat O).
Notation ksum_scale := (Lemmas.ksum_scale O Kring). Notation ksum_swap := (Lemmas.ksum_swap O Kring).
Notation ksum_map_ext := (Lemmas.ksum_map_ext O).

Definition disjoint (a b : list nat) : Prop := forall i, In i a -> In i b -> False.

Lemma lookup_len_some i ts y : length y = length ts -> In i ts -> exists b, lookup i ts y = Some b.
Proof.
  revert y; induction ts as [|t ts IH]; intros [|c y] Hl Hin; simpl in *; try lia; try contradiction.
  destruct (Nat.eqb_spec i t); [eexists; reflexivity|].
  destruct Hin as [->|Hin]; [congruence|]. apply IH; [lia| exact Hin].
Qed.

Lemma upd_comm x ts1 y1 ts2 y2 : disjoint ts1 ts2 ->
  upd (upd x ts1 y1) ts2 y2 = upd (upd x ts2 y2) ts1 y1.
Proof.
  intros D. apply functional_extensionality; intro i. unfold upd.
  destruct (lookup i ts2 y2) eqn:E2; destruct (lookup i ts1 y1) eqn:E1; try reflexivity.
  exfalso. apply (D i); eapply lookup_some_in; eauto.
Qed.

Lemma map_upd_disjoint x ts1 ts2 y : disjoint ts1 ts2 -> map (upd x ts2 y) ts1 = map x ts1.
Proof.
  intros D. apply map_ext_in. intros i Hi. unfold upd.
  rewrite lookup_notin; [reflexivity|]. intro H. exact (D i Hi H).
Qed.

Theorem app_comm_disjoint (A B : mat) ts1 ts2 (psi : state) : disjoint ts1 ts2 ->
  app A ts1 (app B ts2 psi) = app B ts2 (app A ts1 psi).
Proof.
  intros D. apply functional_extensionality; intro x. unfold app.
  transitivity (ksum (map (fun y1 => ksum (map (fun y2 =>
      A (map x ts1) y1 * (B (map x ts2) y2 * psi (upd (upd x ts1 y1) ts2 y2))) (all_bits (length ts2))))
      (all_bits (length ts1)))).
  { apply ksum_map_ext. intros y1 _. rewrite ksum_scale, map_map. apply ksum_map_ext. intros y2 _.
    rewrite (map_upd_disjoint x ts2 ts1 y1) by (intros i H1 H2; exact (D i H2 H1)). reflexivity. }
  rewrite ksum_swap. apply ksum_map_ext. intros y2 _. rewrite ksum_scale, map_map.
  apply ksum_map_ext. intros y1 _.
  rewrite (map_upd_disjoint x ts1 ts2 y2) by exact D.
  rewrite (upd_comm x ts1 y1 ts2 y2 D). ring.
Qed.
End S.
