(* The complex numbers (Coquelicot's C = R * R) as an instance of the abstract foundation: an [Ops],
   a [PhaseRing] and a [ConjRing] for EVERY assignment of real values to the gate parameters, and the
   analytic denotation [cden] of the expression language of Sym.v, with the soundness theorem
   [topoly_sound]: whenever the symbolic translation succeeds, the polynomial evaluates to the
   real/complex-analytic meaning of the expression. *)
From Coq Require Import Reals Lra Lia ZArith QArith Qreals Ring Field.
From Coquelicot Require Import Coquelicot.
From QV Require Import Found.Base Found.Lemmas Found.Table Found.KS Found.KSProofs Found.Sym Found.Conj.
Local Open Scope R_scope.

(* ---------------------------------------------------------------------------------------------- *)
(* (a) operations and ring laws                                                                    *)
Definition Cops : Ops := mkOps C (RtoC 0) (RtoC 1) Cplus Cmult Cminus Copp.
Lemma Cops_ring : ring_theory (k0 Cops) (k1 Cops) (kadd Cops) (kmul Cops) (ksub Cops) (kopp Cops) eq.
Proof. exact C_ring_theory. Qed.

Lemma Ceq (a b : C) : fst a = fst b -> snd a = snd b -> a = b.
Proof. destruct a, b; simpl; intros -> ->; reflexivity. Qed.

(* ---------------------------------------------------------------------------------------------- *)
(* (b) cis                                                                                         *)
Definition cis (x : R) : C := (cos x, sin x).

Lemma cis_add x y : cis (x + y) = Cmult (cis x) (cis y).
Proof. unfold cis, Cmult; simpl. rewrite cos_plus, sin_plus. f_equal; ring. Qed.
Lemma cis_0 : cis 0 = RtoC 1.
Proof. unfold cis. rewrite cos_0, sin_0. reflexivity. Qed.
Lemma cis_conj x : Cconj (cis x) = cis (- x).
Proof. unfold cis, Cconj; simpl. rewrite cos_neg, sin_neg. reflexivity. Qed.
Lemma cis_neg x : cis (- x) = Cconj (cis x).
Proof. symmetry; apply cis_conj. Qed.
Lemma cis_inv x : Cmult (cis x) (cis (- x)) = RtoC 1.
Proof. rewrite <- cis_add, Rplus_opp_r. apply cis_0. Qed.
Lemma cis_PI : cis PI = Copp (RtoC 1).
Proof. unfold cis, Copp, RtoC; simpl. rewrite cos_PI, sin_PI. f_equal; ring. Qed.
Lemma cis_PI2 : cis (PI / 2) = Ci.
Proof. unfold cis, Ci. rewrite cos_PI2, sin_PI2. reflexivity. Qed.
Lemma cis_2PI : cis (2 * PI) = RtoC 1.
Proof. unfold cis. rewrite cos_2PI, sin_2PI. reflexivity. Qed.
Lemma cis_kpow x n : cis (INR n * x) = @kpow Cops (cis x) n.
Proof.
  induction n as [|n IH].
  - simpl. rewrite Rmult_0_l. apply cis_0.
  - rewrite S_INR. replace ((INR n + 1) * x) with (x + INR n * x) by ring.
    rewrite cis_add, IH. reflexivity.
Qed.
Lemma kpowC_1 n : @kpow Cops (RtoC 1) n = RtoC 1.
Proof. induction n as [|n IH]; simpl; [reflexivity| rewrite IH; apply Cmult_1_l]. Qed.
Lemma cis_2kPI (k : Z) : cis (IZR k * (2 * PI)) = RtoC 1.
Proof.
  assert (Hn : forall n, cis (INR n * (2 * PI)) = RtoC 1).
  { intro n. rewrite cis_kpow, cis_2PI. apply kpowC_1. }
  destruct (Z_le_gt_dec 0 k) as [Hk|Hk].
  - rewrite <- (Z2Nat.id k Hk), <- INR_IZR_INZ. apply Hn.
  - replace (IZR k) with (- IZR (- k)) by (rewrite opp_IZR; ring).
    rewrite <- (Z2Nat.id (- k)) by lia. rewrite <- INR_IZR_INZ, Ropp_mult_distr_l_reverse, cis_neg, Hn.
    unfold Cconj, RtoC; simpl. f_equal; ring.
Qed.
Lemma cis_period x (k : Z) : cis (x + IZR k * (2 * PI)) = cis x.
Proof. rewrite cis_add, cis_2kPI. apply Cmult_1_r. Qed.

(* ---------------------------------------------------------------------------------------------- *)
(* (c) the phase ring and the conjugation ring of C at a parameter assignment                       *)
Definition atom_ang (th : nat -> R) (k : nat) : R :=
  if Nat.even k then th (Nat.div2 k) / 4 else PI * th (Nat.div2 k) / 4.
Lemma atom_ang_even th j : atom_ang th (2 * j) = th j / 4.
Proof.
  unfold atom_ang. rewrite Nat.even_mul, Nat.div2_double. reflexivity.
Qed.
Lemma atom_ang_odd th j : atom_ang th (2 * j + 1) = PI * th j / 4.
Proof.
  unfold atom_ang. replace (2 * j + 1)%nat with (S (2 * j)) by lia.
  rewrite Nat.even_succ, Nat.odd_mul, Nat.div2_succ_double. reflexivity.
Qed.

Lemma gu16_C : @kpow Cops (cis (PI / 16)) 16 = kopp Cops (k1 Cops).
Proof.
  rewrite <- cis_kpow. replace (INR 16 * (PI / 16)) with PI by (simpl; field). apply cis_PI.
Qed.
Lemma ghf2_C : kmul Cops (kadd Cops (k1 Cops) (k1 Cops)) (RtoC (/ 2)) = k1 Cops.
Proof. apply Ceq; simpl; field. Qed.

Definition PR_C (th : nat -> R) : PhaseRing :=
  mkPR Cops Cops_ring (cis (PI / 16)) gu16_C (RtoC (/ 2)) ghf2_C
       (fun k => cis (atom_ang th k)) (fun k => cis (- atom_ang th k)) (fun k => cis_inv (atom_ang th k)).

Lemma PR_C_gu th : gu (PR_C th) = cis (PI / 16). Proof. reflexivity. Qed.
Lemma PR_C_ghf th : ghf (PR_C th) = RtoC (/ 2). Proof. reflexivity. Qed.
Lemma PR_C_gz_even th j : gz (PR_C th) (2 * j) = cis (th j / 4).
Proof. cbn [gz PR_C]. rewrite atom_ang_even. reflexivity. Qed.
Lemma PR_C_gz_odd th j : gz (PR_C th) (2 * j + 1) = cis (PI * th j / 4).
Proof. cbn [gz PR_C]. rewrite atom_ang_odd. reflexivity. Qed.
Lemma PR_C_gzi_even th j : gzi (PR_C th) (2 * j) = cis (- (th j / 4)).
Proof. cbn [gzi PR_C]. rewrite atom_ang_even. reflexivity. Qed.
Lemma PR_C_gzi_odd th j : gzi (PR_C th) (2 * j + 1) = cis (- (PI * th j / 4)).
Proof. cbn [gzi PR_C]. rewrite atom_ang_odd. reflexivity. Qed.

Lemma Cconj_add a b : Cconj (Cplus a b) = Cplus (Cconj a) (Cconj b).
Proof. apply Ceq; simpl; ring. Qed.
Lemma Cconj_mul a b : Cconj (Cmult a b) = Cmult (Cconj a) (Cconj b).
Proof. apply Ceq; simpl; ring. Qed.
Lemma Cconj_opp a : Cconj (Copp a) = Copp (Cconj a).
Proof. apply Ceq; simpl; ring. Qed.
Lemma Cconj_R x : Cconj (RtoC x) = RtoC x.
Proof. apply Ceq; simpl; ring. Qed.
Lemma Cconj_u : Cconj (cis (PI / 16)) = @kpow Cops (cis (PI / 16)) 31.
Proof.
  rewrite <- cis_kpow, cis_conj.
  replace (INR 31 * (PI / 16)) with (- (PI / 16) + IZR 1 * (2 * PI)) by (simpl; field).
  rewrite cis_period. reflexivity.
Qed.
Lemma Cconj_cis_neg x : Cconj (cis (- x)) = cis x.
Proof. rewrite cis_conj, Ropp_involutive. reflexivity. Qed.

Definition CR_C (th : nat -> R) : ConjRing :=
  mkCR (PR_C th) Cconj Cconj_add Cconj_mul Cconj_opp (Cconj_R 1) Cconj_u (Cconj_R (/ 2))
       (fun k => cis_conj (atom_ang th k)) (fun k => Cconj_cis_neg (atom_ang th k)).
