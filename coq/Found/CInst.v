(* The complex numbers (Coquelicot's C = R * R) as an instance of the abstract foundation: an [Ops],
   a [PhaseRing] and a [ConjRing] for EVERY assignment of real values to the gate parameters, and the
   analytic denotation [cden] of the expression language of Sym.v, with the soundness theorem
   [topoly_sound]: whenever the symbolic translation succeeds, the polynomial evaluates to the
   real/complex-analytic meaning of the expression. *)
From Coq Require Import Reals Lra Lia ZArith QArith Qreals Ring Field.
From Coquelicot Require Import Coquelicot.
From QV Require Import Found.Base Found.Lemmas Found.Table Found.KS Found.KSProofs Found.Sym Found.Conj.
Local Open Scope R_scope.

(* ---------------------------------------------------------------------------------------------- *)
(* (a) operations and ring laws                                                                    *)
Definition Cops : Ops := mkOps C (RtoC 0) (RtoC 1) Cplus Cmult Cminus Copp.
Lemma Cops_ring : ring_theory (k0 Cops) (k1 Cops) (kadd Cops) (kmul Cops) (ksub Cops) (kopp Cops) eq.
Proof. exact C_ring_theory. Qed.

Lemma Ceq (a b : C) : fst a = fst b -> snd a = snd b -> a = b.
Proof. destruct a, b; simpl; intros -> ->; reflexivity. Qed.

(* ---------------------------------------------------------------------------------------------- *)
(* (b) cis                                                                                         *)
Definition cis (x : R) : C := (cos x, sin x).

Lemma cis_add x y : cis (x + y) = Cmult (cis x) (cis y).
Proof. unfold cis, Cmult; simpl. rewrite cos_plus, sin_plus. f_equal; ring. Qed.
Lemma cis_0 : cis 0 = RtoC 1.
Proof. unfold cis. rewrite cos_0, sin_0. reflexivity. Qed.
Lemma cis_conj x : Cconj (cis x) = cis (- x).
Proof. unfold cis, Cconj; simpl. rewrite cos_neg, sin_neg. reflexivity. Qed.
Lemma cis_neg x : cis (- x) = Cconj (cis x).
Proof. symmetry; apply cis_conj. Qed.
Lemma cis_inv x : Cmult (cis x) (cis (- x)) = RtoC 1.
Proof. rewrite <- cis_add, Rplus_opp_r. apply cis_0. Qed.
Lemma cis_PI : cis PI = Copp (RtoC 1).
Proof. unfold cis, Copp, RtoC; simpl. rewrite cos_PI, sin_PI. f_equal; ring. Qed.
Lemma cis_PI2 : cis (PI / 2) = Ci.
Proof. unfold cis, Ci. rewrite cos_PI2, sin_PI2. reflexivity. Qed.
Lemma cis_2PI : cis (2 * PI) = RtoC 1.
Proof. unfold cis. rewrite cos_2PI, sin_2PI. reflexivity. Qed.
Lemma cis_kpow x n : cis (INR n * x) = @kpow Cops (cis x) n.
Proof.
  induction n as [|n IH].
  - simpl. rewrite Rmult_0_l. apply cis_0.
  - rewrite S_INR. replace ((INR n + 1) * x) with (x + INR n * x) by ring.
    rewrite cis_add, IH. reflexivity.
Qed.
Lemma kpowC_1 n : @kpow Cops (RtoC 1) n = RtoC 1.
Proof. induction n as [|n IH]; simpl; [reflexivity| rewrite IH; apply Cmult_1_l]. Qed.
Lemma cis_2kPI (k : Z) : cis (IZR k * (2 * PI)) = RtoC 1.
Proof.
  assert (Hn : forall n, cis (INR n * (2 * PI)) = RtoC 1).
  { intro n. rewrite cis_kpow, cis_2PI. apply kpowC_1. }
  destruct (Z_le_gt_dec 0 k) as [Hk|Hk].
  - rewrite <- (Z2Nat.id k Hk), <- INR_IZR_INZ. apply Hn.
  - replace (IZR k) with (- IZR (- k)) by (rewrite opp_IZR; ring).
    rewrite <- (Z2Nat.id (- k)) by lia. rewrite <- INR_IZR_INZ, Ropp_mult_distr_l_reverse, cis_neg, Hn.
    unfold Cconj, RtoC; simpl. f_equal; ring.
Qed.
Lemma cis_period x (k : Z) : cis (x + IZR k * (2 * PI)) = cis x.
Proof. rewrite cis_add, cis_2kPI. apply Cmult_1_r. Qed.

(* ---------------------------------------------------------------------------------------------- *)
(* (c) the phase ring and the conjugation ring of C at a parameter assignment                       *)
Definition atom_ang (th : nat -> R) (k : nat) : R :=
  if Nat.even k then th (Nat.div2 k) / 4 else PI * th (Nat.div2 k) / 4.
Lemma atom_ang_even th j : atom_ang th (2 * j) = th j / 4.
Proof.
  unfold atom_ang. rewrite Nat.even_mul, Nat.div2_double. reflexivity.
Qed.
Lemma atom_ang_odd th j : atom_ang th (2 * j + 1) = PI * th j / 4.
Proof.
  unfold atom_ang. replace (2 * j + 1)%nat with (S (2 * j)) by lia.
  rewrite Nat.even_succ, Nat.odd_mul, Nat.div2_succ_double. reflexivity.
Qed.

Lemma gu16_C : @kpow Cops (cis (PI / 16)) 16 = kopp Cops (k1 Cops).
Proof.
  rewrite <- cis_kpow. replace (INR 16 * (PI / 16)) with PI by (simpl; field). apply cis_PI.
Qed.
Lemma ghf2_C : kmul Cops (kadd Cops (k1 Cops) (k1 Cops)) (RtoC (/ 2)) = k1 Cops.
Proof. apply Ceq; simpl; field. Qed.

Definition PR_C (th : nat -> R) : PhaseRing :=
  mkPR Cops Cops_ring (cis (PI / 16)) gu16_C (RtoC (/ 2)) ghf2_C
       (fun k => cis (atom_ang th k)) (fun k => cis (- atom_ang th k)) (fun k => cis_inv (atom_ang th k)).

Lemma PR_C_gu th : gu (PR_C th) = cis (PI / 16). Proof. reflexivity. Qed.
Lemma PR_C_ghf th : ghf (PR_C th) = RtoC (/ 2). Proof. reflexivity. Qed.
Lemma PR_C_gz_even th j : gz (PR_C th) (2 * j) = cis (th j / 4).
Proof. cbn [gz PR_C]. rewrite atom_ang_even. reflexivity. Qed.
Lemma PR_C_gz_odd th j : gz (PR_C th) (2 * j + 1) = cis (PI * th j / 4).
Proof. cbn [gz PR_C]. rewrite atom_ang_odd. reflexivity. Qed.
Lemma PR_C_gzi_even th j : gzi (PR_C th) (2 * j) = cis (- (th j / 4)).
Proof. cbn [gzi PR_C]. rewrite atom_ang_even. reflexivity. Qed.
Lemma PR_C_gzi_odd th j : gzi (PR_C th) (2 * j + 1) = cis (- (PI * th j / 4)).
Proof. cbn [gzi PR_C]. rewrite atom_ang_odd. reflexivity. Qed.

Lemma Cconj_add a b : Cconj (Cplus a b) = Cplus (Cconj a) (Cconj b).
Proof. apply Ceq; simpl; ring. Qed.
Lemma Cconj_mul a b : Cconj (Cmult a b) = Cmult (Cconj a) (Cconj b).
Proof. apply Ceq; simpl; ring. Qed.
Lemma Cconj_opp a : Cconj (Copp a) = Copp (Cconj a).
Proof. apply Ceq; simpl; ring. Qed.
Lemma Cconj_R x : Cconj (RtoC x) = RtoC x.
Proof. apply Ceq; simpl; ring. Qed.
Lemma Cconj_u : Cconj (cis (PI / 16)) = @kpow Cops (cis (PI / 16)) 31.
Proof.
  rewrite <- cis_kpow, cis_conj.
  replace (INR 31 * (PI / 16)) with (- (PI / 16) + IZR 1 * (2 * PI)) by (simpl; field).
  rewrite cis_period. reflexivity.
Qed.
Lemma Cconj_cis_neg x : Cconj (cis (- x)) = cis x.
Proof. rewrite cis_conj, Ropp_involutive. reflexivity. Qed.

Definition CR_C (th : nat -> R) : ConjRing :=
  mkCR (PR_C th) Cconj Cconj_add Cconj_mul Cconj_opp (Cconj_R 1) Cconj_u (Cconj_R (/ 2))
       (fun k => cis_conj (atom_ang th k)) (fun k => Cconj_cis_neg (atom_ang th k)).

(* ---------------------------------------------------------------------------------------------- *)
(* (d) analytic denotation of the scalar expression language                                       *)
Definition Cexp (z : C) : C := Cmult (RtoC (exp (Re z))) (cis (Im z)).

Fixpoint cden (th : nat -> R) (e : ex) : C :=
  match e with
  | Num q => RtoC (Q2R q)
  | Imag q => Cmult Ci (RtoC (Q2R q))
  | Pi => RtoC PI
  | Var j => RtoC (th j)
  | Add a b => Cplus (cden th a) (cden th b)
  | Sub a b => Cminus (cden th a) (cden th b)
  | Mul a b => Cmult (cden th a) (cden th b)
  | Div a b => Cdiv (cden th a) (cden th b)
  | Neg a => Copp (cden th a)
  | Cos a => RtoC (cos (Re (cden th a)))
  | Sin a => RtoC (sin (Re (cden th a)))
  | Exp a => Cexp (cden th a)
  | Sqrt a => RtoC (sqrt (Re (cden th a)))
  end.

Ltac ctype := match goal with |- @eq _ ?a ?b => change (@eq C a b) end.
Ltac csolve := apply Ceq; cbn [fst snd Cmult Cplus Cminus Copp RtoC Ci Cconj cis Re Im]; ring.

Lemma Q2R_m1 : Q2R (-1) = -1. Proof. unfold Q2R; simpl; lra. Qed.
Lemma Q2R_2 : Q2R 2 = 2. Proof. unfold Q2R; simpl; lra. Qed.
Lemma Q2R_4 : Q2R 4 = 4. Proof. unfold Q2R; simpl; lra. Qed.
Lemma Q2R_16 : Q2R 16 = 16. Proof. unfold Q2R; simpl; lra. Qed.
Lemma Qeqb0 q : Qeq_bool q 0 = true -> Q2R q = 0.
Proof. intro H. rewrite (RMicromega.Qeq_true _ _ H). apply RMicromega.Q2R_0. Qed.

(* --- linear forms --- *)
Fixpoint qdot (l : list Q) (th : nat -> R) (j : nat) : R :=
  match l with [] => 0 | q :: l' => Q2R q * th j + qdot l' th (S j) end.
Definition lreal (th : nat -> R) (f : lin) : R :=
  Q2R (lc f) + Q2R (lpi f) * PI + qdot (lv f) th 0 + PI * qdot (lpv f) th 0.
Definition imunit (b : bool) : C := if b then Ci else RtoC 1.
Definition lden (th : nat -> R) (f : lin) : C := Cmult (imunit (lim f)) (RtoC (lreal th f)).

Section Lin.
Variable tv : nat -> R.

Lemma qdot_map_lin (g : Q -> Q) s : (forall q, Q2R (g q) = s * Q2R q) ->
  forall l j, qdot (map g l) tv j = s * qdot l tv j.
Proof. intros Hg. induction l as [|q l IH]; intro j; simpl; [ring| rewrite IH, Hg; ring]. Qed.

Lemma qdot_qzip_plus a : forall b j, qdot (qzip Qplus a b) tv j = qdot a tv j + qdot b tv j.
Proof.
  induction a as [|x a IH]; intros b j.
  - cbn [qzip]. rewrite (qdot_map_lin (Qplus 0) 1).
    + simpl; ring.
    + intro q. rewrite Q2R_plus, RMicromega.Q2R_0. ring.
  - destruct b as [|y b].
    + cbn [qzip]. rewrite (qdot_map_lin (fun x => (x + 0)%Q) 1).
      * simpl; ring.
      * intro q. rewrite Q2R_plus, RMicromega.Q2R_0. ring.
    + cbn [qzip qdot]. rewrite IH, Q2R_plus. ring.
Qed.
Lemma qdot_qzip_minus a : forall b j, qdot (qzip Qminus a b) tv j = qdot a tv j - qdot b tv j.
Proof.
  induction a as [|x a IH]; intros b j.
  - cbn [qzip]. rewrite (qdot_map_lin (Qminus 0) (-1)).
    + simpl; ring.
    + intro q. rewrite Q2R_minus, RMicromega.Q2R_0. ring.
  - destruct b as [|y b].
    + cbn [qzip]. rewrite (qdot_map_lin (fun x => (x - 0)%Q) 1).
      * simpl; ring.
      * intro q. rewrite Q2R_minus, RMicromega.Q2R_0. ring.
    + cbn [qzip qdot]. rewrite IH, Q2R_minus. ring.
Qed.
Lemma qdot_scale s l j : qdot (map (Qmult s) l) tv j = Q2R s * qdot l tv j.
Proof. apply qdot_map_lin. intro q. apply Q2R_mult. Qed.
Lemma qdot_qunit j : forall s, qdot (qunit j) tv s = tv (s + j)%nat.
Proof.
  induction j as [|j IH]; intro s; simpl.
  - rewrite RMicromega.Q2R_1, Nat.add_0_r. ring.
  - rewrite IH, RMicromega.Q2R_0. replace (S s + j)%nat with (s + S j)%nat by lia. ring.
Qed.
Lemma qdot_all0 l : qall0 l = true -> forall j, qdot l tv j = 0.
Proof.
  unfold qall0. induction l as [|q l IH]; intros H j; simpl in *; [reflexivity|].
  apply andb_prop in H. destruct H as [Hq Hl]. rewrite (Qeqb0 q Hq), IH by assumption. ring.
Qed.

Lemma lconst_real f : lconst f = true -> lreal tv f = Q2R (lc f).
Proof.
  unfold lconst, lreal. intro H. apply andb_prop in H. destruct H as [H H3]. apply andb_prop in H. destruct H as [H1 H2].
  rewrite (Qeqb0 _ H1), !qdot_all0 by assumption. ring.
Qed.
Lemma lpionly_real f : lpionly f = true -> lreal tv f = Q2R (lpi f) * PI.
Proof.
  unfold lpionly, lreal. intro H. apply andb_prop in H. destruct H as [H H3]. apply andb_prop in H. destruct H as [H1 H2].
  rewrite (Qeqb0 _ H1), !qdot_all0 by assumption. ring.
Qed.
Lemma lvaronly_real f : lvaronly f = true -> lreal tv f = qdot (lv f) tv 0.
Proof.
  unfold lvaronly, lreal. intro H. apply andb_prop in H. destruct H as [H H3]. apply andb_prop in H. destruct H as [H1 H2].
  rewrite (Qeqb0 _ H1), (Qeqb0 _ H2), (qdot_all0 _ H3). ring.
Qed.
Lemma lreal_lscale s f : lreal tv (lscale s f) = Q2R s * lreal tv f.
Proof. unfold lreal, lscale. cbn [lc lpi lv lpv]. rewrite !Q2R_mult, !qdot_scale. ring. Qed.
Lemma lreal_lset_im b f : lreal tv (lset_im b f) = lreal tv f. Proof. reflexivity. Qed.

Lemma imunit_mul a b :
  Cmult (imunit a) (imunit b) = Cmult (RtoC (Q2R (if a && b then (-1)%Q else 1%Q))) (imunit (xorb a b)).
Proof. destruct a, b; cbn [andb xorb imunit]; rewrite ?Q2R_m1, ?RMicromega.Q2R_1; csolve. Qed.

Lemma lden_mul_const f g (s := if lim f && lim g then (-1)%Q else 1%Q) : lconst f = true ->
  Cmult (lden tv f) (lden tv g) = lden tv (lset_im (xorb (lim f) (lim g)) (lscale (s * lc f) g)).
Proof.
  intro H. unfold lden. cbn [lim lset_im]. rewrite lreal_lset_im, lreal_lscale, (lconst_real f H), Q2R_mult.
  transitivity (Cmult (Cmult (imunit (lim f)) (imunit (lim g))) (RtoC (Q2R (lc f) * lreal tv g))).
  - csolve.
  - rewrite imunit_mul. fold s. csolve.
Qed.
Lemma lden_mul_pivar f g (s := if lim f && lim g then (-1)%Q else 1%Q) : lpionly f = true -> lvaronly g = true ->
  Cmult (lden tv f) (lden tv g) = lden tv (L (xorb (lim f) (lim g)) 0 0 [] (map (Qmult (s * lpi f)) (lv g))).
Proof.
  intros Hf Hg. unfold lden. cbn [lim]. rewrite (lpionly_real f Hf), (lvaronly_real g Hg).
  unfold lreal at 1. cbn [lc lpi lv lpv qdot]. rewrite qdot_scale, Q2R_mult, RMicromega.Q2R_0.
  transitivity (Cmult (Cmult (imunit (lim f)) (imunit (lim g))) (RtoC (Q2R (lpi f) * PI * qdot (lv g) tv 0))).
  - csolve.
  - rewrite imunit_mul. fold s. csolve.
Qed.

Theorem linof_sound e : forall f, linof e = Some f -> cden tv e = lden tv f.
Proof.
  induction e as [q|q| |j|a IHa b IHb|a IHa b IHb|a IHa b IHb|a IHa b IHb|a IHa|a _|a _|a _|a _];
    intros f H; cbn [linof] in H; try discriminate.
  - injection H as <-. unfold lden, lreal; cbn [lim lc lpi lv lpv qdot imunit cden]. rewrite RMicromega.Q2R_0. csolve.
  - injection H as <-. unfold lden, lreal; cbn [lim lc lpi lv lpv qdot imunit cden]. rewrite RMicromega.Q2R_0. csolve.
  - injection H as <-. unfold lden, lreal; cbn [lim lc lpi lv lpv qdot imunit cden].
    rewrite RMicromega.Q2R_0, RMicromega.Q2R_1. csolve.
  - injection H as <-. unfold lden, lreal; cbn [lim lc lpi lv lpv imunit cden]. rewrite qdot_qunit, Nat.add_0_l.
    cbn [qdot]. rewrite RMicromega.Q2R_0. csolve.
  - destruct (linof a) as [fa|]; [|discriminate]. destruct (linof b) as [fb|]; [|discriminate].
    destruct (Bool.eqb (lim fa) (lim fb)) eqn:Eb; [|discriminate]. injection H as <-.
    apply eqb_prop in Eb. cbn [cden]. rewrite (IHa _ eq_refl), (IHb _ eq_refl).
    unfold lden, lreal; cbn [lim lc lpi lv lpv]. rewrite <- Eb, !Q2R_plus, !qdot_qzip_plus. csolve.
  - destruct (linof a) as [fa|]; [|discriminate]. destruct (linof b) as [fb|]; [|discriminate].
    destruct (Bool.eqb (lim fa) (lim fb)) eqn:Eb; [|discriminate]. injection H as <-.
    apply eqb_prop in Eb. cbn [cden]. rewrite (IHa _ eq_refl), (IHb _ eq_refl).
    unfold lden, lreal; cbn [lim lc lpi lv lpv]. rewrite <- Eb, !Q2R_minus, !qdot_qzip_minus. csolve.
  - destruct (linof a) as [fa|]; [|discriminate]. destruct (linof b) as [fb|]; [|discriminate].
    cbv zeta in H. cbn [cden]. rewrite (IHa _ eq_refl), (IHb _ eq_refl).
    destruct (lconst fa) eqn:Ca.
    { injection H as <-. apply lden_mul_const; assumption. }
    destruct (lconst fb) eqn:Cb.
    { injection H as <-. rewrite Cmult_comm, andb_comm, xorb_comm. apply lden_mul_const; assumption. }
    destruct (lpionly fa && lvaronly fb) eqn:E1.
    { injection H as <-. apply andb_prop in E1. destruct E1. apply lden_mul_pivar; assumption. }
    destruct (lpionly fb && lvaronly fa) eqn:E2; [|discriminate].
    injection H as <-. apply andb_prop in E2. destruct E2.
    rewrite Cmult_comm, andb_comm, xorb_comm. apply lden_mul_pivar; assumption.
  - destruct (linof a) as [fa|]; [|discriminate]. destruct (linof b) as [fb|]; [|discriminate].
    destruct (lconst fb && negb (lim fb) && negb (Qeq_bool (lc fb) 0)) eqn:E; [|discriminate].
    injection H as <-. apply andb_prop in E. destruct E as [E E3]. apply andb_prop in E. destruct E as [E1 E2].
    apply negb_true_iff in E2, E3.
    cbn [cden]. rewrite (IHa _ eq_refl), (IHb _ eq_refl).
    unfold lden. rewrite lreal_lscale, (lconst_real fb E1), E2. cbn [lscale lim imunit].
    rewrite Q2R_inv by (apply Qeq_bool_neq; assumption).
    assert (Hc : Q2R (lc fb) <> 0).
    { rewrite <- RMicromega.Q2R_0. apply RMicromega.Qeq_false. assumption. }
    rewrite !RtoC_mult, RtoC_inv by assumption.
    assert (Hc' : RtoC (Q2R (lc fb)) <> RtoC 0) by (intro A; apply RtoC_inj in A; contradiction).
    field. exact Hc'.
  - destruct (linof a) as [fa|]; [|discriminate]. injection H as <-.
    cbn [cden]. rewrite (IHa _ eq_refl). unfold lden. rewrite lreal_lscale, Q2R_m1. cbn [lscale lim]. csolve.
Qed.
End Lin.

(* --- evaluation of constants and monomials in PR_C --- *)
Section Mono.
Variable tv : nat -> R.
Notation PR := (PR_C tv).

Lemma kofZ_C z : kofZ PR z = RtoC (IZR z).
Proof.
  assert (Hp : forall p, kofZ PR (Zpos p) = RtoC (IZR (Zpos p))).
  { induction p using Pos.peano_ind; [reflexivity|].
    rewrite Pos2Z.inj_succ. unfold Z.succ. rewrite kofZ_add, IHp, plus_IZR, RtoC_plus. reflexivity. }
  destruct z as [|p|p]; [reflexivity| apply Hp|].
  change (Zneg p) with (Z.opp (Zpos p)). rewrite kofZ_opp, Hp, opp_IZR, RtoC_opp. reflexivity.
Qed.
Lemma kpow_RtoC x n : @kpow Cops (RtoC x) n = RtoC (x ^ n).
Proof. induction n as [|n IH]; simpl; [reflexivity| rewrite IH, RtoC_mult; reflexivity]. Qed.
Lemma gu_pow_C n : kpow (gu PR) n = cis (INR n * (PI / 16)).
Proof. symmetry. apply cis_kpow. Qed.

Lemma zpow_cis a e : zpow PR (cis a) (cis (- a)) e = cis (IZR e * a).
Proof.
  unfold zpow. destruct (0 <=? e)%Z eqn:E.
  - apply Z.leb_le in E. rewrite <- cis_kpow, INR_IZR_INZ, Z2Nat.id by assumption. reflexivity.
  - apply Z.leb_gt in E. rewrite <- cis_kpow, INR_IZR_INZ, Z2Nat.id by lia. rewrite opp_IZR. f_equal. ring.
Qed.

Fixpoint adot (l : list Z) (k : nat) : R :=
  match l with [] => 0 | e :: l' => IZR e * atom_ang tv k + adot l' (S k) end.
Lemma evalz_C l : forall k, evalz PR l k = cis (adot l k).
Proof.
  induction l as [|e l IH]; intro k; cbn [evalz adot].
  - symmetry. apply cis_0.
  - rewrite IH. cbn [gz gzi PR_C]. rewrite zpow_cis, cis_add. reflexivity.
Qed.

Fixpoint zdot (l : list Z) (j : nat) : R :=
  match l with [] => 0 | e :: l' => IZR e * tv j + zdot l' (S j) end.
Lemma adot_inter0 zs : forall j, adot (inter0 zs) (2 * j) = zdot zs j / 4.
Proof.
  induction zs as [|x zs IH]; intro j; cbn [inter0 adot zdot]; [field|].
  replace (S (S (2 * j))) with (2 * S j)%nat by lia. rewrite IH, atom_ang_even. field.
Qed.
Lemma adot_inter1 ws : forall j, adot (inter1 ws) (2 * j) = PI * zdot ws j / 4.
Proof.
  induction ws as [|y ws IH]; intro j; cbn [inter1 adot zdot]; [field|].
  replace (S (S (2 * j))) with (2 * S j)%nat by lia. replace (S (2 * j)) with (2 * j + 1)%nat by lia.
  rewrite IH, atom_ang_odd. field.
Qed.
Lemma adot_interleave zs : forall ws j, adot (interleave zs ws) (2 * j) = zdot zs j / 4 + PI * zdot ws j / 4.
Proof.
  induction zs as [|x zs IH]; intros ws j.
  - cbn [interleave]. rewrite adot_inter1. simpl. field.
  - destruct ws as [|y ws].
    + cbn [interleave]. rewrite adot_inter0. simpl. field.
    + cbn [interleave adot zdot].
      replace (S (S (2 * j))) with (2 * S j)%nat by lia. replace (S (2 * j)) with (2 * j + 1)%nat by lia.
      rewrite IH, atom_ang_even, atom_ang_odd. field.
Qed.

Lemma qint_sound q z : qint q = Some z -> Q2R q = IZR z.
Proof.
  unfold qint. cbv zeta. destruct (Z.pos (Qden (Qred q)) =? 1)%Z eqn:E; [|discriminate].
  intros [= <-]. apply Z.eqb_eq in E. rewrite <- (Qeq_eqR _ _ (Qred_correct q)).
  unfold Q2R. rewrite E. field.
Qed.
Lemma qints_dot l : forall zs, qints (map (Qmult 4) l) = Some zs -> forall j, zdot zs j = 4 * qdot l tv j.
Proof.
  induction l as [|q l IH]; intros zs H j; cbn [map qints] in H.
  - injection H as <-. simpl. ring.
  - destruct (qint (4 * q)) as [z|] eqn:Ez; [|discriminate].
    destruct (qints (map (Qmult 4) l)) as [zs'|] eqn:Ezs; [|discriminate]. injection H as <-.
    cbn [zdot qdot]. rewrite (IH _ eq_refl), <- (qint_sound _ _ Ez), Q2R_mult, Q2R_4. ring.
Qed.

Lemma eval_mono m : eval PR (mono m) = Cmult (cis (INR (fst m) * (PI / 16))) (cis (adot (snd m) 0)).
Proof.
  unfold mono, eval, evalt. cbn [map ksum tc KS.th tu tz]. rewrite kofZ_C, gu_pow_C, evalz_C.
  cbn [kpow]. cbn [K kadd kmul k0 k1 PO PR_C Cops]. ring.
Qed.

Theorem cis_mono_sound f m : cis_mono f = Some m -> eval PR (mono m) = cis (lreal tv f).
Proof.
  unfold cis_mono. destruct (Qeq_bool (lc f) 0) eqn:E0; [|discriminate].
  destruct (qint (16 * lpi f)) as [p|] eqn:Ep; [|discriminate].
  destruct (qints (map (Qmult 4) (lv f))) as [zs|] eqn:Ezs; [|discriminate].
  destruct (qints (map (Qmult 4) (lpv f))) as [ws|] eqn:Ews; [|discriminate].
  intros [= <-]. rewrite eval_mono. cbn [fst snd]. rewrite <- cis_add.
  change 0%nat with (2 * 0)%nat at 1. rewrite adot_interleave, (qints_dot _ _ Ezs), (qints_dot _ _ Ews).
  unfold lreal. rewrite (Qeqb0 _ E0).
  apply qint_sound in Ep. rewrite Q2R_mult, Q2R_16 in Ep.
  pose proof (Z.mod_pos_bound p 32 ltac:(lia)) as Hb.
  rewrite INR_IZR_INZ, Z2Nat.id by lia.
  pose proof (Z.div_mod p 32 ltac:(lia)) as Hd.
  assert (Hm : IZR (p mod 32) = IZR p - 32 * IZR (p / 32)).
  { rewrite Hd at 2. rewrite plus_IZR, mult_IZR. ring. }
  rewrite Hm, <- Ep.
  rewrite <- (cis_period _ (p / 32)). f_equal. field.
Qed.

Lemma mono_inv_pconj m : mono_inv m = pconj (mono m). Proof. reflexivity. Qed.
Theorem cis_mono_inv_sound f m : cis_mono f = Some m -> eval PR (mono_inv m) = cis (- lreal tv f).
Proof.
  intro H. rewrite mono_inv_pconj. etransitivity; [exact (eval_pconj (CR_C tv) (mono m))|].
  change (Cconj (eval PR (mono m)) = cis (- lreal tv f)). rewrite (cis_mono_sound f m H). apply cis_conj.
Qed.

Lemma log2pos_sound p : forall h, log2pos p = Some h -> IZR (Zpos p) = 2 ^ h.
Proof.
  induction p as [p IH|p IH|]; intros h H; cbn [log2pos] in H; try discriminate.
  - destruct (log2pos p) as [n|]; [|discriminate]. injection H as <-.
    rewrite Pos2Z.inj_xO, mult_IZR, (IH n eq_refl). simpl. ring.
  - injection H as <-. reflexivity.
Qed.

Theorem pdyadic_sound q p : pdyadic q = Some p -> eval PR p = RtoC (Q2R q).
Proof.
  unfold pdyadic. cbv zeta. destruct (log2pos (Qden (Qred q))) as [h|] eqn:E; [|discriminate].
  intro H. assert (Hp : pnorm [T (Qnum (Qred q)) h 0 []] = p) by congruence. rewrite <- Hp. clear H Hp.
  rewrite eval_pnorm. unfold eval, evalt. cbn [map ksum tc KS.th tu tz evalz kpow].
  rewrite kofZ_C. change (ghf PR) with (RtoC (/ 2)). rewrite kpow_RtoC.
  rewrite <- (Qeq_eqR _ _ (Qred_correct q)). unfold Q2R at 1. rewrite (log2pos_sound _ _ E), pow_inv.
  cbn [K kadd kmul k0 k1 PO PR_C Cops]. csolve.
Qed.

Lemma pinv_dyadic_sound q p : pinv_dyadic q = Some p -> Q2R q <> 0 /\ eval PR p = RtoC (/ Q2R q).
Proof.
  unfold pinv_dyadic. destruct (Qeq_bool q 0) eqn:E; [discriminate|]. intro H.
  split.
  - rewrite <- RMicromega.Q2R_0. apply RMicromega.Qeq_false. assumption.
  - rewrite (pdyadic_sound _ _ H), Q2R_inv by (apply Qeq_bool_neq; assumption). reflexivity.
Qed.

Lemma eval_pI : eval PR pI = Ci.
Proof.
  unfold pI. rewrite eval_pu, gu_pow_C. replace (INR 8 * (PI / 16)) with (PI / 2) by (simpl; field). apply cis_PI2.
Qed.
Lemma eval_pu24 : eval PR (pu 24) = Copp Ci.
Proof.
  rewrite eval_pu, gu_pow_C. replace (INR 24 * (PI / 16)) with (3 * (PI / 2)) by (simpl; field).
  unfold cis. rewrite cos_3PI2, sin_3PI2. apply Ceq; simpl; ring.
Qed.

Lemma inv_sqrt2 : / sqrt 2 = sqrt 2 / 2.
Proof.
  pose proof sqrt2_neq_0 as Hn. pose proof (sqrt_sqrt 2 ltac:(lra)) as H2.
  apply (Rmult_eq_reg_l (sqrt 2)); [|exact Hn]. rewrite Rinv_r by exact Hn. nra.
Qed.
Lemma sqrt2_cis : Cplus (cis (PI / 4)) (cis (- (PI / 4))) = RtoC (sqrt 2).
Proof.
  unfold cis. rewrite cos_neg, sin_neg, cos_PI4, sin_PI4. unfold Rdiv. rewrite inv_sqrt2.
  apply Ceq; cbn [fst snd Cplus RtoC]; field.
Qed.
Lemma isqrt2_cis : Cmult (RtoC (/ 2)) (Cplus (cis (PI / 4)) (cis (- (PI / 4)))) = RtoC (/ sqrt 2).
Proof.
  rewrite sqrt2_cis, inv_sqrt2. apply Ceq; cbn [fst snd Cmult RtoC]; field.
Qed.
Lemma gu_4 : kpow (gu PR) 4 = cis (PI / 4).
Proof. rewrite gu_pow_C. f_equal. simpl; field. Qed.
Lemma gu_28 : kpow (gu PR) 28 = cis (- (PI / 4)).
Proof.
  rewrite gu_pow_C. replace (INR 28 * (PI / 16)) with (- (PI / 4) + IZR 1 * (2 * PI)) by (simpl; field).
  apply cis_period.
Qed.
Lemma eval_psqrt2 : eval PR psqrt2 = RtoC (sqrt 2).
Proof.
  rewrite <- sqrt2_cis, <- gu_4, <- gu_28. unfold psqrt2, eval, evalt. cbn [map ksum tc KS.th tu tz evalz].
  rewrite !kofZ_C. change (kpow (ghf PR) 0) with (RtoC 1).
  cbn [K kadd kmul k0 k1 PO PR_C Cops]. ring.
Qed.
Lemma eval_pisqrt2 : eval PR pisqrt2 = RtoC (/ sqrt 2).
Proof.
  rewrite <- isqrt2_cis, <- gu_4, <- gu_28. unfold pisqrt2, eval, evalt. cbn [map ksum tc KS.th tu tz evalz].
  rewrite !kofZ_C. change (kpow (ghf PR) 1) with (Cmult (RtoC (/ 2)) (RtoC 1)).
  cbn [K kadd kmul k0 k1 PO PR_C Cops]. ring.
Qed.
End Mono.

(* --- the main soundness theorem --- *)
Section Topoly.
Variable tv : nat -> R.
Notation PR := (PR_C tv).

Lemma evalC_padd p q : eval PR (padd p q) = Cplus (eval PR p) (eval PR q).
Proof. exact (eval_padd PR p q). Qed.
Lemma evalC_pmul p q : eval PR (pmul p q) = Cmult (eval PR p) (eval PR q).
Proof. exact (eval_pmul PR p q). Qed.
Lemma evalC_psub p q : eval PR (psub p q) = Cminus (eval PR p) (eval PR q).
Proof. exact (eval_psub PR p q). Qed.
Lemma evalC_popp p : eval PR (popp p) = Copp (eval PR p).
Proof. exact (eval_popp PR p). Qed.
Lemma evalC_phalf : eval PR phalf = RtoC (/ 2).
Proof. exact (eval_phalf PR). Qed.

Lemma Re_lden_real f : lim f = false -> Re (lden tv f) = lreal tv f.
Proof. intro H. unfold lden. rewrite H. cbn [imunit Re Cmult RtoC fst snd]. ring. Qed.
Lemma Re_lden_imag f : lim f = true -> Re (lden tv f) = 0.
Proof. intro H. unfold lden. rewrite H. cbn [imunit Re Cmult RtoC Ci fst snd]. ring. Qed.
Lemma Im_lden_imag f : lim f = true -> Im (lden tv f) = lreal tv f.
Proof. intro H. unfold lden. rewrite H. cbn [imunit Im Cmult RtoC Ci fst snd]. ring. Qed.

Definition div_default (p : poly) (b : ex) : option poly :=
  match linof b with
  | Some g => if lconst g && negb (lim g) then obind (pinv_dyadic (lc g)) (fun i => Some (pmul p i)) else None
  | None => None
  end.
Lemma topoly_div a b : topoly (Div a b) =
  obind (topoly a) (fun p => match b with
                             | Sqrt (Num q) => if Qeq_bool q 2 then Some (pmul p pisqrt2) else None
                             | _ => div_default p b end).
Proof. destruct b; reflexivity. Qed.

Lemma div_default_sound p b r : div_default p b = Some r -> eval PR r = Cdiv (eval PR p) (cden tv b).
Proof.
  unfold div_default. destruct (linof b) as [g|] eqn:Eg; [|discriminate].
  destruct (lconst g && negb (lim g)) eqn:E; [|discriminate].
  destruct (pinv_dyadic (lc g)) as [i|] eqn:Ei; [|discriminate]. cbn [obind]. intros [= <-].
  apply andb_prop in E. destruct E as [E1 E2]. apply negb_true_iff in E2.
  destruct (pinv_dyadic_sound tv _ _ Ei) as [Hc Hi].
  rewrite evalC_pmul, Hi, (linof_sound tv b g Eg). unfold lden. rewrite E2, (lconst_real tv g E1). cbn [imunit].
  rewrite RtoC_inv by assumption.
  assert (Hc' : RtoC (Q2R (lc g)) <> RtoC 0) by (intro A; apply RtoC_inj in A; contradiction).
  ctype. field. exact Hc'.
Qed.

Lemma div_sqrt2_sound p q : Qeq_bool q 2 = true ->
  eval PR (pmul p pisqrt2) = Cdiv (eval PR p) (RtoC (sqrt (Re (RtoC (Q2R q))))).
Proof.
  intro E. rewrite evalC_pmul, eval_pisqrt2. cbn [Re RtoC fst]. rewrite (RMicromega.Qeq_true _ _ E), Q2R_2.
  rewrite RtoC_inv by exact sqrt2_neq_0. reflexivity.
Qed.

Theorem topoly_sound_tv e : forall p, topoly e = Some p -> eval PR p = cden tv e.
Proof.
  induction e as [q|q| |j|a IHa b IHb|a IHa b IHb|a IHa b IHb|a IHa b _|a IHa|a _|a _|a _|a _]; intros p H.
  - (* Num *) apply pdyadic_sound. exact H.
  - (* Imag *) cbn [topoly] in H. destruct (pdyadic q) as [p0|] eqn:E; [|discriminate]. cbn [obind] in H.
    injection H as <-. rewrite evalC_pmul, eval_pI, (pdyadic_sound tv _ _ E). reflexivity.
  - discriminate.
  - discriminate.
  - (* Add *) cbn [topoly] in H. destruct (topoly a) as [pa|]; [|discriminate]. destruct (topoly b) as [pb|]; [|discriminate].
    cbn [obind] in H. injection H as <-. rewrite evalC_padd, (IHa _ eq_refl), (IHb _ eq_refl). reflexivity.
  - (* Sub *) cbn [topoly] in H. destruct (topoly a) as [pa|]; [|discriminate]. destruct (topoly b) as [pb|]; [|discriminate].
    cbn [obind] in H. injection H as <-. rewrite evalC_psub, (IHa _ eq_refl), (IHb _ eq_refl). reflexivity.
  - (* Mul *) cbn [topoly] in H. destruct (topoly a) as [pa|]; [|discriminate]. destruct (topoly b) as [pb|]; [|discriminate].
    cbn [obind] in H. injection H as <-. rewrite evalC_pmul, (IHa _ eq_refl), (IHb _ eq_refl). reflexivity.
  - (* Div *) rewrite topoly_div in H. destruct (topoly a) as [pa|]; [|discriminate]. cbn [obind] in H.
    cbn [cden]. rewrite <- (IHa _ eq_refl).
    destruct b as [ | | | | | | | | | | | |b0]; try (apply div_default_sound; exact H).
    destruct b0 as [q| | | | | | | | | | | | ]; try (apply div_default_sound; exact H).
    destruct (Qeq_bool q 2) eqn:E; [|discriminate]. injection H as <-. apply div_sqrt2_sound. exact E.
  - (* Neg *) cbn [topoly] in H. destruct (topoly a) as [pa|]; [|discriminate]. cbn [obind] in H. injection H as <-.
    rewrite eval_pnorm, evalC_popp, (IHa _ eq_refl). reflexivity.
  - (* Cos *) cbn [topoly] in H. destruct (linof a) as [f|] eqn:Ef; [|discriminate].
    destruct (lim f) eqn:El; [discriminate|]. destruct (cis_mono f) as [m|] eqn:Em; [|discriminate].
    cbn [obind] in H. injection H as <-.
    rewrite evalC_pmul, evalC_padd, evalC_phalf, (cis_mono_sound tv f m Em), (cis_mono_inv_sound tv f m Em).
    cbn [cden]. rewrite (linof_sound tv a f Ef), (Re_lden_real f El).
    apply Ceq; cbn [fst snd Cmult Cplus RtoC cis]; rewrite ?cos_neg, ?sin_neg; field.
  - (* Sin *) cbn [topoly] in H. destruct (linof a) as [f|] eqn:Ef; [|discriminate].
    destruct (lim f) eqn:El; [discriminate|]. destruct (cis_mono f) as [m|] eqn:Em; [|discriminate].
    cbn [obind] in H. injection H as <-.
    rewrite !evalC_pmul, evalC_psub, evalC_phalf, eval_pu24, (cis_mono_sound tv f m Em), (cis_mono_inv_sound tv f m Em).
    cbn [cden]. rewrite (linof_sound tv a f Ef), (Re_lden_real f El).
    apply Ceq; cbn [fst snd Cmult Cplus Cminus Copp Ci RtoC cis]; rewrite ?cos_neg, ?sin_neg; field.
  - (* Exp *) cbn [topoly] in H. destruct (linof a) as [f|] eqn:Ef; [|discriminate].
    destruct (lim f) eqn:El; [|discriminate]. destruct (cis_mono f) as [m|] eqn:Em; [|discriminate].
    cbn [obind] in H. injection H as <-. rewrite (cis_mono_sound tv f m Em).
    cbn [cden]. unfold Cexp. rewrite (linof_sound tv a f Ef), (Re_lden_imag f El), (Im_lden_imag f El), exp_0.
    rewrite Cmult_1_l. reflexivity.
  - (* Sqrt *) destruct a as [q| | | | | | | | | | | | ]; try discriminate. cbn [topoly] in H.
    destruct (Qeq_bool q 2) eqn:E; [|discriminate]. injection H as <-.
    rewrite eval_psqrt2. cbn [cden Re RtoC fst]. rewrite (RMicromega.Qeq_true _ _ E), Q2R_2. reflexivity.
Qed.
End Topoly.

Theorem topoly_sound : forall (th : nat -> R) e p, topoly e = Some p -> eval (PR_C th) p = cden th e.
Proof. intros th e p. apply topoly_sound_tv. Qed.

(* ---------------------------------------------------------------------------------------------- *)
(* (e) matrix expressions: entries of [mtab m] evaluate to the entries of the complex matrix [mden] *)
Fixpoint mdim (m : mexp) : nat :=
  match m with
  | MLit rows => length rows
  | MMul a b => mdim a
  | MScale e a => mdim a
  | MCtrl nc cv a => (2 ^ nc * mdim a)%nat
  end.
Fixpoint mden (th : nat -> R) (m : mexp) : nat -> nat -> C :=
  match m with
  | MLit rows => fun i j => cden th (nth j (nth i rows []) (Num 0))
  | MMul a b => fun i j => @ksum Cops (map (fun k => Cmult (mden th a i k) (mden th b k j)) (seq 0 (mdim a)))
  | MScale e a => fun i j => Cmult (cden th e) (mden th a i j)
  | MCtrl nc cv a => fun i j =>
      let d := mdim a in
      if Nat.eqb (i / d) (j / d) then
        (if Nat.eqb (i / d) cv then mden th a (i mod d) (j mod d)
         else if Nat.eqb (i mod d) (j mod d) then RtoC 1 else RtoC 0)
      else RtoC 0
  end.

Lemma osequence_nth {A B} (f : A -> option B) l : forall r, osequence (map f l) = Some r ->
  length r = length l /\ forall i da db, (i < length l)%nat -> f (nth i l da) = Some (nth i r db).
Proof.
  induction l as [|a l IH]; intros r H; cbn [map osequence] in H.
  - injection H as <-. split; [reflexivity|]. intros i da db Hi. simpl in Hi. lia.
  - destruct (f a) as [b|] eqn:Ea; [|discriminate]. destruct (osequence (map f l)) as [r'|]; [|discriminate].
    injection H as <-. destruct (IH r' eq_refl) as [Hl Hn]. split; [simpl; rewrite Hl; reflexivity|].
    intros [|i] da db Hi; [exact Ea|]. simpl in Hi. apply Hn. lia.
Qed.

Lemma square_row (tb : ptab) i : square tb = true -> (i < length tb)%nat -> length (nth i tb []) = length tb.
Proof.
  unfold square. rewrite forallb_forall. intros H Hi. apply Nat.eqb_eq. apply H. apply nth_In. exact Hi.
Qed.

Lemma length_map_seq {A} (f : nat -> A) n : length (map f (seq 0 n)) = n.
Proof. rewrite map_length, seq_length. reflexivity. Qed.

Theorem mtab_sound (th : nat -> R) m : forall tb, mtab m = Some tb ->
  length tb = mdim m /\
  forall i j, (i < mdim m)%nat -> (j < mdim m)%nat -> eval (PR_C th) (pentry tb i j) = mden th m i j.
Proof.
  induction m as [rows|a IHa b IHb|e a IHa|nc cv a IHa]; intros tb H; cbn [mtab] in H.
  - (* MLit *)
    destruct (osequence (map (fun r => osequence (map topoly r)) rows)) as [tb0|] eqn:E; [|discriminate].
    cbn [obind] in H. destruct (square tb0) eqn:Sq; [|discriminate]. injection H as <-.
    destruct (osequence_nth _ _ _ E) as [Hl Hn]. split; [exact Hl|]. cbn [mdim mden]. intros i j Hi Hj.
    specialize (Hn i [] [] Hi). destruct (osequence_nth _ _ _ Hn) as [Hl2 Hn2].
    assert (Hrow : length (nth i tb0 []) = length tb0) by (apply square_row; [exact Sq| lia]).
    apply topoly_sound. unfold pentry. apply Hn2. lia.
  - (* MMul *)
    destruct (mtab a) as [A|]; [|discriminate]. destruct (mtab b) as [B|]; [|discriminate]. cbn [obind] in H.
    destruct (Nat.eqb (length A) (length B)) eqn:El; [|discriminate]. injection H as <-. apply Nat.eqb_eq in El.
    destruct (IHa A eq_refl) as [HlA HA]. destruct (IHb B eq_refl) as [HlB HB]. cbn [mdim mden].
    split; [unfold ptmul; rewrite length_map_seq; exact HlA|]. intros i j Hi Hj.
    rewrite eval_ptmul by lia. rewrite HlA. apply (Lemmas.ksum_map_ext Cops). intros k Hk. apply in_seq in Hk.
    rewrite HA, HB by lia. reflexivity.
  - (* MScale *)
    destruct (topoly e) as [c|] eqn:Ec; [|discriminate]. destruct (mtab a) as [A|]; [|discriminate]. cbn [obind] in H.
    injection H as <-. destruct (IHa A eq_refl) as [HlA HA]. cbn [mdim mden].
    split; [unfold ptscale; rewrite map_length; exact HlA|]. intros i j Hi Hj.
    rewrite eval_ptscale, (topoly_sound th e c Ec), HA by assumption. reflexivity.
  - (* MCtrl *)
    destruct (mtab a) as [A|]; [|discriminate]. cbn [obind] in H. destruct (cv <? 2 ^ nc)%nat; [|discriminate].
    injection H as <-. destruct (IHa A eq_refl) as [HlA HA]. cbn [mdim mden]. cbv zeta.
    split; [unfold ptctrl; cbv zeta; rewrite length_map_seq, HlA; reflexivity|]. intros i j Hi Hj.
    unfold ptctrl. cbv zeta. rewrite HlA.
    rewrite (pentry_map_seq (fun i j => if Nat.eqb (i / mdim a) (j / mdim a)
        then if Nat.eqb (i / mdim a) cv then pentry A (i mod mdim a) (j mod mdim a)
             else if Nat.eqb (i mod mdim a) (j mod mdim a) then pone else pzero else pzero)) by assumption.
    assert (Hd : mdim a <> 0%nat) by (intro Z; rewrite Z in Hi; lia).
    destruct (Nat.eqb (i / mdim a) (j / mdim a)); [|reflexivity].
    destruct (Nat.eqb (i / mdim a) cv).
    + apply HA; apply Nat.mod_upper_bound; exact Hd.
    + destruct (Nat.eqb (i mod mdim a) (j mod mdim a)); [apply eval_pone| reflexivity].
Qed.

(* capstone: the vm_compute-checkable condition  U * U^dagger == I  on the symbolic table of a matrix
   expression makes its complex denotation unitary (rows orthonormal) for every real parameter assignment *)
Theorem munitary_sound (th : nat -> R) m U : mtab m = Some U -> square U = true ->
  table_eqb (ptmul U (ptadj U)) (ptid (length U)) = true ->
  forall i j, (i < mdim m)%nat -> (j < mdim m)%nat ->
  @ksum Cops (map (fun k => Cmult (mden th m i k) (Cconj (mden th m j k))) (seq 0 (mdim m)))
  = if Nat.eqb i j then RtoC 1 else RtoC 0.
Proof.
  intros Hm Sq Hu i j Hi Hj. destruct (mtab_sound th m U Hm) as [Hl He].
  rewrite <- Hl in Hi, Hj.
  etransitivity; [| exact (unitary_sound (CR_C th) U Sq Hu i j Hi Hj)].
  rewrite Hl in *. apply (Lemmas.ksum_map_ext Cops). intros k Hk. apply in_seq in Hk.
  rewrite <- !He by lia. reflexivity.
Qed.
