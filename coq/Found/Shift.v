(* Two gates with DIFFERENT parameter values in one symbolic identity.
   The polynomial table of the second gate is shifted by n atoms (every monomial z_0^e0 z_1^e1 .. becomes
   z_n^e0 z_(n+1)^e1 ..); evaluating in the ring whose atoms are  A (indices < n)  followed by  B  then gives the
   first gate at the parameter values A and the second gate at the parameter values B.
   [comm_check] is the vm_compute-checkable local commutation test, [comm_check_sound] its lifting to every phase
   ring, all parameter values of both gates, every register and every injective placement. *)
From Coq Require Import FunctionalExtensionality Lia.
From QV Require Import Found.Circ Found.Closed.
Local Open Scope nat_scope.

Definition pshift (n : nat) (p : poly) : poly :=
  map (fun t => T (tc t) (th t) (tu t) (repeat 0%Z n ++ tz t)) p.
Definition tshift (n : nat) (tb : ptab) : ptab := map (map (pshift n)) tb.

Definition term_bounded (n : nat) (t : term) : bool := length (tz t) <=? n.
Definition poly_bounded (n : nat) (p : poly) : bool := forallb (term_bounded n) p.
Definition bounded (n : nat) (tb : ptab) : bool := forallb (forallb (poly_bounded n)) tb.

Section S.
Variable R : PhaseRing.
Variable n : nat.
Variables A B : atoms R.

Definition AB : atoms R.
Proof.
  refine (mkAtoms R (fun j => if j <? n then az A j else az B (j - n))
                    (fun j => if j <? n then azi A j else azi B (j - n)) _).
  intro j. destruct (j <? n); apply a_inv.
Defined.

Lemma evalz_hi l : forall j, evalz (withA R AB) l (n + j) = evalz (withA R B) l j.
Proof.
  induction l as [|e l IH]; intro j; [reflexivity|].
  cbn [evalz]. replace (S (n + j)) with (n + S j) by lia. rewrite IH.
  cbn [gz gzi withA AB az azi].
  replace (n + j <? n) with false by (symmetry; apply Nat.ltb_ge; lia).
  replace (n + j - n) with j by lia. reflexivity.
Qed.

Lemma evalz_zeros m l : forall j, evalz (withA R AB) (repeat 0%Z m ++ l) j = evalz (withA R AB) l (m + j).
Proof.
  induction m as [|m IH]; intro j; [reflexivity|].
  cbn [repeat List.app evalz]. rewrite IH. replace (m + S j) with (S m + j) by lia.
  unfold zpow. cbn [Z.leb Z.compare Z.to_nat kpow].
  apply (Rmul_1_l (PR_ring R)).
Qed.

Lemma evalz_lo l : forall j, j + length l <= n -> evalz (withA R AB) l j = evalz (withA R A) l j.
Proof.
  induction l as [|e l IH]; intros j H; [reflexivity|].
  cbn [length] in H. cbn [evalz]. rewrite IH by lia.
  cbn [gz gzi withA AB az azi].
  replace (j <? n) with true by (symmetry; apply Nat.ltb_lt; lia). reflexivity.
Qed.

Lemma evalt_shift t :
  evalt (withA R AB) (T (tc t) (th t) (tu t) (repeat 0%Z n ++ tz t)) = evalt (withA R B) t.
Proof.
  unfold evalt. cbn [tc th tu tz]. rewrite evalz_zeros, evalz_hi. reflexivity.
Qed.

Lemma eval_pshift p : eval (withA R AB) (pshift n p) = eval (withA R B) p.
Proof.
  unfold eval, pshift. induction p as [|t p IH]; [reflexivity|].
  cbn [map ksum]. rewrite IH, evalt_shift. reflexivity.
Qed.

Lemma eval_bounded p : poly_bounded n p = true -> eval (withA R AB) p = eval (withA R A) p.
Proof.
  unfold eval, poly_bounded. induction p as [|t p IH]; intro H; [reflexivity|].
  cbn [forallb] in H. apply andb_prop in H. destruct H as [Ht Hp].
  cbn [map ksum]. rewrite (IH Hp). f_equal.
  unfold evalt. rewrite evalz_lo; [reflexivity|]. unfold term_bounded in Ht. apply Nat.leb_le in Ht. lia.
Qed.

Lemma smat_tshift tb r c : smat (tshift n tb) r c = pshift n (smat tb r c).
Proof.
  unfold smat, mat_of_tab, tshift.
  change (@nil (K POps)) with (map (pshift n) (@nil poly)).
  rewrite (map_nth (map (pshift n))).
  change (k0 POps) with (pshift n pzero).
  rewrite (map_nth (pshift n)). reflexivity.
Qed.

Lemma emat_tshift tb : emat (withA R AB) (smat (tshift n tb)) = emat (withA R B) (smat tb).
Proof.
  apply functional_extensionality; intro r. apply functional_extensionality; intro c.
  unfold emat. rewrite smat_tshift. apply eval_pshift.
Qed.

Lemma emat_bounded tb : bounded n tb = true -> emat (withA R AB) (smat tb) = emat (withA R A) (smat tb).
Proof.
  intro H. apply functional_extensionality; intro r. apply functional_extensionality; intro c.
  unfold emat. apply eval_bounded. unfold smat, mat_of_tab.
  apply (nth_forallb (poly_bounded n)); [|reflexivity].
  apply (nth_forallb (forallb (poly_bounded n))); [exact H| reflexivity].
Qed.
End S.

(* number of atoms reserved for the first gate: 4 parameters x 2 atoms *)
Definition NS : nat := 8.

(* gate a = (ma on the local qubits la), gate b = (mb on lb): do they commute on k local qubits, for independent
   parameter values? *)
Definition comm_check (k : nat) (ma : mexp) (la : list nat) (mb : mexp) (lb : list nat) : bool :=
  match mtab ma, mtab mb with
  | Some Ta, Some Tb =>
      bounded NS Ta && forallb (fun t => t <? k) la && forallb (fun t => t <? k) lb &&
      table_eqb (@ttable POps k [(smat Ta, la); (smat (tshift NS Tb), lb)])
                (@ttable POps k [(smat (tshift NS Tb), lb); (smat Ta, la)])
  | _, _ => false
  end.

Definition gmat (R : PhaseRing) (A : atoms R) (m : mexp) : mat R := emat (withA R A) (mmat m).

Theorem comm_check_sound k ma la mb lb : comm_check k ma la mb lb = true ->
  forall (R : PhaseRing) (A B : atoms R) ts, NoDup ts -> length ts = k -> forall st : state R,
  Base.app (gmat R A ma) (map (pl ts) la) (Base.app (gmat R B mb) (map (pl ts) lb) st)
  = Base.app (gmat R B mb) (map (pl ts) lb) (Base.app (gmat R A ma) (map (pl ts) la) st).
Proof.
  unfold comm_check, gmat, mmat. intros H R A B ts Hnd Hlen st.
  destruct (mtab ma) as [Ta|]; [|discriminate]. destruct (mtab mb) as [Tb|]; [|discriminate].
  apply andb_prop in H. destruct H as [H HT]. apply andb_prop in H. destruct H as [H Lb].
  apply andb_prop in H. destruct H as [Bd La].
  assert (L1 : localb k [(smat Ta, la); (smat (tshift NS Tb), lb)] = true).
  { unfold localb. cbn [forallb snd]. rewrite La, Lb. reflexivity. }
  assert (L2 : localb k [(smat (tshift NS Tb), lb); (smat Ta, la)] = true).
  { unfold localb. cbn [forallb snd]. rewrite La, Lb. reflexivity. }
  pose proof (sym_lift (withA R (AB R NS A B)) k _ _ ts L1 L2 HT Hnd Hlen) as E.
  apply (f_equal (fun f => f st)) in E.
  unfold ecirc, place, sem in E. cbn [map fold_left fst snd] in E.
  rewrite (emat_tshift R NS A B Tb), (emat_bounded R NS A B Ta Bd) in E.
  symmetry. exact E.
Qed.
