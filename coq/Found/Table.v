(* Tables: a local circuit is determined by its action on basis vectors; the memoised evaluator [tsem]
   (what vm_compute runs) refines [fsem]; equal tables => equal semantics everywhere ([lift_local]). *)
From Coq Require Import FunctionalExtensionality Ring.
From QV Require Import Found.Base Found.Lemmas.

Section S.
Variable O : Ops.
Hypothesis Kring : ring_theory (k0 O) (k1 O) (kadd O) (kmul O) (ksub O) (kopp O) eq.
Add Ring Kr : Kring.
Notation kz := (k0 O). Notation ko := (k1 O).
Infix "+" := (kadd O). Infix "*" := (kmul O).
Notation ksum_app := (Lemmas.ksum_app O Kring). Notation ksum_scale := (Lemmas.ksum_scale O Kring).
Notation ksum_scale_r := (Lemmas.ksum_scale_r O Kring). Notation ksum_zero := (Lemmas.ksum_zero O Kring).
Notation ksum_swap := (Lemmas.ksum_swap O Kring). Notation ksum_map_ext := (Lemmas.ksum_map_ext O).
Notation state := (state O). Notation mat := (mat O). Notation circ := (circ O). Notation fvec := (fvec O).

Lemma all_bits_len k : length (all_bits k) = (2 ^ k)%nat.
Proof. induction k; simpl; [reflexivity|]. rewrite app_length, !map_length, IHk. lia. Qed.

Lemma idx_lt r : (idx r < 2 ^ length r)%nat.
Proof. induction r as [|b r IH]; simpl; [lia|]. destruct b; lia. Qed.

Lemma nth_idx r d : nth (idx r) (all_bits (length r)) d = r.
Proof.
  induction r as [|b r IH]; simpl; [reflexivity|].
  pose proof (idx_lt r) as Hlt.
  destruct b.
  - rewrite app_nth2 by (rewrite map_length, all_bits_len; lia).
    rewrite map_length, all_bits_len.
    replace (2 ^ length r + idx r - 2 ^ length r)%nat with (idx r) by lia.
    rewrite (nth_indep _ d (true :: d)) by (rewrite map_length, all_bits_len; lia).
    rewrite (map_nth (cons true)). f_equal. apply IH.
  - rewrite app_nth1 by (rewrite map_length, all_bits_len; lia). simpl.
    rewrite (nth_indep _ d (false :: d)) by (rewrite map_length, all_bits_len; lia).
    rewrite (map_nth (cons false)). f_equal. apply IH.
Qed.

Lemma tget_map (v : fvec) r : tget (map v (all_bits (length r))) r = v r.
Proof.
  unfold tget. rewrite (nth_indep _ kz (v r)) by (rewrite map_length, all_bits_len; apply idx_lt).
  rewrite (map_nth v). f_equal. apply nth_idx.
Qed.

Lemma lupd_length k r ts y : length (lupd k r ts y) = k.
Proof. unfold lupd. rewrite map_length, seq_length. reflexivity. Qed.

Lemma tapp_refines k (M : mat) ts (v : fvec) :
  tapp k M ts (map v (all_bits k)) = map (fapp k M ts v) (all_bits k).
Proof.
  unfold tapp, fapp. apply map_ext. intro r. apply ksum_map_ext. intros y _. f_equal.
  rewrite <- (lupd_length k r ts y) at 1. apply tget_map.
Qed.

Lemma tsem_refines k (c : circ) (v : fvec) :
  tsem k c (map v (all_bits k)) = map (fsem k c v) (all_bits k).
Proof.
  revert v. induction c as [|g c IH]; intro v; simpl; [reflexivity|].
  unfold tsem, fsem in *. simpl. rewrite tapp_refines. apply IH.
Qed.

(* delta collapse *)
Lemma beqb_refl r : beqb r r = true.
Proof. unfold beqb. destruct (list_eq_dec bool_dec r r); congruence. Qed.
Lemma beqb_true r s : beqb r s = true <-> r = s.
Proof. unfold beqb. destruct (list_eq_dec bool_dec r s); split; congruence. Qed.
Lemma beqb_cons b r c s : beqb (b :: r) (c :: s) = Bool.eqb b c && beqb r s.
Proof.
  destruct (beqb (b :: r) (c :: s)) eqn:E.
  - apply beqb_true in E. injection E as E1 E2. subst. rewrite Bool.eqb_reflx, beqb_refl. reflexivity.
  - destruct (Bool.eqb b c) eqn:Eb; [|reflexivity]. destruct (beqb r s) eqn:Er; [|reflexivity].
    apply Bool.eqb_prop in Eb. apply beqb_true in Er. subst. rewrite beqb_refl in E. discriminate.
Qed.

Lemma delta_collapse k : forall (w : list bool) (f : list bool -> O), length w = k ->
  ksum (map (fun c => (if beqb w c then ko else kz) * f c) (all_bits k)) = f w.
Proof.
  induction k as [|k IH]; intros w f Hw.
  - destruct w; [|discriminate]. cbn [all_bits map ksum]. rewrite beqb_refl. ring.
  - destruct w as [|b w]; [discriminate|]. injection Hw as Hw. cbn [all_bits].
    rewrite map_app, ksum_app, !map_map.
    destruct b.
    + rewrite (ksum_map_ext _ (fun _ => kz)).
      2:{ intros c _. rewrite beqb_cons. simpl. ring. }
      rewrite ksum_zero.
      rewrite (ksum_map_ext _ (fun c => (if beqb w c then ko else kz) * f (true :: c))).
      2:{ intros c _. rewrite beqb_cons. reflexivity. }
      rewrite (IH w (fun c => f (true :: c)) Hw). ring.
    + rewrite (ksum_map_ext (fun x => (if beqb (false :: w) (true :: x) then ko else kz) * f (true :: x)) (fun _ => kz)).
      2:{ intros c _. rewrite beqb_cons. simpl. ring. }
      rewrite ksum_zero.
      rewrite (ksum_map_ext _ (fun c => (if beqb w c then ko else kz) * f (false :: c))).
      2:{ intros c _. rewrite beqb_cons. reflexivity. }
      rewrite (IH w (fun c => f (false :: c)) Hw). ring.
Qed.

(* a circuit acts linearly: it is the sum of its basis columns *)
Lemma fapp_columns k (M : mat) ts (v : fvec) r :
  fapp k M ts v r = ksum (map (fun col => fapp k M ts (delta col) r * v col) (all_bits k)).
Proof.
  unfold fapp.
  transitivity (ksum (map (fun col => ksum (map (fun y => M (map (lget r) ts) y * delta col (lupd k r ts y) * v col)
                                               (all_bits (length ts)))) (all_bits k))).
  2:{ apply ksum_map_ext. intros col _. rewrite ksum_scale_r, map_map. reflexivity. }
  rewrite ksum_swap. apply ksum_map_ext. intros y _.
  rewrite <- (delta_collapse k (lupd k r ts y) v (lupd_length _ _ _ _)).
  rewrite ksum_scale, map_map. apply ksum_map_ext. intros col _. unfold delta. ring.
Qed.

Lemma fapp_linear k (M : mat) ts {A} (l : list A) (f : A -> fvec) (a : A -> O) r :
  fapp k M ts (fun r' => ksum (map (fun i => f i r' * a i) l)) r =
  ksum (map (fun i => fapp k M ts (f i) r * a i) l).
Proof.
  unfold fapp.
  transitivity (ksum (map (fun y => ksum (map (fun i => M (map (lget r) ts) y * f i (lupd k r ts y) * a i) l))
                          (all_bits (length ts)))).
  { apply ksum_map_ext. intros y _. rewrite ksum_scale, map_map. apply ksum_map_ext. intros; ring. }
  rewrite ksum_swap. apply ksum_map_ext. intros i _. rewrite ksum_scale_r, map_map. reflexivity.
Qed.

Lemma fsem_linear k (c : circ) : forall {A} (l : list A) (f : A -> fvec) (a : A -> O) r,
  fsem k c (fun r' => ksum (map (fun i => f i r' * a i) l)) r =
  ksum (map (fun i => fsem k c (f i) r * a i) l).
Proof.
  induction c as [|g c IH]; intros A l f a r; [reflexivity|].
  unfold fsem in *. simpl.
  rewrite <- (IH A l (fun i => fapp k (fst g) (snd g) (f i)) a r).
  f_equal. apply functional_extensionality; intro r'. apply fapp_linear.
Qed.

Lemma fsem_columns k (c : circ) (v : fvec) r : length r = k ->
  fsem k c v r = ksum (map (fun col => fsem k c (delta col) r * v col) (all_bits k)).
Proof.
  intros Hr. destruct c as [|g c].
  - unfold fsem; simpl. rewrite <- (delta_collapse k r v Hr). apply ksum_map_ext. intros; unfold delta; reflexivity.
  - change (fsem k (g :: c) v r) with (fsem k c (fapp k (fst g) (snd g) v) r).
    transitivity (fsem k c (fun r' => ksum (map (fun col => fapp k (fst g) (snd g) (delta col) r' * v col) (all_bits k))) r).
    { apply (f_equal (fun w => fsem k c w r)). apply functional_extensionality; intro r'. apply fapp_columns. }
    apply (fsem_linear k c (all_bits k) (fun col => fapp k (fst g) (snd g) (delta col)) v r).
Qed.

Lemma map_eq_in {A B} (f g : A -> B) l : map f l = map g l -> forall a, In a l -> f a = g a.
Proof.
  induction l as [|x l IH]; simpl; intros E a H; [contradiction|].
  injection E as E1 E2. destruct H as [H|H]; subst; auto.
Qed.

(* the central lifting theorem *)
Theorem table_eq_fsem k (c1 c2 : circ) : ttable k c1 = ttable k c2 ->
  forall v r, length r = k -> fsem k c1 v r = fsem k c2 v r.
Proof.
  intros E v r Hr. rewrite !fsem_columns by assumption.
  apply ksum_map_ext. intros col Hcol. f_equal.
  unfold ttable in E. pose proof (map_eq_in _ _ _ E col Hcol) as Ec. simpl in Ec.
  unfold tdelta in Ec. rewrite !tsem_refines in Ec.
  apply (map_eq_in _ _ _ Ec r). subst k. apply all_bits_in.
Qed.

Theorem lift_local k (c1 c2 : circ) ts :
  local k c1 -> local k c2 -> ttable k c1 = ttable k c2 ->
  NoDup ts -> length ts = k -> sem (place ts c1) = sem (place ts c2).
Proof.
  intros L1 L2 E Hnd Hlen. subst k. apply lift_place; try assumption.
  apply (local_eq_global O (length ts)); try assumption.
  apply table_eq_fsem; assumption.
Qed.
End S.
