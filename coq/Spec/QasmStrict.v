(* A strict reader of OpenQASM 2.0 text (lexer + parser), written from the grammar of the specification (appendix A):
   reals need a '.', integers have no leading zeros, every statement ends in ';', identifiers start with a lower-case
   letter, keywords are reserved.  strict_parse : string -> option prog (the syntax of Spec/Qasm.v); None = not
   OpenQASM 2.0.  Used by C10 ("the exported text is accepted by a strict reader") and to read the gate definitions
   the exporter emits.  Definitions only; all recursion is structural or on explicit fuel bounded by the text length. *)
From QV Require Export Spec.Qasm.
From Coq Require Import Ascii ZArith.
Local Open Scope nat_scope.
Local Open Scope list_scope.

Inductive tok := TId (s : string) | TInt (z : Z) | TReal (q : Q) | TStr (s : string) | TSym (s : string).

Definition code (c : ascii) : nat := nat_of_ascii c.
Definition is_digit (c : ascii) : bool := (48 <=? code c) && (code c <=? 57).
Definition is_lower (c : ascii) : bool := (97 <=? code c) && (code c <=? 122).
Definition is_upper (c : ascii) : bool := (65 <=? code c) && (code c <=? 90).
Definition is_idchar (c : ascii) : bool := is_digit c || is_lower c || is_upper c || (code c =? 95).
Definition is_space (c : ascii) : bool := (code c =? 32) || (code c =? 9) || (code c =? 10) || (code c =? 13).
Definition chr (n : nat) : ascii := ascii_of_nat n.

Fixpoint span (p : ascii -> bool) (l : list ascii) : list ascii * list ascii :=
  match l with
  | c :: r => if p c then let (a, b) := span p r in (c :: a, b) else ([], l)
  | [] => ([], [])
  end.
Fixpoint digits_val (acc : Z) (l : list ascii) : Z :=          (* binary integers: literals can have many digits *)
  match l with [] => acc | c :: r => digits_val (10 * acc + Z.of_nat (code c - 48))%Z r end.
Definition str_of (l : list ascii) : string := string_of_list_ascii l.

(* value of  ip.fp e(+|-)ed  as a rational *)
Definition real_val (ip fp : list ascii) (eneg : bool) (ed : list ascii) : Q :=
  let m := digits_val 0%Z (ip ++ fp) in
  let e := digits_val 0%Z ed in
  let k := Z.of_nat (length fp) in
  (if eneg then Qmake m (Z.to_pos (10 ^ (k + e))) else Qmake (m * 10 ^ e) (Z.to_pos (10 ^ k)))%Z.

Definition two_char_sym (a b : ascii) : option string :=
  if (code a =? 45) && (code b =? 62) then Some "->"%string
  else if (code a =? 61) && (code b =? 61) then Some "=="%string else None.
Definition one_char_sym (a : ascii) : bool :=
  existsb (Nat.eqb (code a)) [40; 41; 91; 93; 123; 125; 59; 44; 43; 45; 42; 47; 94].     (* ( ) [ ] { } ; , + - * / ^ *)

Fixpoint lex (fuel : nat) (l : list ascii) : option (list tok) :=
  match fuel with
  | 0 => match l with [] => Some [] | _ => None end
  | S f =>
    match l with
    | [] => Some []
    | c :: r =>
      if is_space c then lex f r
      else if (code c =? 47) && (match r with d :: _ => code d =? 47 | [] => false end) then   (* // comment *)
        lex f (snd (span (fun x => negb (code x =? 10)) r))
      else if is_lower c || is_upper c then
        let (w, r') := span is_idchar l in
        match lex f r' with Some ts => Some (TId (str_of w) :: ts) | None => None end
      else if is_digit c || ((code c =? 46) && (match r with d :: _ => is_digit d | [] => false end)) then
        let (ip, r1) := span is_digit l in
        let '(dot, fp, r2) := match r1 with
                              | d :: r1' => if code d =? 46 then let (fp, r2) := span is_digit r1' in (true, fp, r2) else (false, [], r1)
                              | [] => (false, [], r1) end in
        let '(hasexp, eneg, ed, r3) :=
          match r2 with
          | e :: r2' =>
              if (code e =? 101) || (code e =? 69) then
                let '(eneg, r2'') := match r2' with
                                     | s :: t => if code s =? 45 then (true, t) else if code s =? 43 then (false, t) else (false, r2')
                                     | [] => (false, r2') end in
                let (ed, r3) := span is_digit r2'' in (true, eneg, ed, r3)
              else (false, false, [], r2)
          | [] => (false, false, [], r2) end in
        let follows_ok := match r3 with x :: _ => negb (is_idchar x) | [] => true end in
        if negb follows_ok then None
        else if hasexp && (match ed with [] => true | _ => false end) then None
        else if dot then
          match lex f r3 with Some ts => Some (TReal (real_val ip fp eneg ed) :: ts) | None => None end
        else if hasexp then None                                        (* 1e5 : a real needs a '.' *)
        else if (match ip with z :: _ :: _ => code z =? 48 | _ => false end) then None     (* 007 *)
        else match lex f r3 with Some ts => Some (TInt (digits_val 0%Z ip) :: ts) | None => None end
      else if code c =? 34 then                                         (* "string" *)
        let (w, r') := span (fun x => negb (code x =? 34) && negb (code x =? 10)) r in
        match r' with
        | q :: r'' => match lex f r'' with Some ts => Some (TStr (str_of w) :: ts) | None => None end
        | [] => None end
      else
        match r with
        | d :: r' => match two_char_sym c d with
                     | Some s => match lex f r' with Some ts => Some (TSym s :: ts) | None => None end
                     | None => if one_char_sym c then match lex f r with Some ts => Some (TSym (String c EmptyString) :: ts) | None => None end
                               else None end
        | [] => if one_char_sym c then Some [TSym (String c EmptyString)] else None
        end
    end
  end.

(* ---------------------------------------------------------------- parser *)
Local Open Scope string_scope.
Definition keywords : list string :=
  ["qreg"; "creg"; "gate"; "opaque"; "measure"; "reset"; "barrier"; "if"; "include"; "pi"; "sin"; "cos"; "tan"; "exp"; "ln"; "sqrt";
   "OPENQASM"; "U"; "CX"].
Definition unaryops : list string := ["sin"; "cos"; "tan"; "exp"; "ln"; "sqrt"].
Definition is_ident (s : string) : bool :=
  match s with String c _ => is_lower c && negb (smem s keywords) | EmptyString => false end.
Definition sym (s : string) (t : tok) : bool := match t with TSym x => String.eqb x s | _ => false end.
Definition PR (X : Type) := option (X * list tok).

(* exp: + - lowest, then * /, then unary minus, then ^ *)
Fixpoint pexp (fuel : nat) (lvl : nat) (ts : list tok) {struct fuel} : PR expr :=
  match fuel with
  | 0 => None
  | S f =>
    match lvl with
    | 0 => match pexp f 1 ts with
           | Some (a, r) => ploop f 0 a r
           | None => None end
    | 1 => match pexp f 2 ts with
           | Some (a, r) => ploop f 1 a r
           | None => None end
    | _ =>
      match ts with
      | TSym "-" :: r => match pexp f 2 r with Some (a, r') => Some (ENeg a, r') | None => None end
      | _ =>
        match patom f ts with
        | Some (a, TSym "^" :: r) => match pexp f 2 r with Some (b, r') => Some (EPow a b, r') | None => None end
        | other => other end
      end
    end
  end
with ploop (fuel : nat) (lvl : nat) (a : expr) (ts : list tok) {struct fuel} : PR expr :=
  match fuel with
  | 0 => None
  | S f =>
    match lvl, ts with
    | 0, TSym "+" :: r => match pexp f 1 r with Some (b, r') => ploop f 0 (EAdd a b) r' | None => None end
    | 0, TSym "-" :: r => match pexp f 1 r with Some (b, r') => ploop f 0 (ESub a b) r' | None => None end
    | 1, TSym "*" :: r => match pexp f 2 r with Some (b, r') => ploop f 1 (EMul a b) r' | None => None end
    | 1, TSym "/" :: r => match pexp f 2 r with Some (b, r') => ploop f 1 (EDiv a b) r' | None => None end
    | _, _ => Some (a, ts)
    end
  end
with patom (fuel : nat) (ts : list tok) {struct fuel} : PR expr :=
  match fuel with
  | 0 => None
  | S f =>
    match ts with
    | TReal q :: r => Some (ENum q, r)
    | TInt n :: r => Some (ENum (inject_Z n), r)
    | TSym "(" :: r => match pexp f 0 r with Some (a, TSym ")" :: r') => Some (a, r') | _ => None end
    | TId x :: r =>
        if String.eqb x "pi" then Some (EPi, r)
        else if smem x unaryops then
          match r with
          | TSym "(" :: r1 => match pexp f 0 r1 with Some (a, TSym ")" :: r') => Some (ECall x a, r') | _ => None end
          | _ => None end
        else if is_ident x then Some (EId x, r) else None
    | _ => None
    end
  end.

Fixpoint pexplist (fuel : nat) (ts : list tok) : PR (list expr) :=
  match fuel with
  | 0 => None
  | S f => match pexp (S (length ts)) 0 ts with
           | Some (a, TSym "," :: r) => match pexplist f r with Some (l, r') => Some (a :: l, r') | None => None end
           | Some (a, r) => Some ([a], r)
           | None => None end
  end.
(* optional parenthesised parameter list: "( )" and "( explist )" *)
Definition pparams (ts : list tok) : PR (list expr) :=
  match ts with
  | TSym "(" :: TSym ")" :: r => Some ([], r)
  | TSym "(" :: r => match pexplist (S (length r)) r with Some (l, TSym ")" :: r') => Some (l, r') | _ => None end
  | _ => Some ([], ts)
  end.
Fixpoint pidlist (fuel : nat) (ts : list tok) : PR (list string) :=
  match fuel with
  | 0 => None
  | S f => match ts with
           | TId x :: TSym "," :: r => if is_ident x then match pidlist f r with Some (l, r') => Some (x :: l, r') | None => None end else None
           | TId x :: r => if is_ident x then Some ([x], r) else None
           | _ => None end
  end.
Definition pidparams (ts : list tok) : PR (list string) :=
  match ts with
  | TSym "(" :: TSym ")" :: r => Some ([], r)
  | TSym "(" :: r => match pidlist (S (length r)) r with Some (l, TSym ")" :: r') => Some (l, r') | _ => None end
  | _ => Some ([], ts)
  end.
Definition parg (ts : list tok) : PR qarg :=
  match ts with
  | TId r :: TSym "[" :: TInt i :: TSym "]" :: rest => if is_ident r then Some (AIdx r (Z.to_nat i), rest) else None
  | TId r :: rest => if is_ident r then Some (AReg r, rest) else None
  | _ => None
  end.
Fixpoint panylist (fuel : nat) (ts : list tok) : PR (list qarg) :=
  match fuel with
  | 0 => None
  | S f => match parg ts with
           | Some (a, TSym "," :: r) => match panylist f r with Some (l, r') => Some (a :: l, r') | None => None end
           | Some (a, r) => Some ([a], r)
           | None => None end
  end.
(* uop:  U(explist) arg ;  |  CX arg , arg ;  |  id [(explist)] anylist ;   -> (name, params, arguments) *)
Definition puop (ts : list tok) : PR (string * list expr * list qarg) :=
  match ts with
  | TId "U" :: TSym "(" :: r =>
      match pexplist (S (length r)) r with
      | Some (es, TSym ")" :: r1) => match parg r1 with Some (a, TSym ";" :: r2) => Some (("U", es, [a]), r2) | _ => None end
      | _ => None end
  | TId "CX" :: r =>
      match parg r with
      | Some (a, TSym "," :: r1) => match parg r1 with Some (b, TSym ";" :: r2) => Some (("CX", [], [a; b]), r2) | _ => None end
      | _ => None end
  | TId g :: r =>
      if is_ident g then
        match pparams r with
        | Some (es, r1) => match panylist (S (length r1)) r1 with Some (qs, TSym ";" :: r2) => Some ((g, es, qs), r2) | _ => None end
        | None => None end
      else None
  | _ => None
  end.
Definition all_regs (qs : list qarg) : option (list string) := omap (fun a => match a with AReg r => Some r | AIdx _ _ => None end) qs.
Fixpoint pbody (fuel : nat) (ts : list tok) : PR (list bstmt) :=
  match fuel with
  | 0 => None
  | S f =>
    match ts with
    | TSym "}" :: r => Some ([], r)
    | TId "barrier" :: r =>
        match pidlist (S (length r)) r with
        | Some (ids, TSym ";" :: r1) => match pbody f r1 with Some (b, r2) => Some (BBarrier ids :: b, r2) | None => None end
        | _ => None end
    | _ => match puop ts with
           | Some ((g, es, qs), r1) =>
               match all_regs qs, pbody f r1 with
               | Some ids, Some (b, r2) => Some (BCall g es ids :: b, r2)
               | _, _ => None end
           | None => None end
    end
  end.
(* qop: uop | measure arg -> arg ; | reset arg ; *)
Definition pqop (cond : option (string * nat)) (ts : list tok) : PR op :=
  match ts with
  | TId "measure" :: r =>
      match cond, parg r with
      | None, Some (a, TSym "->" :: r1) => match parg r1 with Some (b, TSym ";" :: r2) => Some (OMeasure a b, r2) | _ => None end
      | _, _ => None end                        (* a measurement under if is outside the syntax tree of Spec/Qasm.v *)
  | TId "reset" :: r => match cond, parg r with None, Some (a, TSym ";" :: r1) => Some (OReset a, r1) | _, _ => None end
  | _ => match puop ts with
         | Some ((g, es, qs), r1) => Some (match cond with Some (c, k) => OIf c k g es qs | None => OApp g es qs end, r1)
         | None => None end
  end.

Definition add_qreg (p : prog) r n := mkProg (p_qregs p ++ [(r, n)]) (p_cregs p) (p_gates p) (p_ops p).
Definition add_creg (p : prog) r n := mkProg (p_qregs p) (p_cregs p ++ [(r, n)]) (p_gates p) (p_ops p).
Definition add_gate (p : prog) g := mkProg (p_qregs p) (p_cregs p) (p_gates p ++ [g]) (p_ops p).
Definition add_op (p : prog) o := mkProg (p_qregs p) (p_cregs p) (p_gates p) (p_ops p ++ [o]).

Fixpoint pstmts (fuel : nat) (p : prog) (ts : list tok) : option prog :=
  match fuel with
  | 0 => None
  | S f =>
    match ts with
    | [] => Some p
    | TId "qreg" :: TId r :: TSym "[" :: TInt n :: TSym "]" :: TSym ";" :: rest => if is_ident r then pstmts f (add_qreg p r (Z.to_nat n)) rest else None
    | TId "creg" :: TId r :: TSym "[" :: TInt n :: TSym "]" :: TSym ";" :: rest => if is_ident r then pstmts f (add_creg p r (Z.to_nat n)) rest else None
    | TId "include" :: TStr file :: TSym ";" :: rest => if String.eqb file "qelib1.inc" then pstmts f p rest else None
    | TId "gate" :: TId g :: r =>
        if is_ident g then
          match pidparams r with
          | Some (ps, r1) =>
              match pidlist (S (length r1)) r1 with
              | Some (qs, TSym "{" :: r2) =>
                  match pbody (S (length r2)) r2 with
                  | Some (b, r3) => pstmts f (add_gate p (GDef g (mkGdef ps qs b))) r3
                  | None => None end
              | _ => None end
          | None => None end
        else None
    | TId "opaque" :: TId g :: r =>
        if is_ident g then
          match pidparams r with
          | Some (ps, r1) => match pidlist (S (length r1)) r1 with
                             | Some (qs, TSym ";" :: r2) => pstmts f (add_gate p (GOpaque g ps qs)) r2
                             | _ => None end
          | None => None end
        else None
    | TId "barrier" :: r =>
        match panylist (S (length r)) r with Some (qs, TSym ";" :: r1) => pstmts f (add_op p (OBarrier qs)) r1 | _ => None end
    | TId "if" :: TSym "(" :: TId c :: TSym "==" :: TInt k :: TSym ")" :: r =>
        if is_ident c then match pqop (Some (c, Z.to_nat k)) r with Some (o, r1) => pstmts f (add_op p o) r1 | None => None end else None
    | _ => match pqop None ts with Some (o, r1) => pstmts f (add_op p o) r1 | None => None end
    end
  end.

Definition two_point_zero (q : Q) : bool := Qeq_bool q 2.
(* mainprogram: OPENQASM 2.0 ; program      (include "qelib1.inc"; makes the gates of Spec/Qasm.v qelib1 available;
   whether it is present is returned, because the library gates are undeclared without it) *)
Definition strict_parse_toks (ts : list tok) : option prog :=
  match ts with
  | TId "OPENQASM" :: TReal v :: TSym ";" :: rest => if two_point_zero v then pstmts (S (length rest)) (mkProg [] [] [] []) rest else None
  | _ => None
  end.
Definition has_include (ts : list tok) : bool :=
  existsb (fun t => match t with TStr f => String.eqb f "qelib1.inc" | _ => false end) ts.
Definition strict_lex (s : string) : option (list tok) := let l := list_ascii_of_string s in lex (S (length l)) l.
Definition strict_parse (s : string) : option prog :=
  match strict_lex s with Some ts => strict_parse_toks ts | None => None end.
(* a definition text as emitted by the exporter ("gate name(params) qubits { body }") *)
Definition parse_defn (s : string) : option gitem :=
  match strict_lex s with
  | Some ts => match pstmts (S (length ts)) (mkProg [] [] [] []) ts with
               | Some p => match p_gates p with [g] => Some g | _ => None end
               | None => None end
  | None => None
  end.
