(* Matrices of the two built-in operations of OpenQASM 2.0 and the symbolic meaning of the qelib1.inc gates:
   a qelib1 gate with parameters (Var 0, Var 1, ..) denotes the circuit of U / CX obtained by expanding its definition.
   U(theta,phi,lambda) := Rz(phi) Ry(theta) Rz(lambda)  (eq. (2) of the specification), written out entry by entry.
   Definitions only. *)
From QV Require Export Spec.Qasm.
From QV Require Export Found.Sym Found.SymProofs.
Local Open Scope string_scope.
Local Open Scope nat_scope.
Local Open Scope list_scope.

(* parameter values = symbolic expressions in the gate's own parameters Var 0.. *)
Definition ExAlg : VAlg := mkVA ex Num Pi Neg Add Sub Mul (fun a b => Some (Div a b)).

Definition half_sum : ex := Mul (Imag (1 # 2)) (Add (Var 1) (Var 2)).     (* i (phi+lambda)/2 *)
Definition half_dif : ex := Mul (Imag (1 # 2)) (Sub (Var 1) (Var 2)).     (* i (phi-lambda)/2 *)
Definition ct2 : ex := Cos (Div (Var 0) (Num 2)).
Definition st2 : ex := Sin (Div (Var 0) (Num 2)).
Definition U_std : mexp :=
  MLit [[Mul (Exp (Neg half_sum)) ct2; Neg (Mul (Exp (Neg half_dif)) st2)];
        [Mul (Exp half_dif) st2;       Mul (Exp half_sum) ct2]].
Definition CX_std : mexp :=
  MLit [[Num 1; Num 0; Num 0; Num 0]; [Num 0; Num 1; Num 0; Num 0]; [Num 0; Num 0; Num 0; Num 1]; [Num 0; Num 0; Num 1; Num 0]].

(* a leaf U / CX as a symbolic gate *)
Definition leaf_sgate (l : leaf ExAlg) : option sgate :=
  match l with
  | (name, vals, qs) =>
      if String.eqb name "U" then Some (msubst vals U_std, qs)
      else if String.eqb name "CX" then Some (CX_std, qs)
      else None
  end.
(* the standard meaning of gate [g] of (built-ins + qelib1) on local qubits 0.., parameters Var 0.. *)
Definition std_sym (g : string) : option scirc :=
  match sassoc g lib_sigs with
  | Some (np, nq) =>
      match expand ExAlg builtin_sigs qelib1_env g (map Var (seq 0 np)) (seq 0 nq) with
      | Some ls => omap leaf_sgate ls
      | None => None end
  | None => None
  end.
(* a global phase e^{i a} *)
Definition phase_gate (a : ex) : sgate := (MLit [[Exp (Mul (Imag 1) a)]], []).
