(* C02 -- specification of the outcome branches of a circuit with mid-circuit measurements and classically
   controlled gates, written from the property text.  Definitions only.

   For an outcome record r (one bit per measurement, in program order) the UNNORMALISED branch state is the
   ordered product of the gates (a conditioned gate acts iff the branch's CURRENT classical bits equal its
   condition) and of the projectors |r_k><r_k| of the measured qubits; the Born probability of the record is
   the squared norm of that vector, the post-measurement state is the vector divided by the square root of
   the probability, the classical bits are the writes of the record in program order. *)
From Coq Require Import List Arith NArith Bool.
From QV Require Import Model.Sim.
Import ListNotations.

(* the number spelled by the listed classical bits, first listed = most significant;
   None when a listed bit does not exist or does not hold 0/1 *)
Fixpoint cval_from (acc : N) (cc : list nat) (cb : list nat) : option N :=
  match cc with
  | [] => Some acc
  | i :: cc' =>
    match nth_error cb i with
    | Some 0 => cval_from (2 * acc)%N cc' cb
    | Some 1 => cval_from (2 * acc + 1)%N cc' cb
    | _ => None
    end
  end.
Definition cval (cc cb : list nat) : option N := cval_from 0%N cc cb.

(* "the classical bits equal the condition" *)
Definition cond_true (cc : list nat) (v : N) (cb : list nat) : bool :=
  match cval cc cb with Some x => N.eqb x v | None => false end.

(* total list update (no-op out of range) *)
Fixpoint set_nth {A} (l : list A) (i : nat) (x : A) : list A :=
  match l, i with
  | [], _ => []
  | _ :: tl, 0 => x :: tl
  | y :: tl, S k => y :: set_nth tl k x
  end.
Definition write (store : option nat) (b : bool) (cb : list nat) : list nat :=
  match store with None => cb | Some c => set_nth cb c (Nat.b2n b) end.

Section Spec.
Variable X : Sys.

(* unnormalised branch vector and classical bits of record r *)
Fixpoint ubranch (ops : list (op X)) (r : list bool) (s : St X) (cb : list nat) : St X * list nat :=
  match ops with
  | [] => (s, cb)
  | OGate g None :: tl => ubranch tl r (gate X g s) cb
  | OGate g (Some (cc, v)) :: tl => ubranch tl r (if cond_true cc v cb then gate X g s else s) cb
  | OMeas q store :: tl =>
    match r with
    | b :: r' => ubranch tl r' (proj X q b s) (write store b cb)
    | [] => (s, cb)
    end
  end.

Definition bvec ops r s cb : St X := fst (ubranch ops r s cb).
Definition bprob ops r s cb : F X := nrm X (bvec ops r s cb).                   (* Born probability of r *)
Definition bstate ops r s cb : St X := renorm X (bprob ops r s cb) (bvec ops r s cb). (* normalised state *)
Definition bcbits ops r s cb : list nat := snd (ubranch ops r s cb).

Definition fsum (l : list (F X)) : F X := fold_right (fadd X) (f0 X) l.
Definition dsum (l : list (Dm X)) : Dm X := fold_right (dadd X) (dzero X) l.

(* the probability-weighted mixture of the branches: sum_r P(r) |psi_r><psi_r| = sum_r |u_r><u_r| *)
Definition mixture ops s cb : Dm X :=
  dsum (map (fun r => dm_of X (bvec ops r s cb)) (all_records (nmeas X ops))).

(* the classical register the simulator starts from: the caller's list when it is non-empty and has the
   right length, zeros otherwise *)
Definition init_cbits (ncb : nat) (arg : option (list nat)) : list nat :=
  match arg with
  | Some l => if negb (is_nil l) && Nat.eqb (length l) ncb then l else repeat 0 ncb
  | None => repeat 0 ncb
  end.

(* well-formed circuit: classical indices in range, control values representable *)
Definition wf_op (ncb : nat) (o : op X) : bool :=
  match o with
  | OGate _ None => true
  | OGate _ (Some (cc, v)) => forallb (fun i => Nat.ltb i ncb) cc && N.ltb v (2 ^ N.of_nat (length cc))
  | OMeas _ None => true
  | OMeas _ (Some c) => Nat.ltb c ncb
  end.
Definition wf (ncb : nat) (ops : list (op X)) : bool := forallb (wf_op ncb) ops.

(* tolerance guard: along record r no conditional outcome probability p (as the simulator computes it, on
   the normalised state) lies in the window where p <> 0 but the outcome is discarded *)
Definition pok (p : F X) : bool := keepb X p || feqb X p (f0 X).
Fixpoint clear (ops : list (op X)) (r : list bool) (s : St X) (cb : list nat) : bool :=
  match ops with
  | [] => true
  | OGate g None :: tl => clear tl r (gate X g s) cb
  | OGate g (Some (cc, v)) :: tl => clear tl r (if cond_true cc v cb then gate X g s else s) cb
  | OMeas q store :: tl =>
    match r with
    | b :: r' =>
      let p := nrm X (proj X q b s) in
      pok (nrm X (proj X q false s)) && pok (nrm X (proj X q true s)) &&
      (if keepb X p then clear tl r' (renorm X p (proj X q b s)) (write store b cb) else true)
    | [] => true
    end
  end.
Definition clear_all ops s cb : bool := forallb (fun r => clear ops r s cb) (all_records (nmeas X ops)).

(* density-matrix guard 1: no conditioned gate reads a bit that an earlier measurement stores into *)
Definition reads_op (o : op X) : list nat :=
  match o with OGate _ (Some (cc, _)) => cc | _ => [] end.
Definition reads (ops : list (op X)) : list nat := flat_map reads_op ops.
Fixpoint dm_safe (ops : list (op X)) : bool :=
  match ops with
  | [] => true
  | OMeas _ (Some c) :: tl => negb (existsb (Nat.eqb c) (reads tl)) && dm_safe tl
  | _ :: tl => dm_safe tl
  end.

(* density-matrix guard 2 (tolerance): at every measurement of the density-matrix evolution each outcome
   trace is kept or exactly 0, and not both are discarded *)
Fixpoint dm_clear (ops : list (op X)) (cb : list nat) (rho : Dm X) : bool :=
  match ops with
  | [] => true
  | OGate g None :: tl => dm_clear tl cb (dgate X g rho)
  | OGate g (Some (cc, v)) :: tl => dm_clear tl cb (if cond_true cc v cb then dgate X g rho else rho)
  | OMeas q _ :: tl =>
    let p0 := dtr X (dproj X q false rho) in
    let p1 := dtr X (dproj X q true rho) in
    pok p0 && pok p1 && (keepb X p0 || keepb X p1) &&
    dm_clear tl cb (dadd X (dproj X q false rho) (dproj X q true rho))
  end.

(* tolerance guard for the branch-tracking density-matrix path: at every measurement each outcome trace of every
   tracked branch is kept or exactly 0, the run raises no exception, and some branch survives *)
Fixpoint dm_bclear (ops : list (op X)) (m : bmap X) : bool :=
  match ops with
  | [] => negb (is_nil m)
  | o :: tl =>
    (match o with
     | OMeas q _ => forallb (fun kx => pok (dtr X (dproj X q false (snd kx))) && pok (dtr X (dproj X q true (snd kx)))) m
     | _ => true
     end) &&
    match dm_bstep X o m with Ok m' => dm_bclear tl m' | Err => false end
  end.

(* the guard of the density-matrix clause, following the path the code takes *)
Definition dm_guard (ncb : nat) (ops : list (op X)) (cb0 : list nat) (rho0 : Dm X) : bool :=
  if Nat.ltb 0 ncb && dm_branching X ops then dm_bclear ops [(cb0, rho0)] else dm_clear ops cb0 rho0.

End Spec.
