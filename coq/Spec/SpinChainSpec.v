(* Closed forms of the pulse unitaries of the spin-chain control Hamiltonians (property C06).
   For a control Hamiltonian  2*pi*P  driven with a coefficient of total area a, the propagator is
   exp(-i * phi * P) with phi = 2*pi*a.  For the three generators P the exponential is GIVEN here by its closed
   form, as a matrix expression in Var 0 = phi:
     P = sigma_x :  cos(phi) 1 - i sin(phi) sigma_x
     P = sigma_z :  diag(e^{-i phi}, e^{i phi})
     P = XX + YY :  identity on |00>, |11>;  on span{|01>,|10>} (where P = 2 sigma_x)  cos(2 phi) 1 - i sin(2 phi) sigma_x
   "closed form = scipy.linalg.expm(-1j * phi * P)" is an ASSUMPTION of C06 (trusted base), validated numerically by
   tools/props/c06.py; what is proved about the closed forms: one-parameter group law, value 1 at 0, unitarity,
   and the first-order term -i*phi*P (Proofs/SpinChainCal.v).  Definitions only. *)
From Coq Require Import QArith String List.
From QV Require Import Found.Sym Model.SpinChainTypes.
Import ListNotations.

Definition mI : ex := Neg (Imag 1).      (* -1j *)
Definition z0 : ex := Num 0.
Definition o1 : ex := Num 1.

Definition closed_x : mexp :=
  MLit [[Cos (Var 0); Mul mI (Sin (Var 0))];
        [Mul mI (Sin (Var 0)); Cos (Var 0)]].
Definition closed_z : mexp :=
  MLit [[Exp (Mul mI (Var 0)); z0];
        [z0; Exp (Mul (Imag 1) (Var 0))]].
Definition closed_xy : mexp :=
  MLit [[o1; z0; z0; z0];
        [z0; Cos (Mul (Num 2) (Var 0)); Mul mI (Sin (Mul (Num 2) (Var 0))); z0];
        [z0; Mul mI (Sin (Mul (Num 2) (Var 0))); Cos (Mul (Num 2) (Var 0)); z0];
        [z0; z0; z0; o1]].
Definition closed (k : hkind) : mexp := match k with HX => closed_x | HZ => closed_z | HXY => closed_xy end.
Definition hqubits (k : hkind) : nat := match k with HXY => 2 | _ => 1 end.

(* the generators themselves (parameter free) *)
Definition pauli_x : mexp := MLit [[z0; o1]; [o1; z0]].
Definition pauli_z : mexp := MLit [[o1; z0]; [z0; Neg o1]].
Definition xx_yy : mexp :=
  MLit [[z0; z0; z0; z0]; [z0; z0; Num 2; z0]; [z0; Num 2; z0; z0]; [z0; z0; z0; z0]].
Definition generator (k : hkind) : mexp := match k with HX => pauli_x | HZ => pauli_z | HXY => xx_yy end.
Definition ident (k : hkind) : mexp :=
  match k with
  | HXY => MLit [[o1; z0; z0; z0]; [z0; o1; z0; z0]; [z0; z0; o1; z0]; [z0; z0; z0; o1]]
  | _ => MLit [[o1; z0]; [z0; o1]]
  end.

(* closed(a) * closed(b) = closed(a + b) *)
Definition group_law (k : hkind) : bool :=
  meqb (MMul (msubst [Var 0] (closed k)) (msubst [Var 1] (closed k))) (msubst [Add (Var 0) (Var 1)] (closed k)).
Definition unit_law (k : hkind) : bool := meqb (msubst [Num 0] (closed k)) (ident k).
(* the generator is recovered at the quarter period: closed_x(pi/2) = -i sigma_x, closed_z(pi/2) = -i sigma_z,
   closed_xy(pi/4) = identity on |00>,|11> and -i sigma_x on the exchange block *)
Definition quarter (k : hkind) : bool :=
  match k with
  | HX => meqb (msubst [Div Pi (Num 2)] closed_x) (MScale mI pauli_x)
  | HZ => meqb (msubst [Div Pi (Num 2)] closed_z) (MScale mI pauli_z)
  | HXY => meqb (msubst [Div Pi (Num 4)] closed_xy)
             (MLit [[o1; z0; z0; z0]; [z0; z0; mI; z0]; [z0; mI; z0; z0]; [z0; z0; z0; o1]])
  end.
Definition commutes_with_generator (k : hkind) : bool :=
  meqb (MMul (closed k) (generator k)) (MMul (generator k) (closed k)).
