(* C14 -- specification side, written from the property text only.

   "a step coefficient holds its value from one grid point to the next and is zero once its grid has
    ended":  step_fn tl cf t = cf[i] for tl[i] <= t < tl[i+1], and 0 everywhere else (before the grid
   starts, after it has ended, and where no sample is given).

   H(t) = drift + sum_m c_m(t) H_m with the H's kept as abstract symbols of an arbitrary module.
   The time-ordered exponential of a piecewise-constant H(t) that equals H_n on [T_n, T_n+1) IS BY
   DEFINITION the ordered product  exp(-i H_{N-2} dt_{N-2}) ... exp(-i H_0 dt_0); so "the analytic
   evolution is the time-ordered propagator of H(t)" reduces to: the list of (dt_n, H_n) that the code
   exponentiates, in loop order, satisfies `slices_ok` below.  (expm itself is external.) *)
From Coq Require Import String Ascii.
From Coq Require Import List QArith Bool Arith.
From QV Require Import Model.Fill.
Import ListNotations.
Open Scope Q_scope.

Fixpoint step_fn (tl cf : list Q) (t : Q) : Q :=
  match tl with
  | [] => 0
  | a :: tl' =>
      match tl', cf with
      | b :: _, c :: cf' => if Qle_bool a t && Qltb t b then c else step_fn tl' cf' t
      | _, _ => 0
      end
  end.

(* coefficient function of a stored pulse: arrays are step functions on their own grid; the two
   constant forms (coeff=True/False, or no coefficient at all) are constants *)
Definition pulse_fn (p : pulse) (t : Q) : Q :=
  match pco p with
  | CNone => 0
  | CBool b => if b then 1 else 0
  | CArr cf => match ptl p with Some tl => step_fn tl cf t | None => 0 end
  end.

(* `res` lists, for every interval [T_n, T_n+1) of the grid F, the value that g takes on the whole
   interval (the entry that belongs to the final grid point is unconstrained: no slice uses it) *)
Inductive ok_out (g : Q -> Q) : list Q -> list Q -> Prop :=
| ok_nil : ok_out g [] []
| ok_one : forall t c, ok_out g [t] [c]
| ok_cons : forall t1 t2 F c res,
    (forall t, t1 <= t -> t < t2 -> c = g t) ->
    ok_out g (t2 :: F) res ->
    ok_out g (t1 :: t2 :: F) (c :: res).

(* the slices tile the grid in order, and on every slice the coefficient vector is (c_m(t))_m *)
Inductive slices_ok (fs : list (Q -> Q)) : list Q -> list (Q * list Q) -> Prop :=
| sl_nil : slices_ok fs [] []
| sl_one : forall t, slices_ok fs [t] []
| sl_cons : forall t1 t2 F dt cs sl,
    dt = t2 - t1 ->
    (forall t, t1 <= t -> t < t2 -> cs = map (fun f => f t) fs) ->
    slices_ok fs (t2 :: F) sl ->
    slices_ok fs (t1 :: t2 :: F) ((dt, cs) :: sl).

(* formal Hamiltonian over an arbitrary module (no laws needed) *)
Section Ham.
  Variable M : Type.
  Variable madd : M -> M -> M.
  Variable mscale : Q -> M -> M.
  Fixpoint lincomb (acc : M) (cs : list Q) (ops : list M) : M :=
    match cs, ops with
    | c :: cs', h :: ops' => lincomb (madd acc (mscale c h)) cs' ops'
    | _, _ => acc
    end.
  (* H(t) of the property text *)
  Definition H_of (drift : M) (ops : list M) (fs : list (Q -> Q)) (t : Q) : M :=
    lincomb drift (map (fun f => f t) fs) ops.
End Ham.

(* ------- decidable side conditions (booleans so that Examples are by computation) ------------- *)

Fixpoint incrb (l : list Q) : bool :=          (* strictly increasing *)
  match l with
  | [] => true
  | x :: l' => match l' with [] => true | y :: _ => Qltb x y && incrb l' end
  end.

(* any two grid points are equal or further apart than the tolerance *)
Definition sepb (tol x y : Q) : bool := Qeq_bool x y || Qltb tol (x - y) || Qltb tol (y - x).
Definition wellsepb (tol : Q) (pts : list Q) : bool :=
  forallb (fun x => forallb (sepb tol x) pts) pts.

Fixpoint nondecrb (l : list Q) : bool :=       (* non-decreasing: repeated time points allowed *)
  match l with
  | [] => true
  | x :: l' => match l' with [] => true | y :: _ => Qle_bool x y && nondecrb l' end
  end.

(* array pulse: non-decreasing grid with at least one point, one sample per interval or per grid point *)
Definition pulse_okb (p : pulse) : bool :=
  match pco p, ptl p with
  | CArr cf, Some tl => nondecrb tl && (1 <=? length tl)%nat
                        && ((length cf + 1 =? length tl)%nat || (length cf =? length tl)%nat)
  | CArr _, None => false
  | CNone, Some _ => false
  | _, _ => true
  end.

Definition inputs_okb (tol : Q) (ps : list pulse) : bool :=
  Qle_bool 0 tol && forallb pulse_okb ps && wellsepb tol (concat (all_tlists ps))
  && negb (match all_tlists ps with [] => true | _ => false end).

(* the narrower domain on which the one-step advance of the earlier code (v0, v1) is correct:
   strictly increasing grids with at least two points *)
Definition pulse_okb_v1 (p : pulse) : bool :=
  match pco p, ptl p with
  | CArr cf, Some tl => incrb tl && (2 <=? length tl)%nat
                        && ((length cf + 1 =? length tl)%nat || (length cf =? length tl)%nat)
  | CArr _, None => false
  | CNone, Some _ => false
  | _, _ => true
  end.

Definition inputs_okb_v1 (tol : Q) (ps : list pulse) : bool :=
  Qle_bool 0 tol && forallb pulse_okb_v1 ps && wellsepb tol (concat (all_tlists ps))
  && negb (match all_tlists ps with [] => true | _ => false end).

(* the extra guard the code AS FOUND needs: an array pulse given one sample per grid point must not
   end with a non-zero sample (otherwise that sample leaks past the end of the pulse) *)
Definition Qsame (a b : Q) : bool := (Qnum a =? Qnum b)%Z && (Qden a =? Qden b)%positive.
Definition no_tail_sampleb (p : pulse) : bool :=
  match pco p, ptl p with
  | CArr cf, Some tl => negb (length cf =? length tl)%nat || Qsame (last cf 0) 0
  | _, _ => true
  end.

(* the Hamiltonians the analytic loop exponentiates, and what the property demands of them *)
Section HamSlices.
  Variable M : Type.
  Variable madd : M -> M -> M.
  Variable mscale : Q -> M -> M.
  Variable drift : M.
  Variable ops : list M.
  Definition ham_slices (sl : list (Q * list Q)) : list (Q * M) :=
    map (fun s => (fst s, lincomb M madd mscale drift (snd s) ops)) sl.
  (* (dt_n, H_n) in time order: dt_n = T_n+1 - T_n and H_n = H(t) for every t in [T_n, T_n+1) *)
  Inductive hslices_ok (fs : list (Q -> Q)) : list Q -> list (Q * M) -> Prop :=
  | hs_nil : hslices_ok fs [] []
  | hs_one : forall t, hslices_ok fs [t] []
  | hs_cons : forall t1 t2 F dt H sl,
      dt = t2 - t1 ->
      (forall t, t1 <= t -> t < t2 -> H = H_of M madd mscale drift ops fs t) ->
      hslices_ok fs (t2 :: F) sl ->
      hslices_ok fs (t1 :: t2 :: F) ((dt, H) :: sl).
End HamSlices.

Definition total_time (sl : list (Q * list Q)) : Q := fold_right Qplus 0 (map fst sl).

(* side conditions of the save/reload round trip: at least one label, no ';' inside a label, at least
   one time point, one coefficient row per label, every row as long as the time list *)
Fixpoint nosemib (s : string) : bool :=
  match s with
  | EmptyString => true
  | String c s' => negb (Ascii.eqb c ";"%char) && nosemib s'
  end.
Definition file_okb (labels : list string) (full : list Q) (rows : list (list Q)) : bool :=
  negb (match labels with [] => true | _ => false end) && forallb nosemib labels
  && (1 <=? length full)%nat && (length labels =? length rows)%nat
  && forallb (fun r => (length r =? length full)%nat) rows.
