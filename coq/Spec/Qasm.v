(* OpenQASM 2.0 (Cross, Bishop, Smolin, Gambetta 2017), supported subset: abstract syntax, static well-formedness and
   dynamic semantics by macro expansion, plus qelib1.inc transcribed BY HAND.  This file is the oracle of C04/C10:
   it is written from the standard, not from qasm.py.  Definitions only.

   Programs are kept in declaration-first form (registers, gate definitions, operations); the concrete text is
   produced by the harness one statement per line.
   Values of gate parameters live in an abstract algebra [VAlg] (the reals of the standard): the semantics only uses the
   operations, so every theorem holds for every interpretation of + - * / pi and of the literals. *)
From Coq Require Export String List QArith Bool Arith.
Export ListNotations.
Local Open Scope string_scope.
Local Open Scope nat_scope.
Local Open Scope list_scope.

Fixpoint sassoc {X} (k : string) (l : list (string * X)) : option X :=
  match l with [] => None | (k', v) :: l' => if String.eqb k k' then Some v else sassoc k l' end.
Definition smem (k : string) (l : list string) : bool := existsb (String.eqb k) l.
Fixpoint snodup (l : list string) : bool := match l with [] => true | x :: l' => negb (smem x l') && snodup l' end.
Fixpoint nnodup (l : list nat) : bool := match l with [] => true | x :: l' => negb (existsb (Nat.eqb x) l') && nnodup l' end.
Fixpoint omap {X Y} (f : X -> option Y) (l : list X) : option (list Y) :=
  match l with
  | [] => Some []
  | x :: l' => match f x, omap f l' with Some y, Some r => Some (y :: r) | _, _ => None end
  end.

(* ---------------------------------------------------------------- syntax *)
Inductive expr :=
| ENum (q : Q) | EPi | EId (x : string)
| ENeg (a : expr) | EAdd (a b : expr) | ESub (a b : expr) | EMul (a b : expr) | EDiv (a b : expr)
| EPow (a b : expr)                 (* a ^ b   : in the grammar, outside the supported subset *)
| ECall (f : string) (a : expr).    (* sin(a).. : in the grammar, outside the supported subset *)

Inductive bstmt :=                                   (* statements of a gate body; qubit arguments are formals *)
| BCall (g : string) (args : list expr) (qs : list string)
| BBarrier (qs : list string).
Record gdef := mkGdef { gd_params : list string; gd_qubits : list string; gd_body : list bstmt }.
Inductive gitem :=
| GDef (name : string) (d : gdef)
| GOpaque (name : string) (params qs : list string).  (* exists only to be rejected *)
Inductive qarg := AReg (r : string) | AIdx (r : string) (i : nat).
Inductive op :=
| OApp (g : string) (args : list expr) (qs : list qarg)                      (* U, CX or a declared gate *)
| OIf (c : string) (k : nat) (g : string) (args : list expr) (qs : list qarg) (* if(c==k) <gate application> *)
| OMeasure (q c : qarg)
| OBarrier (qs : list qarg)
| OReset (q : qarg).                                                          (* exists only to be rejected *)
Record prog := mkProg { p_qregs : list (string * nat); p_cregs : list (string * nat); p_gates : list gitem; p_ops : list op }.

(* ---------------------------------------------------------------- parameter values *)
Record VAlg := mkVA { V :> Type; vnum : Q -> V; vpi : V; vneg : V -> V;
                      vadd : V -> V -> V; vsub : V -> V -> V; vmul : V -> V -> V; vdiv : V -> V -> option V }.

Fixpoint eval (A : VAlg) (rho : list (string * A)) (e : expr) : option A :=
  match e with
  | ENum q => Some (vnum A q)
  | EPi => Some (vpi A)
  | EId x => sassoc x rho
  | ENeg a => match eval A rho a with Some x => Some (vneg A x) | None => None end
  | EAdd a b => match eval A rho a, eval A rho b with Some x, Some y => Some (vadd A x y) | _, _ => None end
  | ESub a b => match eval A rho a, eval A rho b with Some x, Some y => Some (vsub A x y) | _, _ => None end
  | EMul a b => match eval A rho a, eval A rho b with Some x, Some y => Some (vmul A x y) | _, _ => None end
  | EDiv a b => match eval A rho a, eval A rho b with Some x, Some y => vdiv A x y | _, _ => None end
  | EPow _ _ | ECall _ _ => None
  end.

(* ---------------------------------------------------------------- macro expansion of gate applications *)
(* a leaf = application of a BASE gate (one that is not expanded further) to parameter values and qubits *)
Definition leaf (A : VAlg) := (string * list A * list nat)%type.
Definition genv := list (string * gdef).           (* newest definition first; a body sees the definitions before it *)

Section Expand.
Variable A : VAlg.
Variable base : list (string * (nat * nat)).        (* base gates with (number of parameters, number of qubits) *)

Fixpoint expand (G : genv) (g : string) (vals : list A) (qs : list nat) {struct G} : option (list (leaf A)) :=
  match sassoc g base with
  | Some (np, nq) => if (length vals =? np) && (length qs =? nq) then Some [(g, vals, qs)] else None
  | None =>
    match G with
    | [] => None
    | (g', d) :: G' =>
      if String.eqb g g' then
        if (length vals =? length (gd_params d)) && (length qs =? length (gd_qubits d)) then
          let rho := combine (gd_params d) vals in
          let qm := combine (gd_qubits d) qs in
          (fix body (b : list bstmt) : option (list (leaf A)) :=
             match b with
             | [] => Some []
             | BBarrier _ :: b' => body b'
             | BCall h args hq :: b' =>
                 match omap (eval A rho) args, omap (fun x => sassoc x qm) hq with
                 | Some vs, Some hqs =>
                     match expand G' h vs hqs, body b' with
                     | Some l, Some rest => Some (l ++ rest)
                     | _, _ => None end
                 | _, _ => None end
             end) (gd_body d)
        else None
      else expand G' g vals qs
    end
  end.
End Expand.

(* ---------------------------------------------------------------- registers *)
(* registers are numbered in declaration order: (name, (offset, size)) *)
Fixpoint layout (off : nat) (regs : list (string * nat)) : list (string * (nat * nat)) :=
  match regs with [] => [] | (r, n) :: regs' => (r, (off, n)) :: layout (off + n) regs' end.
Definition total (regs : list (string * nat)) : nat := fold_right (fun p acc => snd p + acc) 0 regs.

(* one argument: a single bit or a whole register (list of its bits) *)
Inductive rarg := RBit (b : nat) | RAll (bs : list nat).
Definition resolve (L : list (string * (nat * nat))) (a : qarg) : option rarg :=
  match a with
  | AIdx r i => match sassoc r L with Some (off, n) => if i <? n then Some (RBit (off + i)) else None | None => None end
  | AReg r => match sassoc r L with Some (off, n) => Some (RAll (seq off n)) | None => None end
  end.
(* broadcast (standard, sect. 3.2): if some arguments are whole registers they must have one common size n and the
   statement stands for n statements, the j-th using the j-th bit of every register argument *)
Definition rsize (a : rarg) : option nat := match a with RBit _ => None | RAll bs => Some (length bs) end.
Fixpoint common_size (l : list rarg) : option (option nat) :=       (* None = sizes differ *)
  match l with
  | [] => Some None
  | a :: l' => match common_size l', rsize a with
               | None, _ => None
               | Some s, None => Some s
               | Some None, Some n => Some (Some n)
               | Some (Some m), Some n => if n =? m then Some (Some m) else None
               end
  end.
Definition pick (j : nat) (a : rarg) : nat := match a with RBit b => b | RAll bs => nth j bs 0 end.
Definition broadcast (l : list rarg) : option (list (list nat)) :=
  match common_size l with
  | None => None
  | Some None => Some [map (pick 0) l]
  | Some (Some n) => Some (map (fun j => map (pick j) l) (seq 0 n))
  end.

(* ---------------------------------------------------------------- programs *)
(* a quantum operation of the program after broadcast: a gate application expanded to leaves, guarded or not, or a
   measurement.  cond = (bits of the classical register c[0], c[1], ..; k): executed iff sum c[i] 2^i = k *)
Inductive sop (A : VAlg) :=
| SGate (cond : option (list nat * nat)) (ls : list (leaf A))
| SMeas (q c : nat).
Arguments SGate {A}. Arguments SMeas {A}.

Fixpoint gdefs (items : list gitem) (acc : genv) : option genv :=     (* opaque declarations are not supported *)
  match items with
  | [] => Some acc
  | GDef n d :: items' => gdefs items' ((n, d) :: acc)
  | GOpaque _ _ _ :: _ => None
  end.

Section Prog.
Variable A : VAlg.
Variable base : list (string * (nat * nat)).

Definition app_ops (QL : list (string * (nat * nat))) (G : genv) (cond : option (list nat * nat))
           (g : string) (args : list expr) (qs : list qarg) : option (list (sop A)) :=
  match omap (eval A []) args, omap (resolve QL) qs with
  | Some vals, Some rs =>
      match broadcast rs with
      | Some insts =>
          omap (fun inst => if nnodup inst then
                              match expand A base G g vals inst with Some ls => Some (SGate cond ls) | None => None end
                            else None) insts
      | None => None end
  | _, _ => None
  end.

Definition op_ops (QL CL : list (string * (nat * nat))) (G : genv) (o : op) : option (list (sop A)) :=
  match o with
  | OApp g args qs => app_ops QL G None g args qs
  | OIf c k g args qs =>
      match sassoc c CL with
      | Some (off, n) => app_ops QL G (Some (seq off n, k)) g args qs
      | None => None end
  | OMeasure q c =>
      match resolve QL q, resolve CL c with
      | Some (RBit a), Some (RBit b) => Some [SMeas a b]
      | Some (RAll az), Some (RAll bz) => if length az =? length bz then Some (map (fun p => SMeas (fst p) (snd p)) (combine az bz)) else None
      | _, _ => None end
  | OBarrier qs => match omap (resolve QL) qs with Some _ => Some [] | None => None end
  | OReset _ => None
  end.

Fixpoint ops_ops (QL CL : list (string * (nat * nat))) (G : genv) (os : list op) : option (list (sop A)) :=
  match os with
  | [] => Some []
  | o :: os' => match op_ops QL CL G o, ops_ops QL CL G os' with Some a, Some b => Some (a ++ b) | _, _ => None end
  end.

(* the meaning of a program: number of qubits, of classical bits, and the operations in order;
   None = the program is not in the supported subset or not well-formed at the point where an operation is used *)
Definition spec_prog (p : prog) : option (nat * nat * list (sop A)) :=
  match gdefs (p_gates p) [] with
  | Some G => match ops_ops (layout 0 (p_qregs p)) (layout 0 (p_cregs p)) G (p_ops p) with
              | Some l => Some (total (p_qregs p), total (p_cregs p), l)
              | None => None end
  | None => None
  end.
End Prog.

(* ---------------------------------------------------------------- static well-formedness *)
Fixpoint ids (e : expr) : list string :=
  match e with
  | ENum _ | EPi => [] | EId x => [x]
  | ENeg a => ids a | EAdd a b | ESub a b | EMul a b | EDiv a b | EPow a b => ids a ++ ids b
  | ECall f a => f :: ids a
  end.
Fixpoint plain (e : expr) : bool :=                       (* no power operator, no function call *)
  match e with
  | ENum _ | EPi | EId _ => true
  | ENeg a => plain a
  | EAdd a b | ESub a b | EMul a b | EDiv a b => plain a && plain b
  | EPow _ _ | ECall _ _ => false
  end.
Definition subset (l m : list string) : bool := forallb (fun x => smem x m) l.

(* a gate body statement against the signatures [S] of the gates declared before it *)
Definition wf_bstmt (S : list (string * (nat * nat))) (params qubits : list string) (b : bstmt) : bool :=
  match b with
  | BBarrier qs => true
  | BCall h args hq =>
      match sassoc h S with
      | Some (np, nq) => (length args =? np) && (length hq =? nq) && snodup hq && subset hq qubits
                         && forallb (fun e => plain e && subset (ids e) params) args
      | None => false end
  end.
Definition has_call (b : list bstmt) : bool := existsb (fun s => match s with BCall _ _ _ => true | _ => false end) b.
(* listed = the malformation classes named by the property; strict = additionally no repeated names *)
Fixpoint wf_gates (S : list (string * (nat * nat))) (items : list gitem) : bool :=
  match items with
  | [] => true
  | GOpaque _ _ _ :: _ => false
  | GDef n d :: items' =>
      forallb (wf_bstmt S (gd_params d) (gd_qubits d)) (gd_body d)
      && wf_gates ((n, (length (gd_params d), length (gd_qubits d))) :: S) items'
  end.
Fixpoint sigs_of (S : list (string * (nat * nat))) (items : list gitem) : list (string * (nat * nat)) :=
  match items with
  | [] => S
  | GOpaque _ _ _ :: items' => sigs_of S items'
  | GDef n d :: items' => sigs_of ((n, (length (gd_params d), length (gd_qubits d))) :: S) items'
  end.
Definition wf_app (S : list (string * (nat * nat))) (QL : list (string * (nat * nat))) (g : string) (args : list expr) (qs : list qarg) : bool :=
  match sassoc g S, omap (resolve QL) qs with
  | Some (np, nq), Some rs =>
      (length args =? np) && (length qs =? nq) && forallb (fun e => plain e && subset (ids e) []) args
      && match broadcast rs with Some insts => forallb nnodup insts | None => false end
  | _, _ => false
  end.
Definition wf_op (S : list (string * (nat * nat))) (QL CL : list (string * (nat * nat))) (o : op) : bool :=
  match o with
  | OApp g args qs => wf_app S QL g args qs
  | OIf c k g args qs => match sassoc c CL with Some _ => wf_app S QL g args qs | None => false end
  | OMeasure q c =>
      match resolve QL q, resolve CL c with
      | Some (RBit _), Some (RBit _) => true
      | Some (RAll az), Some (RAll bz) => length az =? length bz
      | _, _ => false end
  | OBarrier qs => match omap (resolve QL) qs with Some _ => true | None => false end
  | OReset _ => false
  end.
(* well-formed w.r.t. the malformation classes the property names: undeclared gate or register, index out of range,
   repeated qubit, wrong arity, reset, opaque, power operator / functions (and unknown identifiers) in expressions,
   registers of different sizes in one broadcast statement *)
Definition wf_listed (base : list (string * (nat * nat))) (p : prog) : bool :=
  wf_gates base (p_gates p)
  && forallb (wf_op (sigs_of base (p_gates p)) (layout 0 (p_qregs p)) (layout 0 (p_cregs p))) (p_ops p).
(* names are declared once; formal parameters / qubits of a gate are distinct and not "pi"; registers are non-empty *)
Definition gitem_name (i : gitem) : string := match i with GDef n _ => n | GOpaque n _ _ => n end.
Definition wf_names (base : list (string * (nat * nat))) (p : prog) : bool :=
  snodup (map fst base ++ map gitem_name (p_gates p))
  && snodup (map fst (p_qregs p)) && snodup (map fst (p_cregs p))
  && forallb (fun r => 0 <? snd r) (p_qregs p) && forallb (fun r => 0 <? snd r) (p_cregs p)
  && forallb (fun i => match i with
                       | GDef _ d => snodup (gd_params d) && snodup (gd_qubits d) && negb (smem "pi" (gd_params d))
                       | GOpaque _ _ _ => true end) (p_gates p).
Definition wf (base : list (string * (nat * nat))) (p : prog) : bool := wf_listed base p && wf_names base p.

(* ---------------------------------------------------------------- qelib1.inc, transcribed by hand *)
Definition num (z : Z) : expr := ENum (inject_Z z).
Definition half (e : expr) : expr := EDiv e (num 2).
Definition g1 (ps qs : list string) (b : list bstmt) := mkGdef ps qs b.
Definition qelib1 : list (string * gdef) := [
  ("u3",  g1 ["theta"; "phi"; "lambda"] ["q"] [BCall "U" [EId "theta"; EId "phi"; EId "lambda"] ["q"]]);
  ("u2",  g1 ["phi"; "lambda"] ["q"] [BCall "U" [half EPi; EId "phi"; EId "lambda"] ["q"]]);
  ("u1",  g1 ["lambda"] ["q"] [BCall "U" [num 0; num 0; EId "lambda"] ["q"]]);
  ("cx",  g1 [] ["c"; "t"] [BCall "CX" [] ["c"; "t"]]);
  ("id",  g1 [] ["a"] [BCall "U" [num 0; num 0; num 0] ["a"]]);
  ("x",   g1 [] ["a"] [BCall "u3" [EPi; num 0; EPi] ["a"]]);
  ("y",   g1 [] ["a"] [BCall "u3" [EPi; half EPi; half EPi] ["a"]]);
  ("z",   g1 [] ["a"] [BCall "u1" [EPi] ["a"]]);
  ("h",   g1 [] ["a"] [BCall "u2" [num 0; EPi] ["a"]]);
  ("s",   g1 [] ["a"] [BCall "u1" [half EPi] ["a"]]);
  ("sdg", g1 [] ["a"] [BCall "u1" [ENeg (half EPi)] ["a"]]);
  ("t",   g1 [] ["a"] [BCall "u1" [EDiv EPi (num 4)] ["a"]]);
  ("tdg", g1 [] ["a"] [BCall "u1" [ENeg (EDiv EPi (num 4))] ["a"]]);
  ("rx",  g1 ["theta"] ["a"] [BCall "u3" [EId "theta"; ENeg (half EPi); half EPi] ["a"]]);
  ("ry",  g1 ["theta"] ["a"] [BCall "u3" [EId "theta"; num 0; num 0] ["a"]]);
  ("rz",  g1 ["phi"] ["a"] [BCall "u1" [EId "phi"] ["a"]]);
  ("cz",  g1 [] ["a"; "b"] [BCall "h" [] ["b"]; BCall "cx" [] ["a"; "b"]; BCall "h" [] ["b"]]);
  ("cy",  g1 [] ["a"; "b"] [BCall "sdg" [] ["b"]; BCall "cx" [] ["a"; "b"]; BCall "s" [] ["b"]]);
  ("ch",  g1 [] ["a"; "b"] [BCall "h" [] ["b"]; BCall "sdg" [] ["b"]; BCall "cx" [] ["a"; "b"]; BCall "h" [] ["b"];
                            BCall "t" [] ["b"]; BCall "cx" [] ["a"; "b"]; BCall "t" [] ["b"]; BCall "h" [] ["b"];
                            BCall "s" [] ["b"]; BCall "x" [] ["b"]; BCall "s" [] ["a"]]);
  ("ccx", g1 [] ["a"; "b"; "c"] [BCall "h" [] ["c"]; BCall "cx" [] ["b"; "c"]; BCall "tdg" [] ["c"]; BCall "cx" [] ["a"; "c"];
                                  BCall "t" [] ["c"]; BCall "cx" [] ["b"; "c"]; BCall "tdg" [] ["c"]; BCall "cx" [] ["a"; "c"];
                                  BCall "t" [] ["b"]; BCall "t" [] ["c"]; BCall "h" [] ["c"]; BCall "cx" [] ["a"; "b"];
                                  BCall "t" [] ["a"]; BCall "tdg" [] ["b"]; BCall "cx" [] ["a"; "b"]]);
  ("crz", g1 ["lambda"] ["a"; "b"] [BCall "u1" [half (EId "lambda")] ["b"]; BCall "cx" [] ["a"; "b"];
                                     BCall "u1" [ENeg (half (EId "lambda"))] ["b"]; BCall "cx" [] ["a"; "b"]]);
  ("cu1", g1 ["lambda"] ["a"; "b"] [BCall "u1" [half (EId "lambda")] ["a"]; BCall "cx" [] ["a"; "b"];
                                     BCall "u1" [ENeg (half (EId "lambda"))] ["b"]; BCall "cx" [] ["a"; "b"];
                                     BCall "u1" [half (EId "lambda")] ["b"]]);
  ("cu3", g1 ["theta"; "phi"; "lambda"] ["c"; "t"]
             [BCall "u1" [half (ESub (EId "lambda") (EId "phi"))] ["t"]; BCall "cx" [] ["c"; "t"];
              BCall "u3" [ENeg (half (EId "theta")); num 0; ENeg (half (EAdd (EId "phi") (EId "lambda")))] ["t"];
              BCall "cx" [] ["c"; "t"];
              BCall "u3" [half (EId "theta"); EId "phi"; num 0] ["t"]])
].
(* the two built-in operations of the language *)
Definition builtin_sigs : list (string * (nat * nat)) := [("U", (3, 1)); ("CX", (0, 2))].
(* signatures of everything available after `include "qelib1.inc";` *)
Definition qelib1_sigs : list (string * (nat * nat)) :=
  map (fun p => (fst p, (length (gd_params (snd p)), length (gd_qubits (snd p))))) qelib1.
Definition lib_sigs : list (string * (nat * nat)) := builtin_sigs ++ qelib1_sigs.
(* definitions in the order a body may refer to them: newest first *)
Definition qelib1_env : genv := rev qelib1.

(* the free algebra of values: the operations are recorded, not computed (used to run the models) *)
Inductive tv := TNum (q : Q) | TPi | TNeg (a : tv) | TAdd (a b : tv) | TSub (a b : tv) | TMul (a b : tv) | TDiv (a b : tv).
Definition TermAlg : VAlg := mkVA tv TNum TPi TNeg TAdd TSub TMul (fun a b => Some (TDiv a b)).
