(* C20 -- specification-level vocabulary for the text renderer: what one operation does to ONE wire,
   the reading functions (label extraction, character at a column) and the expected readings computed
   from the circuit alone.  Definitions only. *)
From Coq Require Import List NArith Arith Bool.
Import ListNotations.
From QV Require Import Model.Render.

(* ------------------------------------------------------------------------------------------ *)
(* one operation seen from one wire                                                            *)
(* ------------------------------------------------------------------------------------------ *)
Definition emit_w (F : nat -> wire -> wire) (wl : list nat) (w : nat) (x : wire) : wire :=
  if mem w wl then F w x else x.

Definition app3p (parts : str * str * str) (x : wire) : wire :=
  let '(t, m, b) := parts in app3 t m b x.

Definition is_single (targets : list nat) (controls : option (list nat)) : bool :=
  (length targets =? 1) && is_none controls.

(* wire_list of layout() *)
Definition op_wl (nq nc : nat) (o : op) : list nat :=
  match o with
  | Meas t c => range 0 (t + 1) ++ range (c + nq) (nq + nc)
  | Gate name al targets controls =>
      if is_single targets controls then targets
      else if str_eqb name sSWAP then range (lmin targets) (lmax targets + 1)
      else let merged := targets ++ ctl_list controls in range (lmin merged) (lmax merged + 1)
  end.

(* width handed to _manage_layers *)
Definition op_width (fx : bool) (P nq : nat) (o : op) : nat :=
  match o with
  | Meas t c => snd (draw_meas P nq t c)
  | Gate name al targets controls =>
      if is_single targets controls then snd (draw_singleq P (gate_text name al))
      else if str_eqb name sSWAP then 4 * P + 1
      else snd (draw_multiq fx P (gate_text name al) targets controls)
  end.

(* all _update_* calls of one loop iteration, on the state *)
Definition op_apply (fx : bool) (P nq nc : nat) (o : op) (st : state) : state :=
  match o with
  | Meas t c =>
      let pw := draw_meas P nq t c in
      update_cbridge nq t c (op_wl nq nc o) (snd pw) (update_singleq (fst pw) [t] st)
  | Gate name al targets controls =>
      if is_single targets controls then update_singleq (fst (draw_singleq P (gate_text name al))) targets st
      else if str_eqb name sSWAP then update_swap P (op_wl nq nc o) st
      else
        let cs := ctl_list controls in
        let pw := draw_multiq fx P (gate_text name al) targets controls in
        let lo := lmin targets in
        let hi := lmax targets in
        let st2 := update_target_multiq fx targets controls (range lo (hi + 1)) (fst pw) st in
        if has_controls controls then
          let it := is_top fx targets cs in
          let ib := is_bot fx targets cs in
          let st3 := if it then update_qbridge fx targets cs (range lo (lmax cs + 1)) (snd pw) it st2 else st2 in
          if ib then update_qbridge fx targets cs (range (lmin cs) (hi + 1)) (snd pw) (negb ib) st3 else st3
        else st2
  end.

(* the same, on one wire *)
Definition op_emit (fx : bool) (P nq nc : nat) (o : op) (w : nat) (x : wire) : wire :=
  match o with
  | Meas t c =>
      let pw := draw_meas P nq t c in
      emit_w (cbridge_wire nq t c (snd pw)) (op_wl nq nc o) w (emit_w (fun _ => app3p (fst pw)) [t] w x)
  | Gate name al targets controls =>
      if is_single targets controls
      then emit_w (fun _ => app3p (fst (draw_singleq P (gate_text name al)))) targets w x
      else if str_eqb name sSWAP
      then let wl := op_wl nq nc o in emit_w (swap_wire P (hd 0 wl) (last wl 0)) wl w x
      else
        let cs := ctl_list controls in
        let pw := draw_multiq fx P (gate_text name al) targets controls in
        let lo := lmin targets in
        let hi := lmax targets in
        let x2 := emit_w (target_wire fx targets controls (fst pw)) (range lo (hi + 1)) w x in
        if has_controls controls then
          let it := is_top fx targets cs in
          let ib := is_bot fx targets cs in
          let wlt := range lo (lmax cs + 1) in
          let wlb := range (lmin cs) (hi + 1) in
          let x3 := if it then emit_w (qbridge_wire fx targets cs (hd 0 wlt) (last wlt 0) (snd pw) it) wlt w x2 else x2 in
          if ib then emit_w (qbridge_wire fx targets cs (hd 0 wlb) (last wlb 0) (snd pw) (negb ib)) wlb w x3 else x3
        else x2
  end.

(* what the operation appends to the three rows of wire w *)
Definition op_seg (fx : bool) (P nq nc : nat) (o : op) (w : nat) : str * str * str :=
  let y := op_emit fx P nq nc o w emptyW in (top y, mid y, bot y).

(* layer / xskip of `place` *)
Definition place_layer (st : state) (wl : list nat) : nat :=
  fold_right Nat.max 0 (map (fun w => length (lay (wire_of st w))) wl).
Definition place_x (sty : style) (nq : nat) (st : state) (wl : list nat) : nat :=
  get_xskip sty nq st wl (place_layer st wl).

(* ------------------------------------------------------------------------------------------ *)
(* reading the picture                                                                         *)
(* ------------------------------------------------------------------------------------------ *)
(* contents of every  ┤ ... ├  of a row, left to right.  State: None = outside a box,
   Some acc = inside, acc = characters read so far (reversed).  Returns the final state too. *)
Fixpoint scan (inb : option str) (s : str) : list str * option str :=
  match s with
  | [] => ([], inb)
  | c :: r =>
      match inb with
      | None => if N.eqb c cRT then scan (Some []) r else scan None r
      | Some acc =>
          if N.eqb c cLT then let '(o, e) := scan None r in (rev acc :: o, e)
          else scan (Some (c :: acc)) r
      end
  end.

Definition boxes (s : str) : list str := fst (scan None s).

(* remove the gate padding on both sides of a box content *)
Definition strip (P : nat) (s : str) : str := firstn (length s - 2 * P) (skipn P s).

(* width of the wire-label column " label pad:" + the two initial wire characters *)
Definition label_list (sty : style) (nq nc : nat) : list str := default_labels sty nq nc.
Definition maxlabel (sty : style) (nq nc : nat) : nat :=
  fold_right Nat.max 0 (map (@length N) (label_list sty nq nc)).
Definition prefix_len (sty : style) (nq nc : nat) : nat := maxlabel sty nq nc + 5.
Definition wire_prefix (sty : style) (nq nc w : nat) : str :=
  let l := nth w (label_list sty nq nc) [] in
  [cSP] ++ l ++ [cSP] ++ rep (maxlabel sty nq nc - length l) cSP ++ [cCOLON].

(* the labels read on a printed middle row *)
Definition read_labels (sty : style) (nq nc : nat) (row : str) : list str :=
  map (strip (padw sty)) (boxes (skipn (prefix_len sty nq nc) row)).

(* the labels the circuit puts on wire w: one entry per box edge attached to the wire, in circuit
   order; the text on the wire that carries it (single gates, measurements, the lowest target of a
   multi-qubit box), blanks of the same width on the highest target of a multi-qubit box *)
Definition op_labels (o : op) (w : nat) : list str :=
  match o with
  | Meas t _ => if w =? t then [sM] else []
  | Gate name al targets controls =>
      let text := gate_text name al in
      if is_single targets controls then (if mem w targets then [text] else [])
      else if str_eqb name sSWAP then []
      else if w =? lmin targets then [text]
      else if (w =? lmax targets) && negb (length targets =? 1) then [rep (length text) cSP]
      else []
  end.

(* the reading is unambiguous when no gate text contains the closing box character  ├  *)
Definition text_ok (o : op) : Prop :=
  match o with
  | Gate name al _ _ => ~ In cLT (gate_text name al)
  | Meas _ _ => True
  end.

Definition circuit_labels (ops : list op) (w : nat) : list str := flat_map (fun o => op_labels o w) ops.

(* the wire printed in position i (0 = first printed wire): qubits N-1 .. 0, then classical bits last .. first *)
Definition wire_at (nq nc i : nat) : nat := if i <? nq then nq - 1 - i else nq + (nq + nc - 1 - i).

Definition print_order (nq nc : nat) : list nat := rev (seq 0 nq) ++ rev (seq nq nc).

(* ------------------------------------------------------------------------------------------ *)
(* links: glyphs that must stand at given columns                                              *)
(* ------------------------------------------------------------------------------------------ *)
Inductive rowk := RTop | RMid | RBot.
Definition row_of (k : rowk) (x : wire) : str :=
  match k with RTop => top x | RMid => mid x | RBot => bot x end.

(* (wire, row, offset from the column where the operation is placed, glyph) *)
Definition fact := (nat * rowk * nat * N)%type.

Definition vline (g : N) (off : nat) (ws : list nat) : list fact :=
  flat_map (fun v => [(v, RTop, off, g); (v, RMid, off, g); (v, RBot, off, g)]) ws.

Definition op_links (P nq nc : nat) (o : op) : list fact :=
  match o with
  | Meas t c =>
      let off := (5 + 2 * P) / 2 in
      (* ╥ under the box, ║ through every lower qubit and every higher classical wire, ╩ on the store *)
      [(t, RBot, off, cMD)] ++ vline cDV off (range 0 t) ++ vline cDV off (range (nq + c + 1) (nq + nc))
      ++ [(nq + c, RTop, off, cDV); (nq + c, RMid, off, cST)]
  | Gate name al targets controls =>
      let text := gate_text name al in
      if is_single targets controls then []
      else if str_eqb name sSWAP then
        let off := (4 * P + 1) / 2 in
        let lo := lmin targets in
        let hi := lmax targets in
        if lo =? hi then [(lo, RMid, off, cX)]
        else [(lo, RMid, off, cX); (hi, RMid, off, cX); (lo, RTop, off, cV); (hi, RBot, off, cV)]
             ++ vline cV off (range (lo + 1) hi)
      else if has_controls controls then
        let cs := ctl_list controls in
        let off := (4 + 2 * P + length text) / 2 in
        let lo := lmin targets in
        let hi := lmax targets in
        let cmin := lmin cs in
        let cmax := lmax cs in
        (* every control wire carries a node *)
        map (fun v => (v, RMid, off, cND)) cs
        (* upwards: ┴ on the lid, │ on every row strictly between the lid and the top control's node *)
        ++ (if hi <? cmax
            then [(hi, RTop, off, cTU)]
                 ++ map (fun v => (v, RBot, off, cV)) (range (hi + 1) (cmax + 1))
                 ++ map (fun v => (v, RTop, off, cV)) (range (hi + 1) cmax)
                 ++ map (fun v => (v, RMid, off, cV)) (filter (fun v => negb (mem v cs)) (range (hi + 1) cmax))
            else [])
        (* downwards *)
        ++ (if cmin <? lo
            then [(lo, RBot, off, cTD)]
                 ++ map (fun v => (v, RTop, off, cV)) (range cmin lo)
                 ++ map (fun v => (v, RBot, off, cV)) (range (cmin + 1) lo)
                 ++ map (fun v => (v, RMid, off, cV)) (filter (fun v => negb (mem v cs)) (range (cmin + 1) lo))
            else [])
      else []
  end.

(* the box of an operation: (wire, row, offset, expected substring) *)
Definition op_boxes (P nq : nat) (o : op) : list (nat * rowk * str) :=
  match o with
  | Meas t c => [(t, RMid, [cH; cRT] ++ rep P cSP ++ sM ++ rep P cSP ++ [cLT; cH])]
  | Gate name al targets controls =>
      let text := gate_text name al in
      let lab := [cH; cRT] ++ rep P cSP ++ text ++ rep P cSP ++ [cLT; cH] in
      if is_single targets controls then map (fun t => (t, RMid, lab)) targets
      else if str_eqb name sSWAP then []
      else [(lmin targets, RMid, lab)]
  end.

Definition holds (st : state) (x : nat) (f : fact) : Prop :=
  let '(w, k, off, g) := f in nth_error (row_of k (wire_of st w)) (x + off) = Some g.

Definition box_holds (st : state) (x : nat) (b : nat * rowk * str) : Prop :=
  let '(w, k, s) := b in firstn (length s) (skipn x (row_of k (wire_of st w))) = s.

(* ------------------------------------------------------------------------------------------ *)
(* the guard for the unchanged code                                                            *)
(* ------------------------------------------------------------------------------------------ *)
(* false exactly for: a gate drawn as a multi-qubit box (not SWAP) that has a quantum control and
   whose target span min(targets)..max(targets) contains a wire that is not a target *)
Definition box_contiguous (o : op) : bool :=
  match o with
  | Meas _ _ => true
  | Gate name al targets controls =>
      str_eqb name sSWAP || negb (has_controls controls)
      || forallb (fun w => mem w targets) (range (lmin targets) (lmax targets + 1))
  end.
