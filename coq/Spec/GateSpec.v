(* Documented gate matrices, transcribed BY HAND from the docstrings / standard definitions.
   This file is the oracle for C09 ("equal to the documented definition"); it is read by eye. *)
From QV Require Import Found.Sym.
Local Open Scope Q_scope.
Local Open Scope string_scope.

Definition n0 := Num 0. Definition n1 := Num 1. Definition i1 := Imag 1. Definition mi := Imag (-1).
Definition half (e : ex) := Div e (Num 2).
Definition c2 (j : nat) := Cos (half (Var j)).        (* cos(theta_j/2) *)
Definition s2 (j : nat) := Sin (half (Var j)).
Definition ei (e : ex) := Exp (Mul i1 e).               (* e^{i e} *)
Definition emi (e : ex) := Exp (Mul mi e).
Definition hp := Add (Num (1#2)) (Imag (1#2)).          (* (1+i)/2 *)
Definition hm := Sub (Num (1#2)) (Imag (1#2)).          (* (1-i)/2 *)
Definition r2 := Div n1 (Sqrt (Num 2)).                 (* 1/sqrt 2 *)

Definition sX := MLit [[n0; n1]; [n1; n0]].
Definition sY := MLit [[n0; mi]; [i1; n0]].
Definition sZ := MLit [[n1; n0]; [n0; Neg n1]].
Definition sS := MLit [[n1; n0]; [n0; i1]].
Definition sT := MLit [[n1; n0]; [n0; ei (Div Pi (Num 4))]].
Definition sH := MLit [[r2; r2]; [r2; Neg r2]].
Definition sSQRTNOT := MLit [[hp; hm]; [hm; hp]].
Definition sRX := MLit [[c2 0; Mul mi (s2 0)]; [Mul mi (s2 0); c2 0]].
Definition sRY := MLit [[c2 0; Neg (s2 0)]; [s2 0; c2 0]].
Definition sRZ := MLit [[emi (half (Var 0)); n0]; [n0; ei (half (Var 0))]].
Definition sPHASE := MLit [[n1; n0]; [n0; ei (Var 0)]].
Definition sR := MLit [[c2 0; Mul (Mul mi (emi (Var 1))) (s2 0)]; [Mul (Mul mi (ei (Var 1))) (s2 0); c2 0]].
(* U(theta,phi,gamma) = RZ(phi) RY(theta) RZ(gamma), written out *)
Definition sQASMU := MLit
  [[Mul (emi (half (Add (Var 1) (Var 2)))) (c2 0); Neg (Mul (emi (half (Sub (Var 1) (Var 2)))) (s2 0))];
   [Mul (ei (half (Sub (Var 1) (Var 2)))) (s2 0); Mul (ei (half (Add (Var 1) (Var 2)))) (c2 0)]].
Definition ctrl1 (a b c d : ex) := MLit [[n1; n0; n0; n0]; [n0; n1; n0; n0]; [n0; n0; a; b]; [n0; n0; c; d]].
Definition sCNOT := ctrl1 n0 n1 n1 n0.
Definition sCY := ctrl1 n0 mi i1 n0.
Definition sCZ := ctrl1 n1 n0 n0 (Neg n1).
Definition sCS := ctrl1 n1 n0 n0 i1.
Definition sCT := ctrl1 n1 n0 n0 (ei (Div Pi (Num 4))).
Definition sCRX := ctrl1 (c2 0) (Mul mi (s2 0)) (Mul mi (s2 0)) (c2 0).
Definition sCRY := ctrl1 (c2 0) (Neg (s2 0)) (s2 0) (c2 0).
Definition sCRZ := ctrl1 (emi (half (Var 0))) n0 n0 (ei (half (Var 0))).
Definition sCPHASE := ctrl1 n1 n0 n0 (ei (Var 0)).
Definition mid4 (a b c d : ex) := MLit [[n1; n0; n0; n0]; [n0; a; b; n0]; [n0; c; d; n0]; [n0; n0; n0; n1]].
Definition sSWAP := mid4 n0 n1 n1 n0.
Definition sISWAP := mid4 n0 i1 i1 n0.
Definition sSQRTSWAP := mid4 hp hm hm hp.
Definition sSQRTISWAP := mid4 r2 (Div i1 (Sqrt (Num 2))) (Div i1 (Sqrt (Num 2))) r2.
Definition epa := Exp (Mul (Mul i1 Pi) (Var 0)).       (* e^{i pi alpha} *)
Definition sSWAPALPHA := mid4 (Mul (Num (1#2)) (Add n1 epa)) (Mul (Num (1#2)) (Sub n1 epa))
                              (Mul (Num (1#2)) (Sub n1 epa)) (Mul (Num (1#2)) (Add n1 epa)).
Definition p8 := Div Pi (Num 8). Definition p38 := Div (Mul (Num 3) Pi) (Num 8).
Definition sBERKELEY := MLit [[Cos p8; n0; n0; Mul i1 (Sin p8)]; [n0; Cos p38; Mul i1 (Sin p38); n0];
                              [n0; Mul i1 (Sin p38); Cos p38; n0]; [Mul i1 (Sin p8); n0; n0; Cos p8]].
Definition sMS := MLit [[c2 0; n0; n0; Mul (Mul mi (emi (Mul (Num 2) (Var 1)))) (s2 0)];
                        [n0; c2 0; Mul mi (s2 0); n0]; [n0; Mul mi (s2 0); c2 0; n0];
                        [Mul (Mul mi (ei (Mul (Num 2) (Var 1)))) (s2 0); n0; n0; c2 0]].
Definition sRZX := MLit [[c2 0; Mul mi (s2 0); n0; n0]; [Mul mi (s2 0); c2 0; n0; n0];
                         [n0; n0; c2 0; Mul i1 (s2 0)]; [n0; n0; Mul i1 (s2 0); c2 0]].
Definition perm8 (p : list nat) := MLit (map (fun i => map (fun j => if Nat.eqb (nth i p 0%nat) j then n1 else n0) (seq 0 8)) (seq 0 8)).
Definition sTOFFOLI := perm8 [0;1;2;3;4;5;7;6]%nat.      (* controls = first two qubits *)
Definition sFREDKIN := perm8 [0;1;2;3;4;6;5;7]%nat.      (* control = first qubit *)
Definition sID := MLit [[n1; n0]; [n0; n1]].

(* gate name -> (number of parameters, documented matrix) *)
Definition spec : list (string * (nat * mexp)) :=
  [("X", (0, sX)); ("Y", (0, sY)); ("Z", (0, sZ)); ("S", (0, sS)); ("T", (0, sT)); ("H", (0, sH)); ("SNOT", (0, sH));
   ("SQRTNOT", (0, sSQRTNOT)); ("RX", (1, sRX)); ("RY", (1, sRY)); ("RZ", (1, sRZ)); ("PHASEGATE", (1, sPHASE));
   ("R", (2, sR)); ("QASMU", (3, sQASMU));
   ("CNOT", (0, sCNOT)); ("CX", (0, sCNOT)); ("CY", (0, sCY)); ("CZ", (0, sCZ)); ("CSIGN", (0, sCZ)); ("CS", (0, sCS)); ("CT", (0, sCT));
   ("CRX", (1, sCRX)); ("CRY", (1, sCRY)); ("CRZ", (1, sCRZ)); ("CPHASE", (1, sCPHASE));
   ("SWAP", (0, sSWAP)); ("ISWAP", (0, sISWAP)); ("iSWAP", (0, sISWAP)); ("SQRTSWAP", (0, sSQRTSWAP)); ("SQRTISWAP", (0, sSQRTISWAP));
   ("SWAPalpha", (1, sSWAPALPHA)); ("SWAPALPHA", (1, sSWAPALPHA)); ("BERKELEY", (0, sBERKELEY)); ("MS", (2, sMS)); ("RZX", (1, sRZX));
   ("TOFFOLI", (0, sTOFFOLI)); ("FREDKIN", (0, sFREDKIN)); ("IDLE", (0, sID))]%nat.

(* gate function of gates.py -> the gate name it implements *)
Definition fn_names : list (string * string) :=
  [("x_gate", "X"); ("y_gate", "Y"); ("z_gate", "Z"); ("s_gate", "S"); ("t_gate", "T"); ("snot", "SNOT"); ("sqrtnot", "SQRTNOT");
   ("rx", "RX"); ("ry", "RY"); ("rz", "RZ"); ("phasegate", "PHASEGATE"); ("qrot", "R"); ("qasmu_gate", "QASMU");
   ("cnot", "CNOT"); ("cy_gate", "CY"); ("cz_gate", "CZ"); ("csign", "CSIGN"); ("cs_gate", "CS"); ("ct_gate", "CT");
   ("cphase", "CPHASE"); ("swap", "SWAP"); ("iswap", "ISWAP"); ("sqrtswap", "SQRTSWAP"); ("sqrtiswap", "SQRTISWAP");
   ("swapalpha", "SWAPalpha"); ("berkeley", "BERKELEY"); ("molmer_sorensen", "MS"); ("toffoli", "TOFFOLI"); ("fredkin", "FREDKIN")].
