(* C06 x C13 -- the end-to-end statement of Props/C06.v instantiated with C13's theorem about the real transpile
   (kept in its own file so that Props/C06.v does not depend on the C13 development). *)
From Coq Require Import ZArith QArith String List.
From QV Require Import Found.Base Found.KS Found.KSProofs Found.Sym Found.SymProofs Found.Circ
  Model.SpinChainTypes Gen.SpinChain Model.Concat Model.SpinChain
  Model.Fill Spec.FillSpec Proofs.SpinChainCal Proofs.SpinChainRule Proofs.SpinChainSem Proofs.SpinChainSlices Proofs.SpinChainProp Proofs.SpinChainC13
  Proofs.SpinChainBridge Proofs.SpinChainBridge2 Proofs.SpinChainBridge3.
From QV Require Model.Resolve Proofs.ResolveSem Model.TranspileTypes Gen.Devices Model.Transpile Proofs.TranspileC06.
Import ListNotations.
Local Open Scope string_scope.

(* END-TO-END with the C13 fact c13_transpile_native DISCHARGED by C13's theorem transpile_wf_circuit
   (Proofs/TranspileC06.v): gs is any C06 gate list carrying the names and targets of `transpile d N src` (the model of
   ModelProcessor.transpile with the decompose-before-routing repair).  What is STILL hypothesised: the composition
   principle, and c13_transpile_sem (C13's transpile_sem gives the semantic equality only up to a re-parameterisation of
   the angles per transpiled gate; that bridge is not formalised).
   Precisely: C13 denotes transpiled gate o as  gden R (env (gsrc o)) (msubst (gargs o) M_o, qubits o)  -- the atoms of its
   SOURCE gate and argument expressions over the source parameters (the source argument copied, constants k*pi/4, theta/2
   for the GLOBALPHASE of a PHASEGATE) -- while full_icirc/pulse_icirc here denote gate i as  gden R (env i) (M_i, targets)
   with its own Var 0.  Discharging c13_transpile_sem needs (a) pulses_are_gates restated over instances
   (gsrc o, msubst [e] M) / (gsrc o, msubst [subst [e] ph] closed) with one scirc_eqb check per argument expression e that a
   decomposition rule can emit for RX/RZ, and (b) a new invariant over C13's transpile model that every output argument is
   one of those finitely many expressions and that the numeric g_arg of the C06 gate is its value; neither exists yet. *)
Theorem spinchain_reproduces_transpiled :
  forall (R : PhaseRing) (env : nat -> atoms R)
         (propagator : cfg -> option (list Q) -> list ngate -> state R -> state R)
         (valid_schedule : cfg -> option (list Q) -> list ngate -> Prop),
  (forall c sched gs tab ph pc,
      load c sched gs = Ok (tab, ph) -> valid_schedule c sched gs -> pulse_icirc c gs 0 = Some pc ->
      propagator c sched gs = sem (iden R env pc)) ->
  forall d N src out (c : cfg) (gs : list ngate) (original_sem : state R -> state R),
  In d Devices.devices -> Forall ResolveSem.wf_gate src -> Forall (fun g => Transpile.in_range N g = true) src ->
  Transpile.transpile d N src = Resolve.Ok out ->
  c_n c = N -> Forall2 TranspileC06.same_gate out gs ->
  original_sem = sem (iden R env (full_icirc gs 0)) ->
  forall sched tab ph,
  setup_ok c -> load c sched gs = Ok (tab, ph) -> valid_schedule c sched gs ->
  (forall psi, sem (iden R env (phase_icirc gs 0)) (propagator c sched gs psi) = original_sem psi) /\
  (ph == sum_phase gs)%Q.
Proof. exact reproduces_transpiled. Qed.
Print Assumptions spinchain_reproduces_transpiled.

(* ==== FROM THE ORIGINAL CIRCUIT TO THE PULSE-LEVEL PROPAGATOR (sequential compilation): NO hypothesis about transpilation ====
   src : the original circuit (C13/C03 gates: well formed, inside the circuit width M), denoted by ResolveSem.cden R env src
         exactly as in Props/C03.v / Props/C13.v (env i = the parameter values of source gate i);
   out = transpile_on d N M src : C13's model of ModelProcessor.transpile for a spin-chain processor d with N qubits;
   gs  : the C06 gates with the names and targets of out and the NUMERIC angles the compiler sees;
   every transpiled gate o is denoted with the atoms of its source gate, env (gsrc o), and its argument expressions
   substituted, msubst (gargs o) _ -- as C13's transpile_sem does.  Proved inside: C13's transpile_sem and
   transpile_structure; the invariant that every emitted (name, argument expression) pair belongs to a finite table on
   which the calibration identity  closed-form pulse = library matrix  holds after substitution (Proofs/SpinChainBridge3.v);
   the composition for sequential compilation.  Remaining hypotheses: the laws of the abstract slice propagator P
   (P_time, P_zero, P_idle and P_cal_a below = the matrix exponential of one calibrated instruction is its closed form). *)
Theorem spinchain_original_circuit_to_pulses :
  forall (R : PhaseRing) (env : nat -> atoms R) (labels : list label) (P : list Q -> Q -> state R -> state R),
  (forall h a b s, (a == b)%Q -> P h a s = P h b s) -> (forall h s, P h 0%Q s = s) ->
  (forall h t s, Forall (fun c => (c == 0)%Q) h -> P h t s = s) ->
  forall d N M src out (cc : cfg) (gs : list ngate) il ph,
  In d Devices.devices -> TranspileTypes.dnative d = Some sc_native ->
  Forall ResolveSem.wf_gate src -> Forall (fun g => Transpile.in_range M g = true) src ->
  Transpile.transpile_on d N M src = Resolve.Ok out ->
  c_n cc = N -> setup_ok cc -> Forall2 TranspileC06.same_gate out gs ->
  (forall i o g dd lb co Mx tp s,
     nth_error (combine out gs) i = Some (o, g) -> compile_gate cc g = Ok (CInstr dd [(lb, co)]) ->
     pulse_sgate cc (g_name g) lb = Some (Mx, tp) ->
     P (ivec labels [(lb, co)]) dd s = sem [gden R (env (Resolve.gsrc o)) (msubst (Resolve.gargs o) Mx, tp)] s) ->
  compile_gates cc gs 0%Q = Ok (il, ph) -> Forall (fun i => (0 <= fst i)%Q) il ->
  (forall psi, sem (iden R env (phase_icirc_a (combine out gs))) (prop_slices (state R) P (seq_slices labels il) psi)
               = sem (ResolveSem.cden R env src) psi) /\
  (ph == sum_phase gs)%Q.
Proof. exact original_to_pulses_closed. Qed.
Print Assumptions spinchain_original_circuit_to_pulses.

(* every gate a spin-chain transpile can emit satisfies the decidable bridge condition (calibration after substitution) *)
Theorem transpiled_gates_are_calibrated : forall d Ndev M c out, In d Devices.devices -> TranspileTypes.dnative d = Some sc_native ->
  Forall ResolveSem.wf_gate c -> Forall (fun g => Transpile.in_range M g = true) c ->
  Transpile.transpile_on d Ndev M c = Resolve.Ok out -> Forall (fun o => bridge_ok o = true) out.
Proof. exact transpile_bridge_ok. Qed.
Print Assumptions transpiled_gates_are_calibrated.

(* non-vacuity: both spin-chain processors are such devices; X, then CNOT(0 -> 1) transpile on the open 2-chain *)
Example spin_chain_devices : TranspileTypes.dnative Devices.dev_LinearSpinChain = Some sc_native /\
  TranspileTypes.dnative Devices.dev_CircularSpinChain = Some sc_native /\
  In Devices.dev_LinearSpinChain Devices.devices /\ In Devices.dev_CircularSpinChain Devices.devices.
Proof. exact spin_chain_devices_native. Qed.
Example original_circuit_transpiles :
  exists out, Transpile.transpile_on Devices.dev_LinearSpinChain 2 2
                [Resolve.MG "X" [0%nat] [] [] 0; Resolve.MG "CNOT" [1%nat] [0%nat] [] 1] = Resolve.Ok out /\
              (10 < length out)%nat /\ forallb bridge_ok out = true.
Proof. eexists. split; [vm_compute; reflexivity|]. split; vm_compute; [repeat constructor|reflexivity]. Qed.
