(* C06 x C13 -- the end-to-end statement of Props/C06.v instantiated with C13's theorem about the real transpile
   (kept in its own file so that Props/C06.v does not depend on the C13 development). *)
From Coq Require Import ZArith QArith String List.
From QV Require Import Found.Base Found.KS Found.KSProofs Found.Sym Found.SymProofs Found.Circ
  Model.SpinChainTypes Gen.SpinChain Model.Concat Model.SpinChain
  Proofs.SpinChainCal Proofs.SpinChainRule Proofs.SpinChainSem Proofs.SpinChainC13.
From QV Require Model.Resolve Proofs.ResolveSem Gen.Devices Model.Transpile Proofs.TranspileC06.
Import ListNotations.
Local Open Scope string_scope.

(* END-TO-END with the C13 fact c13_transpile_native DISCHARGED by C13's theorem transpile_wf_circuit
   (Proofs/TranspileC06.v): gs is any C06 gate list carrying the names and targets of `transpile d N src` (the model of
   ModelProcessor.transpile with the decompose-before-routing repair).  What is STILL hypothesised: the composition
   principle, and c13_transpile_sem (C13's transpile_sem gives the semantic equality only up to a re-parameterisation of
   the angles per transpiled gate; that bridge is not formalised).
   Precisely: C13 denotes transpiled gate o as  gden R (env (gsrc o)) (msubst (gargs o) M_o, qubits o)  -- the atoms of its
   SOURCE gate and argument expressions over the source parameters (the source argument copied, constants k*pi/4, theta/2
   for the GLOBALPHASE of a PHASEGATE) -- while full_icirc/pulse_icirc here denote gate i as  gden R (env i) (M_i, targets)
   with its own Var 0.  Discharging c13_transpile_sem needs (a) pulses_are_gates restated over instances
   (gsrc o, msubst [e] M) / (gsrc o, msubst [subst [e] ph] closed) with one scirc_eqb check per argument expression e that a
   decomposition rule can emit for RX/RZ, and (b) a new invariant over C13's transpile model that every output argument is
   one of those finitely many expressions and that the numeric g_arg of the C06 gate is its value; neither exists yet. *)
Theorem spinchain_reproduces_transpiled :
  forall (R : PhaseRing) (env : nat -> atoms R)
         (propagator : cfg -> option (list Q) -> list ngate -> state R -> state R)
         (valid_schedule : cfg -> option (list Q) -> list ngate -> Prop),
  (forall c sched gs tab ph pc,
      load c sched gs = Ok (tab, ph) -> valid_schedule c sched gs -> pulse_icirc c gs 0 = Some pc ->
      propagator c sched gs = sem (iden R env pc)) ->
  forall d N src out (c : cfg) (gs : list ngate) (original_sem : state R -> state R),
  In d Devices.devices -> Forall ResolveSem.wf_gate src -> Forall (fun g => Transpile.in_range N g = true) src ->
  Transpile.transpile d N src = Resolve.Ok out ->
  c_n c = N -> Forall2 TranspileC06.same_gate out gs ->
  original_sem = sem (iden R env (full_icirc gs 0)) ->
  forall sched tab ph,
  setup_ok c -> load c sched gs = Ok (tab, ph) -> valid_schedule c sched gs ->
  (forall psi, sem (iden R env (phase_icirc gs 0)) (propagator c sched gs psi) = original_sem psi) /\
  (ph == sum_phase gs)%Q.
Proof. exact reproduces_transpiled. Qed.
Print Assumptions spinchain_reproduces_transpiled.

