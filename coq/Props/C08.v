From Coq Require Import List ZArith. Import ListNotations.
From QV Require Import Model.Expand.
Example c08_smoke : expand_order [2;2;2;2;2] [2;2] [2;2] (TsList [TInt 3; TInt 0]) = Ok [1;2;3;0;4].
Proof. vm_compute. reflexivity. Qed.
Print Assumptions c08_smoke.
