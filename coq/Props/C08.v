(* C08 -- Operator embedding places an operator on exactly the requested subsystems.

   Model: Model/Expand.v (expand_operator with _targets_to_list and _check_oper_dims, Python indexing
   semantics).  [expand_elem dims orow ocol targets x y] is the entry <x|E|y> of the embedded operator E,
   given as WHICH entry of the operator it copies (Some (r,c)), or zero (None), or Error (call raises).
   x, y, r, c are digit lists of product basis states.  No bound on the number of subsystems, on the
   dimensions, or on the number of targets anywhere below. *)
From Coq Require Import List ZArith Bool Permutation.
Import ListNotations.
From QV Require Import Model.Expand Proofs.Expand Proofs.ExpandReject.

(* ---- the positive clause ------------------------------------------------------------------ *)

(* For every dimension vector, every injective in-range target list whose dimensions match the operator
   (valid_targets) and all basis labels x, y: the entry is the operator's entry on the target digits
   (in the listed order) if all other digits agree, and zero otherwise. *)
Theorem expand_element : forall dims orow ocol ts x y,
  valid_targets dims orow ocol ts -> length x = length dims -> length y = length dims ->
  expand_elem dims orow ocol (TsList (tz ts)) x y =
    Ok (if rest_agree (length dims) ts x y then Some (digits_at x ts, digits_at y ts) else None).
Proof. exact expand_element_lemma. Qed.
Print Assumptions expand_element.

(* rest_agree is the Kronecker delta on all non-target digits *)
Theorem rest_agree_is_delta : forall N ts x y,
  rest_agree N ts x y = true <-> (forall q, q < N -> ~ In q ts -> nth q x 0 = nth q y 0).
Proof. exact rest_agree_spec. Qed.
Print Assumptions rest_agree_is_delta.

(* the same for an arbitrary operator over an arbitrary scalar type *)
Theorem expand_entry_any_operator :
  forall (A : Type) (zero : A) (op : list nat -> list nat -> A) dims orow ocol ts x y,
  valid_targets dims orow ocol ts -> length x = length dims -> length y = length dims ->
  expand_entry zero op dims orow ocol (TsList (tz ts)) x y =
    Ok (if rest_agree (length dims) ts x y then op (digits_at x ts) (digits_at y ts) else zero).
Proof. exact expand_entry_lemma. Qed.
Print Assumptions expand_entry_any_operator.

(* the result lives on the requested system *)
Theorem expand_dims_preserved : forall dims orow ocol ts,
  valid_targets dims orow ocol ts -> expand_dims dims orow ocol (TsList (tz ts)) = Ok dims.
Proof. exact expand_dims_lemma. Qed.
Print Assumptions expand_dims_preserved.

(* the computed order is a permutation that sends target i to tensor factor i *)
Theorem expand_new_order_perm : forall dims orow ocol ts,
  valid_targets dims orow ocol ts ->
  exists order, expand_order dims orow ocol (TsList (tz ts)) = Ok order /\
                Permutation order (seq 0 (length dims)) /\
                (forall i, i < length ts -> nth (nth i ts 0) order 0 = i).
Proof. exact expand_order_lemma. Qed.
Print Assumptions expand_new_order_perm.

(* targets=None means the first k subsystems; a scalar target means a one-element list *)
Theorem expand_none_form : forall dims orow ocol x y,
  expand_elem dims orow ocol TsNone x y = expand_elem dims orow ocol (TsList (tz (seq 0 (length orow)))) x y.
Proof. exact expand_elem_none. Qed.
Print Assumptions expand_none_form.

Theorem expand_scalar_form : forall dims orow ocol t x y,
  expand_elem dims orow ocol (TsScalar (TInt (Z.of_nat t))) x y = expand_elem dims orow ocol (TsList (tz [t])) x y.
Proof. exact expand_elem_scalar. Qed.
Print Assumptions expand_scalar_form.

(* qubit bridge: all dimensions 2, labels as bit lists, M any matrix indexed by bit lists *)
Theorem expand_qubits :
  forall (A : Type) (zero : A) (M : list bool -> list bool -> A) N ts x y,
  NoDup ts -> Forall (fun t => t < N) ts -> length x = N -> length y = N ->
  expand_entry zero (fun r c => M (map n2b r) (map n2b c))
               (repeat 2 N) (repeat 2 (length ts)) (repeat 2 (length ts)) (TsList (tz ts))
               (map b2n x) (map b2n y) =
    Ok (if rest_agree_bits N ts x y then M (bits_at x ts) (bits_at y ts) else zero).
Proof. exact expand_qubits_lemma. Qed.
Print Assumptions expand_qubits.

(* ---- the rejection clause ------------------------------------------------------------------ *)

(* a call is accepted exactly when the targets are integers, injective, in range [0, N), as many as
   the operator has subsystems, with matching dimensions, and the operator is square *)
Theorem expand_ok_iff : forall dims orow ocol l,
  is_ok (expand_plan dims orow ocol (TsList l)) = true <->
  exists ts, l = tz ts /\ valid_targets dims orow ocol ts.
Proof. exact expand_ok_iff_lemma. Qed.
Print Assumptions expand_ok_iff.

Theorem expand_rejects_wrong_count : forall dims orow ocol l,
  length l <> length orow -> is_ok (expand_plan dims orow ocol (TsList l)) = false.
Proof. exact rejects_wrong_count. Qed.
Print Assumptions expand_rejects_wrong_count.

(* t >= N and negative t alike *)
Theorem expand_rejects_out_of_range : forall dims orow ocol l t,
  In (TInt t) l -> (t < 0 \/ Z.of_nat (length dims) <= t)%Z ->
  is_ok (expand_plan dims orow ocol (TsList l)) = false.
Proof. exact rejects_out_of_range. Qed.
Print Assumptions expand_rejects_out_of_range.

Theorem expand_rejects_dims_mismatch : forall dims orow ocol ts,
  orow <> digits_at dims ts -> is_ok (expand_plan dims orow ocol (TsList (tz ts))) = false.
Proof. exact rejects_dims_mismatch. Qed.
Print Assumptions expand_rejects_dims_mismatch.

Theorem expand_rejects_duplicates : forall dims orow ocol ts,
  ~ NoDup ts -> is_ok (expand_plan dims orow ocol (TsList (tz ts))) = false.
Proof. exact rejects_duplicates. Qed.
Print Assumptions expand_rejects_duplicates.

Theorem expand_rejects_non_integer : forall dims orow ocol l,
  In TOther l -> is_ok (expand_plan dims orow ocol (TsList l)) = false.
Proof. exact rejects_non_integer. Qed.
Print Assumptions expand_rejects_non_integer.

Theorem expand_rejects_non_square : forall dims orow ocol l,
  ocol <> orow -> is_ok (expand_plan dims orow ocol (TsList l)) = false.
Proof. exact rejects_non_square. Qed.
Print Assumptions expand_rejects_non_square.

Theorem expand_rejected_no_entry : forall dims orow ocol ts x y,
  is_ok (expand_plan dims orow ocol ts) = false -> is_ok (expand_elem dims orow ocol ts x y) = false.
Proof. exact rejected_no_entry. Qed.
Print Assumptions expand_rejected_no_entry.

(* ---- non-vacuity: the hypotheses are inhabited by non-trivial inputs ------------------------- *)

(* mixed dimensions, two targets in non-increasing order, three identity factors *)
Example ex_valid_targets : valid_targets [2;3;2;2;4] [4;3] [4;3] [4;1].
Proof.
  split; [|split; [|split]]; try reflexivity.
  - repeat constructor; cbn; intuition congruence.
  - repeat constructor.
Qed.

Example ex_entry_nonzero :
  expand_elem [2;3;2;2;4] [4;3] [4;3] (TsList (tz [4;1])) [1;2;0;1;3] [1;0;0;1;2] = Ok (Some ([3;2], [2;0])).
Proof. vm_compute. reflexivity. Qed.

Example ex_entry_zero :
  expand_elem [2;3;2;2;4] [4;3] [4;3] (TsList (tz [4;1])) [1;2;0;1;3] [1;0;1;1;2] = Ok None.
Proof. vm_compute. reflexivity. Qed.

Example ex_order_three_cycle :
  expand_order [2;2;2;2;2] [2;2] [2;2] (TsList (tz [3;0])) = Ok [1;2;3;0;4].
Proof. vm_compute. reflexivity. Qed.

Example ex_qubit_hyps : NoDup [2;0] /\ Forall (fun t => t < 3) [2;0].
Proof. split; repeat constructor; cbn; intuition congruence. Qed.

Example ex_reject_count : is_ok (expand_plan [2;2;2] [2;2] [2;2] (TsList [TInt 1])) = false.
Proof. vm_compute. reflexivity. Qed.

Example ex_reject_too_big : is_ok (expand_plan [2;2;2] [2] [2] (TsList [TInt 3])) = false.
Proof. vm_compute. reflexivity. Qed.

(* a negative target passes the `t < N` test and the dims lookup; the rest_qubits loop raises *)
Example ex_reject_negative : expand_plan [2;2;2] [2] [2] (TsList [TInt (-1)]) = Error IndexError.
Proof. vm_compute. reflexivity. Qed.

Example ex_reject_duplicate : expand_plan [2;2;2] [2;2] [2;2] (TsList [TInt 1; TInt 1]) = Error IndexError.
Proof. vm_compute. reflexivity. Qed.

(* more targets than subsystems: only Qobj.permute refuses *)
Example ex_reject_duplicate_permute : expand_plan [2] [2;2] [2;2] (TsList [TInt 0; TInt 0]) = Error PermuteError.
Proof. vm_compute. reflexivity. Qed.

(* right multiset of dimensions, wrong order *)
Example ex_reject_dims_order : expand_plan [2;3;2] [2;3] [2;3] (TsList [TInt 1; TInt 0]) = Error DimsMismatch.
Proof. vm_compute. reflexivity. Qed.

Example ex_reject_non_integer : expand_plan [2;2] [2] [2] (TsList [TOther]) = Error TypeError.
Proof. vm_compute. reflexivity. Qed.

Example ex_reject_non_square : expand_plan [2;3] [2] [3] (TsList [TInt 0]) = Error NotSquare.
Proof. vm_compute. reflexivity. Qed.
