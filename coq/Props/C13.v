(* C13 (stub, being built) *)
From Coq Require Import List String Bool Arith.
From QV Require Import Model.ResolveTypes Gen.Decompose Model.Resolve Model.TranspileTypes Gen.Devices Model.Transpile.
Import ListNotations.
Local Open Scope string_scope.

Example stub_toffoli : exists out, transpile_unfixed dev_LinearSpinChain 3 [MG "TOFFOLI" [2] [0; 1] [] 0]%nat = Ok out /\
  forallb (coupled_gate TopoLinear 3) out = false.
Proof. eexists. split; [vm_compute; reflexivity|vm_compute; reflexivity]. Qed.
