(* C13 - Transpilation targets the device: native gates, coupled qubits, same unitary; what cannot be brought into this form
   is refused.

   Model: Model/Transpile.v `transpile_on d Ndev M c` (Ndev = qubits of the processor, M = width qc.N of the circuit) = the
   statements of ModelProcessor.transpile in the ORDER the translator reads off the source (Gen/Devices.v: per processor class
   the native_gates literal, what topology_map does for a circuit as wide as the processor and for a narrower one, the gates it
   refuses unless they sit on neighbours; the pass list; the qubit-count threshold of _decompose_multi_qubit_gates), over the
   C07 routing model (Model/Route.v, `Route.route Route.fixed`) and the C03 decomposition model (Model/Resolve.v, `resolve`).
   The theorems describe the tree WITH
     fixes/C13-decompose-multi-qubit-gates  gates on more than two qubits are rewritten in native gates BEFORE the topology map,
     fixes/C13-circuit-width                a circuit wider than the processor is refused; a circuit narrower than a ring is
                                            routed as the open segment of the ring it occupies,
     fixes/C13-rzx-neighbours               SCQubits refuses an RZX gate whose targets are not neighbours;
   on a tree without them the pass list / device table differ, `passes_fixed` or `tables_ok` do not compile, and
   transpile_coupled_refuted_unfixed applies.

   Quantification: every processor d of the device table (LinearSpinChain, CircularSpinChain, SCQubits, DispersiveCavityQED),
   every processor size Ndev and circuit width M (no bound; the positive theorems need M <= Ndev, which transpile = Ok implies),
   every circuit c of well-formed instances of the 20 resolvable kinds (C03 `wf_gate`: X Y Z SNOT H SQRTNOT PHASEGATE RX RY RZ
   IDLE CNOT CSIGN SWAP ISWAP SQRTSWAP SQRTISWAP TOFFOLI FREDKIN GLOBALPHASE on pairwise different qubits) inside the circuit,
   of any length; two-qubit gates at every distance, three-qubit gates on every triple; every phase ring R and environment
   env (= every real value of every gate parameter). *)
From Coq Require Import List String Bool Arith.
From QV Require Import Found.Circ Model.ResolveTypes Gen.Decompose Gen.Gates Model.Resolve Proofs.ResolveSem Proofs.ResolveRefuted.
From QV Require Import Model.TranspileTypes Gen.Devices Model.Transpile.
From QV Require Import Proofs.TranspileShape Proofs.TranspileRoute Proofs.TranspileMain Proofs.TranspileSem Proofs.TranspileTop
  Proofs.TranspileC06.
From QV Require Model.SpinChain Proofs.SpinChainSem.
Import ListNotations.
Local Open Scope string_scope.

Lemma all_noP c : Forall (fun g : mgate => noP (gname g)) c.
Proof. apply Forall_forall; intros; exact I. Qed.

(* every gate of the transpiled circuit is a native gate of the processor, GLOBALPHASE or IDLE *)
Theorem transpile_native : forall d Ndev M c out, In d devices ->
  Forall wf_gate c -> Forall (fun g => in_range M g = true) c -> transpile_on d Ndev M c = Ok out ->
  Forall (fun o => native_gate d o = true) out.
Proof.
  intros d Ndev M c out Hd Hw Hr H.
  destruct (transpile_structure noP d Ndev M c out Hd I Hw (all_noP c) Hr H) as [_ S].
  eapply Forall_impl; [|exact S]. intros o [H1 _]. exact H1.
Qed.
Print Assumptions transpile_native.

(* every gate of the transpiled circuit on two or more qubits is a two-qubit gate on a pair the hardware OF Ndev QUBITS couples
   directly: |a-b| = 1 on the open chain (LinearSpinChain, SCQubits), neighbours including (Ndev-1, 0) on the ring, any two
   different qubits through the cavity; no gate leaves the circuit; and the circuit was not wider than the processor *)
Theorem transpile_coupled : forall d Ndev M c out, In d devices ->
  Forall wf_gate c -> Forall (fun g => in_range M g = true) c -> transpile_on d Ndev M c = Ok out ->
  (M <= Ndev)%nat /\ Forall (fun o => coupled_gate (dtopo d) Ndev o = true /\ in_range M o = true) out.
Proof.
  intros d Ndev M c out Hd Hw Hr H.
  destruct (transpile_structure noP d Ndev M c out Hd I Hw (all_noP c) Hr H) as [HM S]. split; [exact HM|].
  eapply Forall_impl; [|exact S]. intros o [_ [H2 [H3 _]]]. auto.
Qed.
Print Assumptions transpile_coupled.

(* ... where "the hardware" is the hand-written table of the property text (Proofs/TranspileTop.v hardware_topology), which
   the topology map every processor class calls is checked against *)
Theorem transpile_coupled_hardware : forall d t Ndev M c out, In d devices -> hardware_topology (dname d) = Some t ->
  Forall wf_gate c -> Forall (fun g => in_range M g = true) c -> transpile_on d Ndev M c = Ok out ->
  Forall (fun o => coupled_gate t Ndev o = true /\ in_range M o = true) out.
Proof.
  intros d t Ndev M c out Hd Ht Hw Hr H. rewrite (hardware_is_dtopo d t Hd Ht).
  exact (proj2 (transpile_coupled d Ndev M c out Hd Hw Hr H)).
Qed.
Print Assumptions transpile_coupled_hardware.
Theorem devices_match_hardware : devices_match = true.
Proof. exact devices_match_true. Qed.
Print Assumptions devices_match_hardware.

(* the transpiled circuit acts on every state of every register exactly as the input circuit - global phase included - for
   all parameter values *)
Theorem transpile_sem : forall d Ndev M c out, In d devices ->
  Forall wf_gate c -> Forall (fun g => in_range M g = true) c -> transpile_on d Ndev M c = Ok out ->
  forall (R : PhaseRing) (env : nat -> atoms R), sem (cden R env out) = sem (cden R env c).
Proof. exact transpile_sem_proof. Qed.
Print Assumptions transpile_sem.

(* a circuit that fits the processor is accepted, unless it holds a SQRTSWAP / SQRTISWAP that is not a native gate *)
Theorem transpile_succeeds : forall d Ndev M c, In d devices -> (M <= Ndev)%nat ->
  Forall wf_gate c -> Forall (fun g => in_range M g = true) c ->
  (forall lst, dnative d = Some lst -> Forall (fun g => sq_name (cfg_of lst) (gname g)) c) ->
  exists out, transpile_on d Ndev M c = Ok out.
Proof. exact transpile_succeeds_proof. Qed.
Print Assumptions transpile_succeeds.

(* a circuit wider than the processor is refused, whatever it holds *)
Theorem transpile_refuses_wide : forall d Ndev M c, (Ndev < M)%nat -> transpile_on d Ndev M c = Error.
Proof. exact transpile_refuses_wide_proof. Qed.
Print Assumptions transpile_refuses_wide.

(* a gate without any decomposition rule that is not a native gate makes the whole call fail, wherever it stands
   (guard Route.is_alias: the names "SWAPALPHA" / "iSWAP" are routed since fixes/C07-alias-names, i.e. moved rather than
   kept in place; such gates are still refused by the code - covered by the correspondence, not by this theorem) *)
Theorem transpile_refuses : forall d Ndev M c g, In d devices -> In g c ->
  mem (gname g) pauli_names = false -> find_rule (gname g) = None -> Route.is_alias (gname g) = false ->
  (forall lst, dnative d = Some lst -> mem (gname g) lst = false) ->
  transpile_on d Ndev M c = Error.
Proof. exact transpile_refuses_proof. Qed.
Print Assumptions transpile_refuses.

(* a native gate the topology map cannot route (RZX of SCQubits), on two targets that are not neighbours, is refused *)
Theorem transpile_refuses_unrouted : forall d Ndev M c g, In d devices -> In g c -> mem (gname g) (dunrouted d) = true ->
  gcontrols g = [] -> (length (gtargets g) <= 2)%nat -> near_targets g = false -> transpile_on d Ndev M c = Error.
Proof. exact transpile_refuses_unrouted_proof. Qed.
Print Assumptions transpile_refuses_unrouted.

Theorem transpile_rejects_measurement : forall d Ndev M ops, In d devices -> In OpMeasure ops -> transpile_ops d Ndev M ops = Error.
Proof. exact transpile_rejects_measurement_proof. Qed.
Print Assumptions transpile_rejects_measurement.

(* the device table: every processor has native gates, they are a valid choice of basis for resolve_gates (one two-qubit gate,
   two rotations), and the parsed configuration names native gates only *)
Theorem devices_valid : forallb dev_good devices = true.
Proof. exact devs_good. Qed.
Print Assumptions devices_valid.

(* ... a circuit narrower than the processor is routed on a topology whose pairs are pairs of the hardware (an open chain;
   never the narrower circuit's own ring), and the gates a topology map refuses are none of the resolvable kinds *)
Theorem devices_width_rules : forallb table_ok devices = true.
Proof. exact tables_ok. Qed.
Print Assumptions devices_width_rules.

(* the generated obligations behind the coupling theorem: in the native configurations, every gate the decomposition of any
   of the 20 kinds emits acts on pairwise different qubits OF ITS SOURCE GATE and is a one-control-one-target CNOT/CSIGN, a
   two-target swap-type gate, a one-target rotation / idle gate or a global phase *)
Theorem decomposition_stays_on_source_qubits : forallb (fun c => forallb (check_shape c) kinds) dev_cfgs = true.
Proof. exact shapes_ok. Qed.
Print Assumptions decomposition_stays_on_source_qubits.

(* the shape of transpile the proofs are about: width test, multi-qubit gates, topology map, resolve_gates *)
Theorem transpile_order : transpile_passes = [PWidth; PExpand; PTopology; PResolve] /\ expand_threshold = 2%nat.
Proof. exact (conj passes_fixed threshold_two). Qed.
Print Assumptions transpile_order.

(* a local circuit identity can be read back from any injective placement (used to pass from the integer-labelled routing
   development to the circuit itself) *)
Theorem placement_reflects_semantics : forall (O : Ops) ts (c1 c2 : circ O), NoDup ts ->
  local (length ts) c1 -> local (length ts) c2 -> sem (place ts c1) = sem (place ts c2) -> sem c1 = sem c2.
Proof. exact place_reflect. Qed.
Print Assumptions placement_reflects_semantics.

(* ---- C06: hypothesis c13_transpile_native of Props/C06.v spinchain_reproduces_circuit --------------------------------- *)
(* for ANY list of C06 gates with the names and targets of the transpiled circuit, on a chain of N qubits *)
Theorem transpile_wf_circuit : forall d N M c out (cc : SpinChain.cfg) (gs : list SpinChain.ngate), In d devices ->
  Forall wf_gate c -> Forall (fun g => in_range M g = true) c -> transpile_on d N M c = Ok out ->
  SpinChain.c_n cc = N -> Forall2 same_gate out gs -> SpinChainSem.wf_circuit cc gs.
Proof. exact transpile_wf_circuit_on_proof. Qed.
Print Assumptions transpile_wf_circuit.

(* ---- the code as found (topology map first, decomposition afterwards): the coupling clause fails ------------------------- *)
(* TOFFOLI(controls 0,1 -> target 2): all gates native, but some two-qubit gate on a pair that is not coupled, on the open
   3-chain, on the 4-ring and on the 3-qubit superconducting chain *)
Theorem transpile_coupled_refuted_unfixed : exists c, Forall wf_gate c /\ Forall (fun g => in_range 3 g = true) c /\
  unfixed_bad dev_LinearSpinChain 3 = true /\ unfixed_bad dev_CircularSpinChain 4 = true /\ unfixed_bad dev_SCQubits 3 = true /\
  c = toffoli_012.
Proof.
  exists toffoli_012. split; [exact toffoli_wf|]. split; [repeat constructor|].
  destruct unfixed_refuted as [A [B C]]. auto.
Qed.
Print Assumptions transpile_coupled_refuted_unfixed.

(* without the width rules: a 3-qubit circuit routed as ITS OWN ring keeps CNOT(0 -> 2) on the pair (0,2), which the 5-ring
   does not couple (the code as found = the same routing with the circuit's width as the ring size) *)
Theorem transpile_narrow_ring_refuted_unfixed :
  exists out, transpile_unfixed dev_CircularSpinChain 3 3 [MG "CNOT" [2] [0] [] 0]%nat = Ok out /\
              forallb (coupled_gate TopoCircular 3) out = true /\ forallb (coupled_gate TopoCircular 5) out = false.
Proof. eexists. split; [vm_compute; reflexivity|]. split; vm_compute; reflexivity. Qed.
Print Assumptions transpile_narrow_ring_refuted_unfixed.

(* ---- non-vacuity ----------------------------------------------------------------------------------------------------------- *)
(* the 7-gate circuit of C03 (X, TOFFOLI on (4,2 -> 0), PHASEGATE, SWAP(2,0), FREDKIN, RY, GLOBALPHASE; 6 qubits) satisfies the
   hypotheses on every processor of the table - as wide as the circuit, and wider (8 qubits) -, is accepted by each, and the
   results are long *)
Example hypotheses_inhabited : Forall wf_gate ex_circ /\ Forall (fun g => in_range 6 g = true) ex_circ /\
  (forall d lst, In d devices -> dnative d = Some lst -> Forall (fun g => sq_name (cfg_of lst) (gname g)) ex_circ) /\
  forallb (fun d => match transpile_on d 6 6 ex_circ with Ok out => Nat.ltb 100 (length out) | Error => false end) devices = true /\
  forallb (fun d => match transpile_on d 8 6 ex_circ with Ok out => Nat.ltb 100 (length out) | Error => false end) devices = true.
Proof.
  split; [exact ex_circ_wf|]. split; [repeat constructor|]. split; [|split].
  - intros d lst _ _. repeat constructor; intros [E|E]; discriminate.
  - vm_compute. reflexivity.
  - vm_compute. reflexivity.
Qed.
(* on the TOFFOLI witness the repaired pipeline meets the device on all four processors *)
Example fixed_meets_device : forallb (fun d => fixed_good d 4) devices = true.
Proof. exact fixed_on_witness. Qed.
(* the narrow circuit on the 5-ring: now routed as an open segment, every gate on a pair of the 5-ring; on the 3-ring the
   wrap-around pair is used *)
Example narrow_ring_fixed :
  (exists out, transpile_on dev_CircularSpinChain 5 3 [MG "CNOT" [2] [0] [] 0]%nat = Ok out /\
               forallb (coupled_gate TopoCircular 5) out = true /\ Nat.ltb 2 (length out) = true) /\
  (exists out, transpile_on dev_CircularSpinChain 3 3 [MG "CNOT" [2] [0] [] 0]%nat = Ok out /\
               forallb (coupled_gate TopoCircular 3) out = true).
Proof. split; eexists; (split; [vm_compute; reflexivity|]); try split; vm_compute; reflexivity. Qed.
(* refusals happen: T on the spin chain, CS after an RX on the superconducting processor, BERKELEY, a SQRTISWAP that is not
   native, a measurement, a circuit wider than the processor, RZX on the far pair (0,2) - while RZX on neighbours is kept *)
Example refusals_inhabited :
  transpile_on dev_LinearSpinChain 3 3 [MG "T" [1] [] [] 0]%nat = Error /\ find_rule "T" = None /\
  transpile_on dev_SCQubits 3 3 [MG "RX" [0] [] [Var 0] 0; MG "CS" [2] [0] [] 1]%nat = Error /\ find_rule "CS" = None /\
  transpile_on dev_CircularSpinChain 4 4 [MG "BERKELEY" [0; 2] [] [] 0]%nat = Error /\
  transpile_on dev_SCQubits 3 3 [MG "SQRTISWAP" [0; 2] [] [] 0]%nat = Error /\
  transpile_ops dev_DispersiveCavityQED 2 2 [OpGate (MG "X" [0] [] [] 0); OpMeasure]%nat = Error /\
  transpile_on dev_LinearSpinChain 3 5 [MG "X" [0] [] [] 0]%nat = Error /\
  transpile_on dev_SCQubits 3 3 [MG "RZX" [0; 2] [] [Var 0] 0]%nat = Error /\
  transpile_on dev_SCQubits 3 3 [MG "RZX" [2; 1] [] [Var 0] 0]%nat = Ok [MG "RZX" [2; 1] [] [Var 0] 0]%nat /\
  mem "RZX" (dunrouted dev_SCQubits) = true.
Proof. repeat split; vm_compute; reflexivity. Qed.
(* the coupling predicate is not trivial: (0,2) is not coupled on the open 3-chain, is coupled on the 3-ring and in the cavity;
   (0,3) closes the 4-ring *)
Example coupled_distinguishes :
  coupled TopoLinear 3 0 2 = false /\ coupled TopoCircular 3 0 2 = true /\ coupled TopoNone 3 0 2 = true /\
  coupled TopoCircular 4 3 0 = true /\ coupled TopoCircular 4 0 2 = false /\ coupled TopoNone 3 1 1 = false /\
  coupled TopoNone 3 0 3 = false.
Proof. repeat split. Qed.
