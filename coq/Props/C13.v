(* C13 - Transpilation targets the device: native gates, coupled qubits, same unitary; what cannot be brought into this form
   is refused.

   Model: Model/Transpile.v `transpile d N c` = the statements of ModelProcessor.transpile in the ORDER the translator reads off
   the source (Gen/Devices.v: per processor class the native_gates literal and what topology_map does; the pass list; the
   qubit-count threshold of _decompose_multi_qubit_gates), over the C07 routing model (Model/Route.v, `Route.route Route.fixed`)
   and the C03 decomposition model (Model/Resolve.v, `resolve`).  The theorems describe the tree WITH
   fixes/C13-decompose-multi-qubit-gates (gates on more than two qubits are rewritten in native gates BEFORE the topology map);
   on the tree as found the pass list is [PTopology; PResolve], `passes_fixed` does not compile, and
   transpile_coupled_refuted_unfixed applies.

   Quantification: every processor d of the device table (LinearSpinChain, CircularSpinChain, SCQubits, DispersiveCavityQED),
   every width N (no bound), every circuit c of well-formed instances of the 20 resolvable kinds (C03 `wf_gate`: X Y Z SNOT H
   SQRTNOT PHASEGATE RX RY RZ IDLE CNOT CSIGN SWAP ISWAP SQRTSWAP SQRTISWAP TOFFOLI FREDKIN GLOBALPHASE on pairwise different
   qubits) inside the register, of any length; two-qubit gates at every distance, three-qubit gates on every triple; every
   phase ring R and environment env (= every real value of every gate parameter).  N is the width of the circuit AND of the
   processor (to_chain_structure routes on the circuit's width; known finding circuit-width-differs). *)
From Coq Require Import List String Bool Arith.
From QV Require Import Found.Circ Model.ResolveTypes Gen.Decompose Gen.Gates Model.Resolve Proofs.ResolveSem Proofs.ResolveRefuted.
From QV Require Import Model.TranspileTypes Gen.Devices Model.Transpile.
From QV Require Import Proofs.TranspileShape Proofs.TranspileRoute Proofs.TranspileMain Proofs.TranspileSem Proofs.TranspileTop
  Proofs.TranspileC06.
From QV Require Model.SpinChain Proofs.SpinChainSem.
Import ListNotations.
Local Open Scope string_scope.

(* every gate of the transpiled circuit is a native gate of the processor, GLOBALPHASE or IDLE *)
Theorem transpile_native : forall d N c out, In d devices ->
  Forall wf_gate c -> Forall (fun g => in_range N g = true) c -> transpile d N c = Ok out ->
  Forall (fun o => native_gate d o = true) out.
Proof.
  intros d N c out Hd Hw Hr H.
  assert (HP : Forall (fun g => noP (gname g)) c) by (apply Forall_forall; intros; exact I).
  pose proof (transpile_structure noP d N c out Hd I Hw HP Hr H) as S.
  eapply Forall_impl; [|exact S]. intros o [H1 _]. exact H1.
Qed.
Print Assumptions transpile_native.

(* every gate of the transpiled circuit on two or more qubits is a two-qubit gate on a pair the hardware couples directly:
   |a-b| = 1 on the open chain (LinearSpinChain, SCQubits), neighbours including (N-1, 0) on the ring, any two different
   qubits of the register through the cavity; and no gate leaves the register *)
Theorem transpile_coupled : forall d N c out, In d devices ->
  Forall wf_gate c -> Forall (fun g => in_range N g = true) c -> transpile d N c = Ok out ->
  Forall (fun o => coupled_gate (dtopo d) N o = true /\ in_range N o = true) out.
Proof.
  intros d N c out Hd Hw Hr H.
  assert (HP : Forall (fun g => noP (gname g)) c) by (apply Forall_forall; intros; exact I).
  pose proof (transpile_structure noP d N c out Hd I Hw HP Hr H) as S.
  eapply Forall_impl; [|exact S]. intros o [_ [H2 [H3 _]]]. auto.
Qed.
Print Assumptions transpile_coupled.

(* ... where "the hardware" is the hand-written table of the property text (Proofs/TranspileTop.v hardware_topology), which
   the topology map every processor class calls is checked against *)
Theorem transpile_coupled_hardware : forall d t N c out, In d devices -> hardware_topology (dname d) = Some t ->
  Forall wf_gate c -> Forall (fun g => in_range N g = true) c -> transpile d N c = Ok out ->
  Forall (fun o => coupled_gate t N o = true /\ in_range N o = true) out.
Proof.
  intros d t N c out Hd Ht. rewrite (hardware_is_dtopo d t Hd Ht). apply transpile_coupled. exact Hd.
Qed.
Print Assumptions transpile_coupled_hardware.
Theorem devices_match_hardware : devices_match = true.
Proof. exact devices_match_true. Qed.
Print Assumptions devices_match_hardware.

(* the transpiled circuit acts on every state of every register exactly as the input circuit - global phase included - for
   all parameter values *)
Theorem transpile_sem : forall d N c out, In d devices ->
  Forall wf_gate c -> Forall (fun g => in_range N g = true) c -> transpile d N c = Ok out ->
  forall (R : PhaseRing) (env : nat -> atoms R), sem (cden R env out) = sem (cden R env c).
Proof. exact transpile_sem_proof. Qed.
Print Assumptions transpile_sem.

(* such a circuit is accepted, unless it holds a SQRTSWAP / SQRTISWAP that is not a native gate of the processor *)
Theorem transpile_succeeds : forall d N c, In d devices ->
  Forall wf_gate c -> Forall (fun g => in_range N g = true) c ->
  (forall lst, dnative d = Some lst -> Forall (fun g => sq_name (cfg_of lst) (gname g)) c) ->
  exists out, transpile d N c = Ok out.
Proof. exact transpile_succeeds_proof. Qed.
Print Assumptions transpile_succeeds.

(* a gate without any decomposition rule that is not a native gate makes the whole call fail, wherever it stands *)
Theorem transpile_refuses : forall d N c g, In d devices -> In g c ->
  mem (gname g) pauli_names = false -> find_rule (gname g) = None ->
  (forall lst, dnative d = Some lst -> mem (gname g) lst = false) ->
  transpile d N c = Error.
Proof. exact transpile_refuses_proof. Qed.
Print Assumptions transpile_refuses.

Theorem transpile_rejects_measurement : forall d N ops, In d devices -> In OpMeasure ops -> transpile_ops d N ops = Error.
Proof. exact transpile_rejects_measurement_proof. Qed.
Print Assumptions transpile_rejects_measurement.

(* the device table: every processor has native gates, they are a valid choice of basis for resolve_gates (one two-qubit gate,
   two rotations), and the parsed configuration names native gates only *)
Theorem devices_valid : forallb dev_good devices = true.
Proof. exact devs_good. Qed.
Print Assumptions devices_valid.

(* the generated obligations behind the coupling theorem: in the native configurations, every gate the decomposition of any
   of the 20 kinds emits acts on pairwise different qubits OF ITS SOURCE GATE and is a one-control-one-target CNOT/CSIGN, a
   two-target swap-type gate, a one-target rotation / idle gate or a global phase *)
Theorem decomposition_stays_on_source_qubits : forallb (fun c => forallb (check_shape c) kinds) dev_cfgs = true.
Proof. exact shapes_ok. Qed.
Print Assumptions decomposition_stays_on_source_qubits.

(* the shape of transpile the proofs are about: multi-qubit gates first, then the topology map, then resolve_gates *)
Theorem transpile_order : transpile_passes = [PExpand; PTopology; PResolve] /\ expand_threshold = 2%nat.
Proof. exact (conj passes_fixed threshold_two). Qed.
Print Assumptions transpile_order.

(* a local circuit identity can be read back from any injective placement (used to pass from the integer-labelled routing
   development to the circuit itself) *)
Theorem placement_reflects_semantics : forall (O : Ops) ts (c1 c2 : circ O), NoDup ts ->
  local (length ts) c1 -> local (length ts) c2 -> sem (place ts c1) = sem (place ts c2) -> sem c1 = sem c2.
Proof. exact place_reflect. Qed.
Print Assumptions placement_reflects_semantics.

(* ---- C06: hypothesis c13_transpile_native of Props/C06.v spinchain_reproduces_circuit --------------------------------- *)
(* for ANY list of C06 gates with the names and targets of the transpiled circuit, on a chain of N qubits *)
Theorem transpile_wf_circuit : forall d N c out (cc : SpinChain.cfg) (gs : list SpinChain.ngate), In d devices ->
  Forall wf_gate c -> Forall (fun g => in_range N g = true) c -> transpile d N c = Ok out ->
  SpinChain.c_n cc = N -> Forall2 same_gate out gs -> SpinChainSem.wf_circuit cc gs.
Proof. exact transpile_wf_circuit_proof. Qed.
Print Assumptions transpile_wf_circuit.

(* ---- the code as found (topology map first, decomposition afterwards): the coupling clause fails ------------------------- *)
(* TOFFOLI(controls 0,1 -> target 2): all gates native, but some two-qubit gate on a pair that is not coupled, on the open
   3-chain, on the 4-ring and on the 3-qubit superconducting chain *)
Theorem transpile_coupled_refuted_unfixed : exists c, Forall wf_gate c /\ Forall (fun g => in_range 3 g = true) c /\
  unfixed_bad dev_LinearSpinChain 3 = true /\ unfixed_bad dev_CircularSpinChain 4 = true /\ unfixed_bad dev_SCQubits 3 = true /\
  c = toffoli_012.
Proof.
  exists toffoli_012. split; [exact toffoli_wf|]. split; [repeat constructor|].
  destruct unfixed_refuted as [A [B C]]. auto.
Qed.
Print Assumptions transpile_coupled_refuted_unfixed.

(* ---- non-vacuity ----------------------------------------------------------------------------------------------------------- *)
(* the 7-gate circuit of C03 (X, TOFFOLI on (4,2 -> 0), PHASEGATE, SWAP(2,0), FREDKIN, RY, GLOBALPHASE; 6 qubits) satisfies the
   hypotheses on every processor of the table, is accepted by each, and the results are long *)
Example hypotheses_inhabited : Forall wf_gate ex_circ /\ Forall (fun g => in_range 6 g = true) ex_circ /\
  (forall d lst, In d devices -> dnative d = Some lst -> Forall (fun g => sq_name (cfg_of lst) (gname g)) ex_circ) /\
  forallb (fun d => match transpile d 6 ex_circ with Ok out => Nat.ltb 100 (length out) | Error => false end) devices = true.
Proof.
  split; [exact ex_circ_wf|]. split; [repeat constructor|]. split.
  - intros d lst _ _. repeat constructor; intros [E|E]; discriminate.
  - vm_compute. reflexivity.
Qed.
(* on the TOFFOLI witness the repaired pipeline meets the device on all four processors *)
Example fixed_meets_device : forallb (fun d => fixed_good d 4) devices = true.
Proof. exact fixed_on_witness. Qed.
(* refusals happen: T on the spin chain, CS after an RX on the superconducting processor, a measurement *)
Example refusals_inhabited :
  transpile dev_LinearSpinChain 3 [MG "T" [1] [] [] 0]%nat = Error /\ find_rule "T" = None /\
  transpile dev_SCQubits 3 [MG "RX" [0] [] [Var 0] 0; MG "CS" [2] [0] [] 1]%nat = Error /\ find_rule "CS" = None /\
  transpile dev_CircularSpinChain 4 [MG "BERKELEY" [0; 2] [] [] 0]%nat = Error /\
  transpile dev_SCQubits 3 [MG "SQRTISWAP" [0; 2] [] [] 0]%nat = Error /\
  transpile_ops dev_DispersiveCavityQED 2 [OpGate (MG "X" [0] [] [] 0); OpMeasure]%nat = Error.
Proof. repeat split; vm_compute; reflexivity. Qed.
(* the coupling predicate is not trivial: (0,2) is not coupled on the open 3-chain, is coupled on the 3-ring and in the cavity;
   (0,3) closes the 4-ring *)
Example coupled_distinguishes :
  coupled TopoLinear 3 0 2 = false /\ coupled TopoCircular 3 0 2 = true /\ coupled TopoNone 3 0 2 = true /\
  coupled TopoCircular 4 3 0 = true /\ coupled TopoCircular 4 0 2 = false /\ coupled TopoNone 3 1 1 = false /\
  coupled TopoNone 3 0 3 = false.
Proof. repeat split. Qed.
