(* C06 -- Noise-free spin-chain pulse compilation reproduces the circuit exactly   (PARTIAL)

   Property text: for every circuit over the gates the spin-chain processors accept, every chain length, open or
   closed topology, every scheduling mode and every positive choice of the hardware strengths, loading the circuit
   and propagating the compiled control pulses without noise yields the circuit's unitary to numerical precision,
   including the global phase the processor reports.  Loading never silently compiles a gate onto a coupling that
   does not connect the gate's qubits.

   What is proved here (no bound on chain length, circuit length, angles, strengths), about Model/SpinChain.v
   interpreting the tables Gen/SpinChain.v that are regenerated from the sources on every run:
     calibration_ok            the closed-form pulse unitary of the Hamiltonian kind a native gate is compiled to, at the
                               phase (Hamiltonian scale) * (compiled area), IS the library gate matrix of Gen/Gates.v:
                               symbolically (every phase ring) and for every REAL angle incl. <= 0 and > 2 pi;
     closed_forms_are_groups   closed(a) closed(b) = closed(a+b), closed(0) = 1, unitary, commute with their generator,
                               quarter-period value = -i * generator;
     area_independent_of_strength   coefficient * duration = area for every non-zero strength (rectangular pulses),
     compiled_area                  ... and for every compiled instruction that area is the translated expression;
     coupling_connects / coupling_refuses   (repaired code) the label chosen by _swap_compiler names the exchange
                               Hamiltonian on exactly the gate's two qubits iff they are neighbours of the topology,
                               every other pair raises;  coupling_connects_refuted, coupling_label_missing_refuted:
                               the code as found compiles ISWAP(1,3) on the 4-ring onto g1 = coupling (1,2), and
                               ISWAP(0,2) on the open 3-chain onto the non-existent "g2";
     global_phase_reported     the phase handed to the processor is the sum of the GLOBALPHASE arguments;
     instruction_is_gate, pulses_are_gates   the pulse of the compiled label on the qubits of THAT label's Hamiltonian
                               has the semantics of the gate on its targets; lifted to whole transpiled circuits;
     spinchain_reproduces_circuit   END-TO-END, under the Section hypotheses composition_principle (ASSUMED:
                               closed form = expm, commuting exponentials, C11/C12/C14 composition) and the C13 facts
                               c13_transpile_native / c13_transpile_sem;
     spinchain_reproduces_transpiled   (Props/C06T.v, depends on the C13 development) the same with c13_transpile_native discharged by C13's transpile_wf_circuit: only the
                               composition principle and the semantic C13 hypothesis remain.
     spinchain_sequential_reproduces_circuit   END-TO-END for SEQUENTIAL compilation (schedule_mode None) WITHOUT the
                               composition hypothesis: the propagator is the ordered product over the model's slicing
                               (seq_slices) of an abstract slice propagator P with the laws P_time, P_zero, P_idle, P_cal;
                               ..._slices: the same for any slicing satisfying C14's slices_ok (+ P_add);
                               slices_are_instruction_windows: the slicing lemma itself.
   NOT proved (named in TRUSTED of tools/props/c06.py): scipy expm = the closed forms; the time-ordered product of the
   slices of the concatenated table = the product of the instruction pulses; non-rectangular pulse shapes. *)
From Coq Require Import Reals ZArith QArith String List.
From Coquelicot Require Import Coquelicot.
From QV Require Import Found.Base Found.KS Found.KSProofs Found.Sym Found.SymProofs Found.Circ Found.CInst
  Gen.Gates Model.SpinChainTypes Gen.SpinChain Model.Concat Model.SpinChain Spec.SpinChainSpec
  Proofs.SpinChainCal Proofs.SpinChainRule Proofs.SpinChainSem
  Model.Fill Spec.FillSpec Proofs.SpinChainSlices Proofs.SpinChainProp Proofs.SpinChainPropEx.
Import ListNotations.
Local Open Scope string_scope.

(* ---- calibration ---- *)
Theorem calibration_ok_symbolic : forall (R : PhaseRing) name, In name pulse_gates ->
  exists k s a ph m, gate_cal name = Some (k, s, a) /\ pulse_phase s a = Some ph /\ lib_matrix name = Some m /\
    forall r c, eval R (mmat (msubst [ph] (closed k)) r c) = eval R (mmat m r c).
Proof. exact calibration_sym. Qed.
Print Assumptions calibration_ok_symbolic.

(* th 0 = theta, ANY real number; phi = (scale of the control Hamiltonian, 2 pi) * (compiled area) *)
Theorem calibration_ok : forall (th : nat -> R) name, In name pulse_gates ->
  exists k s a m (phi : R), gate_cal name = Some (k, s, a) /\ lib_matrix name = Some m /\
    Cmult (cden th s) (cden th a) = RtoC phi /\
    mdim (closed k) = mdim m /\
    forall i j, (i < mdim m)%nat -> (j < mdim m)%nat -> mden (at_phase phi th) (closed k) i j = mden th m i j.
Proof. exact calibration_real. Qed.
Print Assumptions calibration_ok.

Theorem native_gates_are_calibrated : chk_native = true /\ chk_cal = true.
Proof. exact (conj chk_native_true chk_cal_true). Qed.
Print Assumptions native_gates_are_calibrated.

Theorem closed_forms_are_groups : forall k,
  group_law k = true /\ unit_law k = true /\ closed_unitary k = true /\ commutes_with_generator k = true /\ quarter k = true.
Proof. intro k. repeat split; [apply group_law_true|apply unit_law_true|apply closed_unitary_true|apply commutes_true|apply quarter_true]. Qed.
Print Assumptions closed_forms_are_groups.

(* ---- area ---- *)
Theorem area_independent_of_strength : forall maximum area coeff dur,
  rect_pulse maximum area = Some (coeff, dur) ->
  (coeff * dur == area /\ 0 <= dur /\ Qabs.Qabs coeff == Qabs.Qabs maximum * Qabs.Qabs (qsign area) /\ ~ maximum == 0)%Q.
Proof. exact SpinChainCal.area_independent_of_strength. Qed.
Print Assumptions area_independent_of_strength.

Theorem compiled_area : forall c g d lb co,
  compile_gate c g = Ok (CInstr d [(lb, co)]) ->
  exists area_e, (SpinChain.assoc (g_name g) gate_methods = Some (MSwap area_e) \/
                  exists op pa, SpinChain.assoc (g_name g) gate_methods = Some (MRot op pa) /\ area_e = rot_area) /\
    exists a, area_at area_e (g_arg g) = Some a /\ (co * d == a)%Q /\ (0 <= d)%Q.
Proof. exact SpinChainRule.compiled_area. Qed.
Print Assumptions compiled_area.

(* ---- coupling ---- *)
Theorem coupling_connects : forall c g lb,
  setup_ok c -> Forall (fun t => (t < c_n c)%nat) (g_targets g) ->
  swap_label c g = Ok lb ->
  exists q1 q2, zmin (g_targets g) = Some q1 /\ zmax (g_targets g) = Some q2 /\
    coupled c q1 q2 = true /\
    exists ts, control_of c lb = Some (HXY, ts) /\ (ts = [q1; q2] \/ ts = [q2; q1]).
Proof. exact SpinChainRule.coupling_connects. Qed.
Print Assumptions coupling_connects.

Theorem coupling_refuses : forall c g q1 q2,
  zmin (g_targets g) = Some q1 -> zmax (g_targets g) = Some q2 -> coupled c q1 q2 = false -> swap_label c g = Err.
Proof. exact SpinChainRule.coupling_refuses. Qed.
Print Assumptions coupling_refuses.

(* the code as found *)
Theorem coupling_connects_refuted :
  exists c g lb ts, setup_ok c /\ Forall (fun t => (t < c_n c)%nat) (g_targets g) /\
    swap_label_orig c g = Ok lb /\ control_of c lb = Some (HXY, ts) /\
    zmin (g_targets g) = Some 1%Z /\ zmax (g_targets g) = Some 3%Z /\ ts = [1%Z; 2%Z] /\ coupled c 1 3 = false.
Proof. exact SpinChainRule.coupling_connects_refuted. Qed.
Print Assumptions coupling_connects_refuted.

Theorem coupling_label_missing_refuted :
  exists c g lb, setup_ok c /\ Forall (fun t => (t < c_n c)%nat) (g_targets g) /\
    swap_label_orig c g = Ok lb /\ control_of c lb = None /\ coupled c 0 2 = false.
Proof. exact SpinChainRule.coupling_label_missing_refuted. Qed.
Print Assumptions coupling_label_missing_refuted.

(* ---- global phase ---- *)
Theorem global_phase_reported : forall c sched gs tab ph,
  load c sched gs = Ok (tab, ph) ->
  (ph == sum_phase gs)%Q /\ load_fresh_compiler = true /\ load_reports_phase = true /\ run_appends_phase = true.
Proof. exact SpinChainRule.global_phase_reported. Qed.
Print Assumptions global_phase_reported.

(* ---- semantics ---- *)
Theorem instruction_is_gate : forall c g d lb co,
  setup_ok c -> wf_pulse_gate c g -> compile_gate c g = Ok (CInstr d [(lb, co)]) ->
  exists sp sn, pulse_sgate c (g_name g) lb = Some sp /\ native_sgate g = Some sn /\
                forall (R : PhaseRing) (A : atoms R), sem [gden R A sp] = sem [gden R A sn].
Proof. exact instr_is_gate. Qed.
Print Assumptions instruction_is_gate.

Theorem pulses_are_gates : forall c gs, setup_ok c -> wf_circuit c gs ->
  forall p il ph i, compile_gates c gs p = Ok (il, ph) ->
  exists pc, pulse_icirc c gs i = Some pc /\
    forall (R : PhaseRing) (env : nat -> atoms R), sem (iden R env pc) = sem (iden R env (gate_icirc gs i)).
Proof. exact SpinChainSem.pulses_are_gates. Qed.
Print Assumptions pulses_are_gates.

(* END-TO-END (PARTIAL): composition_principle and the C13 facts are hypotheses, visible in the statement *)
Theorem spinchain_reproduces_circuit :
  forall (R : PhaseRing) (env : nat -> atoms R)
         (propagator : cfg -> option (list Q) -> list ngate -> state R -> state R)
         (valid_schedule : cfg -> option (list Q) -> list ngate -> Prop),
  (* composition_principle (ASSUMED) *)
  (forall c sched gs tab ph pc,
      load c sched gs = Ok (tab, ph) -> valid_schedule c sched gs -> pulse_icirc c gs 0 = Some pc ->
      propagator c sched gs = sem (iden R env pc)) ->
  forall (c : cfg) (gs : list ngate) (original_sem : state R -> state R),
  (* c13_transpile_native, c13_transpile_sem *)
  wf_circuit c gs -> original_sem = sem (iden R env (full_icirc gs 0)) ->
  forall sched tab ph,
  setup_ok c -> load c sched gs = Ok (tab, ph) -> valid_schedule c sched gs ->
  (forall psi, sem (iden R env (phase_icirc gs 0)) (propagator c sched gs psi) = original_sem psi) /\
  (ph == sum_phase gs)%Q.
Proof. exact SpinChainSem.spinchain_reproduces_circuit. Qed.
Print Assumptions spinchain_reproduces_circuit.

(* ---- the composition principle PROVED for sequential compilation (schedule_mode None) -------------------------------
   P h t : the slice propagator "exp(-i t sum_m h_m H_m)" of the loop of run_analytically, ABSTRACT.  Laws used (hypotheses
   of the statements, listed in TRUSTED as the modelled part = the matrix exponential): P_time, P_zero, P_add, P_idle and
   P_cal (on the coefficient vector of one compiled instruction, for that instruction's duration, P is the closed-form
   pulse unitary calibration_ok is about). *)

(* any slice list that satisfies C14's predicate slices_ok (what Props/C14.v slices_are_piecewise_H proves of the loop) on a
   grid containing the window boundaries, for channel functions that are the sequential waveform (what Props/C12.v
   compiled_is_waveform proves of the table), has as ordered product the product of one propagator per instruction *)
Theorem slices_are_instruction_windows : forall (St : Type) (P : list Q -> Q -> St -> St),
  (forall h a b s, (a == b)%Q -> P h a s = P h b s) -> (forall h s, P h 0%Q s = s) ->
  (forall h a b s, (0 <= a)%Q -> (0 <= b)%Q -> P h (a + b)%Q s = P h b (P h a s)) ->
  (forall h t s, Forall (fun c => (c == 0)%Q) h -> P h t s = s) ->
  forall (fs : list (Q -> Q)) ws s full sl,
  grid_windows s ws full -> slices_ok fs full sl -> wave_is fs s ws ->
  forall x, prop_slices St P sl x = prop_windows St P ws x.
Proof. exact windows_prop. Qed.
Print Assumptions slices_are_instruction_windows.

(* END-TO-END for sequential compilation, NO composition hypothesis: the ordered product of the slice propagators of the
   model's slicing of the compiled table (seq_slices: the merged grid of a sequential table is the set of window
   boundaries), followed by the phase factors, is the original circuit.  Remaining hypotheses: P_time, P_zero, P_idle, P_cal
   (the group law P_add is only needed for finer slicings, next theorem) and the C13 facts. *)
Theorem spinchain_sequential_reproduces_circuit :
  forall (R : PhaseRing) (env : nat -> atoms R) (labels : list label) (P : list Q -> Q -> state R -> state R),
  (forall h a b s, (a == b)%Q -> P h a s = P h b s) -> (forall h s, P h 0%Q s = s) ->
  (forall h t s, Forall (fun c => (c == 0)%Q) h -> P h t s = s) ->
  forall (c : cfg) (gs : list ngate),
  (* P_cal *)
  (forall i g d lb co sp s, nth_error gs i = Some g -> compile_gate c g = Ok (CInstr d [(lb, co)]) ->
     pulse_sgate c (g_name g) lb = Some sp -> P (ivec labels [(lb, co)]) d s = sem [gden R (env i) sp] s) ->
  forall (original_sem : state R -> state R),
  wf_circuit c gs -> original_sem = sem (iden R env (full_icirc gs 0)) ->
  forall il ph, setup_ok c -> compile_gates c gs 0%Q = Ok (il, ph) -> Forall (fun i => (0 <= fst i)%Q) il ->
  (forall psi, sem (iden R env (phase_icirc gs 0)) (prop_slices (state R) P (seq_slices labels il) psi) = original_sem psi) /\
  (ph == sum_phase gs)%Q.
Proof. exact sequential_run_reproduces_circuit. Qed.
Print Assumptions spinchain_sequential_reproduces_circuit.

(* the same for ANY slicing accepted by C14's predicate (interface form) *)
Theorem spinchain_sequential_reproduces_circuit_slices :
  forall (R : PhaseRing) (env : nat -> atoms R) (labels : list label) (P : list Q -> Q -> state R -> state R),
  (forall h a b s, (a == b)%Q -> P h a s = P h b s) -> (forall h s, P h 0%Q s = s) ->
  (forall h a b s, (0 <= a)%Q -> (0 <= b)%Q -> P h (a + b)%Q s = P h b (P h a s)) ->
  (forall h t s, Forall (fun c => (c == 0)%Q) h -> P h t s = s) ->
  forall (c : cfg) (gs : list ngate),
  (forall i g d lb co sp s, nth_error gs i = Some g -> compile_gate c g = Ok (CInstr d [(lb, co)]) ->
     pulse_sgate c (g_name g) lb = Some sp -> P (ivec labels [(lb, co)]) d s = sem [gden R (env i) sp] s) ->
  forall (fs : list (Q -> Q)) (original_sem : state R -> state R),
  wf_circuit c gs -> original_sem = sem (iden R env (full_icirc gs 0)) ->
  forall il ph full sl, setup_ok c -> compile_gates c gs 0%Q = Ok (il, ph) ->
  grid_windows 0%Q (windows_of labels il) full -> slices_ok fs full sl -> wave_is fs 0%Q (windows_of labels il) ->
  (forall psi, sem (iden R env (phase_icirc gs 0)) (prop_slices (state R) P sl psi) = original_sem psi) /\
  (ph == sum_phase gs)%Q.
Proof. exact sequential_reproduces_circuit. Qed.
Print Assumptions spinchain_sequential_reproduces_circuit_slices.

(* the hypotheses are satisfiable: a non-trivial commuting model of the four group laws; the interface hypotheses on a
   concrete two-instruction table; all hypotheses together incl. P_cal for an arbitrary circuit (degenerate ring) *)
Example propagator_laws_have_a_model :
  (forall h a b s, (a == b)%Q -> Ptoy h a s = Ptoy h b s) /\ (forall h s, Ptoy h 0%Q s = s) /\
  (forall h a b s, (0 <= a)%Q -> (0 <= b)%Q -> Ptoy h (a + b)%Q s = Ptoy h b (Ptoy h a s)) /\
  (forall h t s, Forall (fun c => (c == 0)%Q) h -> Ptoy h t s = s) /\
  Ptoy [1#2; 1#4]%Q 2%Q (Qcanon.Q2Qc 1) <> Qcanon.Q2Qc 1.
Proof. exact toy_laws. Qed.
Example slicing_interface_inhabited :
  grid_windows 0%Q (windows_of ex_labels ex_il) ex_full /\ slices_ok ex_fs ex_full ex_sl /\
  wave_is ex_fs 0%Q (windows_of ex_labels ex_il).
Proof. exact interface_inhabited. Qed.

(* ---- non-vacuity ---- *)
Example pulse_gates_are : pulse_gates = ["ISWAP"; "RX"; "RZ"; "SQRTISWAP"].
Proof. vm_compute. reflexivity. Qed.

(* a closed 4-chain with unequal strengths; RX(-3 pi/2) q1, GLOBALPHASE(pi/4), ISWAP on the closing pair (3,0),
   RZ(0) q2 (zero-duration instruction), SQRTISWAP(2,1), RX(5 pi) q3 *)
Definition ex_cfg : cfg := mkCfg 4 "circular" [1#4; 1#2; 1#8; 1]%Q [1; 2; 1#2; 3]%Q [1#10; 1#5; 1#2; 1#4]%Q.
Definition ex_gates : list ngate :=
  [ mkG "RX" [1%nat] (Some (-3#2)%Q); mkG "GLOBALPHASE" [] (Some (1#4)%Q); mkG "ISWAP" [3%nat; 0%nat] None;
    mkG "RZ" [2%nat] (Some 0%Q); mkG "SQRTISWAP" [2%nat; 1%nat] None; mkG "RX" [3%nat] (Some 5%Q) ].
Example ex_loads : exists tab, load ex_cfg None ex_gates = Ok (tab, (1#4)%Q) /\ length tab = 5%nat.
Proof. eexists. split; [vm_compute; reflexivity|reflexivity]. Qed.
Example ex_wf : setup_ok ex_cfg /\ wf_circuit ex_cfg ex_gates.
Proof.
  split; [right; reflexivity|]. unfold wf_circuit, ex_gates.
  repeat (constructor; [first [exact I | (cbn; unfold wf_pulse_gate; cbn;
    repeat split; [tauto| repeat constructor; cbn; intuition discriminate | repeat constructor ])]|]).
  constructor.
Qed.
Example ex_wrap_label : swap_label ex_cfg (mkG "ISWAP" [3%nat; 0%nat] None) = Ok ("g", 3%Z) /\
                        control_of ex_cfg ("g", 3%Z) = Some (HXY, [3%Z; 0%Z]).
Proof. split; vm_compute; reflexivity. Qed.
Example ex_negative_angle : show_cres (compile_gate ex_cfg (mkG "RX" [1%nat] (Some (-3#2)%Q))) = ([[3]; [3; 4]], [("sx", 1, [-1; 2])])%Z.
Proof. vm_compute. reflexivity. Qed.
Example ex_zero_angle : show_cres (compile_gate ex_cfg (mkG "RZ" [2%nat] (Some 0%Q))) = ([[3]; [0; 1]], [("sz", 2, [0; 1])])%Z.
Proof. vm_compute. reflexivity. Qed.
Example ex_rect : option_map (fun p => (qzz (fst p), qzz (snd p))) (rect_pulse (1#8)%Q (-1#16)%Q) = Some ([-1; 8], [1; 2])%Z.
Proof. vm_compute. reflexivity. Qed.
Example ex_phase_expr : exists q, pulse_phase (Mul (Num 2) Pi) rot_area = Some (Mul (Num q) (Var 0)) /\ (q == 1 # 2)%Q.
Proof. eexists. split; [vm_compute; reflexivity|reflexivity]. Qed.
