(* C03 - Basis decomposition (QubitCircuit.resolve_gates) preserves the unitary exactly and stays in the basis.

   Model: Model/Resolve.v (`resolve`) over the rule tables Gen/Decompose.v, regenerated from circuit/_decompose.py and
   resolve_gates on every run; gate matrices Gen/Gates.v.  The theorems describe the tree with the four fixes
   fixes/C03-pauli-phase-marker, C03-string-basis-membership, C03-basis-rotations-only, C03-iswap-pass-first:
   Gen/Decompose.v records where the Pauli phase marker is appended, whether a string basis is turned into a list, whether
   basis_1q is reduced to its rotations, and the precedence list of the two-qubit passes; on a tree without them the
   flags / the list differ, the proofs below do not go through and the `_refuted_unfixed` statements apply.

   Quantification: every basis specification b (string or list form), every circuit c whose gates are well-formed
   instances of the resolvable kinds (X Y Z SNOT H SQRTNOT PHASEGATE RX RY RZ IDLE CNOT CSIGN SWAP ISWAP SQRTSWAP SQRTISWAP
   TOFFOLI FREDKIN GLOBALPHASE) on arbitrary pairwise different qubits of an unbounded register, every phase ring R and
   every environment of atoms env (= every real value of every gate parameter), every sequence length. *)
From Coq Require Import List String Bool Arith.
From QV Require Import Found.Circ Model.ResolveTypes Gen.Decompose Gen.Gates Model.Resolve.
From QV Require Import Proofs.ResolveLemmas Proofs.ResolveChkDefs Proofs.ResolveSem Proofs.ResolveRefuted.
Import ListNotations.

(* the decomposed circuit acts on every state of every register exactly as the original - global phase included -
   for ALL basis specifications the code accepts (valid or not) *)
Theorem resolve_sem : forall b c c', Forall wf_gate c -> resolve b c = Ok c' ->
  forall (R : PhaseRing) (env : nat -> atoms R), sem (cden R env c') = sem (cden R env c).
Proof. exact resolve_sem_proof. Qed.
Print Assumptions resolve_sem.

(* for EVERY accepted basis that names at least one two-qubit gate (any number of them, IDLE entries, repeated names, ...)
   the result contains only gates of the basis, GLOBALPHASE and IDLE *)
Theorem resolve_in_basis : forall b c c' cf keep, Forall wf_gate c -> parse_basis b = Ok (cf, keep) -> c2q cf <> [] ->
  resolve b c = Ok c' -> Forall (fun g => in_basis cf g = true) c'.
Proof. exact resolve_in_basis_accepted_proof. Qed.
Print Assumptions resolve_in_basis.
(* every accepted basis has two or three distinct rotations and eliminates the third exactly when there are two *)
Theorem resolve_rotations_consistent : forall b cf keep, parse_basis b = Ok (cf, keep) -> rot_ok cf = true.
Proof. exact parse_rot_ok. Qed.
Print Assumptions resolve_rotations_consistent.

(* ... and such a request is not refused, unless the circuit holds a SQRTSWAP / SQRTISWAP that is not the requested gate *)
Theorem resolve_succeeds : forall b c cf keep, Forall wf_gate c -> parse_basis b = Ok (cf, keep) -> c2q cf <> [] ->
  Forall (fun g => gname g = "SQRTSWAP"%string \/ gname g = "SQRTISWAP"%string -> mem (gname g) (c2q cf) = true) c ->
  exists c', resolve b c = Ok c'.
Proof. exact resolve_succeeds_accepted_proof. Qed.
Print Assumptions resolve_succeeds.

(* the 5 string forms, the 5 x 4 list forms, both processor native sets and the default basis are valid choices *)
Theorem resolve_specs_valid : forallb spec_valid (str_specs ++ list_specs) = true.
Proof. exact specs_valid_proof. Qed.
Print Assumptions resolve_specs_valid.

(* a gate that has no decomposition rule and is not part of the requested basis makes the whole call fail *)
Theorem resolve_refuses : forall b c cf keep g, parse_basis b = Ok (cf, keep) -> In g c ->
  mem (gname g) pauli_names = false -> mem (gname g) (c2q cf) = false -> find_rule (gname g) = None ->
  keep (gname g) = false -> resolve b c = Error.
Proof. exact resolve_refuses_proof. Qed.
Print Assumptions resolve_refuses.

(* `keep` is exact membership in the requested basis, for both forms of the argument *)
Theorem resolve_keep_str : forall s cf keep, parse_basis (BStr s) = Ok (cf, keep) -> forall n, keep n = String.eqb n s.
Proof. exact keep_str. Qed.
Print Assumptions resolve_keep_str.
Theorem resolve_keep_list : forall l cf keep, parse_basis (BList l) = Ok (cf, keep) -> forall n, keep n = mem n l.
Proof. exact keep_list. Qed.
Print Assumptions resolve_keep_list.

(* gates whose rule is `raise NotImplementedError` (BERKELEY, SWAPalpha, SQRTSWAP, SQRTISWAP) are refused unless they are
   themselves the requested two-qubit gate *)
Theorem resolve_refuses_notimplemented : forall b c cf keep g, parse_basis b = Ok (cf, keep) -> In g c ->
  mem (gname g) pauli_names = false -> mem (gname g) (c2q cf) = false -> find_rule (gname g) = Some RRaise ->
  resolve b c = Error.
Proof. exact resolve_refuses_notimplemented_proof. Qed.
Print Assumptions resolve_refuses_notimplemented.

(* invalid basis specifications are refused: unknown string, exactly one rotation named (IDLE and repetitions not counted) *)
Theorem resolve_valid_basis_string : forall s c, mem s basis_2q_valid = false -> resolve (BStr s) c = Error.
Proof. exact resolve_invalid_string_proof. Qed.
Print Assumptions resolve_valid_basis_string.
Theorem resolve_valid_basis_one_rotation : forall l c, length (rotations_of l) = 1%nat -> resolve (BList l) c = Error.
Proof. exact resolve_one_rotation_proof. Qed.
Print Assumptions resolve_valid_basis_one_rotation.

Theorem resolve_rejects_measurement : forall b ops, In OpMeasure ops -> resolve_ops b ops = Error.
Proof. exact resolve_rejects_measurement_proof. Qed.
Print Assumptions resolve_rejects_measurement.

(* with the markers travelling in temp_resolved the three passes are one gate-wise rewriting *)
Theorem resolve_gatewise : forall b c,
  resolve b c = rbind (parse_basis b) (fun ck => rflat (resolve_gate (fst ck) (snd ck)) c).
Proof. exact resolve_unfold. Qed.
Print Assumptions resolve_gatewise.

(* ---- the unchanged code (refuted) and the guard of resolve_in_basis (necessary) -------------------------------------- *)
(* resolve_sem fails for the code as shipped: X in the default basis loses its GLOBALPHASE(pi/2) marker *)
Theorem resolve_sem_refuted_unfixed : exists b c out, Forall wf_gate c /\
  resolve_gen false cur_flags basis_2q_order b c = Ok out /\
  scirc_eqb 1 (map to_sgate out) (map to_sgate c) = false /\
  scirc_eqb 1 (phase (Div Pi (Num 2)) :: map to_sgate out) (map to_sgate c) = true.
Proof. exact sem_refuted_unfixed. Qed.
Print Assumptions resolve_sem_refuted_unfixed.

(* resolve_refuses fails for the code as shipped: substring test on a string basis keeps T for basis="CNOT" *)
Theorem resolve_refuses_refuted_unfixed : exists c, find_rule "T" = None /\ String.eqb "T" "CNOT" = false /\
  resolve_gen true (PF false rot_normalised) basis_2q_order (BStr "CNOT") c = Ok c /\ In (gT 0 0) c.
Proof. exact refuses_refuted_unfixed. Qed.
Print Assumptions resolve_refuses_refuted_unfixed.

(* resolve_in_basis fails for the code before fixes/C03-basis-rotations-only (IDLE counted as a rotation) ... *)
Theorem resolve_in_basis_refuted_idle_unfixed : exists b c out cf keep, Forall wf_gate c /\
  parse_basis_gen old_flags b = Ok (cf, keep) /\ c2q cf <> [] /\
  resolve_gen pauli_marker_to_temp old_flags basis_2q_order b c = Ok out /\ existsb (fun g => negb (in_basis cf g)) out = true.
Proof. exact in_basis_refuted_idle_unfixed. Qed.
Print Assumptions resolve_in_basis_refuted_idle_unfixed.
(* ... and before fixes/C03-iswap-pass-first (CSIGN pass run although SWAP was kept for the ISWAP pass) *)
Theorem resolve_in_basis_refuted_csign_iswap_unfixed : exists b c out cf keep, Forall wf_gate c /\
  parse_basis b = Ok (cf, keep) /\ c2q cf <> [] /\
  resolve_gen pauli_marker_to_temp cur_flags old_order b c = Ok out /\ existsb (fun g => negb (in_basis cf g)) out = true.
Proof. exact in_basis_refuted_csign_iswap_unfixed. Qed.
Print Assumptions resolve_in_basis_refuted_csign_iswap_unfixed.
(* the remaining hypothesis of resolve_in_basis is necessary: a basis without two-qubit gate is accepted and keeps CNOT *)
Theorem resolve_in_basis_refuted_no_2q : exists b c out cf keep, Forall wf_gate c /\ parse_basis b = Ok (cf, keep) /\
  c2q cf = [] /\ resolve b c = Ok out /\ existsb (fun g => negb (in_basis cf g)) out = true.
Proof. exact in_basis_refuted_no_2q. Qed.
Print Assumptions resolve_in_basis_refuted_no_2q.

(* ---- non-vacuity ---------------------------------------------------------------------------------------------------- *)
(* a 7-gate circuit on 6 qubits (X, TOFFOLI, PHASEGATE, SWAP, FREDKIN, RY, GLOBALPHASE; scattered placements) is well formed,
   is accepted in the basis [SQRTISWAP; RY; RZ], which is a valid configuration, and becomes more than 100 gates *)
Example hypotheses_inhabited : Forall wf_gate ex_circ /\
  exists out cf keep, parse_basis (BList ["SQRTISWAP"; "RY"; "RZ"]%string) = Ok (cf, keep) /\ valid_cfg cf = true /\
    resolve (BList ["SQRTISWAP"; "RY"; "RZ"]%string) ex_circ = Ok out /\ (100 < length out)%nat.
Proof. exact (conj ex_circ_wf ex_circ_resolves). Qed.
(* refusals happen: CS in the string basis "CSIGN", BERKELEY in the default basis *)
Example refusals_inhabited :
  resolve (BStr "CSIGN") [MG "CS" [1] [0] [] 0]%nat = Error /\ find_rule "CS" = None /\
  resolve (BList default_basis) [MG "BERKELEY" [0; 1] [] [] 0]%nat = Error /\ find_rule "BERKELEY" = Some RRaise /\
  find_rule "SWAPalpha" = Some RRaise /\ find_rule "SQRTSWAP" = Some RRaise /\ find_rule "SQRTISWAP" = Some RRaise.
Proof. exact ex_refused. Qed.
(* the two formerly failing requests ([CNOT;RX;RY;IDLE], [CNOT;IDLE], [CSIGN;ISWAP;RX;RY;RZ] with SWAP) are now served in the basis *)
Example repaired_requests_in_basis : forallb (fun bc => match parse_basis (fst bc), resolve (fst bc) (snd bc) with
                                             | Ok ck, Ok out => forallb (in_basis (fst ck)) out | _, _ => false end)
  [(BList ["CNOT"; "RX"; "RY"; "IDLE"]%string, [gRZ 0 0]); (BList ["CNOT"; "IDLE"]%string, [gRZ 0 0; gX 1 1]);
   (BList ["CSIGN"; "ISWAP"; "RX"; "RY"; "RZ"]%string, [gSWAP 0 1 0; MG "CNOT" [1%nat] [0%nat] [] 1%nat])] = true.
Proof. exact repaired_requests. Qed.
