(* C07 - Nearest-neighbour routing preserves the unitary and yields adjacent gates only.

   Model: Model/Route.v (`route` = to_chain_structure, `adjacent_gates`), cfg `fixed` = the code with
   fixes/C07-circular-backward-control, C07-circular-index-mod, C07-swapalpha-arg, C07-measurement-passthrough and
   C07-adjacent-gates-passthrough applied, cfg `stage2` = only the first three,
   cfg `orig` = the unchanged tree.  No bound on the register size N, on the qubit pair or on the
   circuit length in any theorem.

   Gate semantics is abstract (any S, act obeying `sem_laws`: conjugating a CNOT/CSIGN/swap-type gate
   by SWAP(p,q) relabels its qubits by the transposition (p q); swap-type gates are symmetric).
   `tok_laws` exhibits a non-trivial instance.  `run S act l` applies the gates of l in order. *)
From Coq Require Import ZArith List String Bool.
Import ListNotations.
From QV Require Import Model.Route Proofs.RouteLoop Proofs.RouteSem Proofs.RouteMain.
Local Open Scope Z_scope.

(* ---- to_chain_structure, one handled gate on any ordered pair ---------------------------- *)

(* linear chain: routed (never an error / fuel exhaustion), and the routed list means the gate *)
Theorem route_linear_sem : forall S act, sem_laws S act -> forall N g,
  wf_handled g = true -> in_rangeb N g = true ->
  exists out, route fixed Linear N [g] = Some out /\ forall st, run S act out st = act g st.
Proof. exact RouteMain.route_linear_sem. Qed.
Print Assumptions route_linear_sem.

(* ring, including the backward path and the wrap-around edge (fixed code) *)
Theorem route_circular_sem : forall S act, sem_laws S act -> forall N g,
  wf_handled g = true -> in_rangeb N g = true ->
  exists out, route fixed Circular N [g] = Some out /\ forall st, run S act out st = act g st.
Proof. exact RouteMain.route_circular_sem. Qed.
Print Assumptions route_circular_sem.

(* every emitted gate is a two-qubit gate on neighbours of the topology (ring: (0, N-1) too),
   all indices inside the register; both topologies *)
Theorem route_adjacent_in_range : forall tp N g,
  wf_handled g = true -> in_rangeb N g = true ->
  exists out, route fixed tp N [g] = Some out /\
              forallb (adj2b tp N) out = true /\ forallb (in_rangeb N) out = true.
Proof. exact RouteMain.route_adjacent_in_range. Qed.
Print Assumptions route_adjacent_in_range.

(* the three clauses together *)
Theorem route_one : forall S act, sem_laws S act -> forall tp N g,
  wf_handled g = true -> in_rangeb N g = true ->
  exists out, route fixed tp N [g] = Some out /\
              (forall st, run S act out st = act g st) /\
              forallb (adj2b tp N) out = true /\ forallb (in_rangeb N) out = true.
Proof. exact RouteMain.route_one. Qed.
Print Assumptions route_one.

(* ---- gates the router does not handle ------------------------------------------------------ *)
Theorem route_passthrough : forall c tp N g r,
  handledb g = false -> route c tp N (g :: r) = option_map (cons g) (route c tp N r).
Proof. exact RouteMain.route_passthrough. Qed.
Print Assumptions route_passthrough.

Theorem route_passthrough_all : forall c tp N gs,
  forallb (fun g => negb (handledb g)) gs = true -> route c tp N gs = Some gs.
Proof. exact RouteMain.route_passthrough_all. Qed.
Print Assumptions route_passthrough_all.

(* ---- circuits of many gates: the output is the concatenation, gate by gate, of either the
        unchanged gate (unhandled) or a routed piece with the three properties ------------------ *)
Theorem route_many : forall S act, sem_laws S act -> forall tp N gs,
  Forall (gate_ok N) gs ->
  exists outs, route fixed tp N gs = Some (List.concat outs) /\
               Forall2 (piece_ok S act tp N) gs outs /\
               forall st, run S act (List.concat outs) st = run S act gs st.
Proof. exact RouteMain.route_many. Qed.
Print Assumptions route_many.

(* ---- QubitCircuit.adjacent_gates (open chain) ----------------------------------------------- *)
Theorem adjacent_gates_one : forall S act, sem_laws S act -> forall N g,
  wf_handled g = true -> in_rangeb N g = true ->
  exists out, adjacent_gates fixed [g] = Some out /\
              (forall st, run S act out st = act g st) /\
              forallb (adj2b Linear N) out = true /\ forallb (in_rangeb N) out = true.
Proof. exact RouteMain.adjacent_gates_one. Qed.
Print Assumptions adjacent_gates_one.

Theorem adjacent_gates_many : forall S act, sem_laws S act -> forall N gs,
  Forall (fun g => wf_handled g = true /\ in_rangeb N g = true) gs ->
  exists outs, adjacent_gates fixed gs = Some (List.concat outs) /\
               Forall2 (fun g o => routed_ok S act Linear N g o) gs outs /\
               forall st, run S act (List.concat outs) st = run S act gs st.
Proof. exact RouteMain.adjacent_gates_many. Qed.
Print Assumptions adjacent_gates_many.

(* with fixes/C07-adjacent-gates-passthrough: gates adjacent_gates does not resolve are kept unchanged, in order *)
Theorem adjacent_gates_passthrough : forall c g r,
  fix_adjpass c = true -> handledb g = false ->
  adjacent_gates c (g :: r) = option_map (cons g) (adjacent_gates c r).
Proof. exact RouteMain.adjacent_gates_passthrough. Qed.
Print Assumptions adjacent_gates_passthrough.

Theorem adjacent_gates_passthrough_all : forall c gs,
  fix_adjpass c = true ->
  forallb (fun g => negb (handledb g)) gs = true -> adjacent_gates c gs = Some gs.
Proof. exact RouteMain.adjacent_gates_passthrough_all. Qed.
Print Assumptions adjacent_gates_passthrough_all.

(* circuits mixing routed and other gates: same shape as route_many *)
Theorem adjacent_gates_mixed : forall S act, sem_laws S act -> forall N gs,
  Forall (gate_ok N) gs ->
  exists outs, adjacent_gates fixed gs = Some (List.concat outs) /\
               Forall2 (piece_ok S act Linear N) gs outs /\
               forall st, run S act (List.concat outs) st = run S act gs st.
Proof. exact RouteMain.adjacent_gates_mixed. Qed.
Print Assumptions adjacent_gates_mixed.

(* before that fix (cfg orig, stage2) adjacent_gates refused (NotImplementedError) every circuit containing
   such a gate *)
Theorem adjacent_gates_unhandled_rejected : forall c gs g,
  fix_adjpass c = false -> In g gs -> handledb g = false -> adjacent_gates c gs = None.
Proof. exact RouteMain.adjacent_gates_unhandled_rejected. Qed.
Print Assumptions adjacent_gates_unhandled_rejected.

Theorem adjacent_gates_passthrough_refuted :
  exists gs, Forall (fun g => in_rangeb 2 g = true) gs /\
             forallb (fun g => negb (handledb g)) gs = true /\
             adjacent_gates orig gs = None /\ adjacent_gates stage2 gs = None /\
             adjacent_gates fixed gs = Some gs.
Proof. exact RouteMain.adjacent_gates_passthrough_refuted. Qed.
Print Assumptions adjacent_gates_passthrough_refuted.

(* ---- measurements (operation level: qc.gates holds Gate and Measurement objects) ------------ *)
(* with fixes/C07-measurement-passthrough a measurement is passed through unchanged and in place *)
Theorem route_ops_measurement_passthrough : forall c tp N n t s r,
  fix_meas c = true -> meas_name_ok n = true ->
  route_ops c tp N (OM n t s :: r) = option_map (cons (OM n t s)) (route_ops c tp N r).
Proof. exact RouteMain.route_ops_measurement_passthrough. Qed.
Print Assumptions route_ops_measurement_passthrough.

(* on gate-only circuits route_ops is route *)
Theorem route_ops_gates : forall c tp N gs,
  route_ops c tp N (map OG gs) = option_map (map OG) (route c tp N gs).
Proof. exact RouteMain.route_ops_gates. Qed.
Print Assumptions route_ops_gates.

(* any mix of gates and measurements: the output is, operation by operation, the measurement itself,
   the unchanged gate, or a routed piece with the three properties *)
Theorem route_ops_many : forall S act, sem_laws S act -> forall tp N ops,
  Forall (op_ok N) ops ->
  exists outs, route_ops fixed tp N ops = Some (List.concat outs) /\
               Forall2 (op_piece_ok S act tp N) ops outs.
Proof. exact RouteMain.route_ops_many. Qed.
Print Assumptions route_ops_many.

(* before the fix the measurement disappears: add_gate wraps it into a gate *)
Theorem route_measurement_refuted :
  exists N ops out,
    Forall (op_ok N) ops /\
    route_ops stage2 Linear N ops = Some out /\ route_ops orig Linear N ops = Some out /\
    existsb is_meas ops = true /\ existsb is_meas out = false /\
    route_ops fixed Linear N ops =
      Some [OG (SWAPg 0 1); OG (Cg "CNOT" 1 2); OG (SWAPg 0 1); OM "M0" [0] (Some 0)].
Proof. exact RouteMain.route_measurement_refuted. Qed.
Print Assumptions route_measurement_refuted.

(* adjacent_gates refuses circuits that contain a measurement (explicit, documented refusal; unchanged) *)
Theorem adjacent_ops_rejects_measurement : forall c ops n t s,
  In (OM n t s) ops -> adjacent_ops c ops = None.
Proof. exact RouteMain.adjacent_ops_rejects_measurement. Qed.
Print Assumptions adjacent_ops_rejects_measurement.

(* ---- the executable permutation-tracking checker is sound ---------------------------------- *)
Theorem track_sound : forall S act, sem_laws S act -> forall l g,
  track l = Some g -> wf_handled g = true /\ forall st, run S act l st = act g st.
Proof. exact RouteMain.track_is_sound. Qed.
Print Assumptions track_sound.

(* ---- the laws are satisfiable by a non-trivial semantics ----------------------------------- *)
Theorem tok_laws : sem_laws tok tact.
Proof. exact RouteMain.tok_laws. Qed.
Print Assumptions tok_laws.

(* ---- the unchanged tree violates the property (cfg orig) ------------------------------------ *)
Theorem route_circular_sem_refuted :
  exists N g out,
    wf_handled g = true /\ in_rangeb N g = true /\
    route orig Circular N [g] = Some out /\
    track out = Some (Cg "CNOT" 4 0) /\ g = Cg "CNOT" 0 4 /\
    exists st, run tok tact out st <> tact g st.
Proof. exact RouteMain.route_circular_sem_refuted. Qed.
Print Assumptions route_circular_sem_refuted.

Theorem route_in_range_refuted :
  exists N g out,
    wf_handled g = true /\ in_rangeb N g = true /\
    route orig Circular N [g] = Some out /\
    forallb (in_rangeb N) out = false /\ In (SWAPg 8 9) out.
Proof. exact RouteMain.route_in_range_refuted. Qed.
Print Assumptions route_in_range_refuted.

Theorem route_swapalpha_arg_refuted :
  exists N g out out',
    wf_handled g = true /\ in_rangeb N g = true /\ garg g = Some 4 /\
    route orig Linear N [g] = Some out /\ adjacent_gates orig [g] = Some out' /\
    out = out' /\
    track out = Some (SWg "SWAPalpha" None 0 3) /\ g = SWg "SWAPalpha" (Some 4) 0 3.
Proof. exact RouteMain.route_swapalpha_arg_refuted. Qed.
Print Assumptions route_swapalpha_arg_refuted.

(* fixes/C07-alias-names: the routers also recognise the other library names of two gates they route; `is_swapk`
   (the guard of all routing theorems) now covers them, the old list did not *)
Theorem route_alias_names :
  existsb (String.eqb "SWAPALPHA") swap_gates_old = false /\ existsb (String.eqb "iSWAP") swap_gates_old = false /\
  is_swapk "SWAPALPHA" = true /\ is_swapk "iSWAP" = true /\
  route fixed Linear 4 [SWg "SWAPALPHA" (Some 4) 0 3] =
    Some [SWAPg 0 1; SWAPg 2 3; SWg "SWAPALPHA" (Some 4) 1 2; SWAPg 2 3; SWAPg 0 1] /\
  adjacent_gates fixed [SWg "iSWAP" None 3 1] = Some [SWAPg 1 2; SWg "iSWAP" None 2 3; SWAPg 1 2] /\
  route fixed Circular 5 [SWg "iSWAP" None 4 0] = Some [SWg "iSWAP" None 4 0].
Proof. exact RouteMain.route_alias_names. Qed.
Print Assumptions route_alias_names.

(* ---- non-vacuity: concrete inputs inhabiting the hypotheses, hitting every branch ----------- *)
Example ex_backward_odd :   (* ring, backward path with an odd number of hops, N = 7 *)
  wf_handled (Cg "CNOT" 0 4) = true /\ in_rangeb 7 (Cg "CNOT" 0 4) = true /\
  route fixed Circular 7 [Cg "CNOT" 0 4] =
    Some [SWAPg 4 5; SWAPg 6 0; Cg "CNOT" 6 5; SWAPg 6 0; SWAPg 4 5].
Proof. repeat split. Qed.

Example ex_backward_even_wrap :   (* ring, N = 9: every index wrapped *)
  wf_handled (Cg "CNOT" 0 5) = true /\ in_rangeb 9 (Cg "CNOT" 0 5) = true /\
  route fixed Circular 9 [Cg "CNOT" 0 5] =
    Some [SWAPg 5 6; SWAPg 8 0; SWAPg 6 7; Cg "CNOT" 8 7; SWAPg 6 7; SWAPg 8 0; SWAPg 5 6].
Proof. repeat split. Qed.

Example ex_forward_even_swapkind :   (* open chain, even distance, reversed targets, arg kept *)
  wf_handled (SWg "SWAPalpha" (Some 3) 4 0) = true /\ in_rangeb 5 (SWg "SWAPalpha" (Some 3) 4 0) = true /\
  route fixed Linear 5 [SWg "SWAPalpha" (Some 3) 4 0] =
    Some [SWAPg 0 1; SWAPg 3 4; SWAPg 1 2; SWg "SWAPalpha" (Some 3) 2 3; SWAPg 1 2; SWAPg 3 4; SWAPg 0 1] /\
  adjacent_gates fixed [SWg "SWAPalpha" (Some 3) 4 0] = route fixed Linear 5 [SWg "SWAPalpha" (Some 3) 4 0].
Proof. repeat split. Qed.

Example ex_ring_edge :   (* CNOT across the closing edge of the ring is left alone; ISWAP re-emitted *)
  route fixed Circular 6 [Cg "CNOT" 5 0; SWg "ISWAP" None 0 5] = Some [Cg "CNOT" 5 0; SWg "ISWAP" None 5 0].
Proof. reflexivity. Qed.

Example ex_many :   (* a mixed circuit satisfies the hypothesis of route_many *)
  Forall (gate_ok 5) [mkGate "RX" [3] [] (Some 2); Cg "CSIGN" 4 1; mkGate "TOFFOLI" [4] [0; 2] None;
                      SWg "BERKELEY" None 0 2].
Proof.
  repeat constructor; try (left; reflexivity); right; split; reflexivity.
Qed.

Example ex_ops_many :   (* gates and a measurement satisfy the hypothesis of route_ops_many *)
  Forall (op_ok 4) [OG (mkGate "SNOT" [0] [] None); OG (Cg "CNOT" 0 3); OM "M0" [3] (Some 0);
                    OG (mkGate "X" [1] [] None)] /\
  adjacent_gates fixed [mkGate "SNOT" [0] [] None; Cg "CNOT" 0 2] =
    Some [mkGate "SNOT" [0] [] None; SWAPg 0 1; Cg "CNOT" 1 2; SWAPg 0 1].
Proof.
  split; [|reflexivity].
  repeat constructor; try (left; reflexivity); right; split; reflexivity.
Qed.

Example ex_tok_distinguishes :   (* the token semantics is not trivial: it separates CNOT(0,4) from CNOT(4,0) *)
  tact (Cg "CNOT" 0 4) (0, 4, 0) = (0, 4, 1) /\ tact (Cg "CNOT" 4 0) (0, 4, 0) = (0, 4, 0) /\
  tact (SWAPg 0 1) (0, 4, 0) = (1, 4, 0).
Proof. repeat split. Qed.

Example ex_fixed_on_witnesses :
  (exists out, route fixed Circular 7 [Cg "CNOT" 0 4] = Some out /\ track out = Some (Cg "CNOT" 0 4)) /\
  (exists out, route fixed Circular 9 [Cg "CNOT" 0 5] = Some out /\ forallb (in_rangeb 9) out = true /\
               forallb (adj2b Circular 9) out = true /\ track out = Some (Cg "CNOT" 0 5)) /\
  (exists out, route fixed Linear 4 [SWg "SWAPalpha" (Some 4) 0 3] = Some out /\
               track out = Some (SWg "SWAPalpha" (Some 4) 0 3)).
Proof. exact RouteMain.fixed_on_witnesses. Qed.

(* ---- the laws HOLD for the library's real gate matrices (Gen.Gates, regenerated from operations/gates.py and
        gateclass.py on every run), embedded by Found.Base.app, in every phase ring R and for all parameter values
        (env maps an arg_value token to arbitrary parameter atoms): so the routing theorems are statements about
        actual unitaries acting on every register ---- *)
From QV Require Import Found.Circ Proofs.RouteReal.

Theorem real_gate_laws : forall (R : PhaseRing) (env : option Z -> atoms R), sem_laws (state R) (act_real R env).
Proof. exact real_laws. Qed.
Print Assumptions real_gate_laws.

Theorem route_one_unitary : forall (R : PhaseRing) (env : option Z -> atoms R) tp N g,
  wf_handled g = true -> in_rangeb N g = true ->
  exists out, route fixed tp N [g] = Some out /\
              (forall st, run (state R) (act_real R env) out st = act_real R env g st) /\
              forallb (adj2b tp N) out = true /\ forallb (in_rangeb N) out = true.
Proof. exact route_one_real. Qed.
Print Assumptions route_one_unitary.

Theorem route_many_unitary : forall (R : PhaseRing) (env : option Z -> atoms R) tp N gs,
  Forall (gate_ok N) gs ->
  exists outs, route fixed tp N gs = Some (List.concat outs) /\
               forall st, run (state R) (act_real R env) (List.concat outs) st = run (state R) (act_real R env) gs st.
Proof.
  intros R env tp N gs H.
  destruct (RouteMain.route_many (state R) (act_real R env) (real_laws R env) tp N gs H) as [outs [E [_ S]]].
  exists outs. split; assumption.
Qed.
Print Assumptions route_many_unitary.

Theorem adjacent_gates_many_unitary : forall (R : PhaseRing) (env : option Z -> atoms R) N gs,
  Forall (fun g => wf_handled g = true /\ in_rangeb N g = true) gs ->
  exists outs, adjacent_gates fixed gs = Some (List.concat outs) /\
               forall st, run (state R) (act_real R env) (List.concat outs) st = run (state R) (act_real R env) gs st.
Proof.
  intros R env N gs H.
  destruct (RouteMain.adjacent_gates_many (state R) (act_real R env) (real_laws R env) N gs H) as [outs [E [_ S]]].
  exists outs. split; assumption.
Qed.
Print Assumptions adjacent_gates_many_unitary.

Theorem adjacent_gates_mixed_unitary : forall (R : PhaseRing) (env : option Z -> atoms R) N gs,
  Forall (gate_ok N) gs ->
  exists outs, adjacent_gates fixed gs = Some (List.concat outs) /\
               forall st, run (state R) (act_real R env) (List.concat outs) st = run (state R) (act_real R env) gs st.
Proof.
  intros R env N gs H.
  destruct (RouteMain.adjacent_gates_mixed (state R) (act_real R env) (real_laws R env) N gs H) as [outs [E [_ S]]].
  exists outs. split; assumption.
Qed.
Print Assumptions adjacent_gates_mixed_unitary.
