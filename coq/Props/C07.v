(* C07 - Nearest-neighbour routing preserves the unitary and yields adjacent gates only.

   Model: Model/Route.v (`route` = to_chain_structure, `adjacent_gates`), cfg `fixed` = the code with
   fixes/C07-circular-backward-control, C07-circular-index-mod and C07-swapalpha-arg applied,
   cfg `orig` = the unchanged tree.  No bound on the register size N, on the qubit pair or on the
   circuit length in any theorem.

   Gate semantics is abstract (any S, act obeying `sem_laws`: conjugating a CNOT/CSIGN/swap-type gate
   by SWAP(p,q) relabels its qubits by the transposition (p q); swap-type gates are symmetric).
   `tok_laws` exhibits a non-trivial instance.  `run S act l` applies the gates of l in order. *)
From Coq Require Import ZArith List String Bool.
Import ListNotations.
From QV Require Import Model.Route Proofs.RouteLoop Proofs.RouteSem Proofs.RouteMain.
Local Open Scope Z_scope.

(* ---- to_chain_structure, one handled gate on any ordered pair ---------------------------- *)

(* linear chain: routed (never an error / fuel exhaustion), and the routed list means the gate *)
Theorem route_linear_sem : forall S act, sem_laws S act -> forall N g,
  wf_handled g = true -> in_rangeb N g = true ->
  exists out, route fixed Linear N [g] = Some out /\ forall st, run S act out st = act g st.
Proof. exact RouteMain.route_linear_sem. Qed.
Print Assumptions route_linear_sem.

(* ring, including the backward path and the wrap-around edge (fixed code) *)
Theorem route_circular_sem : forall S act, sem_laws S act -> forall N g,
  wf_handled g = true -> in_rangeb N g = true ->
  exists out, route fixed Circular N [g] = Some out /\ forall st, run S act out st = act g st.
Proof. exact RouteMain.route_circular_sem. Qed.
Print Assumptions route_circular_sem.

(* every emitted gate is a two-qubit gate on neighbours of the topology (ring: (0, N-1) too),
   all indices inside the register; both topologies *)
Theorem route_adjacent_in_range : forall tp N g,
  wf_handled g = true -> in_rangeb N g = true ->
  exists out, route fixed tp N [g] = Some out /\
              forallb (adj2b tp N) out = true /\ forallb (in_rangeb N) out = true.
Proof. exact RouteMain.route_adjacent_in_range. Qed.
Print Assumptions route_adjacent_in_range.

(* the three clauses together *)
Theorem route_one : forall S act, sem_laws S act -> forall tp N g,
  wf_handled g = true -> in_rangeb N g = true ->
  exists out, route fixed tp N [g] = Some out /\
              (forall st, run S act out st = act g st) /\
              forallb (adj2b tp N) out = true /\ forallb (in_rangeb N) out = true.
Proof. exact RouteMain.route_one. Qed.
Print Assumptions route_one.

(* ---- gates the router does not handle ------------------------------------------------------ *)
Theorem route_passthrough : forall c tp N g r,
  handledb g = false -> route c tp N (g :: r) = option_map (cons g) (route c tp N r).
Proof. exact RouteMain.route_passthrough. Qed.
Print Assumptions route_passthrough.

Theorem route_passthrough_all : forall c tp N gs,
  forallb (fun g => negb (handledb g)) gs = true -> route c tp N gs = Some gs.
Proof. exact RouteMain.route_passthrough_all. Qed.
Print Assumptions route_passthrough_all.

(* ---- circuits of many gates: the output is the concatenation, gate by gate, of either the
        unchanged gate (unhandled) or a routed piece with the three properties ------------------ *)
Theorem route_many : forall S act, sem_laws S act -> forall tp N gs,
  Forall (gate_ok N) gs ->
  exists outs, route fixed tp N gs = Some (List.concat outs) /\
               Forall2 (piece_ok S act tp N) gs outs /\
               forall st, run S act (List.concat outs) st = run S act gs st.
Proof. exact RouteMain.route_many. Qed.
Print Assumptions route_many.

(* ---- QubitCircuit.adjacent_gates (open chain) ----------------------------------------------- *)
Theorem adjacent_gates_one : forall S act, sem_laws S act -> forall N g,
  wf_handled g = true -> in_rangeb N g = true ->
  exists out, adjacent_gates fixed [g] = Some out /\
              (forall st, run S act out st = act g st) /\
              forallb (adj2b Linear N) out = true /\ forallb (in_rangeb N) out = true.
Proof. exact RouteMain.adjacent_gates_one. Qed.
Print Assumptions adjacent_gates_one.

Theorem adjacent_gates_many : forall S act, sem_laws S act -> forall N gs,
  Forall (fun g => wf_handled g = true /\ in_rangeb N g = true) gs ->
  exists outs, adjacent_gates fixed gs = Some (List.concat outs) /\
               Forall2 (fun g o => routed_ok S act Linear N g o) gs outs /\
               forall st, run S act (List.concat outs) st = run S act gs st.
Proof. exact RouteMain.adjacent_gates_many. Qed.
Print Assumptions adjacent_gates_many.

(* full statement "unhandled gates are passed through" is FALSE for adjacent_gates: it refuses
   (NotImplementedError) every circuit containing such a gate - known finding, guard = all gates handled *)
Theorem adjacent_gates_unhandled_rejected : forall c gs g,
  In g gs -> handledb g = false -> adjacent_gates c gs = None.
Proof. exact RouteMain.adjacent_gates_unhandled_rejected. Qed.
Print Assumptions adjacent_gates_unhandled_rejected.

Theorem adjacent_gates_passthrough_refuted :
  exists c gs, Forall (fun g => in_rangeb 2 g = true) gs /\
               forallb (fun g => negb (handledb g)) gs = true /\ adjacent_gates c gs = None.
Proof. exact RouteMain.adjacent_gates_passthrough_refuted. Qed.
Print Assumptions adjacent_gates_passthrough_refuted.

(* ---- the executable permutation-tracking checker is sound ---------------------------------- *)
Theorem track_sound : forall S act, sem_laws S act -> forall l g,
  track l = Some g -> wf_handled g = true /\ forall st, run S act l st = act g st.
Proof. exact RouteMain.track_is_sound. Qed.
Print Assumptions track_sound.

(* ---- the laws are satisfiable by a non-trivial semantics ----------------------------------- *)
Theorem tok_laws : sem_laws tok tact.
Proof. exact RouteMain.tok_laws. Qed.
Print Assumptions tok_laws.

(* ---- the unchanged tree violates the property (cfg orig) ------------------------------------ *)
Theorem route_circular_sem_refuted :
  exists N g out,
    wf_handled g = true /\ in_rangeb N g = true /\
    route orig Circular N [g] = Some out /\
    track out = Some (Cg "CNOT" 4 0) /\ g = Cg "CNOT" 0 4 /\
    exists st, run tok tact out st <> tact g st.
Proof. exact RouteMain.route_circular_sem_refuted. Qed.
Print Assumptions route_circular_sem_refuted.

Theorem route_in_range_refuted :
  exists N g out,
    wf_handled g = true /\ in_rangeb N g = true /\
    route orig Circular N [g] = Some out /\
    forallb (in_rangeb N) out = false /\ In (SWAPg 8 9) out.
Proof. exact RouteMain.route_in_range_refuted. Qed.
Print Assumptions route_in_range_refuted.

Theorem route_swapalpha_arg_refuted :
  exists N g out out',
    wf_handled g = true /\ in_rangeb N g = true /\ garg g = Some 4 /\
    route orig Linear N [g] = Some out /\ adjacent_gates orig [g] = Some out' /\
    out = out' /\
    track out = Some (SWg "SWAPalpha" None 0 3) /\ g = SWg "SWAPalpha" (Some 4) 0 3.
Proof. exact RouteMain.route_swapalpha_arg_refuted. Qed.
Print Assumptions route_swapalpha_arg_refuted.

(* ---- non-vacuity: concrete inputs inhabiting the hypotheses, hitting every branch ----------- *)
Example ex_backward_odd :   (* ring, backward path with an odd number of hops, N = 7 *)
  wf_handled (Cg "CNOT" 0 4) = true /\ in_rangeb 7 (Cg "CNOT" 0 4) = true /\
  route fixed Circular 7 [Cg "CNOT" 0 4] =
    Some [SWAPg 4 5; SWAPg 6 0; Cg "CNOT" 6 5; SWAPg 6 0; SWAPg 4 5].
Proof. repeat split. Qed.

Example ex_backward_even_wrap :   (* ring, N = 9: every index wrapped *)
  wf_handled (Cg "CNOT" 0 5) = true /\ in_rangeb 9 (Cg "CNOT" 0 5) = true /\
  route fixed Circular 9 [Cg "CNOT" 0 5] =
    Some [SWAPg 5 6; SWAPg 8 0; SWAPg 6 7; Cg "CNOT" 8 7; SWAPg 6 7; SWAPg 8 0; SWAPg 5 6].
Proof. repeat split. Qed.

Example ex_forward_even_swapkind :   (* open chain, even distance, reversed targets, arg kept *)
  wf_handled (SWg "SWAPalpha" (Some 3) 4 0) = true /\ in_rangeb 5 (SWg "SWAPalpha" (Some 3) 4 0) = true /\
  route fixed Linear 5 [SWg "SWAPalpha" (Some 3) 4 0] =
    Some [SWAPg 0 1; SWAPg 3 4; SWAPg 1 2; SWg "SWAPalpha" (Some 3) 2 3; SWAPg 1 2; SWAPg 3 4; SWAPg 0 1] /\
  adjacent_gates fixed [SWg "SWAPalpha" (Some 3) 4 0] = route fixed Linear 5 [SWg "SWAPalpha" (Some 3) 4 0].
Proof. repeat split. Qed.

Example ex_ring_edge :   (* CNOT across the closing edge of the ring is left alone; ISWAP re-emitted *)
  route fixed Circular 6 [Cg "CNOT" 5 0; SWg "ISWAP" None 0 5] = Some [Cg "CNOT" 5 0; SWg "ISWAP" None 5 0].
Proof. reflexivity. Qed.

Example ex_many :   (* a mixed circuit satisfies the hypothesis of route_many *)
  Forall (gate_ok 5) [mkGate "RX" [3] [] (Some 2); Cg "CSIGN" 4 1; mkGate "TOFFOLI" [4] [0; 2] None;
                      SWg "BERKELEY" None 0 2].
Proof.
  repeat constructor; try (left; reflexivity); right; split; reflexivity.
Qed.

Example ex_tok_distinguishes :   (* the token semantics is not trivial: it separates CNOT(0,4) from CNOT(4,0) *)
  tact (Cg "CNOT" 0 4) (0, 4, 0) = (0, 4, 1) /\ tact (Cg "CNOT" 4 0) (0, 4, 0) = (0, 4, 0) /\
  tact (SWAPg 0 1) (0, 4, 0) = (1, 4, 0).
Proof. repeat split. Qed.

Example ex_fixed_on_witnesses :
  (exists out, route fixed Circular 7 [Cg "CNOT" 0 4] = Some out /\ track out = Some (Cg "CNOT" 0 4)) /\
  (exists out, route fixed Circular 9 [Cg "CNOT" 0 5] = Some out /\ forallb (in_rangeb 9) out = true /\
               forallb (adj2b Circular 9) out = true /\ track out = Some (Cg "CNOT" 0 5)) /\
  (exists out, route fixed Linear 4 [SWg "SWAPalpha" (Some 4) 0 3] = Some out /\
               track out = Some (SWg "SWAPalpha" (Some 4) 0 3)).
Proof. exact RouteMain.fixed_on_witnesses. Qed.

(* ---- the laws HOLD for the library's real gate matrices (Gen.Gates, regenerated from operations/gates.py and
        gateclass.py on every run), embedded by Found.Base.app, in every phase ring R and for all parameter values
        (env maps an arg_value token to arbitrary parameter atoms): so the routing theorems are statements about
        actual unitaries acting on every register ---- *)
From QV Require Import Found.Circ Proofs.RouteReal.

Theorem real_gate_laws : forall (R : PhaseRing) (env : option Z -> atoms R), sem_laws (state R) (act_real R env).
Proof. exact real_laws. Qed.
Print Assumptions real_gate_laws.

Theorem route_one_unitary : forall (R : PhaseRing) (env : option Z -> atoms R) tp N g,
  wf_handled g = true -> in_rangeb N g = true ->
  exists out, route fixed tp N [g] = Some out /\
              (forall st, run (state R) (act_real R env) out st = act_real R env g st) /\
              forallb (adj2b tp N) out = true /\ forallb (in_rangeb N) out = true.
Proof. exact route_one_real. Qed.
Print Assumptions route_one_unitary.

Theorem route_many_unitary : forall (R : PhaseRing) (env : option Z -> atoms R) tp N gs,
  Forall (gate_ok N) gs ->
  exists outs, route fixed tp N gs = Some (List.concat outs) /\
               forall st, run (state R) (act_real R env) (List.concat outs) st = run (state R) (act_real R env) gs st.
Proof.
  intros R env tp N gs H.
  destruct (RouteMain.route_many (state R) (act_real R env) (real_laws R env) tp N gs H) as [outs [E [_ S]]].
  exists outs. split; assumption.
Qed.
Print Assumptions route_many_unitary.

Theorem adjacent_gates_many_unitary : forall (R : PhaseRing) (env : option Z -> atoms R) N gs,
  Forall (fun g => wf_handled g = true /\ in_rangeb N g = true) gs ->
  exists outs, adjacent_gates fixed gs = Some (List.concat outs) /\
               forall st, run (state R) (act_real R env) (List.concat outs) st = run (state R) (act_real R env) gs st.
Proof.
  intros R env N gs H.
  destruct (RouteMain.adjacent_gates_many (state R) (act_real R env) (real_laws R env) N gs H) as [outs [E [_ S]]].
  exists outs. split; assumption.
Qed.
Print Assumptions adjacent_gates_many_unitary.
