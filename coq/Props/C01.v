From Coq Require Import List Arith. Import ListNotations.
From QV Require Import Model.GSP Model.Einsum Model.GateSim.
Example c01_smoke : gsp_top ord_sorted [[0];[1];[2];[0;1;3]] = Some ([(2, [2]); (0, [0]); (1, [1]); (3, [0; 1; 3])], [0; 1; 2; 3]).
Proof. vm_compute. reflexivity. Qed.
Print Assumptions c01_smoke.
