(* C01 - Gate-level evolution equals the ordered product of the gates' matrices.
   Specification: [sem] / [fsem] of Found/Base.v (apply, in circuit order, each gate's matrix on the qubits it names).
   Everything is for an arbitrary commutative ring O, arbitrary register size, arity, placement and gate sequence. *)
From Coq Require Import List Arith Bool Lia Permutation Sorted ZArith.
Import ListNotations.
From QV Require Import Found.Base Found.Lemmas Model.Einsum Model.GSP Model.GateSim.
From QV Require Import Proofs.GSPLists Proofs.GSPSem Proofs.GSPTop Proofs.EinsumProofs Proofs.GateSimProofs Proofs.C01Top.
From QV Require Import Proofs.GSPAny Proofs.GSPTotal Proofs.GSPTotalTop.

Section C01.
Variable O : Ops.
Hypothesis Kring : ring_theory (k0 O) (k1 O) (kadd O) (kmul O) (ksub O) (kopp O) eq.

(* ---- (1) the einsum call of _evolve_state_einsum ---- *)
(* the output label list the Python loop builds: state labels with targets[j] |-> num_site + j *)
Theorem einsum_labels_correct n ts : NoDup ts -> Forall (fun t => t < n) ts ->
  lblOut n ts = Some (map (outf n ts) (seq 0 n)).
Proof. exact (lblOut_spec n ts). Qed.

(* einsum over these labels = application of the gate matrix on the target qubits; generic axis values V (a qubit
   axis carries vb false / vb true; other axes - the ancillary one - carry anything) *)
Theorem einsum_step_correct (V : Type) (dom : nat -> list V) (dflt : V) (vb : bool -> V) (unb : V -> bool) :
  (forall b, unb (vb b) = b) -> forall n ts (M : mat O) (S : list V -> O) (o : list V),
  NoDup ts -> Forall (fun t => t < n) ts -> length o = n ->
  (forall t, In t ts -> dom t = [vb false; vb true]) ->
  einsum2 dom dflt (gtensor O unb M (length ts)) (lblG n ts) S (lblS n) (map (outf n ts) (seq 0 n)) o =
  ksum (map (fun y => kmul O (M (map (fun t => unb (nth t o dflt)) ts) y) (S (vupd V dflt n o ts (map vb y))))
            (all_bits (length ts))).
Proof. intros H. exact (einsum_core O V dom dflt vb unb H). Qed.

(* one simulator step on a ket = fapp (GLOBALPHASE = scalar) *)
Theorem ket_step_is_app nq g (v : fvec O) : wf_gate O nq g ->
  exists w, ket_step O nq g v = Some w /\ forall r, length r = nq -> w r = gact O nq g v r.
Proof. exact (ket_step_correct O nq g v). Qed.

(* ancillary-axis variant (an operator is evolved, as compute_unitary does): every column evolves independently *)
Theorem oper_step_is_app (A : Type) (cols : list A) nq g (X : otensor O A) : wf_gate O nq g ->
  exists W, oper_step O A cols nq g X = Some W /\
    forall c r, length r = nq -> col O A W c r = gact O nq g (col O A X c) r.
Proof. exact (oper_step_correct O A cols nq g X). Qed.

(* ---- QubitCircuit.run / CircuitSimulator.run on a ket: the ordered product, in any surrounding register ---- *)
Theorem run_ket_is_sem nq c (psi : state O) (x : asg) : Forall (wf_gate O nq) c ->
  exists w, ket_run O nq c (fun r => psi (overlay nq r x)) = Some w /\
    forall r, length r = nq -> w r = sem (circ_of c) psi (overlay nq r x).
Proof. exact (run_ket_correct O Kring nq c psi x). Qed.

Theorem run_ket_is_fsem nq c : Forall (wf_gate O nq) c -> forall v : fvec O,
  exists w, ket_run O nq c v = Some w /\ forall r, length r = nq -> w r = fsem nq (circ_of c) v r.
Proof. exact (ket_run_correct O Kring nq c). Qed.

(* step-by-step simulation = run *)
Theorem run_step_agree nq c1 c2 (v : fvec O) :
  ket_run O nq (c1 ++ c2) v = match ket_run O nq c1 v with Some w => ket_run O nq c2 w | None => None end.
Proof. exact (ket_run_app O nq c1 c2 v). Qed.

(* compute_unitary: column a of the result = the circuit applied to basis vector a *)
Theorem compute_unitary_is_sem nq c : Forall (wf_gate O nq) c ->
  exists W, oper_run O (list bool) (all_bits nq) nq c (id_tensor O) = Some W /\
    forall a r, length r = nq -> col O (list bool) W a r = fsem nq (circ_of c) (delta a) r.
Proof. exact (compute_unitary_correct O Kring nq c). Qed.

(* ---- propagators ---- *)
(* product of propagators(expand=True) (left_to_right) acts as the circuit *)
Theorem propagators_expand_is_sem N c (v : fvec O) r : length r = N ->
  dmv N (gsp_expanded N (map (prop_expand N) c)) v r = fsem N (circ_of c) v r.
Proof. exact (propagators_expand_correct O Kring N c v r). Qed.

(* propagators(expand=False): each returned matrix on its index list acts as the gate (GLOBALPHASE: full-size scalar
   matrix on all N qubits) *)
Theorem propagators_compact_is_gate N g (v : fvec O) r : length r = N ->
  fapp N (fst (prop_compact N g)) (snd (prop_compact N g)) v r = gact O N g v r.
Proof. exact (propagators_compact_correct O Kring N g v r). Qed.

(* ---- density matrices (cj = any additive, multiplicative map: complex conjugation) ---- *)
Section Conj.
Variable cj : O -> O.
Hypothesis cj_add : forall a b, cj (kadd O a b) = kadd O (cj a) (cj b).
Hypothesis cj_mul : forall a b, cj (kmul O a b) = kmul O (cj a) (cj b).
Hypothesis cj_0 : cj (k0 O) = k0 O.

(* rho = |psi><psi|  ->  density-matrix run = |c psi><c psi| *)
Theorem ket_dm_agree N c rho v : pure_on O cj N rho v -> pure_on O cj N (dm_run cj N c rho) (fsem N (circ_of c) v).
Proof. exact (GateSimProofs.ket_dm_agree O Kring cj cj_add cj_mul cj_0 N c rho v). Qed.

(* any rho: the run conjugates with the product of the expanded propagators *)
Theorem dm_run_is_conjugation N c (acc rho : dmat O) :
  dm_run cj N c (conjby O cj N acc rho) =
  conjby O cj N (fold_left (fun a U => dmm N U a) (map (prop_expand N) c) acc) rho.
Proof. exact (dm_run_conj O Kring cj cj_add cj_mul cj_0 N c acc rho). Qed.
End Conj.

(* ---- compact product (gate_sequence_product(..., expand=True)) ---- *)
Variable G : nat -> mat O.
Theorem gsp_correct (l : list (list nat)) c inds : gsp_top ord_sorted l = Some (c, inds) ->
  forall psi : state O, sem (den O G (fplace inds c)) psi = sem (den O G (number l)) psi.
Proof. exact (GSPTop.gsp_correct O Kring G l c inds). Qed.

Theorem gsp_correct_any_ascending_order ord (l : list (list nat)) c inds : ord_asc ord -> gsp_top ord l = Some (c, inds) ->
  forall psi : state O, sem (den O G (fplace inds c)) psi = sem (den O G (number l)) psi.
Proof. exact (gsp_correct_asc O Kring G ord l c inds). Qed.

(* totality + correctness: for EVERY non-empty list of duplicate-free index lists (an empty index list = a scalar factor,
   e.g. the propagator of a GLOBALPHASE gate) the repaired compact product returns a value and it is the ordered product *)
Theorem gsp_total_and_correct (l : list (list nat)) : l <> [] -> Forall (@NoDup nat) l ->
  exists c inds, gsp_top ord_sorted l = Some (c, inds) /\
    forall psi : state O, sem (den O G (fplace inds c)) psi = sem (den O G (number l)) psi.
Proof. exact (gsp_total_correct O Kring G l). Qed.

(* ---- user gates ---- *)
Variable Arg : Type.
Variable user : list (String.string * uentry O Arg).
Variable lib : pgate Arg -> option (mat O).
Theorem user_gate_with_controls_refused g e cs :
  assoc_s (pg_name Arg g) user = Some e -> pg_controls Arg g = Some cs -> get_gate_unitary O Arg user lib g = None.
Proof. exact (user_gate_controls_refused O Arg user lib g e cs). Qed.

Theorem user_gate_lookup_forms g e : assoc_s (pg_name Arg g) user = Some e -> pg_controls Arg g = None ->
  get_gate_unitary O Arg user lib g =
  match e with UFun0 M => Some M | UFun1 f => Some (f (pg_arg Arg g)) | UOper M => Some M | UFunMany | UOther => None end.
Proof. exact (user_gate_lookup O Arg user lib g e). Qed.
End C01.

Print Assumptions einsum_labels_correct.
Print Assumptions einsum_step_correct.
Print Assumptions ket_step_is_app.
Print Assumptions oper_step_is_app.
Print Assumptions run_ket_is_sem.
Print Assumptions run_ket_is_fsem.
Print Assumptions run_step_agree.
Print Assumptions compute_unitary_is_sem.
Print Assumptions propagators_expand_is_sem.
Print Assumptions propagators_compact_is_gate.
Print Assumptions ket_dm_agree.
Print Assumptions dm_run_is_conjugation.
Print Assumptions gsp_correct.
Print Assumptions gsp_correct_any_ascending_order.
Print Assumptions gsp_total_and_correct.
Print Assumptions user_gate_with_controls_refused.
Print Assumptions user_gate_lookup_forms.

(* the model of gate_sequence_product(expand=True) never refuses a well-formed input (any ascending oracle): every
   expand_operator check, dict lookup and tensor call succeeds and the recursion (on strictly shorter suffixes) ends *)
Theorem gsp_total ord (l : list (list nat)) : ord_asc ord -> l <> [] -> Forall (@NoDup nat) l ->
  exists r, gsp_top ord l = Some r.
Proof. exact (gsp_top_total ord l). Qed.
Print Assumptions gsp_total.

(* the core (no empty index lists): returns the sorted list of distinct qubits *)
Theorem gsp_core_total ord : ord_asc ord -> forall fuel gs, gs <> [] -> gs_ok gs -> length gs <= fuel ->
  exists r, gsp ord fuel gs = Some r /\ snd r = isort (dedup (flat_map snd gs)).
Proof. exact (GSPTotal.gsp_total ord). Qed.
Print Assumptions gsp_core_total.

(* the unchanged code is wrong for an admissible (permutation) set order *)
Theorem gsp_refuted_unsorted :
  exists ord, (forall a b, Permutation (ord a b) (dedup (a ++ b))) /\
  exists l c inds, gsp_top ord l = Some (c, inds) /\
  exists (G : nat -> mat GI) psi x, sem (den GI G (fplace inds c)) psi x <> sem (den GI G (number l)) psi x.
Proof. exact GSPTop.gsp_refuted_unsorted. Qed.
Print Assumptions gsp_refuted_unsorted.

(* ---- non-vacuity: the hypotheses are satisfiable by concrete non-trivial inputs ---- *)
Example ring_inhabited : ring_theory (k0 GI) (k1 GI) (kadd GI) (kmul GI) (ksub GI) (kopp GI) eq.
Proof. exact GI_ring. Qed.
Print Assumptions ring_inhabited.

Example conj_inhabited : (forall a b, gi_conj (gi_add a b) = gi_add (gi_conj a) (gi_conj b)) /\
  (forall a b, gi_conj (gi_mul a b) = gi_mul (gi_conj a) (gi_conj b)) /\ gi_conj (0, 0)%Z = (0, 0)%Z.
Proof. exact (conj gi_conj_add (conj gi_conj_mul gi_conj_0)). Qed.
Print Assumptions conj_inhabited.

(* a well-formed 3-qubit circuit: a two-qubit gate on (2, 0), a global phase, a one-qubit gate on 1 *)
Example wf_inhabited : Forall (wf_gate GI 3) [@GMat GI mid [2; 0]; @GPhase GI (0, 1)%Z; @GMat GI Xm [1]].
Proof.
  repeat constructor; simpl; try lia; intro H; repeat (destruct H as [H|H]; try discriminate); try contradiction.
Qed.
Print Assumptions wf_inhabited.

Example ket_run_inhabited : exists w, ket_run GI 2 [@GMat GI Xm [1]; @GPhase GI (0, 1)%Z] (@delta GI [false; false]) = Some w /\
  map w (all_bits 2) = [(0, 0)%Z; (0, 1)%Z; (0, 0)%Z; (0, 0)%Z] :> list gi.
Proof. eexists. split; [reflexivity| vm_compute; reflexivity]. Qed.
Print Assumptions ket_run_inhabited.

Example gsp_inhabited : gsp_top ord_sorted [[0]; [1]; [2]; [0; 1; 3]] =
  Some ([(2, [2]); (0, [0]); (1, [1]); (3, [0; 1; 3])], [0; 1; 2; 3]).
Proof. exact gsp_example_1. Qed.
Print Assumptions gsp_inhabited.

Example gsp_recursive_branch_inhabited : gsp_top ord_sorted [[5]; [3]; [5; 3]; [3]; [5]] =
  Some ([(0, [1]); (1, [0]); (2, [1; 0]); (3, [0]); (4, [1])], [3; 5]).
Proof. exact gsp_example_2. Qed.
Print Assumptions gsp_recursive_branch_inhabited.

Example gsp_ten_qubits_inhabited : exists c, gsp_top ord_sorted [[0]; [1]; [2]; [3]; [4]; [5]; [6]; [7]; [8]; [9]; [8; 1]] =
  Some (c, [0; 1; 2; 3; 4; 5; 6; 7; 8; 9]).
Proof. exact gsp_example_big. Qed.
Print Assumptions gsp_ten_qubits_inhabited.

Example gsp_with_phases_inhabited : gsp_top ord_sorted [[]; [4]; []; [4; 2]; []] =
  Some ([(1, [1]); (3, [1; 0]); (0, []); (2, []); (4, [])], [2; 4]).
Proof. exact gsp_phase_example. Qed.
Print Assumptions gsp_with_phases_inhabited.

Example wellformed_inhabited : [[]; [4]; []; [4; 2]; []] <> [] /\ Forall (@NoDup nat) [[]; [4]; []; [4; 2]; []].
Proof. split; [discriminate|]. repeat constructor; simpl; intuition discriminate. Qed.
Print Assumptions wellformed_inhabited.

Example ord_sorted_is_ascending : ord_asc ord_sorted.
Proof. exact ord_sorted_asc. Qed.
Print Assumptions ord_sorted_is_ascending.

Example einsum_labels_inhabited : einsum_labels 4 [2; 0] = Some ([4; 5; 2; 0], [0; 1; 2; 3], [5; 1; 4; 3]).
Proof. vm_compute. reflexivity. Qed.
Print Assumptions einsum_labels_inhabited.
