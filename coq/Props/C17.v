(* C17 stub - replaced below *)
From QV Require Import Model.Qft Model.SingleQubit.
