(* C17 - Single-qubit decompositions and QFT circuits are exact.
   Decomposition half: Gen/SingleQubit.v (regenerated from decompose_single_qubit_gate.py on every run) gives the gate
   tuples and the angle arithmetic; cmath.phase / complex np.sqrt / np.arctan2 are universally quantified functions
   constrained by their defining equations; U ranges over ALL complex 2x2 matrices with U^dagger U = 1.
   "applying the returned gates in the returned order" = first element applied first ([circuit_product]).
   QFT half: Model/Qft.v; semantics [qden] = the generated library matrix (Gen/Gates.v) of each gate at its real angle
   n*pi/2^d, composed by the shared circuit semantics [sem] (any register: qubits outside the gate are untouched). *)
From Coq Require Import Reals List String.
From Coquelicot Require Import Coquelicot.
From QV Require Import Found.Base Found.KS Found.KSProofs Found.Sym Found.SymProofs Found.CInst.
From QV Require Import Gen.Gates Gen.SingleQubit Model.SingleQubit Model.Qft.
From QV Require Import Proofs.C17Sem Proofs.QftStruct Proofs.QftSem Proofs.QftDft Proofs.QftGen Proofs.Euler Proofs.EulerWitness.
Import ListNotations.
Local Open Scope string_scope.
Local Open Scope list_scope.

(* ================= single-qubit decompositions ================= *)

(* Proofs/Euler.v:  phase_spec f := forall z, z = |z| * cis (f z);   sqrt_spec s := forall z, s z * s z = z;
   atan2_spec a := forall y x, 0 < x*x + y*y -> cos (a y x) = x / sqrt (x*x+y*y) /\ sin (a y x) = y / sqrt (x*x+y*y);
   exact_for method := forall cphase csqrt atan2 satisfying these, forall U with U^dagger U = 1,
     exists P, method_product method = Some P /\
       forall i j < 2, mden (angles cphase csqrt atan2 U) P i j = entry U i j.
   i.e. the ordered product of the returned gates at the angles the code extracts from U is U, global phase included *)
Theorem zyz_exact : exact_for "ZYZ".
Proof. exact zyz_exact_l. Qed.
Print Assumptions zyz_exact.

Theorem zxz_exact : exact_for "ZXZ".
Proof. exact zxz_exact_l. Qed.
Print Assumptions zxz_exact.

Theorem zyz_paulix_exact : exact_for "ZYZ_PauliX".
Proof. exact zyz_paulix_exact_l. Qed.
Print Assumptions zyz_paulix_exact.

(* the method dictionary contains exactly the three methods of the property *)
Theorem methods_are_the_three : map fst sq_methods = ["ZYZ"; "ZXZ"; "ZYZ_PauliX"].
Proof. exact methods_three. Qed.
Print Assumptions methods_are_the_three.

(* only the promised rotation axes / Pauli gate / global phase occur, all on qubit 0 *)
Theorem axes_as_promised : axes_ok "ZYZ" = true /\ axes_ok "ZXZ" = true /\ axes_ok "ZYZ_PauliX" = true.
Proof. exact axes_ok_all. Qed.
Print Assumptions axes_as_promised.

(* the symbolic core, for ALL real values of the four primitives: product of the tuple (angle arithmetic substituted)
   = the parametrised unitary [uprim] *)
Theorem decomposition_identity_all_angles : forall method P th, method_product method = Some P -> param_ok method = true ->
  forall i j, (i < 2)%nat -> (j < 2)%nat -> mden th (msubst sq_angles P) i j = mden th uprim i j.
Proof. exact param_sound. Qed.
Print Assumptions decomposition_identity_all_angles.

(* non-vacuity: functions satisfying the three specifications exist, and a non-diagonal unitary with det -1 *)
Example external_specs_satisfiable : exists cphase csqrt atan2, phase_spec cphase /\ sqrt_spec csqrt /\ atan2_spec atan2.
Proof. exact specs_inhabited. Qed.
Print Assumptions external_specs_satisfiable.
Example unitary_example : unitary2 (M2 (RtoC 0) Ci (Copp Ci) (RtoC 0)) /\ det2 (M2 (RtoC 0) Ci (Copp Ci) (RtoC 0)) = Copp (RtoC 1).
Proof. exact unitary_witness. Qed.
Example zyz_product_shape : exists m1 m2 m3 s, method_product "ZYZ" = Some (MScale s (MMul m3 (MMul m2 (MMul m1 mid2)))).
Proof. do 4 eexists. vm_compute. reflexivity. Qed.

(* ================= QFT ================= *)

(* the sequence exists exactly for N >= 1 (ValueError otherwise), for every option *)
Theorem qft_sequence_defined : forall N sw tc,
  ((1 <= N)%nat -> qft_gate_sequence N sw tc = Some (qft_body N sw tc)) /\ ((N < 1)%nat -> qft_gate_sequence N sw tc = None).
Proof. exact sequence_defined. Qed.
Print Assumptions qft_sequence_defined.

(* step list and circuit agree: ALL N, both swapping options (also in being rejected) *)
Theorem qft_steps_eq_sequence : forall N sw, qft_steps N sw = option_map (map step_of_gate) (qft_gate_sequence N sw false).
Proof. exact steps_eq_sequence. Qed.
Print Assumptions qft_steps_eq_sequence.

(* every gate names distinct qubits inside the register: ALL N, all options *)
Theorem qft_sequence_wf : forall N sw tc l, qft_gate_sequence N sw tc = Some l -> Forall (gate_wf N) l.
Proof. exact sequence_wf. Qed.
Print Assumptions qft_sequence_wf.

Theorem qft_sequence_length : forall N sw tc l, qft_gate_sequence N sw tc = Some l ->
  length l = ((if tc then 6 else 1) * tri N + N + (if sw then N / 2 else 0))%nat.
Proof. exact sequence_length. Qed.
Print Assumptions qft_sequence_length.

(* one controlled phase: the six gates _cphase_to_cnot emits act as CPHASE(phi) times the scalar e^{i phi/2};
   every angle n*pi/2^d, every pair of distinct qubits, every register *)
Theorem cphase_to_cnot_exact : forall (t c : nat) (phi : ang) l, c <> t -> cphase_to_cnot [t] [c] phi = Some l ->
  sem (map qden l) = sem [qden (QG "CPHASE" [t] [c] (Some phi)); phase_gate (cis (aval phi / 2))].
Proof. exact cphase_to_cnot_sem. Qed.
Print Assumptions cphase_to_cnot_exact.

(* ALL N, both swapping options: the CNOT-expanded circuit = the native circuit up to the global phase
   e^{i * exp_angle}, exp_angle = sum of phi/2 over the controlled phases *)
Theorem qft_to_cnot_upto_phase : forall N sw lt lf,
  qft_gate_sequence N sw true = Some lt -> qft_gate_sequence N sw false = Some lf ->
  forall psi, sem (map qden lt) psi = sscale (cis (exp_angle lf)) (sem (map qden lf) psi).
Proof. exact to_cnot_upto_phase. Qed.
Print Assumptions qft_to_cnot_upto_phase.

(* ALL N: with native controlled phases and the final swaps the circuit IS the DFT matrix
   dftC N r c = 2^(-N/2) e^{2 pi i (idx r)(idx c)/2^N} on qubits 0..N-1 (qubit 0 most significant), global phase included.
   General inductive proof (Proofs/QftGen.v). *)
Theorem qft_is_dft : forall N l, qft_gate_sequence N true false = Some l ->
  sem (map qden l) = sem [(dftC N, seq 0 N)].
Proof. exact qft_is_dft_all. Qed.
Print Assumptions qft_is_dft.

(* ALL N: the CNOT-expanded circuit with swaps is the DFT up to the global phase e^{i exp_angle} *)
Theorem qft_cnot_is_dft_upto_phase : forall N lt lf,
  qft_gate_sequence N true true = Some lt -> qft_gate_sequence N true false = Some lf ->
  forall psi, sem (map qden lt) psi = sscale (cis (exp_angle lf)) (sem [(dftC N, seq 0 N)] psi).
Proof. exact qft_cnot_is_dft_all. Qed.
Print Assumptions qft_cnot_is_dft_upto_phase.

(* ALL N, swapping = False: the DFT with the output register read in reversed qubit order *)
Theorem qft_noswap_is_bit_reversed_dft : forall N l, qft_gate_sequence N false false = Some l ->
  forall psi x, sem (map qden l) psi x = sem [(dftC N, seq 0 N)] psi (rev_full N x).
Proof. exact qft_noswap_is_reversed_dft. Qed.
Print Assumptions qft_noswap_is_bit_reversed_dft.

(* independent cross-check of the same statement for N <= 5 by symbolic computation of the full 2^N x 2^N table over the
   exact ring (resolution pi/16) - BOUNDED *)
Theorem qft_is_dft_bounded_N5 : forall N l, (N <= 5)%nat -> qft_gate_sequence N true false = Some l ->
  sem (map qden l) = sem [(dftC N, seq 0 N)].
Proof. exact qft_is_dft_upto5. Qed.
Print Assumptions qft_is_dft_bounded_N5.

(* non-vacuity *)
Example qft3_cnot_has_22_gates : exists l, qft_gate_sequence 3 true true = Some l /\ length l = 22%nat.
Proof. eexists. split; [vm_compute; reflexivity| reflexivity]. Qed.
Example qft3_native : option_map (map gname) (qft_gate_sequence 3 true false)
  = Some ["SNOT"; "CPHASE"; "SNOT"; "CPHASE"; "CPHASE"; "SNOT"; "SWAP"].
Proof. vm_compute. reflexivity. Qed.
