(* C02 -- Measurement branches obey the Born rule and drive classical control.

   All theorems are about the executable model Model/Sim.v of circuitsimulator.py / measurement.py (with
   fixes/C02-copy-cbits.diff applied: alias := false), for EVERY state space X satisfying the laws SysLaws
   (Proofs/SimLaws.v), every circuit, every initial ket of norm 1, every initial classical register, every
   outcome record.  Spec/Branch.v defines the branches: bvec = ordered product of gates (a conditioned gate acts
   iff the branch's current classical bits spell its control value, first listed bit most significant) and
   projectors; bprob = its squared norm; bstate = bvec / sqrt bprob; bcbits = the writes in order.

   Guards: wf (classical indices in range, control value < 2^k); clear / clear_all (no conditional outcome
   probability strictly between 0 and the tolerance; trivial for tolerance 0); for the density-matrix clause
   dm_guard (tolerance guard along the path the code takes).  The code before fixes/C02-dm-classical-control.diff
   (dm_run_orig) is refuted: dm_is_mixture_refuted. *)
From Coq Require Import List Arith NArith Bool.
From QV Require Import Model.Sim Spec.Branch.
From QV Require Import Proofs.SimLaws Proofs.SimCond Proofs.SimRun Proofs.SimStats Proofs.SimDM Proofs.SimDMB Proofs.SimTiny Proofs.SimTop.
Import ListNotations.

(* a gate conditioned on classical bits acts in exactly those branches whose bits equal its condition:
   (i) the test of the simulator (_decimal_to_binary + matching loop) IS the condition of the specification *)
Theorem cond_gate_iff : forall cc v cb,
  (forall i, In i cc -> i < length cb) -> (v < 2 ^ N.of_nat (length cc))%N ->
  check_cc cc v (Some cb) = Ok (cond_true cc v cb).
Proof. exact check_cc_spec. Qed.
Print Assumptions cond_gate_iff.

(* (ii) ... and that condition says: every listed bit holds 0/1 and the listed bits, first listed most
   significant, are the binary digits of the control value *)
Theorem cond_true_meaning : forall cc v cb,
  cond_true cc v cb = true <-> exists bits, Forall2 (bit_at cb) cc bits /\ bval_from 0 bits = v.
Proof. exact cond_true_iff. Qed.
Print Assumptions cond_true_meaning.

(* run_statistics (= branch_prob + branch_state + branch_cbits + run_stats_results_fresh): the result is exactly
   the list of the possible branches in record order, each with its Born probability, its normalised
   post-measurement state and the classical bits its record produced; the returned lists are pairwise distinct
   new objects and nothing that existed before the call (in particular the caller's list) is modified *)
Theorem run_statistics_branches : forall X, SysLaws X -> forall (c : circ X) s0 cbarg h,
  wf X (c_ncb X c) (c_ops X c) = true -> valid_arg h cbarg -> nrm X s0 = f1 X ->
  clear_all X (c_ops X c) s0 (init_cbits (c_ncb X c) (arg_val h cbarg)) = true ->
  exists h' es, run_statistics X false c s0 cbarg h = Ok (h', es) /\ untouched h h' /\
    map (view X h') es = map (spec_view X c s0 (init_cbits (c_ncb X c) (arg_val h cbarg)))
                             (filter (possible X c s0 (init_cbits (c_ncb X c) (arg_val h cbarg)))
                                     (all_records (nmeas X (c_ops X c)))) /\
    NoDup (refs_of X es) /\ Forall (fun x => length h <= x) (refs_of X es).
Proof. exact run_statistics_spec. Qed.
Print Assumptions run_statistics_branches.

(* the Born probabilities of all 2^m records sum to the squared norm of the input (projector completeness +
   unitarity, by induction over the circuit) ... *)
Theorem born_sum_one : forall X, SysLaws X -> forall ops s cb,
  fsum X (map (fun r => bprob X ops r s cb) (all_records (nmeas X ops))) = nrm X s.
Proof. exact born_sum. Qed.
Print Assumptions born_sum_one.

(* ... and so do the probabilities that run_statistics reports *)
Theorem reported_probabilities_sum_one : forall X, SysLaws X -> forall (c : circ X) s0 cbarg h,
  wf X (c_ncb X c) (c_ops X c) = true -> valid_arg h cbarg -> nrm X s0 = f1 X ->
  clear_all X (c_ops X c) s0 (init_cbits (c_ncb X c) (arg_val h cbarg)) = true ->
  exists h' es, run_statistics X false c s0 cbarg h = Ok (h', es) /\
                fsum X (map (fun e => snd (fst e)) es) = f1 X.
Proof. exact reported_sum_one. Qed.
Print Assumptions reported_probabilities_sum_one.

(* a single run with prescribed outcomes reproduces the corresponding branch, or reports probability zero *)
Theorem run_postselect_refines : forall X, SysLaws X -> forall (c : circ X) s0 cbarg r orc h,
  wf X (c_ncb X c) (c_ops X c) = true -> valid_arg h cbarg -> nrm X s0 = f1 X ->
  length r = nmeas X (c_ops X c) ->
  clear X (c_ops X c) r s0 (init_cbits (c_ncb X c) (arg_val h cbarg)) = true ->
  exists h' e, run X false c s0 cbarg (Some r) orc h = Ok (h', e) /\ untouched h h' /\
               length h' <= S (length h) /\
               entry_ok X c s0 (init_cbits (c_ncb X c) (arg_val h cbarg)) h h' r e.
Proof. exact run_post. Qed.
Print Assumptions run_postselect_refines.

(* an unconstrained run returns one of the branches of non-zero probability, whatever the random generator does *)
Theorem run_random_in_branches : forall X, SysLaws X -> forall (c : circ X) s0 cbarg mres orc h,
  truthy mres = None ->
  wf X (c_ncb X c) (c_ops X c) = true -> valid_arg h cbarg -> nrm X s0 = f1 X ->
  clear_all X (c_ops X c) s0 (init_cbits (c_ncb X c) (arg_val h cbarg)) = true ->
  exists r h' e, length r = nmeas X (c_ops X c) /\
     run X false c s0 cbarg mres orc h = Ok (h', e) /\ untouched h h' /\
     bprob X (c_ops X c) r s0 (init_cbits (c_ncb X c) (arg_val h cbarg)) <> f0 X /\
     entry_ok X c s0 (init_cbits (c_ncb X c) (arg_val h cbarg)) h h' r e.
Proof. exact run_rand. Qed.
Print Assumptions run_random_in_branches.

(* density-matrix evolution returns the probability-weighted mixture of the branches -- EVERY circuit, including
   gates conditioned on measured bits (the code tracks the ensemble per classical register value:
   fixes/C02-dm-classical-control.diff).  dm_guard = tolerance guard along the path the code takes (and, on the
   branch-tracking path, that the run raises no exception and some branch survives). *)
Theorem dm_is_mixture : forall X, SysLaws X -> forall (c : circ X) s0 cbarg h,
  wf X (c_ncb X c) (c_ops X c) = true -> valid_arg h cbarg ->
  dm_guard X (c_ncb X c) (c_ops X c) (init_cbits (c_ncb X c) (arg_val h cbarg)) (dm_of X s0) = true ->
  exists h' ref, dm_run X false c (dm_of X s0) cbarg h
                 = Ok (h', (mixture X (c_ops X c) s0 (init_cbits (c_ncb X c) (arg_val h cbarg)), f1 X, ref))
                 /\ untouched h h'.
Proof. exact dm_run_mixture_all. Qed.
Print Assumptions dm_is_mixture.

(* ---- refuted statements ------------------------------------------------------------------------------------ *)
(* the density-matrix code BEFORE fixes/C02-dm-classical-control.diff (dm_run_orig) ignores the classical store:
   H; measure -> c0; X if c0 == 1 *)
Theorem dm_is_mixture_refuted :
  exists (c : circ tiny) s0,
    wf tiny (c_ncb tiny c) (c_ops tiny c) = true /\ nrm tiny s0 = f1 tiny /\
    dm_clear tiny (c_ops tiny c) (init_cbits (c_ncb tiny c) None) (dm_of tiny s0) = true /\
    dm_safe tiny (c_ops tiny c) = false /\
    exists h' rho p ref, dm_run_orig tiny false c (dm_of tiny s0) None [] = Ok (h', (rho, p, ref)) /\
      rho <> mixture tiny (c_ops tiny c) s0 (init_cbits (c_ncb tiny c) None).
Proof. exact SimTop.dm_is_mixture_refuted. Qed.
Print Assumptions dm_is_mixture_refuted.

(* the code of the unchanged tree (alias := true: initialize keeps the caller's list by reference) does not
   enumerate the branches when initial classical bits are given (repaired by fixes/C02-copy-cbits.diff) *)
Theorem run_stats_results_fresh_refuted :
  exists (c : circ tiny) s0 cb,
    wf tiny (c_ncb tiny c) (c_ops tiny c) = true /\ nrm tiny s0 = f1 tiny /\
    clear_all tiny (c_ops tiny c) s0 (init_cbits (c_ncb tiny c) (Some cb)) = true /\
    exists h' es, run_statistics tiny true c s0 (Some 0%nat) [cb] = Ok (h', es) /\
      map (view tiny h') es <> map (spec_view tiny c s0 (init_cbits (c_ncb tiny c) (Some cb)))
                                   (filter (possible tiny c s0 (init_cbits (c_ncb tiny c) (Some cb)))
                                           (all_records (nmeas tiny (c_ops tiny c)))).
Proof. exact run_stats_alias_refuted. Qed.
Print Assumptions run_stats_results_fresh_refuted.

Theorem run_mutates_caller_refuted :
  exists (c : circ tiny) s0 cb h' e,
    wf tiny (c_ncb tiny c) (c_ops tiny c) = true /\
    run tiny true c s0 (Some 0%nat) (Some [false]) (fun _ => false) [cb] = Ok (h', e) /\ hget h' 0 <> Some cb.
Proof. exact run_alias_mutates_caller. Qed.
Print Assumptions run_mutates_caller_refuted.

(* the tolerance guard cannot be dropped: with a tolerance that discards an outcome of probability 1/2 the
   reported probabilities do not sum to one *)
Theorem born_sum_one_unguarded_refuted :
  exists (c : circ tiny_tol) s0,
    wf tiny_tol (c_ncb tiny_tol c) (c_ops tiny_tol c) = true /\ nrm tiny_tol s0 = f1 tiny_tol /\
    clear_all tiny_tol (c_ops tiny_tol c) s0 (init_cbits (c_ncb tiny_tol c) None) = false /\
    exists h' es, run_statistics tiny_tol false c s0 None [] = Ok (h', es) /\
                  fsum tiny_tol (map (fun e => snd (fst e)) es) <> f1 tiny_tol.
Proof. exact SimTop.born_sum_one_unguarded_refuted. Qed.
Print Assumptions born_sum_one_unguarded_refuted.

(* ---- non-vacuity: the laws and every hypothesis are satisfiable by a concrete non-trivial input --------------- *)
(* a state space satisfying all laws: one qubit, rational amplitudes, gates X, H, R = [[3,-4],[4,3]]/5 *)
Theorem laws_satisfiable : SysLaws tiny.
Proof. exact tiny_laws. Qed.
Print Assumptions laws_satisfiable.

(* H; measure -> c0; X if c0 == 1; measure -> c1 on |0>: the hypotheses of run_statistics_branches hold, two of
   the four records are possible and the conditioned gate fires in exactly one of them *)
Example ex_run_statistics :
  exists h' es, run_statistics tiny false ex_circ ket0 None [] = Ok (h', es) /\ untouched [] h' /\
    map (view tiny h') es = map (spec_view tiny ex_circ ket0 (init_cbits 2 None))
                                (filter (possible tiny ex_circ ket0 (init_cbits 2 None)) (all_records 2)) /\
    NoDup (refs_of tiny es) /\ Forall (fun x => 0 <= x) (refs_of tiny es).
Proof. exact (run_statistics_branches tiny tiny_laws ex_circ ket0 None [] ex_wf I ket0_nrm ex_clear_all). Qed.

Example ex_branches :
  bcbits tiny ex_ops [true; false] ket0 [0; 0] = [1; 0] /\
  bcbits tiny ex_ops [false; false] ket0 [0; 0] = [0; 0] /\
  possible tiny ex_circ ket0 [0; 0] [true; false] = true /\
  possible tiny ex_circ ket0 [0; 0] [false; false] = true /\
  possible tiny ex_circ ket0 [0; 0] [true; true] = false.
Proof. exact ex_branches_differ. Qed.

Example ex_reported_sum :
  exists h' es, run_statistics tiny false ex_circ ket0 None [] = Ok (h', es) /\
                fsum tiny (map (fun e => snd (fst e)) es) = f1 tiny.
Proof. exact (reported_probabilities_sum_one tiny tiny_laws ex_circ ket0 None [] ex_wf I ket0_nrm ex_clear_all). Qed.

(* a possible record (1,0) and an impossible one (1,1) *)
Example ex_postselect_possible :
  exists h' e, run tiny false ex_circ ket0 None (Some [true; false]) (fun _ => false) [] = Ok (h', e) /\ untouched [] h' /\
               length h' <= 1 /\ entry_ok tiny ex_circ ket0 (init_cbits 2 None) [] h' [true; false] e.
Proof. exact (run_postselect_refines tiny tiny_laws ex_circ ket0 None [true; false] (fun _ => false) [] ex_wf I ket0_nrm eq_refl ex_clear_10). Qed.

Example ex_postselect_impossible :
  exists h' e, run tiny false ex_circ ket0 None (Some [true; true]) (fun _ => false) [] = Ok (h', e) /\ untouched [] h' /\
               length h' <= 1 /\ entry_ok tiny ex_circ ket0 (init_cbits 2 None) [] h' [true; true] e.
Proof. exact (run_postselect_refines tiny tiny_laws ex_circ ket0 None [true; true] (fun _ => false) [] ex_wf I ket0_nrm eq_refl ex_clear_11). Qed.

Example ex_random :
  exists r h' e, length r = 2 /\
     run tiny false ex_circ ket0 None None (fun _ => true) [] = Ok (h', e) /\ untouched [] h' /\
     bprob tiny ex_ops r ket0 (init_cbits 2 None) <> f0 tiny /\
     entry_ok tiny ex_circ ket0 (init_cbits 2 None) [] h' r e.
Proof. exact (run_random_in_branches tiny tiny_laws ex_circ ket0 None None (fun _ => true) [] eq_refl ex_wf I ket0_nrm ex_clear_all). Qed.

(* initial classical bits given by the caller (location 0 of the heap), two-bit condition, rational rotation *)
Example ex_run_statistics_given_bits :
  exists h' es, run_statistics tiny false ex_circ2 ket0 (Some 0) [[1; 0]] = Ok (h', es) /\ untouched [[1; 0]] h' /\
    map (view tiny h') es = map (spec_view tiny ex_circ2 ket0 [1; 0])
                                (filter (possible tiny ex_circ2 ket0 [1; 0]) (all_records 1)) /\
    NoDup (refs_of tiny es) /\ Forall (fun x => 1 <= x) (refs_of tiny es).
Proof. exact (run_statistics_branches tiny tiny_laws ex_circ2 ket0 (Some 0) [[1; 0]] ex2_wf (le_n 1) ket0_nrm ex2_clear_all). Qed.

(* density-matrix clause: a conditioned gate reading an unmeasured bit (old code path) ... *)
Example ex_dm :
  exists h' ref, dm_run tiny false ex_circ3 (dm_of tiny ket0) (Some 0) [[0; 1]]
                 = Ok (h', (mixture tiny ex_ops3 ket0 [0; 1], f1 tiny, ref)) /\ untouched [[0; 1]] h'.
Proof. exact (dm_is_mixture tiny tiny_laws ex_circ3 ket0 (Some 0) [[0; 1]] ex3_wf (le_n 1) ex3_guard). Qed.

(* ... and the circuit that refutes the old code (H; measure -> c0; X if c0 == 1): branch-tracking path *)
Example ex_dm_measured_bit :
  exists h' ref, dm_run tiny false dm_bad_circ (dm_of tiny ket0) None []
                 = Ok (h', (mixture tiny (c_ops tiny dm_bad_circ) ket0 (init_cbits 1 None), f1 tiny, ref)) /\ untouched [] h'.
Proof. exact (dm_is_mixture tiny tiny_laws dm_bad_circ ket0 None [] dm_bad_wf I dm_bad_guard). Qed.

Example ex_cond : check_cc [1; 0] 2%N (Some [0; 1; 1]) = Ok (cond_true [1; 0] 2%N [0; 1; 1]) /\ cond_true [1; 0] 2%N [0; 1; 1] = true
                  /\ cond_true [0; 1] 2%N [0; 1; 1] = false.
Proof. exact ex_cond_fact. Qed.
