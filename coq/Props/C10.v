(* C10 - Exported OpenQASM is valid OpenQASM 2.0 and round-trips to the same circuit.
   Model/QasmExport.v: the exporter (tied to qasm.py / gateclass.py / measurement.py / circuit.py by exact text equality on
   generated circuits); Spec/QasmStrict.v: strict reader; Spec/Qasm.v, QasmSem.v: the standard's semantics;
   Gen/Qasm.v: name map and definition strings regenerated from qasm.py on every run. *)
From QV Require Import Model.QasmImport Model.QasmExport Spec.QasmStrict Spec.QasmSem Found.Circ Gen.Gates Gen.Qasm.
From QV Require Import Proofs.QasmShortcut Proofs.QasmExport Proofs.QasmLex Proofs.QasmLex2 Proofs.QasmLex3.
Local Open Scope string_scope.
Local Open Scope nat_scope.
Local Open Scope list_scope.

(* export_denotes.  For every exportable gate g (exported under the name q): the gate's own matrix (c1) equals, up to the
   explicit phase, the standard's meaning of the statement  q(params) qubits;  (c2: the emitted definition, if any, and
   qelib1.inc expanded to U and CX) - for all parameter values, registers and placements. *)
Theorem export_denotes : forall (R : PhaseRing) (A : atoms R) g q np nq c1 c2 ts,
  In (g, q) exportable -> qsig g q = Some (np, nq) -> gate_sym g q = Some c1 -> std_stmt g q = Some c2 ->
  NoDup ts -> length ts = nq ->
  sem (place ts (map (gden R A) c1)) = sem (place ts (map (gden R A) (with_phase (std_phase g) c2))).
Proof. exact denotes_sem. Qed.
Print Assumptions export_denotes.

(* roundtrip.  The gates the importer (model of C04) builds from the exported statement have the gate's action. *)
Theorem roundtrip : forall (R : PhaseRing) (A : atoms R) g q np nq c1 c2 ts,
  In (g, q) exportable -> qsig g q = Some (np, nq) -> gate_sym g q = Some c1 -> imp_stmt g q = Some c2 ->
  NoDup ts -> length ts = nq ->
  sem (place ts (map (gden R A) c1)) = sem (place ts (map (gden R A) (with_phase (imp_phase g) c2))).
Proof. exact roundtrip_sem. Qed.
Print Assumptions roundtrip.

(* every gate of the export tables is covered by both checks, and every emitted definition is accepted by the strict
   reader, is well-formed on top of qelib1.inc and defines the lower-cased name *)
Theorem export_tables_checked :
  forallb denotes_chk exportable = true /\ forallb roundtrip_chk exportable = true /\ forallb defn_chk export_defns = true.
Proof. exact (conj chk_denotes_true (conj chk_roundtrip_true chk_defns_true)). Qed.
Print Assumptions export_tables_checked.

(* export_refuses *)
Theorem export_refuses_nonexportable : forall c n t ct a cc,
  sassoc n export_names = None -> sassoc n export_defns = None -> In (EGate n t ct a cc) (e_ops c) -> export c = None.
Proof. exact refuses_nonexportable. Qed.
Print Assumptions export_refuses_nonexportable.
Theorem export_refuses_classical_control : forall c n t ct a, In (EGate n t ct a true) (e_ops c) -> export c = None.
Proof. exact refuses_classical_control. Qed.
Print Assumptions export_refuses_classical_control.
Theorem export_refuses_unstored_measurement : forall c t, In (EMeas t None) (e_ops c) -> export c = None.
Proof. exact refuses_unstored_measurement. Qed.
Print Assumptions export_refuses_unstored_measurement.

(* export_valid, PARTIAL, with the guard no_meas.
   Full statement: forall c t, no_meas c = true -> export c = Some t -> exists p, strict_parse t = Some p /\ wf lib_sigs p = true.
   The guard is necessary (export_valid_measure_refuted): Measurement._to_qasm prints `measure q[i] -> c[j]` without the ';'
   (open known finding measure-without-semicolon; the string is pinned by tests/test_qasm.py and cannot be repaired here).
   Proved: the emitted definitions and the statement shapes (zero, exponent, tuple parameters) are accepted (below), and - for
   ALL numbers, parameter containers and qubit lists - every number and every gate statement line lexes to the expected tokens
   (export_number_lexes, export_statement_lexes).  Not proved: the assembly over the whole text (header, register lines,
   definition lines) and the PARSER's acceptance of the statement tokens; these remain checked by vm_compute of strict_parse
   on the model's text for every generated measurement-free circuit in the correspondence run. *)
Theorem export_valid_partial :
  forallb defn_chk export_defns = true /\
  (exists t, qasm_str "rx" [] [0] (PNum (NFloat (FDec false "0" "0"))) = Some t /\ accepted t = true) /\
  (exists t, qasm_str "rx" [] [0] (PNum (NFloat (FExp false "1" None true "09"))) = Some t /\ accepted t = true) /\
  (exists t, qasm_str "U" [] [0] (PTuple [NFloat (FDec false "1" "0"); NFloat (FDec false "2" "0"); NInt false 3]) = Some t /\ accepted t = true).
Proof. exact (conj chk_defns_true format_fixed_ok). Qed.
Print Assumptions export_valid_partial.

(* export_valid, lexer half (the decimal printer / strict-lexer inversion), for ALL values:
   every number the exporter prints - str(int), and repr(float) of any of the shapes [-]d.d, [-]d[.d]e(+|-)dd whose
   parts are non-empty digit strings - is read by the strict lexer as ONE numeral token (after an optional '-'),
   whatever closing character and text follow (LXc: in at most one lexer step per character). *)
Theorem export_number_lexes : forall x t, shape_ok x -> qasm_number x = Some t ->
  exists ts, num_toks ts /\ LXc (la t) ts.
Proof. exact number_lx. Qed.
Print Assumptions export_number_lexes.

(* every gate statement line the exporter prints (any exported name that is an identifier, any controls/targets, any
   parameter value None | number | list | tuple | ndarray of numbers of valid shape), followed by a newline, is read by
   the strict lexer as exactly the tokens of a statement  name [ ( numerals , .. ) ] q[i] , .. ;  whatever follows. *)
Theorem export_statement_lexes : forall q controls targets a line,
  ident_chars (la q) -> shape_ok_val a -> qasm_str q controls targets a = Some line ->
  exists atoks, LX (la line ++ [chr 10]) (stmt_toks (str_of (la q)) atoks (controls ++ targets)) /\
                (atoks = [] \/ exists tokss, tokss <> [] /\ Forall num_toks tokss /\ atoks = sep_toks tokss).
Proof. exact stmt_lx. Qed.
Print Assumptions export_statement_lexes.
(* all names gates are exported under are identifiers *)
Theorem export_names_are_identifiers : forallb (fun p => identb (snd p)) exportable = true.
Proof. vm_compute. reflexivity. Qed.
Print Assumptions export_names_are_identifiers.

(* without the guard: a circuit with a measurement is exported to a text the strict reader rejects *)
Theorem export_valid_measure_refuted : exists c, no_meas c = false /\ strict_ok c = Some false.
Proof. exact valid_measure_refuted. Qed.
Print Assumptions export_valid_measure_refuted.

(* the formatting of the unchanged code is not accepted by the strict reader *)
Theorem export_valid_unfixed_refuted :
  (exists t, qasm_str_unfixed "rx" [] [0] (PNum (NFloat (FDec false "0" "0"))) = Some t /\ accepted t = false) /\
  (exists t, qasm_str_unfixed "rx" [] [0] (PNum (NFloat (FExp false "1" None true "09"))) = Some t /\ accepted t = false) /\
  (exists t, qasm_str_unfixed "U" [] [0] (PTuple [NFloat (FDec false "1" "0"); NFloat (FDec false "2" "0"); NInt false 3]) = Some t /\ accepted t = false).
Proof. exact format_unfixed_refuted. Qed.
Print Assumptions export_valid_unfixed_refuted.

(* non-vacuity *)
Example exportable_has_crx : In ("CRX", "crx") exportable /\ qsig "CRX" "crx" = Some (1, 2) /\
  (exists c2, std_stmt "CRX" "crx" = Some c2 /\ length c2 = 5) /\ (exists c3, imp_stmt "CRX" "crx" = Some c3 /\ length c3 = 1).
Proof.
  split; [vm_compute; tauto|]. split; [vm_compute; reflexivity|].
  split; eexists; (split; [vm_compute; reflexivity|]); vm_compute; reflexivity.
Qed.
Example guard_satisfiable : no_meas (mkEC 2 1 [EGate "X" [0] [] PNone false]) = true /\
  strict_ok (mkEC 2 1 [EGate "X" [0] [] PNone false]) = Some true /\
  accepted (meas_text 1 0) = false /\ accepted (meas_text 1 0 ++ ";")%string = true.
Proof. exact (conj (proj1 valid_without_measure) (conj (proj2 valid_without_measure) measure_line_with_semicolon)). Qed.
Example statement_lexes_instance :
  shape_ok_val (PTuple [NFloat (FExp true "1" None true "09"); NInt false 0; NFloat (FDec false "3" "25")]) /\
  ident_chars (la "U") /\ qasm_str "U" [] [2] (PTuple [NFloat (FExp true "1" None true "09"); NInt false 0; NFloat (FDec false "3" "25")]) = Some "U(-1.0e-09,0,3.25) q[2];".
Proof.
  split; [|split; [split; reflexivity|vm_compute; reflexivity]].
  cbn [shape_ok_val]. repeat (first [apply Forall_cons | apply Forall_nil | exact I | discriminate | reflexivity | split]).
Qed.
Example refuses_instance : export (mkEC 2 0 [EGate "CSIGN" [1] [0] PNone false]) = None /\
  export (mkEC 1 0 [EGate "RX" [0] [] (PNum (NFloat (FInf false))) false]) = None.
Proof. split; vm_compute; reflexivity. Qed.
