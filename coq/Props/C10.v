(* C10 - Exported OpenQASM is valid OpenQASM 2.0 and round-trips to the same circuit.
   Model/QasmExport.v: the exporter (tied to qasm.py / gateclass.py / measurement.py / circuit.py by exact text equality on
   generated circuits); Spec/QasmStrict.v: strict reader; Spec/Qasm.v, QasmSem.v: the standard's semantics;
   Gen/Qasm.v: name map and definition strings regenerated from qasm.py on every run. *)
From QV Require Import Model.QasmImport Model.QasmExport Spec.QasmStrict Spec.QasmSem Found.Circ Gen.Gates Gen.Qasm.
From QV Require Import Proofs.QasmShortcut Proofs.QasmExport Proofs.QasmLex Proofs.QasmLex2 Proofs.QasmLex3 Proofs.QasmLex4 Proofs.QasmLex5.
From QV Require Import Proofs.QasmValid1 Proofs.QasmValid2 Proofs.QasmValid3 Proofs.QasmValid4 Proofs.QasmValid5 Proofs.QasmValid6.
From QV Require Import Model.QasmExport2 Proofs.QasmExport2.
Local Open Scope string_scope.
Local Open Scope nat_scope.
Local Open Scope list_scope.

(* export_denotes.  For every exportable gate g (exported under the name q): the gate's own matrix (c1) equals, up to the
   explicit phase, the standard's meaning of the statement  q(params) qubits;  (c2: the emitted definition, if any, and
   qelib1.inc expanded to U and CX) - for all parameter values, registers and placements. *)
Theorem export_denotes : forall (R : PhaseRing) (A : atoms R) g q np nq c1 c2 ts,
  In (g, q) exportable -> qsig g q = Some (np, nq) -> gate_sym g q = Some c1 -> std_stmt g q = Some c2 ->
  NoDup ts -> length ts = nq ->
  sem (place ts (map (gden R A) c1)) = sem (place ts (map (gden R A) (with_phase (std_phase g) c2))).
Proof. exact denotes_sem. Qed.
Print Assumptions export_denotes.

(* roundtrip.  The gates the importer (model of C04) builds from the exported statement have the gate's action. *)
Theorem roundtrip : forall (R : PhaseRing) (A : atoms R) g q np nq c1 c2 ts,
  In (g, q) exportable -> qsig g q = Some (np, nq) -> gate_sym g q = Some c1 -> imp_stmt g q = Some c2 ->
  NoDup ts -> length ts = nq ->
  sem (place ts (map (gden R A) c1)) = sem (place ts (map (gden R A) (with_phase (imp_phase g) c2))).
Proof. exact roundtrip_sem. Qed.
Print Assumptions roundtrip.

(* every gate of the export tables is covered by both checks, and every emitted definition is accepted by the strict
   reader, is well-formed on top of qelib1.inc and defines the lower-cased name *)
Theorem export_tables_checked :
  forallb denotes_chk exportable = true /\ forallb roundtrip_chk exportable = true /\ forallb defn_chk export_defns = true.
Proof. exact (conj chk_denotes_true (conj chk_roundtrip_true chk_defns_true)). Qed.
Print Assumptions export_tables_checked.

(* export_refuses *)
Theorem export_refuses_nonexportable : forall c n t ct a cc,
  sassoc n export_names = None -> sassoc n export_defns = None -> In (EGate n t ct a cc) (e_ops c) -> export c = None.
Proof. exact refuses_nonexportable. Qed.
Print Assumptions export_refuses_nonexportable.
Theorem export_refuses_classical_control : forall c n t ct a, In (EGate n t ct a true) (e_ops c) -> export c = None.
Proof. exact refuses_classical_control. Qed.
Print Assumptions export_refuses_classical_control.
Theorem export_refuses_unstored_measurement : forall c t, In (EMeas t None) (e_ops c) -> export c = None.
Proof. exact refuses_unstored_measurement. Qed.
Print Assumptions export_refuses_unstored_measurement.

(* export_valid, for ALL circuits, with explicit guards.
   Every text the exporter produces for a circuit c is accepted by the strict reader (Spec/QasmStrict.v: strict lexer + parser) and
   the program it returns - given explicitly, prog_of c - is well-formed OpenQASM 2.0 on top of qelib1.inc (Spec/Qasm.v wf: every
   gate declared before use, arities, qubit indices inside the register, no repeated qubit, names declared once, ...), provided
     no_meas c   : no Measurement.  Necessary (export_valid_measure_refuted): Measurement._to_qasm prints `measure q[i] -> c[j]`
                   without the ';' (open known finding measure-without-semicolon, pinned by tests/test_qasm.py);
     shapes_ok c : the repr(float) shapes supplied by the oracle consist of non-empty digit strings (what repr(float) prints);
     circ_wf c   : the circuit itself is well-formed - every gate carries the number of parameters and qubits its signature asks
                   for, qubit indices are < N and distinct, N > 0.  The exporter checks NONE of this (QubitCircuit.add_gate accepts
                   such gates): wf_guard_needed below shows that without it the text is rejected or ill-formed.
   Proved by induction over the gate list: lexing of the whole text is assembled line by line (lexer_line_compositional for the
   concrete lines, export_statement_lexes for the statement lines), then the parser consumes header, declarations, the emitted
   definitions and one statement per gate. *)
Theorem export_valid : forall c txt, export c = Some txt -> no_meas c = true -> shapes_ok c = true -> circ_wf c = true ->
  exists p, strict_parse txt = Some p /\ wf lib_sigs p = true /\ p = prog_of c.
Proof. exact valid. Qed.
Print Assumptions export_valid.

(* the syntactic half under the weakest guard: the strict reader ACCEPTS the text (grammar only) as soon as every QASMU gate has
   parameters and exactly one qubit (u_ok; the grammar has  U ( explist ) argument ;  only - see u_guard_needed) *)
Theorem export_parses : forall c txt, export c = Some txt -> no_meas c = true -> shapes_ok c = true -> u_ok c = true ->
  strict_parse txt = Some (prog_of c).
Proof. exact export_parses. Qed.
Print Assumptions export_parses.

(* the lexing of the WHOLE text: header tokens, include, qreg/creg declarations, the tokens of every emitted definition and the
   tokens of every statement, in this order *)
Theorem export_lexes : forall c txt, export c = Some txt -> no_meas c = true -> shapes_ok c = true ->
  strict_lex txt = Some (hdr_toks ++ reg_toks "qreg" "q" (e_N c) ++ creg_toks c
                         ++ flat_map (fun n => dtoks (dtext n)) (def_names export_names (e_ops c))
                         ++ flat_map (op_toks (final_map c)) (e_ops c)).
Proof. exact export_lexes. Qed.
Print Assumptions export_lexes.

(* the strict lexer is compositional over newline-terminated lines: no token extends over a newline, so a text ending in a newline
   that is read on its own as [toks] is read as [toks] whatever follows (LX: in at most one lexer step per character) *)
Theorem lexer_line_compositional : forall l toks, lex (S (length l)) (l ++ [chr 10]) = Some toks -> LX (l ++ [chr 10]) toks.
Proof. exact LX_line. Qed.
Print Assumptions lexer_line_compositional.

(* the statements of the parsed text are the statements export_denotes / roundtrip are about: statement i of the program is
   q(numerals) q[i1],..,q[ik];  for gate i = (name, targets, controls, parameters), with (name, q) exportable, the numbers of numerals
   and qubits as in qsig name q, the qubits distinct and < N, and - if the gate has no qelib1 counterpart - the definition of q in
   the program is the definition std_stmt / imp_stmt expand *)
Theorem export_parsed_statements : forall c txt, export c = Some txt -> no_meas c = true -> circ_wf c = true ->
  Forall2 (stmt_of_gate c) (e_ops c) (p_ops (prog_of c)).
Proof. exact stmts_link. Qed.
Print Assumptions export_parsed_statements.
(* hence export_denotes and roundtrip hold for every statement of the parsed text, on the gate's own qubits *)
Theorem export_parsed_denotes : forall (R : PhaseRing) (A : atoms R) (c : QV.Model.QasmExport.ecirc) txt,
  export c = Some txt -> no_meas c = true -> circ_wf c = true ->
  Forall2 (stmt_denotes R A) (e_ops c) (p_ops (prog_of c)).
Proof. exact stmts_denote. Qed.
Print Assumptions export_parsed_denotes.

(* the emitted definitions and sample statement shapes (zero, exponent, tuple parameters) end to end *)
Theorem export_shapes_accepted :
  forallb defn_chk export_defns = true /\
  (exists t, qasm_str "rx" [] [0] (PNum (NFloat (FDec false "0" "0"))) = Some t /\ accepted t = true) /\
  (exists t, qasm_str "rx" [] [0] (PNum (NFloat (FExp false "1" None true "09"))) = Some t /\ accepted t = true) /\
  (exists t, qasm_str "U" [] [0] (PTuple [NFloat (FDec false "1" "0"); NFloat (FDec false "2" "0"); NInt false 3]) = Some t /\ accepted t = true).
Proof. exact (conj chk_defns_true format_fixed_ok). Qed.
Print Assumptions export_shapes_accepted.

(* export_valid, lexer half (the decimal printer / strict-lexer inversion), for ALL values:
   every number the exporter prints - str(int), and repr(float) of any of the shapes [-]d.d, [-]d[.d]e(+|-)dd whose
   parts are non-empty digit strings - is read by the strict lexer as ONE numeral token (after an optional '-'),
   whatever closing character and text follow (LXc: in at most one lexer step per character). *)
Theorem export_number_lexes : forall x t, shape_ok x -> qasm_number x = Some t ->
  exists ts, num_toks ts /\ LXc (la t) ts.
Proof. exact number_lx. Qed.
Print Assumptions export_number_lexes.

(* every gate statement line the exporter prints (any exported name that is an identifier, any controls/targets, any
   parameter value None | number | list | tuple | ndarray of numbers of valid shape), followed by a newline, is read by
   the strict lexer as exactly the tokens of a statement  name [ ( numerals , .. ) ] q[i] , .. ;  whatever follows. *)
Theorem export_statement_lexes : forall q controls targets a line,
  ident_chars (la q) -> shape_ok_val a -> qasm_str q controls targets a = Some line ->
  exists atoks, LX (la line ++ [chr 10]) (stmt_toks (str_of (la q)) atoks (controls ++ targets)) /\
                (atoks = [] \/ exists tokss, tokss <> [] /\ Forall num_toks tokss /\ atoks = sep_toks tokss).
Proof. exact stmt_lx. Qed.
Print Assumptions export_statement_lexes.
(* all names gates are exported under are identifiers *)
Theorem export_names_are_identifiers : forallb (fun p => identb (snd p)) exportable = true.
Proof. vm_compute. reflexivity. Qed.
Print Assumptions export_names_are_identifiers.

(* without the guard: a circuit with a measurement is exported to a text the strict reader rejects *)
Theorem export_valid_measure_refuted : exists c, no_meas c = false /\ strict_ok c = Some false.
Proof. exact valid_measure_refuted. Qed.
Print Assumptions export_valid_measure_refuted.

(* the formatting of the unchanged code is not accepted by the strict reader *)
Theorem export_valid_unfixed_refuted :
  (exists t, qasm_str_unfixed "rx" [] [0] (PNum (NFloat (FDec false "0" "0"))) = Some t /\ accepted t = false) /\
  (exists t, qasm_str_unfixed "rx" [] [0] (PNum (NFloat (FExp false "1" None true "09"))) = Some t /\ accepted t = false) /\
  (exists t, qasm_str_unfixed "U" [] [0] (PTuple [NFloat (FDec false "1" "0"); NFloat (FDec false "2" "0"); NInt false 3]) = Some t /\ accepted t = false).
Proof. exact format_unfixed_refuted. Qed.
Print Assumptions export_valid_unfixed_refuted.

(* non-vacuity *)
Example exportable_has_crx : In ("CRX", "crx") exportable /\ qsig "CRX" "crx" = Some (1, 2) /\
  (exists c2, std_stmt "CRX" "crx" = Some c2 /\ length c2 = 5) /\ (exists c3, imp_stmt "CRX" "crx" = Some c3 /\ length c3 = 1).
Proof.
  split; [vm_compute; tauto|]. split; [vm_compute; reflexivity|].
  split; eexists; (split; [vm_compute; reflexivity|]); vm_compute; reflexivity.
Qed.
Example guard_satisfiable : no_meas (mkEC 2 1 [EGate "X" [0] [] PNone false]) = true /\
  strict_ok (mkEC 2 1 [EGate "X" [0] [] PNone false]) = Some true /\
  accepted (meas_text 1 0) = false /\ accepted (meas_text 1 0 ++ ";")%string = true.
Proof. exact (conj (proj1 valid_without_measure) (conj (proj2 valid_without_measure) measure_line_with_semicolon)). Qed.
Example statement_lexes_instance :
  shape_ok_val (PTuple [NFloat (FExp true "1" None true "09"); NInt false 0; NFloat (FDec false "3" "25")]) /\
  ident_chars (la "U") /\ qasm_str "U" [] [2] (PTuple [NFloat (FExp true "1" None true "09"); NInt false 0; NFloat (FDec false "3" "25")]) = Some "U(-1.0e-09,0,3.25) q[2];".
Proof.
  split; [|split; [split; reflexivity|vm_compute; reflexivity]].
  cbn [shape_ok_val]. repeat (first [apply Forall_cons | apply Forall_nil | exact I | discriminate | reflexivity | split]).
Qed.
Example refuses_instance : export (mkEC 2 0 [EGate "CSIGN" [1] [0] PNone false]) = None /\
  export (mkEC 1 0 [EGate "RX" [0] [] (PNum (NFloat (FInf false))) false]) = None.
Proof. split; vm_compute; reflexivity. Qed.

(* the hypotheses of export_valid are satisfiable by a non-trivial circuit (two emitted definitions, negative exponent, tuple) *)
Definition c_demo : QV.Model.QasmExport.ecirc :=
  mkEC 3 1 [EGate "CRX" [1] [0] (PNum (NFloat (FExp true "1" None true "09"))) false;
            EGate "QASMU" [2] [] (PTuple [NFloat (FDec false "1" "5"); NInt true 2; NInt false 0]) false;
            EGate "SWAP" [0; 2] [] PNone false;
            EGate "CRX" [2] [1] (PNum (NInt false 1)) false].
Example export_valid_instance :
  no_meas c_demo = true /\ shapes_ok c_demo = true /\ circ_wf c_demo = true /\ u_ok c_demo = true /\
  (exists txt, export c_demo = Some txt /\ strict_parse txt = Some (prog_of c_demo)) /\
  length (p_gates (prog_of c_demo)) = 2 /\ length (p_ops (prog_of c_demo)) = 4.
Proof.
  split; [reflexivity|]. split; [reflexivity|]. split; [vm_compute; reflexivity|]. split; [reflexivity|].
  split; [|split; vm_compute; reflexivity]. eexists. split; [vm_compute; reflexivity|]. vm_compute. reflexivity.
Qed.
(* the guards are needed.  QASMU without parameters: exported as `U q[0];`, which is not in the grammar *)
Example u_guard_needed : let c := mkEC 2 0 [EGate "QASMU" [0] [] PNone false] in
  no_meas c = true /\ shapes_ok c = true /\ u_ok c = false /\ exists txt, export c = Some txt /\ strict_parse txt = None.
Proof. cbv zeta. repeat (split; [reflexivity|]). eexists. split; [vm_compute; reflexivity|]. vm_compute. reflexivity. Qed.
(* qubit index out of range / missing parameter / repeated qubit: exported, accepted by the grammar, but not well-formed *)
Example wf_guard_needed :
  Forall (fun c => no_meas c = true /\ shapes_ok c = true /\ u_ok c = true /\ circ_wf c = false /\
                   exists txt p, export c = Some txt /\ strict_parse txt = Some p /\ wf lib_sigs p = false)
         [mkEC 1 0 [EGate "X" [3] [] PNone false]; mkEC 1 0 [EGate "RX" [0] [] PNone false]; mkEC 2 0 [EGate "CNOT" [0] [0] PNone false]].
Proof.
  repeat constructor; try reflexivity; (eexists; eexists; split; [vm_compute; reflexivity|]; split; [vm_compute; reflexivity|]; vm_compute; reflexivity).
Qed.
(* a "repr" that is not of the shapes repr(float) prints is outside the statement *)
Example shape_guard_needed : let c := mkEC 1 0 [EGate "RX" [0] [] (PNum (NFloat (FDec false "1x" "0"))) false] in
  shapes_ok c = false /\ exists txt, export c = Some txt /\ strict_parse txt = None.
Proof. cbv zeta. split; [reflexivity|]. eexists. split; [vm_compute; reflexivity|]. vm_compute. reflexivity. Qed.

(* ============ the repaired export path: user gates are refused, a parameterless gate is applied without a parameter list ============
   Model/QasmExport2.v: a circuit x carries the keys of QubitCircuit.user_gates (x_user);  export2 x = None if some gate's name is such a
   key (circuit.py _to_qasm), else the exporter above applied to the circuit in which the arg_value of every gate whose QASM name takes
   no parameter is replaced by None (proj_circ; gateclass.py Gate._to_qasm + qasm.py QasmOutput.takes_parameters, whose signature table
   and literal tuple are regenerated from qasm.py).  The harness hands the circuits to export2 UNPROJECTED. *)
Theorem export2_refuses_user_gate : forall x n t ct a cc,
  In (EGate n t ct a cc) (e_ops (x_c x)) -> In n (x_user x) -> export2 x = None.
Proof. exact x2_refuses_user. Qed.
Print Assumptions export2_refuses_user_gate.

(* two circuits that differ only in the arg_value of gates whose QASM name takes no parameter are exported alike (same text / both refused) *)
Theorem export2_ignores_parameterless_arg : forall x1 x2,
  e_N (x_c x1) = e_N (x_c x2) -> e_ncb (x_c x1) = e_ncb (x_c x2) -> x_user x1 = x_user x2 ->
  Forall2 same_upto_ignored_arg (e_ops (x_c x1)) (e_ops (x_c x2)) ->
  export2 x1 = export2 x2.
Proof. exact x2_ignores_arg. Qed.
Print Assumptions export2_ignores_parameterless_arg.

(* QasmOutput.takes_parameters agrees with the signatures: for every exportable gate name, its QASM name is applied with a parameter
   list iff the gate it is exported as (qelib1 gate / emitted definition) has a parameter *)
Theorem takes_parameters_agrees_with_signatures : forall n q np nq,
  qname_of n = Some q -> name_sig n = Some (np, nq) -> takes_params q = (0 <? np).
Proof. exact takes_params_sig. Qed.
Print Assumptions takes_parameters_agrees_with_signatures.

(* export_valid for the repaired exporter; the guards are those of export_valid for the circuit the unchanged part of the exporter sees *)
Theorem export2_valid : forall x txt, export2 x = Some txt ->
  no_meas (proj_circ (x_c x)) = true -> shapes_ok (proj_circ (x_c x)) = true -> circ_wf (proj_circ (x_c x)) = true ->
  exists p, strict_parse txt = Some p /\ wf lib_sigs p = true /\ p = prog_of (proj_circ (x_c x)).
Proof. exact x2_valid. Qed.
Print Assumptions export2_valid.
(* the projection preserves the guards (it makes circ_wf weaker: CNOT with an arg_value is well-formed only after it), hence: *)
Theorem projection_preserves_guards : forall c,
  no_meas (proj_circ c) = no_meas c /\ (shapes_ok c = true -> shapes_ok (proj_circ c) = true) /\ (circ_wf c = true -> circ_wf (proj_circ c) = true).
Proof. exact (fun c => conj (proj_no_meas c) (conj (proj_shapes_ok c) (proj_circ_wf c))). Qed.
Print Assumptions projection_preserves_guards.
Theorem export2_valid_given_circuit : forall x txt, export2 x = Some txt ->
  no_meas (x_c x) = true -> shapes_ok (x_c x) = true -> circ_wf (x_c x) = true ->
  exists p, strict_parse txt = Some p /\ wf lib_sigs p = true /\ p = prog_of (proj_circ (x_c x)).
Proof. exact x2_valid_orig. Qed.
Print Assumptions export2_valid_given_circuit.

(* on the old input language (no user gates, no argument on a parameterless gate) export2 IS export: every theorem above about
   `export` is a theorem about the repaired exporter there *)
Theorem export2_is_export_when_no_user_no_extra_args : forall c, no_extra_args c = true -> export2 (mkXC c []) = export c.
Proof. exact x2_is_export. Qed.
Print Assumptions export2_is_export_when_no_user_no_extra_args.

(* non-vacuity: CNOT carrying 0.3 and SWAP carrying a list (dropped), CRX keeping its angle, a user list that does not name them;
   the given circuit is NOT circ_wf, the projected one is *)
Definition x_demo : xcirc :=
  mkXC (mkEC 3 0 [EGate "CNOT" [1] [0] (PNum (NFloat (FDec false "0" "3"))) false;
                  EGate "SWAP" [0; 2] [] (PList [NInt false 2; NFloat (FInf false)]) false;
                  EGate "CRX" [2] [1] (PNum (NFloat (FDec false "0" "3"))) false])
       ["x"; "MYGATE"].
Example export2_instance :
  export2 x_demo = Some (fold_right (fun l acc => (l ++ nl ++ acc)%string) ""
    ["// QASM 2.0 file generated by QuTiP"; ""; "OPENQASM 2.0;"; "include ""qelib1.inc"";"; ""; "qreg q[3];"; "";
     "// QuTiP definition for gate SWAP"; "gate swap a,b { cx a,b; cx b,a; cx a,b; }";
     "// QuTiP definition for gate CRX"; "gate crx(theta) a,b { cu3(theta,-pi/2,pi/2) a,b; }";
     "cx q[0],q[1];"; "swap q[0],q[2];"; "crx(0.3) q[1],q[2];"]) /\
  export (x_c x_demo) = None /\
  circ_wf (x_c x_demo) = false /\
  no_meas (proj_circ (x_c x_demo)) = true /\ shapes_ok (proj_circ (x_c x_demo)) = true /\ circ_wf (proj_circ (x_c x_demo)) = true /\
  no_extra_args (x_c x_demo) = false.
Proof. repeat split; vm_compute; reflexivity. Qed.
Example export2_refusal_instance :
  export2 (mkXC (mkEC 2 0 [EGate "SNOT" [0] [] PNone false; EGate "X" [1] [] PNone false]) ["X"]) = None /\
  export2 (mkXC (mkEC 2 0 [EGate "SNOT" [0] [] PNone false; EGate "X" [1] [] PNone false]) ["x"]) <> None /\
  export2 (mkXC (mkEC 2 0 [EGate "rx" [0] [] PNone false]) ["rx"]) = None.
Proof. split; [vm_compute; reflexivity|]. split; [vm_compute; discriminate|vm_compute; reflexivity]. Qed.
Example export2_ignores_instance :
  Forall2 same_upto_ignored_arg (e_ops (x_c x_demo))
    [EGate "CNOT" [1] [0] PNone false; EGate "SWAP" [0; 2] [] (PNum (NInt true 7)) false; EGate "CRX" [2] [1] (PNum (NFloat (FDec false "0" "3"))) false] /\
  takes_params "cx" = false /\ takes_params "swap" = false /\ takes_params "crx" = true /\ takes_params "U" = true.
Proof.
  split; [|repeat split; vm_compute; reflexivity].
  constructor; [right; exists "CNOT", [1], [0]; do 3 eexists; exists "cx"; repeat split; vm_compute; reflexivity|].
  constructor; [right; exists "SWAP", [0; 2], []; do 3 eexists; exists "swap"; repeat split; vm_compute; reflexivity|].
  constructor; [left; reflexivity|constructor].
Qed.
