(* C11 -- Pulse schedules are physically valid timetables.
   Model: Model/Sched.v (`sched_pulse` = Scheduler(method, allow_permutation).schedule(list_of_Instruction,
   random_shuffle=random) with fixes/C11-constraint-edges.diff applied when `fixed = true`).
   Every theorem holds for every instruction list with positive durations in which some instruction uses a
   qubit (valid_input), every commutation predicate commI, both methods (alap), allow_permutation or not,
   shuffling or not, every result of random.shuffle (sh), every set iteration order (so) and every oracle
   position (ks, ko).  stt st i = start time of instruction i. *)
From Coq Require Import String.
From Coq Require Import List QArith.
From QV Require Import Model.Sched Proofs.SchedC11 Proofs.SchedC11Inst Proofs.SchedCheck.
Import ListNotations.

(* the scheduler returns one start time per instruction (no exception, no fuel exhaustion) *)
Theorem schedule_defined :
  forall commI allow_permutation instrs alap random sh so, valid_input instrs ->
  forall fixed ks ko, exists st,
    sched_pulse commI allow_permutation instrs alap random sh so fixed ks ko = Some st /\
    length st = length instrs.
Proof. exact schedule_defined. Qed.
Print Assumptions schedule_defined.

Theorem start_nonneg :
  forall commI allow_permutation instrs alap random sh so, valid_input instrs ->
  forall fixed ks ko st, sched_pulse commI allow_permutation instrs alap random sh so fixed ks ko = Some st ->
  forall i, i < length instrs -> (0 <= stt st i)%Q.
Proof. exact start_nonneg. Qed.
Print Assumptions start_nonneg.

Theorem start_min_zero :
  forall commI allow_permutation instrs alap random sh so, valid_input instrs ->
  forall fixed ks ko st, sched_pulse commI allow_permutation instrs alap random sh so fixed ks ko = Some st ->
  exists i, i < length instrs /\ (stt st i == 0)%Q.
Proof. exact start_min_zero. Qed.
Print Assumptions start_min_zero.

(* with the fix: two instructions that share a qubit never overlap in time *)
Theorem no_overlap :
  forall commI allow_permutation instrs alap random sh so, valid_input instrs ->
  forall ks ko st, sched_pulse commI allow_permutation instrs alap random sh so true ks ko = Some st ->
  forall i j, i < length instrs -> j < length instrs -> i <> j ->
    (exists q, uses (ith instrs i) q /\ uses (ith instrs j) q) ->
    (stt st i + idur (ith instrs i) <= stt st j)%Q \/ (stt st j + idur (ith instrs j) <= stt st i)%Q.
Proof. exact no_overlap. Qed.
Print Assumptions no_overlap.

(* the code as shipped (fixed = false, shipped commutation rules): RZ q0 (10), RZ q1 (1), CNOT 0->1 (2), ASAP
   gives start times [0; 0; 1]; the CNOT overlaps the long RZ on qubit 0 *)
Theorem no_overlap_refuted :
  exists instrs st i j,
    valid_input instrs /\
    sched_pulse commutation_rules_orig true instrs false false so_asc so_asc false 0 0 = Some st /\
    i < length instrs /\ j < length instrs /\ i <> j /\
    (exists q, uses (ith instrs i) q /\ uses (ith instrs j) q) /\
    ~ ((stt st i + idur (ith instrs i) <= stt st j)%Q \/ (stt st j + idur (ith instrs j) <= stt st i)%Q).
Proof. exact no_overlap_refuted. Qed.
Print Assumptions no_overlap_refuted.

(* an instruction starts only after every earlier instruction on a common qubit that the commutation
   predicate does not declare commuting has finished (commN = commI when allow_permutation, else always false) *)
Theorem respects_dependencies :
  forall commI allow_permutation instrs alap random sh so, valid_input instrs ->
  forall fixed ks ko st, sched_pulse commI allow_permutation instrs alap random sh so fixed ks ko = Some st ->
  forall i j, i < j -> j < length instrs ->
    (exists q, uses (ith instrs i) q /\ uses (ith instrs j) q) ->
    commN commI allow_permutation instrs j i = false ->
    (stt st i + idur (ith instrs i) <= stt st j)%Q.
Proof. exact respects_dependencies. Qed.
Print Assumptions respects_dependencies.

Theorem total_le_sequential :
  forall commI allow_permutation instrs alap random sh so, valid_input instrs ->
  forall fixed ks ko st, sched_pulse commI allow_permutation instrs alap random sh so fixed ks ko = Some st ->
  forall i, i < length instrs -> (stt st i + idur (ith instrs i) <= sum_durations instrs)%Q.
Proof. exact total_le_sequential. Qed.
Print Assumptions total_le_sequential.

(* a timetable accepted by the executable checker satisfies every clause (used by the harness to validate the
   REAL scheduler's output inside Coq for lists of more than 8 instructions, where the set iteration order of
   CPython cannot be tied to the model) *)
Theorem valid_timetable_sound :
  forall commI perm instrs st, valid_timetable commI perm instrs st = true ->
  length st = length instrs /\
  (forall i, i < length instrs -> (0 <= stt st i)%Q) /\
  (exists i, i < length instrs /\ (stt st i == 0)%Q) /\
  (forall i, i < length instrs -> (stt st i + idur (ith instrs i) <= sum_durations instrs)%Q) /\
  (forall i j, i < j -> j < length instrs -> (exists q, uses (ith instrs i) q /\ uses (ith instrs j) q) ->
      ((stt st i + idur (ith instrs i) <= stt st j)%Q \/ (stt st j + idur (ith instrs j) <= stt st i)%Q) /\
      (commN commI perm instrs j i = false -> (stt st i + idur (ith instrs i) <= stt st j)%Q)).
Proof. exact valid_timetable_sound. Qed.
Print Assumptions valid_timetable_sound.

Example checker_accepts_fixed_witness :
  valid_timetable commutation_rules true c11_witness [0; 0; 10]%Q = true.
Proof. vm_compute. reflexivity. Qed.

Example checker_rejects_shipped_witness :
  valid_timetable commutation_rules true c11_witness [0; 0; 1]%Q = false.
Proof. vm_compute. reflexivity. Qed.

(* non-vacuity: the hypotheses are inhabited by a concrete three-instruction list; on it the fixed code
   returns [0; 0; 10] and the dependency clause has a non-trivial instance (RZ q1 before CNOT 0->1) *)
Example valid_input_inhabited : valid_input c11_witness.
Proof. exact c11_witness_valid. Qed.

Example fixed_code_on_witness :
  sched_pulse commutation_rules true c11_witness false false so_asc so_asc true 0 0 = Some [0; 0; 10]%Q.
Proof. exact c11_witness_fixed. Qed.

Example dependency_hypotheses_inhabited :
  1 < 2 /\ 2 < length c11_witness /\ (exists q, uses (ith c11_witness 1) q /\ uses (ith c11_witness 2) q) /\
  commN commutation_rules true c11_witness 2 1 = false.
Proof. exact c11_witness_dependency. Qed.

(* ---- the same clause against PHYSICAL non-commutation: with the library's commutation rules (proved sound for the real gate
        matrices in Proofs/SchedReal.v), an instruction never starts before an earlier instruction on a common qubit whose
        unitary does not commute with its own has finished - in every phase ring, for all parameter values ---- *)
From QV Require Import Found.Circ Proofs.SchedReal.
Theorem respects_physical_dependencies :
  forall (R : PhaseRing) (env : list Q -> atoms R) allow_permutation instrs alap random sh so, valid_input instrs ->
  forall fixed ks ko st,
    sched_pulse commutation_rules allow_permutation instrs alap random sh so fixed ks ko = Some st ->
  forall i j : nat, (i < j)%nat -> (j < length instrs)%nat ->
    (exists q, uses (ith instrs i) q /\ uses (ith instrs j) q) ->
    (exists s, act_real R env (ith instrs j) (act_real R env (ith instrs i) s)
               <> act_real R env (ith instrs i) (act_real R env (ith instrs j) s)) ->
    (stt st i + idur (ith instrs i) <= stt st j)%Q.
Proof.
  intros R env perm instrs alap random sh so Hv fixed ks ko st Hs i j Hij Hj Hq [s Hne].
  apply (respects_dependencies commutation_rules perm instrs alap random sh so Hv fixed ks ko st Hs i j Hij Hj Hq).
  unfold commN. destruct perm; [|reflexivity].
  destruct (commutation_rules (nth j instrs dummy_instr) (nth i instrs dummy_instr)) eqn:E; [|reflexivity].
  exfalso. apply Hne. apply (SchedReal.real_H2 R env _ _ E).
Qed.
Print Assumptions respects_physical_dependencies.
