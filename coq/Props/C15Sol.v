(* C15, second part - the SOLUTION of the master equation and physical-state preservation, over the real/complex
   numbers (standard-library Reals + Coquelicot).  Axioms (Print Assumptions below): ClassicalDedekindReals.sig_forall_dec,
   ClassicalDedekindReals.sig_not_dec (the two classical axioms of the standard-library reals) and
   FunctionalExtensionality.functional_extensionality_dep (used by the construction of R itself); Classical_Prop.classic
   is not used.  First part (set-up code, rates, generator; axiom-free): Props/C15.v.
   NOT proved: uniqueness of solutions of the linear ODE; the numerical solver; multi-subsystem (entangled) positivity. *)
From Coq Require Import QArith List ZArith Reals.
From Coquelicot Require Import Coquelicot.
From QV Require Import Model.Relax Model.Lindblad Gen.Noise Proofs.Relax Proofs.Lindblad Proofs.RelaxLaw
                       Proofs.LindbladC Proofs.RelaxSolution Proofs.RelaxPhysical Proofs.RelaxSolution3 Proofs.RelaxPhysical3.
Import ListNotations.
Local Open Scope Q_scope.

(* ==== the SOLUTION of the master equation (real/complex numbers: standard-library Reals + Coquelicot; these theorems
        depend on the classical axioms of the real numbers, see Print Assumptions) ================================== *)
(* (1) two-level subsystem: the closed form (populations relaxing with e^{-t/t1}, coherences with e^{-t/t2}) built from
       the collapse terms the set-up code emits satisfies d/dt rho = L(rho) entrywise for every t, and starts at rho(0) *)
Theorem master_equation_two_level : forall a b r00 r01 r10 r11, valid a -> valid b -> compat a b -> forall t : R,
  derC (fun s => entry CC (sol a b r00 r01 r10 r11 s) 0 0) t (entry CC (rhs a b (sol a b r00 r01 r10 r11 t)) 0 0) /\
  derC (fun s => entry CC (sol a b r00 r01 r10 r11 s) 0 1) t (entry CC (rhs a b (sol a b r00 r01 r10 r11 t)) 0 1) /\
  derC (fun s => entry CC (sol a b r00 r01 r10 r11 s) 1 0) t (entry CC (rhs a b (sol a b r00 r01 r10 r11 t)) 1 0) /\
  derC (fun s => entry CC (sol a b r00 r01 r10 r11 s) 1 1) t (entry CC (rhs a b (sol a b r00 r01 r10 r11 t)) 1 1).
Proof. exact sol_master_equation. Qed.
Print Assumptions master_equation_two_level.
Theorem solution_initial_two_level : forall a b r00 r01 r10 r11, sol a b r00 r01 r10 r11 0%R = gen2 CC r00 r01 r10 r11.
Proof. exact sol_initial. Qed.
Print Assumptions solution_initial_two_level.

(* (2) on the closed form, for every t >= 0 and every pair the validation accepts: Hermitian, PSD, unit trace *)
Theorem solution_physical_two_level : forall a b r00 r01 r10 r11, valid a -> valid b -> compat a b ->
  state2 (gen2 CC r00 r01 r10 r11) -> forall t, (0 <= t)%R -> state2 (sol a b r00 r01 r10 r11 t).
Proof. exact sol_physical. Qed.
Print Assumptions solution_physical_two_level.
(* diag >= 0 and det >= 0 (the definition of psd2) is non-negativity of the quadratic form v^dag rho v *)
Theorem psd2_is_quadratic_form : forall m, herm2 m -> psd2 m -> forall u v, (0 <= quad2 m u v)%R.
Proof. exact psd2_quadratic. Qed.
Print Assumptions psd2_is_quadratic_form.
(* the validation boundary t2 <= 2 t1 is tight: for (t1, t2) = (1, 3), which the code rejects, the closed form started in
   |+><+| has a negative determinant at t = 3 *)
Theorem solution_physical_beyond_boundary_refuted :
  let a := Some 1%Q in let b := Some 3%Q in let h := RtoC (/ 2) in
  ~ compat a b /\ state2 (gen2 CC h h h h) /\ exists t, (0 <= t)%R /\ (det2 (sol a b h h h h t) < 0)%R.
Proof. exact sol_unphysical_beyond_boundary. Qed.
Print Assumptions solution_physical_beyond_boundary_refuted.

(* three-level subsystem: (i) a state in the qubit subspace follows the embedded two-level solution (no leakage);
   (ii) ARBITRARY 3x3 initial table: full closed form, entrywise master equation, initial value, trace, Hermiticity,
   non-negative populations; positive semidefiniteness: see solution_psd_three_level below. *)
Theorem master_equation_three_level_qubit : forall a b r00 r01 r10 r11, valid a -> valid b -> compat a b ->
  forall (t : R) (i j : nat), (i < 3)%nat -> (j < 3)%nat ->
  derC (fun s => entry CC (sol3 a b r00 r01 r10 r11 s) i j) t (entry CC (rhs3 a b (sol3 a b r00 r01 r10 r11 t)) i j).
Proof. exact sol3_master_equation. Qed.
Print Assumptions master_equation_three_level_qubit.
Theorem master_equation_three_level : forall a b r00 r01 r02 r10 r11 r12 r20 r21 r22, valid a -> valid b -> compat a b ->
  forall (t : R) (i j : nat), (i < 3)%nat -> (j < 3)%nat ->
  derC (fun s => entry CC (sol3full a b r00 r01 r02 r10 r11 r12 r20 r21 r22 s) i j) t
       (entry CC (rhs3 a b (sol3full a b r00 r01 r02 r10 r11 r12 r20 r21 r22 t)) i j).
Proof. exact sol3full_master_equation. Qed.
Print Assumptions master_equation_three_level.
Theorem solution_initial_three_level : forall a b r00 r01 r02 r10 r11 r12 r20 r21 r22,
  sol3full a b r00 r01 r02 r10 r11 r12 r20 r21 r22 0%R = gen3 CC r00 r01 r02 r10 r11 r12 r20 r21 r22.
Proof. exact sol3full_initial. Qed.
Print Assumptions solution_initial_three_level.
Theorem solution_trace_three_level : forall a b r00 r01 r02 r10 r11 r12 r20 r21 r22 t,
  trace CC 3 (sol3full a b r00 r01 r02 r10 r11 r12 r20 r21 r22 t) = Cplus r00 (Cplus r11 r22).
Proof. exact sol3full_trace. Qed.
Print Assumptions solution_trace_three_level.
Theorem solution_hermitian_three_level : forall a b r00 r01 r02 r10 r11 r12 r20 r21 r22 t,
  herm3 (gen3 CC r00 r01 r02 r10 r11 r12 r20 r21 r22) -> herm3 (sol3full a b r00 r01 r02 r10 r11 r12 r20 r21 r22 t).
Proof. exact sol3full_hermitian. Qed.
Print Assumptions solution_hermitian_three_level.
Theorem solution_populations_three_level : forall a b r00 r01 r02 r10 r11 r12 r20 r21 r22 t, valid a -> (0 <= t)%R ->
  (0 <= fst r00)%R -> (0 <= fst r11)%R -> (0 <= fst r22)%R -> snd r11 = 0%R -> snd r22 = 0%R ->
  let m := sol3full a b r00 r01 r02 r10 r11 r12 r20 r21 r22 t in
  (0 <= fst (entry CC m 0 0))%R /\ (0 <= fst (entry CC m 1 1))%R /\ (0 <= fst (entry CC m 2 2))%R.
Proof. exact sol3full_populations. Qed.
Print Assumptions solution_populations_three_level.

(* three-level truncation: the closed form keeps the quadratic form v^dag rho v non-negative (positive semidefinite) for
   every t >= 0 and every accepted pair; with the trace: a physical three-level state stays physical *)
Theorem quad3_is_real_form : forall m p0 q0 p1 q1 p2 q2, herm3 m ->
  quad3 m (p0, q0) (p1, q1) (p2, q2) = RtoC (QM m p0 q0 p1 q1 p2 q2).
Proof. exact quad3_QM. Qed.
Print Assumptions quad3_is_real_form.
Theorem solution_psd_three_level : forall a b r00 r01 r02 r10 r11 r12 r20 r21 r22, valid a -> valid b -> compat a b ->
  psd3 (gen3 CC r00 r01 r02 r10 r11 r12 r20 r21 r22) ->
  forall t, (0 <= t)%R -> psd3 (sol3full a b r00 r01 r02 r10 r11 r12 r20 r21 r22 t).
Proof. exact sol3full_psd. Qed.
Print Assumptions solution_psd_three_level.
Theorem solution_physical_three_level : forall a b r00 r01 r02 r10 r11 r12 r20 r21 r22, valid a -> valid b -> compat a b ->
  state3 (gen3 CC r00 r01 r02 r10 r11 r12 r20 r21 r22) ->
  forall t, (0 <= t)%R -> state3 (sol3full a b r00 r01 r02 r10 r11 r12 r20 r21 r22 t).
Proof. exact sol3full_physical. Qed.
Print Assumptions solution_physical_three_level.

(* ---- non-vacuity: the complex numbers are a model of the abstract ring, an accepted pair and a physical state exist --- *)
Example complex_instance : exists (R : cring) (h : qhom R), K R = C.
Proof. exists CC, CC_hom. reflexivity. Qed.
Example physical_state_exists : state2 (gen2 CC (RtoC (/ 2)) (RtoC (/ 2)) (RtoC (/ 2)) (RtoC (/ 2))).
Proof. exact (proj1 (proj2 sol_unphysical_beyond_boundary)). Qed.
