(* C15 - T1/T2 decoherence has exactly the specified rates and keeps states physical.

   PARTIAL.  Proved here, for the set-up code AS TRANSLATED FROM THE CURRENT SOURCE (Gen.Noise, regenerated on every
   run from qutip_qip/noise.py) and for ALL rational times, register sizes and per-qubit lists:
     - validation (non-positive scalars, wrong lengths, non-positive list entries, t2 > 2 t1 are rejected);
     - totality on the admissible domain INCLUDING the boundary t2 = 2 t1, with the exact emitted terms;
     - the emitted rates: damping = 1/t1, damping + dephasing = 2/t2;
     - no inf/nan coefficient, no ZeroDivisionError, for every input;
     - the Lindblad generator of the emitted terms gives  t1 * d/dt rho_11 = - rho_11,  t2 * d/dt rho_01 = - rho_01
       on a two-level system, on the qubit subspace of a three-level system, and for <n>, <a> of any three-level state;
     - the dissipator of ANY collapse operator (dimension 2, 3) is traceless and Hermiticity preserving;
       a collapse operator on one subsystem does not move the reduced state of the other and moves its own by the
       local dissipator (bipartite registers 2x2, 2x3, 3x2, 3x3).
     - (stated in Props/C15Sol.v; Reals + Coquelicot, classical real-number axioms) the closed-form density matrix of one idle two-level subsystem
       SOLVES the master equation d/dt rho = L(rho) built from the emitted collapse terms, entrywise for every t, with
       rho(0) the given state; it stays Hermitian, positive semidefinite and of unit trace for all t >= 0 whenever the
       validation accepts (t2 <= 2 t1), and leaves the positive cone for a rejected pair (boundary is tight);
       three-level truncation: full closed form solves the master equation and stays Hermitian, positive
       semidefinite and of unit trace for all t >= 0 (Kraus identity for the damping + Schur product with q^((i-j)^2)).
   NOT modelled (TRUSTED / external): UNIQUENESS of the solution of the linear ODE (Picard-Lindelof: that the solver's
   exact target is this closed form); qutip.mesolve itself and "to solver tolerance"; positive semidefiniteness of
   multi-subsystem (entangled) states, i.e. complete positivity in general; registers of more than two subsystems
   in the independence statement; ControlAmpNoise/RandomNoise/ZZCrossTalk (checked numerically by the harness only). *)
From Coq Require Import QArith List ZArith.
From QV Require Import Model.Relax Model.Lindblad Gen.Noise Proofs.Relax Proofs.Lindblad Proofs.RelaxLaw Proofs.LindbladInst
                       Proofs.LindbladBip22 Proofs.LindbladBip23 Proofs.LindbladBip32
                       Proofs.LindbladBip33a Proofs.LindbladBip33b Proofs.LindbladBip33c Proofs.LindbladBip33d.
Import ListNotations.
Local Open Scope Q_scope.

(* ---- set-up: totality with the exact result (boundary included: compat is t2 <= 2 t1) ------------------------ *)
Theorem relax_setup_total : forall N l1 l2, admissible N l1 l2 ->
  S N None (TList l1) (TList l2)
  = Ok (flat_map (fun q => map (tag q) (spec_ops (nth q l1 None) (nth q l2 None))) (seq 0 N)).
Proof. exact setup_lists_ok. Qed.
Print Assumptions relax_setup_total.

Theorem relax_setup_total_scalars : forall N (a b : option Q), valid a -> valid b -> compat a b ->
  S N None (match a with Some t => TScalar t | None => TNone end) (match b with Some t => TScalar t | None => TNone end)
  = Ok (flat_map (fun q => map (tag q) (spec_ops a b)) (seq 0 N)).
Proof. exact setup_scalars_ok. Qed.
Print Assumptions relax_setup_total_scalars.

(* scalars / None behave exactly as the constant per-qubit lists, for any targets *)
Theorem relax_scalar_is_constant_list : forall N tg T1 T2, scalar_ok T1 -> scalar_ok T2 ->
  S N tg T1 T2 = S N tg (TList (as_list N T1)) (TList (as_list N T2)).
Proof. exact setup_as_list. Qed.
Print Assumptions relax_scalar_is_constant_list.

(* ---- the rates of the terms emitted for one subsystem -------------------------------------------------------- *)
Theorem relax_rates : forall a b, valid a -> valid b -> compat a b -> rates_ok a b (spec_ops a b).
Proof. exact spec_ops_rates. Qed.
Print Assumptions relax_rates.

(* ---- validation --------------------------------------------------------------------------------------------- *)
Theorem relax_rejects_nonpositive_t1 : forall N tg t T2, t <= 0 -> S N tg (TScalar t) T2 = Raised ErrValue.
Proof. exact validation_scalar_t1. Qed.
Print Assumptions relax_rejects_nonpositive_t1.
Theorem relax_rejects_nonpositive_t2 : forall N tg t T1, t <= 0 -> is_rejected (S N tg T1 (TScalar t)) = true.
Proof. exact validation_scalar_t2. Qed.
Print Assumptions relax_rejects_nonpositive_t2.
Theorem relax_rejects_wrong_length_t1 : forall N tg l T2, length l <> N -> S N tg (TList l) T2 = Raised ErrValue.
Proof. exact validation_length_t1. Qed.
Print Assumptions relax_rejects_wrong_length_t1.
Theorem relax_rejects_wrong_length_t2 : forall N tg l T1, length l <> N -> is_rejected (S N tg T1 (TList l)) = true.
Proof. exact validation_length_t2. Qed.
Print Assumptions relax_rejects_wrong_length_t2.
Theorem relax_rejects_nonpositive_entry_t1 : forall N tg l t T2, In (Some t) l -> t <= 0 -> S N tg (TList l) T2 = Raised ErrValue.
Proof. exact validation_entry_t1. Qed.
Print Assumptions relax_rejects_nonpositive_entry_t1.
Theorem relax_rejects_nonpositive_entry_t2 : forall N tg l t T1, In (Some t) l -> t <= 0 -> is_rejected (S N tg T1 (TList l)) = true.
Proof. exact validation_entry_t2. Qed.
Print Assumptions relax_rejects_nonpositive_entry_t2.
Theorem relax_rejects_t2_gt_2t1 : forall N tg T1 T2 q t1 t2,
  In q (match tg with None => seq 0 N | Some ts => ts end) ->
  nth_error (as_list N T1) q = Some (Some t1) -> nth_error (as_list N T2) q = Some (Some t2) -> 2 * t1 < t2 ->
  is_rejected (S N tg T1 T2) = true.
Proof. exact setup_reject_t2_gt_2t1. Qed.
Print Assumptions relax_rejects_t2_gt_2t1.

(* ---- for EVERY input: either collapse terms with finite coefficients, or an exception that is not a
        ZeroDivisionError/TypeError; never inf/nan (NonFinite), never outside the model (Unsupported) ------------- *)
Theorem relax_setup_outcomes : forall N tg T1 T2,
  (exists ops, S N tg T1 T2 = Ok ops) \/ (exists e, S N tg T1 T2 = Raised e /\ e <> ErrZeroDiv /\ e <> ErrType).
Proof. exact setup_outcomes. Qed.
Print Assumptions relax_setup_outcomes.

(* ---- the unchanged code violates totality at the boundary and produces nan/inf coefficients ------------------- *)
Theorem relax_setup_total_refuted : exists N a b, valid a /\ valid b /\ compat a b /\
  S0 N None (match a with Some t => TScalar t | None => TNone end) (match b with Some t => TScalar t | None => TNone end)
  = Raised ErrZeroDiv.
Proof. exact total_refuted_v0. Qed.
Print Assumptions relax_setup_total_refuted.
Theorem relax_setup_outcomes_refuted : exists N tg T1 T2, S0 N tg T1 T2 = NonFinite.
Proof. exact outcomes_refuted_v0. Qed.
Print Assumptions relax_setup_outcomes_refuted.

(* ---- coefficient vs rate: the dissipator of c*A is (c conj c) times the dissipator of A ------------------------ *)
Theorem coefficient_squared_is_rate2 : forall (R : cring) c a b d e r00 r01 r10 r11,
  lind R 2 (mscale R 2 c (gen2 R a b d e)) (gen2 R r00 r01 r10 r11)
  = mscale R 2 (kmul R c (conj R c)) (lind R 2 (gen2 R a b d e) (gen2 R r00 r01 r10 r11)).
Proof. exact lind_scale2. Qed.
Print Assumptions coefficient_squared_is_rate2.
Theorem coefficient_squared_is_rate3 : forall (R : cring) c a0 a1 a2 a3 a4 a5 a6 a7 a8 r0 r1 r2 r3 r4 r5 r6 r7 r8,
  lind R 3 (mscale R 3 c (gen3 R a0 a1 a2 a3 a4 a5 a6 a7 a8)) (gen3 R r0 r1 r2 r3 r4 r5 r6 r7 r8)
  = mscale R 3 (kmul R c (conj R c)) (lind R 3 (gen3 R a0 a1 a2 a3 a4 a5 a6 a7 a8) (gen3 R r0 r1 r2 r3 r4 r5 r6 r7 r8)).
Proof. exact lind_scale3. Qed.
Print Assumptions coefficient_squared_is_rate3.

(* ---- the decay law (division free: t * (L rho)_ij = - rho_ij) -------------------------------------------------- *)
Theorem decay_law_two_level : forall (R : cring) (h : qhom R) a b, valid a -> valid b -> compat a b -> forall r00 r01 r10 r11,
  let G := gen_terms R h 2 (opmat2 R) (spec_ops a b) (gen2 R r00 r01 r10 r11) in
  decays R h a b (entry R G 1 1) (entry R G 0 1) r11 r01 /\ decays R h a b (entry R G 1 1) (entry R G 1 0) r11 r10 /\
  entry R G 0 0 = kopp R (entry R G 1 1).
Proof. exact decay_law2. Qed.
Print Assumptions decay_law_two_level.

Theorem decay_law_three_level_qubit : forall (R : cring) (h : qhom R) a b, valid a -> valid b -> compat a b -> forall r00 r01 r10 r11,
  let G := gen_terms R h 3 (opmat3 R) (spec_ops a b) (gen3 R r00 r01 (k0 R) r10 r11 (k0 R) (k0 R) (k0 R) (k0 R)) in
  decays R h a b (entry R G 1 1) (entry R G 0 1) r11 r01 /\ decays R h a b (entry R G 1 1) (entry R G 1 0) r11 r10 /\
  entry R G 0 0 = kopp R (entry R G 1 1) /\
  entry R G 0 2 = k0 R /\ entry R G 1 2 = k0 R /\ entry R G 2 0 = k0 R /\ entry R G 2 1 = k0 R /\ entry R G 2 2 = k0 R.
Proof. exact decay_law3_qubit. Qed.
Print Assumptions decay_law_three_level_qubit.

Theorem decay_law_three_level_moments : forall (R : cring) (h : qhom R) a b, valid a -> valid b -> compat a b ->
  forall r0 r1 r2 r3 r4 r5 r6 r7 r8,
  let rho := gen3 R r0 r1 r2 r3 r4 r5 r6 r7 r8 in
  let G := gen_terms R h 3 (opmat3 R) (spec_ops a b) rho in
  decays R h a b (trace R 3 (mmul R 3 (num3 R) G)) (trace R 3 (mmul R 3 (destroy3 R) G))
                 (trace R 3 (mmul R 3 (num3 R) rho)) (trace R 3 (mmul R 3 (destroy3 R) rho)).
Proof. exact decay_law3_moments. Qed.
Print Assumptions decay_law_three_level_moments.

(* ---- trace and Hermiticity preservation for ARBITRARY collapse operators / Hamiltonians (dimension 2, 3) -------- *)
Theorem lindblad_trace_zero2 : forall (R : cring) a b d e r00 r01 r10 r11,
  trace R 2 (lind R 2 (gen2 R a b d e) (gen2 R r00 r01 r10 r11)) = k0 R.
Proof. exact lind_trace2. Qed.
Print Assumptions lindblad_trace_zero2.
Theorem lindblad_trace_zero3 : forall (R : cring) a0 a1 a2 a3 a4 a5 a6 a7 a8 r0 r1 r2 r3 r4 r5 r6 r7 r8,
  trace R 3 (lind R 3 (gen3 R a0 a1 a2 a3 a4 a5 a6 a7 a8) (gen3 R r0 r1 r2 r3 r4 r5 r6 r7 r8)) = k0 R.
Proof. exact lind_trace3. Qed.
Print Assumptions lindblad_trace_zero3.
Theorem lindblad_hermitian2 : forall (R : cring) a b d e r00 r01 r10 r11,
  adj R 2 (lind R 2 (gen2 R a b d e) (gen2 R r00 r01 r10 r11)) = lind R 2 (gen2 R a b d e) (adj R 2 (gen2 R r00 r01 r10 r11)).
Proof. exact lind_herm2. Qed.
Print Assumptions lindblad_hermitian2.
Theorem lindblad_hermitian3 : forall (R : cring) a0 a1 a2 a3 a4 a5 a6 a7 a8 r0 r1 r2 r3 r4 r5 r6 r7 r8,
  adj R 3 (lind R 3 (gen3 R a0 a1 a2 a3 a4 a5 a6 a7 a8) (gen3 R r0 r1 r2 r3 r4 r5 r6 r7 r8))
  = lind R 3 (gen3 R a0 a1 a2 a3 a4 a5 a6 a7 a8) (adj R 3 (gen3 R r0 r1 r2 r3 r4 r5 r6 r7 r8)).
Proof. exact lind_herm3. Qed.
Print Assumptions lindblad_hermitian3.
Theorem commutator_trace_zero3 : forall (R : cring) iu h0 h1 h2 h3 h4 h5 h6 h7 h8 r0 r1 r2 r3 r4 r5 r6 r7 r8,
  trace R 3 (comm R 3 iu (gen3 R h0 h1 h2 h3 h4 h5 h6 h7 h8) (gen3 R r0 r1 r2 r3 r4 r5 r6 r7 r8)) = k0 R.
Proof. exact comm_trace3. Qed.
Print Assumptions commutator_trace_zero3.
Theorem commutator_hermitian2 : forall (R : cring) iu h00 h01 h10 h11 r00 r01 r10 r11,
  conj R iu = kopp R iu -> adj R 2 (gen2 R h00 h01 h10 h11) = gen2 R h00 h01 h10 h11 ->
  adj R 2 (comm R 2 iu (gen2 R h00 h01 h10 h11) (gen2 R r00 r01 r10 r11))
  = comm R 2 iu (gen2 R h00 h01 h10 h11) (adj R 2 (gen2 R r00 r01 r10 r11)).
Proof. exact comm_herm2. Qed.
Print Assumptions commutator_hermitian2.

(* ---- independence across subsystems: bipartite registers A (x) B of dimensions 2x2, 2x3, 3x2, 3x3, ARBITRARY tables
        rho = mk n f and C = mk d c.  other: a collapse operator on one subsystem leaves the reduced state of the other
        untouched; own: it moves the reduced state of its subsystem by its own local dissipator ------------------------ *)
Theorem independent_other_subsystem_22 : forall (R : cring) f c,
  ptraceB R 2 2 (lind R 4 (kron R 2 2 (ident R 2) (mk R 2 c)) (mk R 4 f)) = mzero R 2 /\
  ptraceA R 2 2 (lind R 4 (kron R 2 2 (mk R 2 c) (ident R 2)) (mk R 4 f)) = mzero R 2.
Proof. exact (fun R f c => Logic.conj (other_B_22 R f c) (other_A_22 R f c)). Qed.
Print Assumptions independent_other_subsystem_22.
Theorem independent_own_subsystem_22 : forall (R : cring) f c,
  ptraceB R 2 2 (lind R 4 (kron R 2 2 (mk R 2 c) (ident R 2)) (mk R 4 f)) = lind R 2 (mk R 2 c) (ptraceB R 2 2 (mk R 4 f)) /\
  ptraceA R 2 2 (lind R 4 (kron R 2 2 (ident R 2) (mk R 2 c)) (mk R 4 f)) = lind R 2 (mk R 2 c) (ptraceA R 2 2 (mk R 4 f)).
Proof. exact (fun R f c => Logic.conj (own_A_22 R f c) (own_B_22 R f c)). Qed.
Print Assumptions independent_own_subsystem_22.
Theorem independent_other_subsystem_23 : forall (R : cring) f c,
  ptraceB R 2 3 (lind R 6 (kron R 2 3 (ident R 2) (mk R 3 c)) (mk R 6 f)) = mzero R 2 /\
  ptraceA R 2 3 (lind R 6 (kron R 2 3 (mk R 2 c) (ident R 3)) (mk R 6 f)) = mzero R 3.
Proof. exact (fun R f c => Logic.conj (other_B_23 R f c) (other_A_23 R f c)). Qed.
Print Assumptions independent_other_subsystem_23.
Theorem independent_own_subsystem_23 : forall (R : cring) f c,
  ptraceB R 2 3 (lind R 6 (kron R 2 3 (mk R 2 c) (ident R 3)) (mk R 6 f)) = lind R 2 (mk R 2 c) (ptraceB R 2 3 (mk R 6 f)) /\
  ptraceA R 2 3 (lind R 6 (kron R 2 3 (ident R 2) (mk R 3 c)) (mk R 6 f)) = lind R 3 (mk R 3 c) (ptraceA R 2 3 (mk R 6 f)).
Proof. exact (fun R f c => Logic.conj (own_A_23 R f c) (own_B_23 R f c)). Qed.
Print Assumptions independent_own_subsystem_23.
Theorem independent_other_subsystem_32 : forall (R : cring) f c,
  ptraceB R 3 2 (lind R 6 (kron R 3 2 (ident R 3) (mk R 2 c)) (mk R 6 f)) = mzero R 3 /\
  ptraceA R 3 2 (lind R 6 (kron R 3 2 (mk R 3 c) (ident R 2)) (mk R 6 f)) = mzero R 2.
Proof. exact (fun R f c => Logic.conj (other_B_32 R f c) (other_A_32 R f c)). Qed.
Print Assumptions independent_other_subsystem_32.
Theorem independent_own_subsystem_32 : forall (R : cring) f c,
  ptraceB R 3 2 (lind R 6 (kron R 3 2 (mk R 3 c) (ident R 2)) (mk R 6 f)) = lind R 3 (mk R 3 c) (ptraceB R 3 2 (mk R 6 f)) /\
  ptraceA R 3 2 (lind R 6 (kron R 3 2 (ident R 3) (mk R 2 c)) (mk R 6 f)) = lind R 2 (mk R 2 c) (ptraceA R 3 2 (mk R 6 f)).
Proof. exact (fun R f c => Logic.conj (own_A_32 R f c) (own_B_32 R f c)). Qed.
Print Assumptions independent_own_subsystem_32.
Theorem independent_other_subsystem_33 : forall (R : cring) f c,
  ptraceB R 3 3 (lind R 9 (kron R 3 3 (ident R 3) (mk R 3 c)) (mk R 9 f)) = mzero R 3 /\
  ptraceA R 3 3 (lind R 9 (kron R 3 3 (mk R 3 c) (ident R 3)) (mk R 9 f)) = mzero R 3.
Proof. exact (fun R f c => Logic.conj (other_B_33 R f c) (other_A_33 R f c)). Qed.
Print Assumptions independent_other_subsystem_33.
Theorem independent_own_subsystem_33 : forall (R : cring) f c,
  ptraceB R 3 3 (lind R 9 (kron R 3 3 (mk R 3 c) (ident R 3)) (mk R 9 f)) = lind R 3 (mk R 3 c) (ptraceB R 3 3 (mk R 9 f)) /\
  ptraceA R 3 3 (lind R 9 (kron R 3 3 (ident R 3) (mk R 3 c)) (mk R 9 f)) = lind R 3 (mk R 3 c) (ptraceA R 3 3 (mk R 9 f)).
Proof. exact (fun R f c => Logic.conj (own_A_33 R f c) (own_B_33 R f c)). Qed.
Print Assumptions independent_own_subsystem_33.

(* ---- non-vacuity ------------------------------------------------------------------------------------------------ *)
(* the hypotheses valid/compat/admissible are inhabited, at the boundary t2 = 2 t1 and with mixed None entries *)
Example admissible_inhabited : admissible 2 [Some (1#2); None] [Some 1; Some 3].
Proof. exact ex_admissible. Qed.
Example boundary_runs : S 2 None (TScalar 1) (TScalar 2) = Ok [(0%nat, KDestroy, 1%Z, 1 * 1 / 1); (1%nat, KDestroy, 1%Z, 1 * 1 / 1)].
Proof. exact ex_boundary. Qed.
(* a ring with involution, 1/2, sqrt 2 and the rationals inside exists: Q(sqrt 2, i) *)
Example cring_inhabited : exists (R : cring) (h : qhom R), phi R h 2 = kmul R (s2 R) (s2 R) /\ k0 R <> k1 R.
Proof. exists CQ2, CQ2_hom. split; [vm_compute; reflexivity | discriminate]. Qed.
