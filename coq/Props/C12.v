From QV Require Import Model.Concat.
