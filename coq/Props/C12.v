(* C12 -- compiled control pulses are exactly the scheduled instruction waveforms.

   Model: QV.Model.Concat (GateCompiler.compile / _schedule / _process_gate_pulse /
   _process_idling_tlist / _concatenate_pulses in exact rationals).
     fx = true : code with fixes/C12-first-pulse-flag.diff (explicit first-pulse flag)
     gx = true : code with fixes/C12-idle-gap-time-resolution.diff (idle-gap test against
                 time_resolution = 1e-14 * latest end time instead of 1e-6 * step of the next pulse)
   false = the respective unchanged test.  The theorems are about (true, true).

   Full statement aimed at (property text): for every compiler, gate list and scheduling mode every
   returned channel has a grid starting at 0 and strictly increasing, a coefficient array that fits
   the grid for its pulse kind, takes inside each instruction window that instruction's waveform
   and is zero elsewhere, whatever the ratios of the durations.

   What is proved, for ALL instruction lists / channels / durations (no size bound):
     grid_starts_zero, coeff_length_fits      unconditionally;
     grid_strictly_increasing                 for well-formed, time-ordered, non-overlapping channels
                                              (chain_ord), any duration ratios;
     compiled_is_waveform, window_waveform,
     zero_elsewhere                           for discrete channels.  The former guard "gap = 0 or
                                              gap > 1e-6 * step of the next instruction" is gone; what is
                                              left is the float-resolution guard gaps_ok (gap_tol true res):
                                              an idle gap is 0 or exceeds 1e-14 * (latest end time of the
                                              schedule), about 45 ulp of a double at that time.  In exact
                                              arithmetic it cannot be dropped (resolution_guard_needed_refuted);
     instruction_block, grid_concatenation    both modes: the returned arrays are [0] / earlier blocks / idle grid /
                                              the instruction's own block (same offset in both arrays) / later
                                              blocks; the idle grid is exactly _process_idling_tlist of the
                                              previous window end;
     window_grid, continuous_aligned,
     continuous_points, continuous_idle_grid  continuous (spline) channels: the grid points inside a window
                                              (start, end] are exactly the instruction's samples k >= 1, each
                                              at ONE index of tlist and coeff; every other grid point carries 0
                                              and lies in no window; the idle grid spelled out (2 x 10-point
                                              linspace / arange / nothing).  NOT covered: the values of the
                                              interpolating spline between grid points;
     unfixed_*_refuted, step_tolerance_gap_refuted
                                              the unchanged tests violate the clauses;
     fix_is_conservative, idle_fix_is_conservative
                                              each repair leaves the arrays unchanged on ordinary inputs. *)
From Coq Require Import List QArith Qabs.
From QV Require Import Model.Concat Proofs.ConcatGrid Proofs.ConcatWave Proofs.ConcatAll
     Proofs.ConcatChannels Proofs.ConcatRefute Proofs.ConcatTop Proofs.ConcatBlocks.
Import ListNotations.
Open Scope Q_scope.

(* compile = time ordering + per-name channel lists + _concatenate_pulses; the list of a pulse name
   is exactly the instructions that use the name, in time order *)
Theorem compile_structure : forall fx gx sched il out,
  il <> [] -> compile fx gx sched il = Some out ->
  exists sil chs outs,
    scheduled sched il = Some sil /\ build_channels sil = Some chs /\
    NoDup (map fst chs) /\ (forall n l, In (n, l) chs -> l = pulses_of n sil) /\
    concatenate_pulses fx gx (map snd chs) = Some outs /\ out = combine (map fst chs) outs.
Proof. exact ConcatTop.compile_structure. Qed.
Print Assumptions compile_structure.

(* scheduled modes: the instructions are handed on ordered by start time, none lost or invented *)
Theorem time_order_sorted : forall st il sil,
  scheduled (Some st) il = Some sil ->
  sorted_starts sil /\ forall y, In y sil <-> In y (combine st il).
Proof. exact ConcatTop.scheduled_sorted. Qed.
Print Assumptions time_order_sorted.

(* clause: the time grid of every returned channel starts at zero (any durations) *)
Theorem grid_starts_zero : forall sched il out n ts cs,
  compile true true sched il = Some out -> In (n, (ts, cs)) out -> exists r, ts = 0 :: r.
Proof. exact ConcatTop.compile_grid_starts_zero. Qed.
Print Assumptions grid_starts_zero.

(* clause: the coefficient array fits the grid for the pulse kind (any durations) *)
Theorem coeff_length_fits : forall chs outs k i rest ts cs,
  concatenate_pulses true true chs = Some outs ->
  nth_error chs k = Some (i :: rest) -> nth_error outs k = Some (ts, cs) ->
  (is_discrete (p_wave i) /\ length ts = S (length cs)) \/
  (is_continuous (p_wave i) /\ ~ is_discrete (p_wave i) /\ length ts = length cs).
Proof. exact ConcatAll.all_lengths. Qed.
Print Assumptions coeff_length_fits.

(* clause: every grid increases strictly -- whatever the relative magnitudes of the durations *)
Theorem grid_strictly_increasing : forall chs outs,
  Forall (chain_ord 0) chs ->
  concatenate_pulses true true chs = Some outs ->
  Forall (fun o => strictly_increasing (fst o)) outs.
Proof. exact ConcatAll.all_increasing. Qed.
Print Assumptions grid_strictly_increasing.

(* clauses window + zero in one: as a function of time the compiled discrete channel IS the
   scheduled waveform *)
Theorem compiled_is_waveform : forall chs outs k l ts cs,
  concatenate_pulses true true chs = Some outs ->
  nth_error chs k = Some l -> nth_error outs k = Some (ts, cs) ->
  chain_ord 0 l -> gaps_ok (gap_tol true (res_of chs)) 0 l -> Forall (fun i => is_discrete (p_wave i)) l ->
  forall t, eval_step ts cs t = spec_eval l t.
Proof. exact ConcatAll.all_waveform. Qed.
Print Assumptions compiled_is_waveform.

Theorem window_waveform : forall chs outs k l ts cs,
  concatenate_pulses true true chs = Some outs ->
  nth_error chs k = Some l -> nth_error outs k = Some (ts, cs) ->
  chain_ord 0 l -> gaps_ok (gap_tol true (res_of chs)) 0 l -> Forall (fun i => is_discrete (p_wave i)) l ->
  forall i t, In i l -> p_start i <= t -> t < p_end i ->
  eval_step ts cs t = eval_step (w_ts (p_wave i)) (w_cs (p_wave i)) (t - p_start i).
Proof. exact ConcatTop.window_waveform. Qed.
Print Assumptions window_waveform.

Theorem zero_elsewhere : forall chs outs k l ts cs,
  concatenate_pulses true true chs = Some outs ->
  nth_error chs k = Some l -> nth_error outs k = Some (ts, cs) ->
  chain_ord 0 l -> gaps_ok (gap_tol true (res_of chs)) 0 l -> Forall (fun i => is_discrete (p_wave i)) l ->
  forall t, (forall i, In i l -> ~ (p_start i <= t /\ t < p_end i)) -> eval_step ts cs t = 0.
Proof. exact ConcatTop.zero_elsewhere. Qed.
Print Assumptions zero_elsewhere.

(* continuous channels, membership form (superseded by continuous_points / continuous_aligned below; kept as the
   order-free statement).  PARTIAL only in that the interpolating spline between grid points is not modelled *)
Theorem continuous_samples_partial : forall chs outs k l ts cs,
  concatenate_pulses true true chs = Some outs ->
  nth_error chs k = Some l -> nth_error outs k = Some (ts, cs) ->
  Forall wf_cont l ->
  length ts = length cs /\
  (forall i, In i l -> incl (samples i) (combine ts cs)) /\
  (forall t c, In (t, c) (combine ts cs) -> c = 0 \/ exists i, In i l /\ In (t, c) (samples i)).
Proof. exact ConcatAll.all_samples. Qed.
Print Assumptions continuous_samples_partial.

(* ---- bookkeeping of the concatenation (both pulse modes; what a spline channel is made of) ---- *)

(* the block of instruction i: its times and coefficients stand contiguously in the two arrays, everything
   before is at or before its start, everything after is beyond its end *)
Theorem instruction_block : forall chs outs k l ts cs,
  Forall (chain_ord 0) chs ->
  concatenate_pulses true true chs = Some outs ->
  nth_error chs k = Some l -> nth_error outs k = Some (ts, cs) ->
  forall i, In i l ->
  exists A B cA cB,
    ts = A ++ exec_times i ++ B /\ cs = cA ++ exec_coeffs i ++ cB /\
    match l with
    | j :: _ => (is_discrete (p_wave j) /\ length A = S (length cA)) \/
                (is_continuous (p_wave j) /\ ~ is_discrete (p_wave j) /\ length A = length cA)
    | [] => False
    end /\
    (forall x, In x A -> x <= p_start i) /\ (forall x, In x B -> p_end i < x).
Proof. exact ConcatBlocks.all_split. Qed.
Print Assumptions instruction_block.

(* what stands immediately in front of the block: the idle grid computed from the end of the previous window *)
Theorem grid_concatenation : forall chs outs k l1 i l2 ts cs,
  Forall (chain_ord 0) chs ->
  concatenate_pulses true true chs = Some outs ->
  nth_error chs k = Some (l1 ++ i :: l2) -> nth_error outs k = Some (ts, cs) ->
  exists A0 idl B prev,
    prev == prev_end 0 l1 /\
    idle_before (gap_tol true (res_of chs)) i prev = Some idl /\
    ts = 0 :: A0 ++ idl ++ exec_times i ++ B /\
    exists cA0 cB, cs = cA0 ++ zeros idl ++ exec_coeffs i ++ cB /\
                   (length (0 :: A0) = S (length cA0) \/ length (0 :: A0) = length cA0).
Proof. exact ConcatBlocks.grid_concatenation. Qed.
Print Assumptions grid_concatenation.

Theorem continuous_idle_grid : forall gtl i prev,
  mode_of i = Continuous ->
  idle_before gtl i prev =
  let s := p_start i in let h := step_of (p_wave i) in
  if Qlt_b (gtl h) (Qabs (s - prev)) then
    if Qlt_b (3 * h) (s - prev)
    then Some (linspace10 (prev + h / 5) (prev + h) ++ linspace10 (s - h) s)
    else if Qeq_bool h 0 then None else Some (arange (prev + h) s h)
  else Some [].
Proof. exact ConcatBlocks.idle_before_continuous. Qed.
Print Assumptions continuous_idle_grid.

(* no foreign grid point inside a window *)
Theorem window_grid : forall chs outs k l ts cs,
  Forall (chain_ord 0) chs ->
  concatenate_pulses true true chs = Some outs ->
  nth_error chs k = Some l -> nth_error outs k = Some (ts, cs) ->
  forall i t, In i l -> In t ts -> p_start i < t -> t <= p_end i -> In t (exec_times i).
Proof. exact ConcatBlocks.window_grid. Qed.
Print Assumptions window_grid.

(* continuous channel: sample n+1 of an instruction sits at one and the same index of tlist and coeff *)
Theorem continuous_aligned : forall chs outs k l ts cs,
  Forall (chain_ord 0) chs ->
  concatenate_pulses true true chs = Some outs ->
  nth_error chs k = Some l -> nth_error outs k = Some (ts, cs) ->
  Forall wf_cont l ->
  forall i, In i l ->
  exists off,
    forall n, (n < length (exec_times i))%nat ->
      nth_error ts (off + n) = nth_error (exec_times i) n /\
      nth_error cs (off + n) = nth_error (tl (w_cs (p_wave i))) n.
Proof. exact ConcatBlocks.continuous_aligned. Qed.
Print Assumptions continuous_aligned.

(* continuous channel, every grid point: a sample of the instruction whose window contains it, or a zero
   outside all windows *)
Theorem continuous_points : forall chs outs k l ts cs,
  Forall (chain_ord 0) chs ->
  concatenate_pulses true true chs = Some outs ->
  nth_error chs k = Some l -> nth_error outs k = Some (ts, cs) ->
  Forall wf_cont l ->
  forall p t c, nth_error ts p = Some t -> nth_error cs p = Some c ->
  (exists i n, In i l /\ p_start i < t /\ t <= p_end i /\
               nth_error (exec_times i) n = Some t /\ nth_error (tl (w_cs (p_wave i))) n = Some c) \/
  (c = 0 /\ forall i, In i l -> ~ (p_start i < t /\ t <= p_end i)).
Proof. exact ConcatBlocks.continuous_points. Qed.
Print Assumptions continuous_points.

(* the unchanged code: refuted *)
Theorem unfixed_grid_refuted :
  exists chs outs, Forall (chain_ord 0) chs /\ Forall (gaps_ok (gap_tol false 0) 0) chs /\
                   concatenate_pulses false false chs = Some outs /\
                   ~ Forall (fun o => strictly_increasing (fst o)) outs.
Proof. exact ConcatRefute.unfixed_grid_refuted. Qed.
Print Assumptions unfixed_grid_refuted.

Theorem unfixed_length_refuted :
  exists chs outs i rest ts cs,
    Forall (chain_ord 0) chs /\ Forall (gaps_ok (gap_tol false 0) 0) chs /\
    concatenate_pulses false false chs = Some outs /\
    nth_error chs 0 = Some (i :: rest) /\ nth_error outs 0 = Some (ts, cs) /\
    is_discrete (p_wave i) /\ length ts <> S (length cs).
Proof. exact ConcatRefute.unfixed_length_refuted. Qed.
Print Assumptions unfixed_length_refuted.

(* the step-size tolerance of the unchanged idle-gap test swallows a real gap (gap 1 between two pulses of
   length 2^24): the former known finding idle-gap-below-tolerance, now repaired *)
Theorem step_tolerance_gap_refuted :
  exists chs outs l ts cs t,
    concatenate_pulses true false chs = Some outs /\
    nth_error chs 0 = Some l /\ nth_error outs 0 = Some (ts, cs) /\
    chain_ord 0 l /\ Forall (fun i => is_discrete (p_wave i)) l /\
    (forall i, In i l -> ~ (p_start i <= t /\ t < p_end i)) /\
    ~ eval_step ts cs t == 0.
Proof. exact ConcatRefute.step_tolerance_gap_refuted. Qed.
Print Assumptions step_tolerance_gap_refuted.

(* the repaired test keeps a float-resolution threshold: a gap of 1e-15 in a schedule of length 2 is swallowed *)
Theorem resolution_guard_needed_refuted :
  exists chs outs l ts cs t,
    concatenate_pulses true true chs = Some outs /\
    nth_error chs 0 = Some l /\ nth_error outs 0 = Some (ts, cs) /\
    chain_ord 0 l /\ Forall (fun i => is_discrete (p_wave i)) l /\
    (forall i, In i l -> ~ (p_start i <= t /\ t < p_end i)) /\
    ~ eval_step ts cs t == 0.
Proof. exact ConcatRefute.resolution_guard_needed_refuted. Qed.
Print Assumptions resolution_guard_needed_refuted.

(* the repair changes nothing when no instruction is > 1e6 times longer than the time elapsed before it *)
Theorem fix_is_conservative : forall gx chs,
  Forall moderate chs -> concatenate_pulses false gx chs = concatenate_pulses true gx chs.
Proof. exact ConcatRefute.fix_is_conservative. Qed.
Print Assumptions fix_is_conservative.

(* the idle-gap repair changes nothing when every gap is absent or above both thresholds *)
Theorem idle_fix_is_conservative : forall fx chs r,
  resolution chs = Some r -> 0 <= r ->
  Forall (chain_ord 0) chs ->
  Forall (gaps_ok (gap_tol false r) 0) chs -> Forall (gaps_ok (gap_tol true r) 0) chs ->
  concatenate_pulses fx false chs = concatenate_pulses fx true chs.
Proof. exact ConcatRefute.idle_fix_is_conservative. Qed.
Print Assumptions idle_fix_is_conservative.

(* non-vacuity: a two-channel input (rectangular + sampled discrete with an idle gap; two adjoining
   continuous pulses, padded with the leaked continuous mode) satisfies all hypotheses above *)
Example hypotheses_inhabited :
  Forall (chain_ord 0) ex_chs /\ Forall (gaps_ok (gap_tol true (res_of ex_chs)) 0) ex_chs /\
  Forall (fun i => is_discrete (p_wave i)) ex_chA /\ Forall wf_cont ex_chB /\
  exists oA oB, concatenate_pulses true true ex_chs = Some [oA; oB] /\
                eval_step (fst oA) (snd oA) (7 # 2) = 5 /\ eval_step (fst oA) (snd oA) 2 = 0 /\
                length (fst oA) = 5%nat /\ length (fst oB) = 25%nat.
Proof. exact (conj ex_chain (conj ex_gaps (conj ex_discrete (conj ex_continuous ex_compiles)))). Qed.
Print Assumptions hypotheses_inhabited.

Example blocks_inhabited :
  exists oA oB i1 i2,
    concatenate_pulses true true ex_chs = Some [oA; oB] /\ ex_chB = [i1; i2] /\
    exec_times i2 = [(1 # 2) + 2; 1 + 2] /\
    nth_error (fst oB) 3 = nth_error (exec_times i2) 0 /\ nth_error (snd oB) 3 = Some 6 /\
    nth_error (fst oB) 4 = nth_error (exec_times i2) 1 /\ nth_error (snd oB) 4 = Some 0 /\
    idle_before (gap_tol true (res_of ex_chs)) i2 (p_end i1) = Some [].
Proof. exact ConcatBlocks.ex_blocks. Qed.
Print Assumptions blocks_inhabited.

Example moderate_inhabited : Forall moderate ConcatRefute.wit_mod.
Proof. exact ConcatRefute.wit_mod_ok. Qed.
Print Assumptions moderate_inhabited.
