(* C12 -- compiled control pulses are exactly the scheduled instruction waveforms.

   Model: QV.Model.Concat (GateCompiler.compile / _schedule / _process_gate_pulse /
   _process_idling_tlist / _concatenate_pulses in exact rationals).  `fx = true` is the code with
   fixes/C12-first-pulse-flag.diff applied, `fx = false` the unchanged code.

   Full statement aimed at (property text): for every compiler, gate list and scheduling mode every
   returned channel has a grid starting at 0 and strictly increasing, a coefficient array that fits
   the grid for its pulse kind, takes inside each instruction window that instruction's waveform
   and is zero elsewhere, whatever the ratios of the durations.

   What is proved, for ALL instruction lists / channels / durations (no size bound):
     grid_starts_zero, coeff_length_fits      unconditionally for the repaired code;
     grid_strictly_increasing                 for well-formed, time-ordered, non-overlapping channels
                                              (chain_ord), any duration ratios;
     compiled_is_waveform, window_waveform,
     zero_elsewhere                           for discrete channels, additionally under the guard gaps_ok
                                              (an idle gap is 0 or > 1e-6 * step of the next instruction);
                                              gap_guard_needed_refuted shows the guard is necessary
                                              (known finding idle-gap-below-tolerance);
     continuous_samples_partial               continuous channels: PARTIAL -- lengths, every sample k >= 1
                                              of every instruction is present, every other grid point
                                              carries 0; nothing about the spline between samples;
     unfixed_*_refuted                        the unchanged code violates grid / length clauses
                                              (durations 1e-9 then 1e4);
     fix_is_conservative                      unchanged = repaired code on inputs with moderate ratios. *)
From Coq Require Import List QArith.
From QV Require Import Model.Concat Proofs.ConcatGrid Proofs.ConcatWave Proofs.ConcatAll
     Proofs.ConcatChannels Proofs.ConcatRefute Proofs.ConcatTop.
Import ListNotations.
Open Scope Q_scope.

(* compile = time ordering + per-name channel lists + _concatenate_pulses; the list of a pulse name
   is exactly the instructions that use the name, in time order *)
Theorem compile_structure : forall fx sched il out,
  il <> [] -> compile fx sched il = Some out ->
  exists sil chs outs,
    scheduled sched il = Some sil /\ build_channels sil = Some chs /\
    NoDup (map fst chs) /\ (forall n l, In (n, l) chs -> l = pulses_of n sil) /\
    concatenate_pulses fx (map snd chs) = Some outs /\ out = combine (map fst chs) outs.
Proof. exact ConcatTop.compile_structure. Qed.
Print Assumptions compile_structure.

(* scheduled modes: the instructions are handed on ordered by start time, none lost or invented *)
Theorem time_order_sorted : forall st il sil,
  scheduled (Some st) il = Some sil ->
  sorted_starts sil /\ forall y, In y sil <-> In y (combine st il).
Proof. exact ConcatTop.scheduled_sorted. Qed.
Print Assumptions time_order_sorted.

(* clause: the time grid of every returned channel starts at zero (any durations) *)
Theorem grid_starts_zero : forall sched il out n ts cs,
  compile true sched il = Some out -> In (n, (ts, cs)) out -> exists r, ts = 0 :: r.
Proof. exact ConcatTop.compile_grid_starts_zero. Qed.
Print Assumptions grid_starts_zero.

(* clause: the coefficient array fits the grid for the pulse kind (any durations) *)
Theorem coeff_length_fits : forall chs outs k i rest ts cs,
  concatenate_pulses true chs = Some outs ->
  nth_error chs k = Some (i :: rest) -> nth_error outs k = Some (ts, cs) ->
  (is_discrete (p_wave i) /\ length ts = S (length cs)) \/
  (is_continuous (p_wave i) /\ ~ is_discrete (p_wave i) /\ length ts = length cs).
Proof. exact ConcatAll.all_lengths. Qed.
Print Assumptions coeff_length_fits.

(* clause: every grid increases strictly -- whatever the relative magnitudes of the durations *)
Theorem grid_strictly_increasing : forall chs outs,
  Forall (chain_ord 0) chs ->
  concatenate_pulses true chs = Some outs ->
  Forall (fun o => strictly_increasing (fst o)) outs.
Proof. exact ConcatAll.all_increasing. Qed.
Print Assumptions grid_strictly_increasing.

(* clauses window + zero in one: as a function of time the compiled discrete channel IS the
   scheduled waveform *)
Theorem compiled_is_waveform : forall chs outs k l ts cs,
  concatenate_pulses true chs = Some outs ->
  nth_error chs k = Some l -> nth_error outs k = Some (ts, cs) ->
  chain_ord 0 l -> gaps_ok 0 l -> Forall (fun i => is_discrete (p_wave i)) l ->
  forall t, eval_step ts cs t = spec_eval l t.
Proof. exact ConcatAll.all_waveform. Qed.
Print Assumptions compiled_is_waveform.

Theorem window_waveform : forall chs outs k l ts cs,
  concatenate_pulses true chs = Some outs ->
  nth_error chs k = Some l -> nth_error outs k = Some (ts, cs) ->
  chain_ord 0 l -> gaps_ok 0 l -> Forall (fun i => is_discrete (p_wave i)) l ->
  forall i t, In i l -> p_start i <= t -> t < p_end i ->
  eval_step ts cs t = eval_step (w_ts (p_wave i)) (w_cs (p_wave i)) (t - p_start i).
Proof. exact ConcatTop.window_waveform. Qed.
Print Assumptions window_waveform.

Theorem zero_elsewhere : forall chs outs k l ts cs,
  concatenate_pulses true chs = Some outs ->
  nth_error chs k = Some l -> nth_error outs k = Some (ts, cs) ->
  chain_ord 0 l -> gaps_ok 0 l -> Forall (fun i => is_discrete (p_wave i)) l ->
  forall t, (forall i, In i l -> ~ (p_start i <= t /\ t < p_end i)) -> eval_step ts cs t = 0.
Proof. exact ConcatTop.zero_elsewhere. Qed.
Print Assumptions zero_elsewhere.

(* continuous channels -- PARTIAL (missing: behaviour of the interpolating spline between grid points,
   and that zero samples lie outside the windows beyond what grid monotonicity gives) *)
Theorem continuous_samples_partial : forall chs outs k l ts cs,
  concatenate_pulses true chs = Some outs ->
  nth_error chs k = Some l -> nth_error outs k = Some (ts, cs) ->
  Forall wf_cont l ->
  length ts = length cs /\
  (forall i, In i l -> incl (samples i) (combine ts cs)) /\
  (forall t c, In (t, c) (combine ts cs) -> c = 0 \/ exists i, In i l /\ In (t, c) (samples i)).
Proof. exact ConcatAll.all_samples. Qed.
Print Assumptions continuous_samples_partial.

(* the unchanged code: refuted *)
Theorem unfixed_grid_refuted :
  exists chs outs, Forall (chain_ord 0) chs /\ Forall (gaps_ok 0) chs /\
                   concatenate_pulses false chs = Some outs /\
                   ~ Forall (fun o => strictly_increasing (fst o)) outs.
Proof. exact ConcatRefute.unfixed_grid_refuted. Qed.
Print Assumptions unfixed_grid_refuted.

Theorem unfixed_length_refuted :
  exists chs outs i rest ts cs,
    Forall (chain_ord 0) chs /\ Forall (gaps_ok 0) chs /\
    concatenate_pulses false chs = Some outs /\
    nth_error chs 0 = Some (i :: rest) /\ nth_error outs 0 = Some (ts, cs) /\
    is_discrete (p_wave i) /\ length ts <> S (length cs).
Proof. exact ConcatRefute.unfixed_length_refuted. Qed.
Print Assumptions unfixed_length_refuted.

(* the guard gaps_ok cannot be dropped (repaired code): known finding idle-gap-below-tolerance *)
Theorem gap_guard_needed_refuted :
  exists chs outs l ts cs t,
    concatenate_pulses true chs = Some outs /\
    nth_error chs 0 = Some l /\ nth_error outs 0 = Some (ts, cs) /\
    chain_ord 0 l /\ Forall (fun i => is_discrete (p_wave i)) l /\
    (forall i, In i l -> ~ (p_start i <= t /\ t < p_end i)) /\
    ~ eval_step ts cs t == 0.
Proof. exact ConcatRefute.gap_guard_needed_refuted. Qed.
Print Assumptions gap_guard_needed_refuted.

(* the repair changes nothing when no instruction is > 1e6 times longer than the time elapsed before it *)
Theorem fix_is_conservative : forall chs,
  Forall moderate chs -> concatenate_pulses false chs = concatenate_pulses true chs.
Proof. exact ConcatRefute.fix_is_conservative. Qed.
Print Assumptions fix_is_conservative.

(* non-vacuity: a two-channel input (rectangular + sampled discrete with an idle gap; two adjoining
   continuous pulses, padded with the leaked continuous mode) satisfies all hypotheses above *)
Example hypotheses_inhabited :
  Forall (chain_ord 0) ex_chs /\ Forall (gaps_ok 0) ex_chs /\
  Forall (fun i => is_discrete (p_wave i)) ex_chA /\ Forall wf_cont ex_chB /\
  exists oA oB, concatenate_pulses true ex_chs = Some [oA; oB] /\
                eval_step (fst oA) (snd oA) (7 # 2) = 5 /\ eval_step (fst oA) (snd oA) 2 = 0 /\
                length (fst oA) = 5%nat /\ length (fst oB) = 25%nat.
Proof. exact (conj ex_chain (conj ex_gaps (conj ex_discrete (conj ex_continuous ex_compiles)))). Qed.
Print Assumptions hypotheses_inhabited.

Example moderate_inhabited : Forall moderate ConcatRefute.wit_mod.
Proof. exact ConcatRefute.wit_mod_ok. Qed.
Print Assumptions moderate_inhabited.
