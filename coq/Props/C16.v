(* C16 -- Queries, transformations and simulations are pure and repeatable.
   Model: Model/Heap.v (object-granularity heap; every public operation is a heap program parametrised by the
   flags that tools/translate/purity_tr.py extracts from the current sources into Gen/Purity.v: src_flags).
   exec fl w c = one public call on the world w (caller heap + simulators + compilers + processors);
   run_hist = a history of calls of ANY length.  hist_guard excludes exactly the calls of the (meanwhile repaired) finding
   "caller's cbits stored by reference" (it is vacuous once initialize copies the list: f_sim_cbits_copy).
   The theorems are stated for EVERY flag record satisfying the named conditions; src_flags_ok is the generated
   obligation that the current sources satisfy all of them (it fails to compile when a defensive copy or reset
   disappears from the sources).
   Stage 3: repeatability is proved for ALL modelled operations as structural equality of the two results
   (history_repeatable: isomorphic trees with equal tokens = equal up to the renaming of the freshly allocated
   locations), and clause 4 is ONE theorem over histories (results_unaliased: the objects reachable from the
   results of different calls are pairwise disjoint and disjoint from everything reachable from the caller's
   objects).  world_ok = no dangling references; call_ok / hist_ok = every object handed to a call exists.
   The *_src theorems instantiate everything with the flags of the CURRENT sources, with no guard left. *)
From Coq Require Import List Arith Bool.
From QV Require Import Model.Heap Proofs.HeapBase Proofs.HeapPure Proofs.HeapFresh Proofs.HeapClosed Proofs.HeapEquiv
                       Proofs.HeapRepeat Proofs.HeapService Proofs.HeapInst Gen.Purity.
Import ListNotations.

(* generated obligation: the current sources contain every defensive copy / reset the theorems below rest on *)
Theorem src_flags_ok : flags_ok src_flags = true.
Proof. exact src_flags_ok. Qed.
Print Assumptions src_flags_ok.

(* purity over ALL histories: no object that exists before a history (every circuit, gate, index list,
   cbits list, gate list, instruction list of the caller, and every earlier result) is changed by it *)
Theorem history_pure :
  forall fl, flags_pure fl = true ->
  forall hist w w' rs, hist_guard fl w hist = true -> hist_wf fl w hist ->
  run_hist fl w hist = Some (w', rs) ->
  forall l, l < length (hp w) -> nth_error (hp w') l = nth_error (hp w) l.
Proof. exact history_pure_lemma. Qed.
Print Assumptions history_pure.

(* results do not alias the caller's data or earlier results: whatever a call returns reaches, to every depth f,
   only locations that did not exist before the call (dfresh n f h v: v and everything within depth f of it is
   at a location >= n).  Together with history_pure (later calls change nothing that exists) the results of
   different calls / outcomes never share a mutable object with each other or with the caller's objects. *)
Theorem result_fresh :
  forall fl w c w' r, flags_fresh fl = true -> guard fl w c = true -> call_wf w c ->
  exec fl w c = Some (w', r) -> forall f, dfresh (length (hp w)) f (hp w') r.
Proof. exact result_fresh_lemma. Qed.
Print Assumptions result_fresh.

(* a used simulator behaves like a fresh one: nothing it holds from earlier runs influences the next run *)
Theorem sim_used_equals_fresh :
  forall fl w s cb st, f_sim_reinit fl = true -> s < length (sims w) ->
  (forall mr, match exec fl w (CSimRun s cb st mr), exec fl (fresh_world w (CSimRun s cb st mr)) (CSimRun s cb st mr) with
              | Some (w1, r1), Some (w2, r2) => hp w1 = hp w2 /\ r1 = r2 /\ procs w1 = procs w2 /\ comps w1 = comps w2
              | _, _ => False
              end) /\
  match exec fl w (CSimStats s cb st), exec fl (fresh_world w (CSimStats s cb st)) (CSimStats s cb st) with
  | Some (w1, r1), Some (w2, r2) => hp w1 = hp w2 /\ r1 = r2 /\ procs w1 = procs w2 /\ comps w1 = comps w2
  | _, _ => False
  end.
Proof. exact sim_used_equals_fresh. Qed.
Print Assumptions sim_used_equals_fresh.

(* a used compiler behaves like a fresh one (recorded global phase, per-call args) *)
Theorem compiler_used_equals_fresh :
  forall fl w k a ic args dphi,
  f_compile_resets_gp fl = true -> f_compile_args_local fl = true -> k < length (comps w) ->
  let c := CCompile k a ic args dphi in
  match exec fl w c, exec fl (fresh_world w c) c with
  | Some (w1, r1), Some (w2, r2) => hp w1 = hp w2 /\ r1 = r2
  | None, None => True
  | _, _ => False
  end.
Proof. exact compiler_used_equals_fresh. Qed.
Print Assumptions compiler_used_equals_fresh.

(* a used processor (and a used user-supplied compiler) holds after load_circuit what a fresh one would *)
Theorem load_used_equals_fresh :
  forall fl w p qc ko chain dphi,
  flags_service fl = true -> p < length (procs w) ->
  (forall k, ko = Some k -> k < length (comps w)) ->
  let c := CLoad p qc ko chain true dphi in
  match exec fl w c, exec fl (fresh_world w c) c with
  | Some (w1, r1), Some (w2, r2) =>
      hp w1 = hp w2 /\ r1 = r2 /\ pview (nth p (procs w1) dproc) = pview (nth p (procs w2) dproc)
  | None, None => True
  | _, _ => False
  end.
Proof. exact load_used_equals_fresh. Qed.
Print Assumptions load_used_equals_fresh.

(* any number of queries (get_qobjevo, get_noisy_pulses, run_analytically, get_full_tlist, get_full_coeffs) leaves the heap and the
   pulses every processor holds -- as functions of time with their noise elements -- unchanged *)
Theorem queries_preserve_held :
  forall fl, (f_gnp_copy fl || f_pn_copy fl) = true -> f_pn_list_copy fl = true ->
  forall hist w w' rs, forallb is_query hist = true -> run_hist fl w hist = Some (w', rs) ->
  hp w' = hp w /\ forall p, pview (nth p (procs w') dproc) = pview (nth p (procs w) dproc).
Proof. exact queries_preserve_held. Qed.
Print Assumptions queries_preserve_held.

(* repeatability of EVERY modelled operation (run, run_statistics, resolve_gates, adjacent_gates, to_chain_structure,
   reverse_circuit, add_circuit, schedule, Instruction, compile, load_circuit, the processor queries, ...): the same
   call made twice in a row returns results that are equal as structures: iso h1 r1 h2 r2 = for every depth k the
   trees snap k h1 r1 and snap k h2 r2 (tokens at the leaves, one node per object) are equal. *)
Theorem history_repeatable :
  forall fl w c w1 r1 w2 r2,
  flags_pure fl = true -> flags_service fl = true ->
  world_ok w -> call_ok w c -> guard fl w c = true ->
  exec fl w c = Some (w1, r1) -> exec fl w1 c = Some (w2, r2) ->
  iso (hp w1) r1 (hp w2) r2.
Proof. exact history_repeatable_lemma. Qed.
Print Assumptions history_repeatable.

(* clause 4 as one theorem over histories of any length: in the final heap
   (1) what a caller object reaches is what it reached before the history, all of it older than the history;
   (2) no result reaches a caller object;  (3) results of different calls reach disjoint sets of objects. *)
Theorem results_unaliased :
  forall fl, flags_fresh fl = true ->
  forall hist w w' rs, world_ok w -> hist_guard fl w hist = true -> hist_ok fl w hist ->
  run_hist fl w hist = Some (w', rs) ->
  (forall v m, val_ok (length (hp w)) v -> reach (hp w') v m -> reach (hp w) v m /\ m < length (hp w)) /\
  (forall r m, In r rs -> reach (hp w') r m -> length (hp w) <= m) /\
  (forall i j ri rj m, i < j -> nth_error rs i = Some ri -> nth_error rs j = Some rj ->
                       reach (hp w') ri m -> reach (hp w') rj m -> False).
Proof. exact results_unaliased_lemma. Qed.
Print Assumptions results_unaliased.

(* heaps stay free of dangling references, results exist, heaps only grow *)
Theorem exec_keeps_closed :
  forall fl w c w' r, world_ok w -> call_ok w c -> exec fl w c = Some (w', r) ->
  world_ok w' /\ val_ok (length (hp w')) r /\ length (hp w) <= length (hp w').
Proof. exact exec_closed. Qed.
Print Assumptions exec_keeps_closed.

(* the same for the flags of the current sources: no guard, no flag hypothesis *)
Theorem src_cbits_copy : f_sim_cbits_copy src_flags = true.
Proof. exact src_cbits_copy. Qed.
Print Assumptions src_cbits_copy.

(* generated obligation: GateCompiler.generate_pulse_shape and the module-level helpers it reaches carry no cache,
   global, mutable default or write into a module-level container (state outside the objects is not in the model) *)
Theorem src_shape_path_stateless_ok : src_shape_path_stateless = true.
Proof. exact src_shape_path_stateless_ok. Qed.
Print Assumptions src_shape_path_stateless_ok.

Theorem history_pure_src :
  forall hist w w' rs, hist_wf src_flags w hist -> run_hist src_flags w hist = Some (w', rs) ->
  forall l, l < length (hp w) -> nth_error (hp w') l = nth_error (hp w) l.
Proof. exact history_pure_src. Qed.
Print Assumptions history_pure_src.

Theorem results_unaliased_src :
  forall hist w w' rs, world_ok w -> hist_ok src_flags w hist -> run_hist src_flags w hist = Some (w', rs) ->
  (forall v m, val_ok (length (hp w)) v -> reach (hp w') v m -> reach (hp w) v m /\ m < length (hp w)) /\
  (forall r m, In r rs -> reach (hp w') r m -> length (hp w) <= m) /\
  (forall i j ri rj m, i < j -> nth_error rs i = Some ri -> nth_error rs j = Some rj ->
                       reach (hp w') ri m -> reach (hp w') rj m -> False).
Proof. exact results_unaliased_src. Qed.
Print Assumptions results_unaliased_src.

Theorem history_repeatable_src :
  forall w c w1 r1 w2 r2, world_ok w -> call_ok w c ->
  exec src_flags w c = Some (w1, r1) -> exec src_flags w1 c = Some (w2, r2) -> iso (hp w1) r1 (hp w2) r2.
Proof. exact history_repeatable_src. Qed.
Print Assumptions history_repeatable_src.

(* the token-level special case proved in stage 2 (kept as a corollary-style statement with weaker hypotheses:
   no well-formedness of the heap needed): a processor query repeated returns the same value *)
Theorem history_repeatable_partial :
  forall fl w c w1 r1 w2 r2,
  (f_gnp_copy fl || f_pn_copy fl) = true -> f_pn_list_copy fl = true -> is_query c = true ->
  exec fl w c = Some (w1, r1) -> exec fl w1 c = Some (w2, r2) -> r1 = r2.
Proof. exact query_repeatable. Qed.
Print Assumptions history_repeatable_partial.

Theorem compile_repeatable :
  forall fl w k a ic args dphi w1 r1 w2 r2,
  f_compile_resets_gp fl = true -> f_compile_args_local fl = true -> k < length (comps w) ->
  exec fl w (CCompile k a ic args dphi) = Some (w1, r1) ->
  exec fl w1 (CCompile k a ic args dphi) = Some (w2, r2) ->
  objof (hp w1) r1 = objof (hp w2) r2.
Proof. exact compile_repeatable. Qed.
Print Assumptions compile_repeatable.

(* ---------- refutations on the code as shipped (flags of the unchanged tree); each witness is replayed on the
   real code by the harness (corpus/C16) ---------- *)
Theorem cbits_by_reference_refuted :
  exists w' r, exec shipped_flags ex_world (CSimRun 0 (Ref 10) 1 [1]) = Some (w', r) /\
               nth_error (hp w') 10 <> nth_error (hp ex_world) 10 /\
               meets (reachl FUEL (hp w') r) [10] = true.
Proof. exact cbits_by_reference_refuted. Qed.
Print Assumptions cbits_by_reference_refuted.

Theorem compiler_phase_accumulates_refuted :
  exists w1 r1 w2 r2,
    exec shipped_flags ex_world (CCompile 0 (Ref 9) true 0 1) = Some (w1, r1) /\
    exec shipped_flags w1 (CCompile 0 (Ref 9) true 0 1) = Some (w2, r2) /\
    objof (hp w1) r1 <> objof (hp w2) r2.
Proof. exact compiler_phase_accumulates_refuted. Qed.
Print Assumptions compiler_phase_accumulates_refuted.

Theorem compiler_args_persist_refuted :
  exists w1 r1 w2 r2 w3 r3,
    exec shipped_flags ex_world (CCompile 0 (Ref 9) true 2 0) = Some (w1, r1) /\
    exec shipped_flags w1 (CCompile 0 (Ref 9) true 0 0) = Some (w2, r2) /\
    exec shipped_flags ex_world (CCompile 0 (Ref 9) true 0 0) = Some (w3, r3) /\
    objof (hp w2) r2 <> objof (hp w3) r3.
Proof. exact compiler_args_persist_refuted. Qed.
Print Assumptions compiler_args_persist_refuted.

Theorem reverse_aliases_refuted :
  exists w' r, exec shipped_flags ex_world (CReverse (Ref 9)) = Some (w', r) /\
               meets (reachl FUEL (hp w') r) (reachl FUEL (hp w') (Ref 9)) = true.
Proof. exact reverse_aliases_refuted. Qed.
Print Assumptions reverse_aliases_refuted.

Theorem chain_aliases_refuted :
  exists w' r, exec shipped_flags ex_world (CChain (Ref 9) [1; 1; 0]) = Some (w', r) /\
               meets (reachl FUEL (hp w') r) (reachl FUEL (hp w') (Ref 9)) = true.
Proof. exact chain_aliases_refuted. Qed.
Print Assumptions chain_aliases_refuted.

Theorem add_circuit_aliases_refuted :
  exists w' r, exec shipped_flags (mkWorld ex_heap_listarg [] [] []) (CAddCircuit (Ref 6)) = Some (w', r) /\
               meets (reachl FUEL (hp w') r) (reachl FUEL (hp w') (Ref 6)) = true.
Proof. exact add_circuit_aliases_refuted. Qed.
Print Assumptions add_circuit_aliases_refuted.

(* ---------- non-vacuity: the hypotheses are satisfiable and the conclusions non-trivial ---------- *)
Example good_flags_ok : flags_ok good_flags = true.
Proof. exact good_flags_ok. Qed.
Print Assumptions good_flags_ok.

Example cbits_copied_ok :
  exists w' r, exec good_flags ex_world (CSimRun 0 (Ref 10) 1 [1]) = Some (w', r) /\
               nth_error (hp w') 10 = nth_error (hp ex_world) 10 /\
               meets (reachl FUEL (hp w') r) [10] = false.
Proof. exact cbits_copied_ok. Qed.
Print Assumptions cbits_copied_ok.

Example passes_fresh_when_fixed :
  forall c, In c [CReverse (Ref 9); CChain (Ref 9) [1; 1; 0]; CResolve (Ref 9); CAdjacent (Ref 9); CAddCircuit (Ref 9)] ->
  exists w' r, exec good_flags ex_world c = Some (w', r) /\
               meets (reachl FUEL (hp w') r) (reachl FUEL (hp w') (Ref 9)) = false.
Proof. exact passes_fresh_when_fixed. Qed.
Print Assumptions passes_fresh_when_fixed.

Example history_example :
  hist_guard good_flags ex_world ex_history = true /\ hist_wf good_flags ex_world ex_history /\
  exists w' rs, run_hist good_flags ex_world ex_history = Some (w', rs) /\ length rs = 8 /\ length (hp ex_world) < length (hp w').
Proof. exact history_example. Qed.
Print Assumptions history_example.

Example result_fresh_example :
  exists w' l, exec good_flags ex_world (CSimStats 0 (Ref 10) 2) = Some (w', Ref l) /\ length (hp ex_world) <= l /\
               guard good_flags ex_world (CSimStats 0 (Ref 10) 2) = true /\ call_wf ex_world (CSimStats 0 (Ref 10) 2).
Proof. exact result_fresh_example. Qed.
Print Assumptions result_fresh_example.

Example ex_world_ok : world_ok ex_world.
Proof. exact ex_world_ok. Qed.
Print Assumptions ex_world_ok.

Example ex_history_ok : hist_ok good_flags ex_world ex_history.
Proof. exact ex_history_ok. Qed.
Print Assumptions ex_history_ok.

Example repeat_example :
  exists w1 r1 w2 r2, exec good_flags ex_world (CReverse (Ref 9)) = Some (w1, r1) /\
                      exec good_flags w1 (CReverse (Ref 9)) = Some (w2, r2) /\ r1 <> r2 /\
                      snap FUEL (hp w1) r1 = snap FUEL (hp w2) r2 /\ call_ok ex_world (CReverse (Ref 9)).
Proof. exact repeat_example. Qed.
Print Assumptions repeat_example.

(* the defensive copy inside Instruction is needed: without it the caller's gate is sorted in place *)
Example instr_copy_needed :
  exists w' r, exec no_instr_copy ex_world (CInstr (Ref 5)) = Some (w', r) /\
               nth_error (hp w') 4 <> nth_error (hp ex_world) 4.
Proof. exact instr_copy_needed. Qed.
Print Assumptions instr_copy_needed.
