(* C16 -- Queries, transformations and simulations are pure and repeatable.
   Model: Model/Heap.v (object-granularity heap; every public operation is a heap program parametrised by the
   flags that tools/translate/purity_tr.py extracts from the current sources into Gen/Purity.v: src_flags).
   exec fl w c = one public call on the world w (caller heap + simulators + compilers + processors);
   run_hist = a history of calls of ANY length.  hist_guard excludes exactly the calls of the open finding
   "caller's cbits stored by reference" (it is vacuous once initialize copies the list: f_sim_cbits_copy). *)
From Coq Require Import List Arith Bool.
From QV Require Import Model.Heap Proofs.HeapBase Proofs.HeapPure Proofs.HeapInst Gen.Purity.
Import ListNotations.

(* generated obligation: the current sources contain every defensive copy / reset the theorems below rest on *)
Theorem src_flags_ok : flags_ok src_flags = true.
Proof. exact src_flags_ok. Qed.
Print Assumptions src_flags_ok.

(* purity over ALL histories: no object that exists before a history (every circuit, gate, index list,
   cbits list, gate list, instruction list of the caller, and every earlier result) is changed by it *)
Theorem history_pure :
  forall fl, flags_pure fl = true ->
  forall hist w w' rs, hist_guard fl w hist = true -> hist_wf fl w hist ->
  run_hist fl w hist = Some (w', rs) ->
  forall l, l < length (hp w) -> nth_error (hp w') l = nth_error (hp w) l.
Proof. exact history_pure_lemma. Qed.
Print Assumptions history_pure.

(* refutations on the code as shipped (flags of the unchanged tree), replayed on the real code by the harness *)
Theorem cbits_by_reference_refuted :
  exists w' r, exec shipped_flags ex_world (CSimRun 0 (Ref 10) 1 [1]) = Some (w', r) /\
               nth_error (hp w') 10 <> nth_error (hp ex_world) 10 /\
               meets (reachl FUEL (hp w') r) [10] = true.
Proof. exact cbits_by_reference_refuted. Qed.
Print Assumptions cbits_by_reference_refuted.
