(* C09 - Library gates are unitary, match their documented matrix, path-independent.
   Quantification: every phase ring R (u = e^{i pi/16}, z_j = e^{i theta_j/4} arbitrary units) = every value of
   every gate parameter; Gen.Gates is regenerated from operations/gates.py + gateclass.py on every run. *)
From QV Require Import Found.Base Found.KS Found.KSProofs Found.Sym Found.SymProofs Gen.Gates Spec.GateSpec Proofs.C09.
From Coq Require Import Reals.
From Coquelicot Require Import Coquelicot.
From QV Require Import Found.Conj Found.CInst Proofs.C09R Found.Comm Found.Ctrl Found.CtrlTab Proofs.C09Ctrl.

(* the name-dispatch of a generic Gate object yields the documented matrix *)
Theorem lib_dispatch_is_documented : forall (R : PhaseRing) name m, In (name, m) dispatch ->
  exists ar s, assoc name spec = Some (ar, s) /\ agrees R m s.
Proof. exact dispatch_doc. Qed.
Print Assumptions lib_dispatch_is_documented.

(* the dedicated class registered for a name (what add_gate(name) instantiates) yields the documented matrix *)
Theorem lib_class_is_documented : forall (R : PhaseRing) name cls m, In (name, cls) class_map ->
  assoc cls class_mat = Some m -> exists ar s, assoc name spec = Some (ar, s) /\ agrees R m s.
Proof. exact class_doc. Qed.
Print Assumptions lib_class_is_documented.

(* the gate functions of operations/gates.py yield the documented matrix *)
Theorem lib_function_is_documented : forall (R : PhaseRing) fn name ar0 m, In (fn, name) fn_names ->
  assoc fn gates_fn = Some (ar0, m) -> exists ar s, assoc name spec = Some (ar, s) /\ agrees R m s.
Proof. exact fn_doc. Qed.
Print Assumptions lib_function_is_documented.

(* the deprecated `N=..., target=...` form of a gate function embeds the function's own matrix (the embedding itself is C08) *)
Theorem lib_expansion_embeds_gate : forall (R : PhaseRing) fn inner own, In (fn, (inner, own)) expansions -> agrees R inner own.
Proof. exact expansion_embeds_gate. Qed.
Print Assumptions lib_expansion_embeds_gate.

Theorem lib_paths_agree : forall (R : PhaseRing) name m1 cls m2, In (name, m1) dispatch -> In (name, cls) class_map ->
  assoc cls class_mat = Some m2 -> agrees R m1 m2.
Proof. exact paths_agree. Qed.
Print Assumptions lib_paths_agree.

(* every documented matrix is unitary (symbolic identity U U^dagger = U^dagger U = 1 over KS) *)
Theorem lib_unitary_symbolic : chk_unitary = true.
Proof. exact chk_unitary_true. Qed.
Print Assumptions lib_unitary_symbolic.

Theorem lib_names_covered : chk_cover = true /\ chk_phase = true.
Proof. exact (conj chk_cover_true chk_phase_true). Qed.
Print Assumptions lib_names_covered.

(* ---- the same over the complex numbers: th assigns an arbitrary REAL value to every gate parameter; mden is the
   complex matrix denoted by the (translated / documented) expression with real cos, sin, exp, sqrt ---- *)
Theorem lib_dispatch_is_documented_real : forall (th : nat -> R) name m, In (name, m) dispatch ->
  exists ar s, assoc name spec = Some (ar, s) /\ mdim m = mdim s /\
    forall i j, (i < mdim m)%nat -> (j < mdim m)%nat -> mden th m i j = mden th s i j.
Proof. exact dispatch_doc_real. Qed.
Print Assumptions lib_dispatch_is_documented_real.

Theorem lib_class_is_documented_real : forall (th : nat -> R) name cls m, In (name, cls) class_map ->
  assoc cls class_mat = Some m ->
  exists ar s, assoc name spec = Some (ar, s) /\ mdim m = mdim s /\
    forall i j, (i < mdim m)%nat -> (j < mdim m)%nat -> mden th m i j = mden th s i j.
Proof. exact class_doc_real. Qed.
Print Assumptions lib_class_is_documented_real.

(* every documented matrix has orthonormal rows, for every real parameter value *)
Theorem lib_unitary_real : forall (th : nat -> R) name ar s, assoc name spec = Some (ar, s) ->
  forall i j, (i < mdim s)%nat -> (j < mdim s)%nat ->
  @ksum Cops (map (fun k => Cmult (mden th s i k) (Cconj (mden th s j k))) (seq 0 (mdim s)))
  = if Nat.eqb i j then RtoC 1 else RtoC 0.
Proof. exact spec_unitary_real. Qed.
Print Assumptions lib_unitary_real.

(* ---- second sentence of C09: the controlled version built by controlled_gate (block-diagonal, block `control_value` = U,
   embedded on controls ++ targets) applies U exactly on the assignments whose control bits (first listed = most
   significant) read the control value - any number of controls, any value, any k-qubit U, any placement/register ---- *)
Theorem controlled_gate_spec : forall (R : PhaseRing) nc cv (U : ptab) k cs ts (psi : state R) x,
  length U = (2 ^ k)%nat -> length cs = nc -> length ts = k -> NoDup cs -> Comm.disjoint cs ts ->
  Base.app (emat R (smat (ptctrl nc cv U))) (cs ++ ts) psi x =
  if Nat.eqb (idx (map x cs)) cv then Base.app (emat R (smat U)) ts psi x else psi x.
Proof. exact C09Ctrl.controlled_gate_spec. Qed.
Print Assumptions controlled_gate_spec.

(* non-vacuity: the tables are not empty and RX is in all of them *)
Example dispatch_has_rx : exists m, In ("RX"%string, m) dispatch /\ mok m = true.
Proof. eexists. split; [left; reflexivity| vm_compute; reflexivity]. Qed.
