(* C04 - Imported OpenQASM 2.0 programs mean what the OpenQASM 2.0 standard says.
   Spec/Qasm.v + Spec/QasmSem.v: the standard (syntax, well-formedness, expansion semantics, qelib1.inc by hand).
   Model/QasmImport.v: the importer after tokenisation (tied to qasm.py by the correspondence check);
   Gen/Qasm.v: the importer's tables, regenerated from qasm.py on every run.
   Quantification over parameter values: every phase ring R and atoms A (u = e^{i pi/16}, z_j = e^{i theta_j/4}). *)
From QV Require Import Model.QasmImport Spec.QasmSem Found.Circ Gen.Gates Gen.Qasm.
From QV Require Import Proofs.QasmShortcut Proofs.QasmIf Proofs.QasmSubst.
Local Open Scope string_scope.
Local Open Scope nat_scope.
Local Open Scope list_scope.

(* Layer A.  For every predefined gate name g (U, CX and the 23 gates of qelib1.inc): the library gates the importer
   adds for g (c1, matrices from gates.py / gateclass.py / the helper unitaries of qasm.py) denote the standard's
   definition of g expanded to U and CX (c2, preceded by an explicit global phase), for all parameter values,
   in every register, at every placement of g's qubits. *)
Theorem shortcut_ok : forall (R : PhaseRing) (A : atoms R) g np nq c1 c2 ts,
  In g predefined -> sassoc g sig0 = Some (np, nq) -> imp_sym g = Some c1 -> std_with_phase g = Some c2 ->
  NoDup ts -> length ts = nq ->
  sem (place ts (map (gden R A) c1)) = sem (place ts (map (gden R A) c2)).
Proof. exact shortcut_sem. Qed.
Print Assumptions shortcut_ok.

(* every predefined name is covered by the check, with the arity of the standard *)
Theorem shortcut_table_complete : chk_shortcuts = true /\ chk_sigs = true.
Proof. exact (conj chk_shortcuts_true chk_sigs_true). Qed.
Print Assumptions shortcut_table_complete.

(* Layer B, if(c==k).  The classical control attached by the importer fires iff the register, read as an integer
   whose bit 0 is c[0], equals k - for every register size and every contents of the classical bits. *)
Theorem import_if_ok : forall (cb : nat -> bool) (cs : list nat) (k : nat), k < 2 ^ length cs ->
  cc_fires cb (cs, bitrev (length cs) k) = cond_fires cb (cs, k).
Proof. exact if_ok. Qed.
Print Assumptions import_if_ok.

Theorem import_if_never : forall (cb : nat -> bool) (cs : list nat) (k : nat), 2 ^ length cs <= k -> cond_fires cb (cs, k) = false.
Proof. exact if_never. Qed.
Print Assumptions import_if_never.

(* the unchanged code passes k on unchanged: refuted *)
Theorem import_if_unfixed_refuted : exists (cb : nat -> bool) cs k, k < 2 ^ length cs /\
  cc_fires cb (cs, if_value_unfixed (length cs) k) <> cond_fires cb (cs, k).
Proof. exact if_unfixed_refuted. Qed.
Print Assumptions import_if_unfixed_refuted.

(* Layer C, unchanged code: textual substitution of qubit names captures (gate g q, q0 { x q0; }) *)
Theorem custom_gate_unfixed_refuted : exists regs_map hq a b,
  subst_regs_word regs_map hq = Some a /\ subst_regs_unfixed regs_map hq = Some b /\ a <> b.
Proof. exact subst_unfixed_refuted. Qed.
Print Assumptions custom_gate_unfixed_refuted.

(* Layer D, unchanged code: an out-of-range index is not rejected *)
Theorem import_rejects_unfixed_refuted : exists L qs out,
  omap (resolve L) qs = None /\ regs_stale L None qs = Some out.
Proof. exact stale_index_refuted. Qed.
Print Assumptions import_rejects_unfixed_refuted.

(* non-vacuity *)
Example shortcut_ok_ccx : exists c1 c2, imp_sym "ccx" = Some c1 /\ std_with_phase "ccx" = Some c2 /\ length c1 = 1 /\ length c2 = 16
  /\ smem "ccx" predefined = true /\ sassoc "ccx" sig0 = Some (0, 3).
Proof. eexists. eexists. repeat split; vm_compute; reflexivity. Qed.
Example if_ok_instance : cond_fires (fun i => Nat.eqb i 0) ([0; 1], 1) = true /\ bitrev 2 1 = 2.
Proof. split; vm_compute; reflexivity. Qed.
