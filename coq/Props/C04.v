(* C04 - Imported OpenQASM 2.0 programs mean what the OpenQASM 2.0 standard says.
   Spec/Qasm.v + Spec/QasmSem.v: the standard (syntax, well-formedness, expansion semantics, qelib1.inc by hand).
   Model/QasmImport.v: the importer after tokenisation (tied to qasm.py by the correspondence check);
   Gen/Qasm.v: the importer's tables, regenerated from qasm.py on every run.
   Quantification over parameter values: every phase ring R and atoms A (u = e^{i pi/16}, z_j = e^{i theta_j/4}). *)
From Coq Require Import Lia.
From QV Require Import Model.QasmImport Spec.QasmSem Found.Circ Gen.Gates Gen.Qasm.
From QV Require Import Proofs.QasmShortcut Proofs.QasmIf Proofs.QasmSubst Proofs.QasmRegs Proofs.QasmRejects Proofs.QasmCustom Proofs.QasmSem1 Proofs.QasmSem2 Proofs.QasmSound Proofs.QasmTotal1 Proofs.QasmTotal2 Proofs.QasmSpecTotal.
Local Open Scope string_scope.
Local Open Scope nat_scope.
Local Open Scope list_scope.

(* Layer A.  For every predefined gate name g (U, CX and the 23 gates of qelib1.inc): the library gates the importer
   adds for g (c1, matrices from gates.py / gateclass.py / the helper unitaries of qasm.py) denote the standard's
   definition of g expanded to U and CX (c2, preceded by an explicit global phase), for all parameter values,
   in every register, at every placement of g's qubits. *)
Theorem shortcut_ok : forall (R : PhaseRing) (A : atoms R) g np nq c1 c2 ts,
  In g predefined -> sassoc g sig0 = Some (np, nq) -> imp_sym g = Some c1 -> std_with_phase g = Some c2 ->
  NoDup ts -> length ts = nq ->
  sem (place ts (map (gden R A) c1)) = sem (place ts (map (gden R A) c2)).
Proof. exact shortcut_sem. Qed.
Print Assumptions shortcut_ok.

(* every predefined name is covered by the check, with the arity of the standard *)
Theorem shortcut_table_complete : chk_shortcuts = true /\ chk_sigs = true.
Proof. exact (conj chk_shortcuts_true chk_sigs_true). Qed.
Print Assumptions shortcut_table_complete.

(* Layer B, if(c==k).  The classical control attached by the importer fires iff the register, read as an integer
   whose bit 0 is c[0], equals k - for every register size and every contents of the classical bits. *)
Theorem import_if_ok : forall (cb : nat -> bool) (cs : list nat) (k : nat), k < 2 ^ length cs ->
  cc_fires cb (cs, bitrev (length cs) k) = cond_fires cb (cs, k).
Proof. exact if_ok. Qed.
Print Assumptions import_if_ok.

Theorem import_if_never : forall (cb : nat -> bool) (cs : list nat) (k : nat), 2 ^ length cs <= k -> cond_fires cb (cs, k) = false.
Proof. exact if_never. Qed.
Print Assumptions import_if_never.

(* the unchanged code passes k on unchanged: refuted *)
Theorem import_if_unfixed_refuted : exists (cb : nat -> bool) cs k, k < 2 ^ length cs /\
  cc_fires cb (cs, if_value_unfixed (length cs) k) <> cond_fires cb (cs, k).
Proof. exact if_unfixed_refuted. Qed.
Print Assumptions import_if_unfixed_refuted.

(* Layer C, unchanged code: textual substitution of qubit names captures (gate g q, q0 { x q0; }) *)
Theorem custom_gate_unfixed_refuted : exists regs_map hq a b,
  subst_regs_word regs_map hq = Some a /\ subst_regs_unfixed regs_map hq = Some b /\ a <> b.
Proof. exact subst_unfixed_refuted. Qed.
Print Assumptions custom_gate_unfixed_refuted.

(* Layer D, unchanged code: an out-of-range index is not rejected *)
Theorem import_rejects_unfixed_refuted : exists L qs out,
  omap (resolve L) qs = None /\ regs_stale L None qs = Some out.
Proof. exact stale_index_refuted. Qed.
Print Assumptions import_rejects_unfixed_refuted.

(* Layer B, register arguments.  The importer's resolution of indexed / whole-register arguments with broadcast by zip is
   the standard's rule (one common register size n, n statements), for every declaration list and argument list. *)
Theorem import_regs_ok : forall L qs, (forall r off n, sassoc r L = Some (off, n) -> 0 < n) ->
  regs_gate true L qs = match omap (resolve L) qs with Some rs => broadcast rs | None => None end.
Proof. exact regs_ok. Qed.
Print Assumptions import_regs_ok.

(* Layer C, user-defined gates (fixed code: whole-identifier substitution).  The temporary circuit the importer builds for a
   user gate - recursive expansion, parameters evaluated and substituted at every level, qubit names replaced by indices -
   is the standard's macro expansion of the gate to the library level (environment semantics, Spec/Qasm.v expand), each
   leaf translated by the importer's table; for every program, every nesting depth, every parameter values. *)
Theorem custom_gate_ok : forall (A : VAlg) p Sg Gi Gs g vals regs gs ls,
  init_gates sig0 [] (p_gates p) = Some (Sg, Gi) -> gdefs (p_gates p) [] = Some Gs ->
  custom A Gi g vals regs = Some gs -> expand A sig0 Gs g vals regs = Some ls -> flat_pre A ls = Some gs.
Proof. exact custom_prog_sound. Qed.
Print Assumptions custom_gate_ok.

(* Layer D, import_rejects.  Whatever else a program contains, ONE statement of a malformation class named by the property
   makes the importer reject it.  (bad_arg = undeclared register or index out of range; app_of o = the gate application
   of an operation, guarded by if or not.) *)
Theorem import_rejects_reset : forall (A : VAlg) p q, In (OReset q) (p_ops p) -> import_prog A p = None.
Proof. exact rejects_reset. Qed.
Print Assumptions import_rejects_reset.
Theorem import_rejects_opaque : forall (A : VAlg) p n ps qs, In (GOpaque n ps qs) (p_gates p) -> import_prog A p = None.
Proof. exact rejects_opaque. Qed.
Print Assumptions import_rejects_opaque.
Theorem import_rejects_undeclared_gate : forall (A : VAlg) p o g args qs,
  In o (p_ops p) -> app_of o = Some (g, args, qs) -> sassoc g sig0 = None -> (forall d, ~ In (GDef g d) (p_gates p)) ->
  import_prog A p = None.
Proof. exact rejects_undeclared_gate_name. Qed.
Print Assumptions import_rejects_undeclared_gate.
Theorem import_rejects_bad_qubit_argument : forall (A : VAlg) p o g args qs a,
  In o (p_ops p) -> app_of o = Some (g, args, qs) -> In a qs -> bad_arg (layout 0 (p_qregs p)) a -> import_prog A p = None.
Proof. exact rejects_bad_qubit_argument. Qed.
Print Assumptions import_rejects_bad_qubit_argument.
Theorem import_rejects_param_arity : forall (A : VAlg) p o g args qs,
  In o (p_ops p) -> app_of o = Some (g, args, qs) ->
  (forall Sg G np nq, init_gates sig0 [] (p_gates p) = Some (Sg, G) -> sassoc g Sg = Some (np, nq) -> length args <> np) ->
  import_prog A p = None.
Proof. exact rejects_param_arity. Qed.
Print Assumptions import_rejects_param_arity.
(* repeated qubit, or wrong number of qubit arguments, in some instance of a (broadcast) statement *)
Theorem import_rejects_bad_instance : forall (A : VAlg) p o g args qs,
  In o (p_ops p) -> app_of o = Some (g, args, qs) ->
  (forall Sg G np nq reg_set, init_gates sig0 [] (p_gates p) = Some (Sg, G) -> sassoc g Sg = Some (np, nq) ->
      regs_gate true (layout 0 (p_qregs p)) qs = Some reg_set -> exists regs, In regs reg_set /\ (length regs <> nq \/ nnodup regs = false)) ->
  import_prog A p = None.
Proof. exact rejects_bad_instance. Qed.
Print Assumptions import_rejects_bad_instance.
(* power operator, function call, unknown identifier in a parameter expression *)
Theorem import_rejects_bad_expression : forall (A : VAlg) p o g args qs e,
  In o (p_ops p) -> app_of o = Some (g, args, qs) -> In e args -> (plain e = false \/ ids e <> []) -> import_prog A p = None.
Proof. exact rejects_bad_expression. Qed.
Print Assumptions import_rejects_bad_expression.
Theorem import_rejects_bad_measure : forall (A : VAlg) p q c,
  In (OMeasure q c) (p_ops p) -> (bad_arg (layout 0 (p_qregs p)) q \/ bad_arg (layout 0 (p_cregs p)) c) -> import_prog A p = None.
Proof. exact rejects_bad_measure. Qed.
Print Assumptions import_rejects_bad_measure.
Theorem import_rejects_undeclared_creg_if : forall (A : VAlg) p c k g args qs,
  In (OIf c k g args qs) (p_ops p) -> sassoc c (layout 0 (p_cregs p)) = None -> import_prog A p = None.
Proof. exact rejects_undeclared_creg_if. Qed.
Print Assumptions import_rejects_undeclared_creg_if.
Theorem import_rejects_bad_barrier : forall (A : VAlg) p qs a,
  In (OBarrier qs) (p_ops p) -> In a qs -> bad_arg (layout 0 (p_qregs p)) a -> import_prog A p = None.
Proof. exact rejects_bad_barrier. Qed.
Print Assumptions import_rejects_bad_barrier.
(* gate bodies: repeated qubit, qubit that is not a formal, bad parameter expression *)
Theorem import_rejects_bad_body : forall (A : VAlg) p n d h args hq,
  In (GDef n d) (p_gates p) -> In (BCall h args hq) (gd_body d) ->
  (snodup hq = false \/ subset hq (gd_qubits d) = false \/ exists e, In e args /\ check_expr (gd_params d) e = false) ->
  import_prog A p = None.
Proof. exact rejects_bad_body. Qed.
Print Assumptions import_rejects_bad_body.

(* import_sound.  For EVERY program the importer model accepts (non-empty quantum registers), and for every phase ring R and
   every assignment aenv of atoms (the values e^{i v/4}) to lists of parameter values: the imported circuit and the standard's
   meaning of the program (spec_prog: broadcast, macro expansion of user gates to library-level leaves, measure, if; each
   leaf denoting its qelib1.inc definition expanded to U/CX, Spec/QasmSem.v) have the same branch semantics - started from
   the same classical bits, the same outcome record and states equal up to a scalar, they end with the same classical
   bits, the same remaining record and states equal up to a scalar (one scalar per measurement record).
   run_iops / run_sops: gates applied iff their classical condition holds (importer: first listed control = highest bit;
   standard: register as an integer, bit 0 = c[0]), a measurement consumes the next outcome of the record, projects the
   qubit and writes the classical bit.  The signature table sig0 used as the set of library-level gates equals the
   standard's by shortcut_table_complete. *)
Theorem import_sound : forall (R : PhaseRing) (A : VAlg) (aenv : list A -> atoms R) p n c iops n' c' sops,
  forallb (fun r => 0 <? snd r) (p_qregs p) = true ->
  import_prog A p = Some (n, c, iops) -> spec_prog A sig0 p = Some (n', c', sops) ->
  n = n' /\ c = c' /\
  forall cb r psi1 psi2, rel R psi1 psi2 ->
    creq R (run_iops R A aenv iops (cb, psi1, r)) (run_sops R A aenv sops (cb, psi2, r)).
Proof. exact import_sound_run. Qed.
Print Assumptions import_sound.

(* the measurement-free, unconditioned case: the imported circuit is the standard's circuit times ONE global scalar *)
Theorem import_sound_unitary : forall (R : PhaseRing) (A : VAlg) (aenv : list A -> atoms R) p n c iops n' c' sops,
  forallb (fun r => 0 <? snd r) (p_qregs p) = true -> forallb unitary_op (p_ops p) = true ->
  import_prog A p = Some (n, c, iops) -> spec_prog A sig0 p = Some (n', c', sops) ->
  n = n' /\ forall psi, exists s : R, forall x,
    sem (circ_of_iops R A aenv iops) psi x = kmul R s (sem (circ_of_sops R A aenv sops) psi x).
Proof. exact import_sound_unitary_thm. Qed.
Print Assumptions import_sound_unitary.

(* import_total: a program that is well-formed per the standard (Spec/Qasm.v wf over built-ins + qelib1.inc: names declared
   before use and once, arities, indices in range, equal register sizes in a broadcast, pairwise distinct qubits after
   broadcast, plain closed parameter expressions, non-empty registers) is NEVER refused by the importer model - provided
   no division by zero occurs while evaluating parameters (vdiv total).  Gate definitions whose body applies no gate
   (`gate g a { }`, barriers only) are included since fix C04-i-empty-gate-body (identity).  An empty `( )` parameter
   list is a matter of the tokenizer only (same syntax tree; repaired by C04-j-empty-parameter-parens and exercised by the
   correspondence check).  `if(..) measure` has no counterpart in the syntax tree: QubitCircuit cannot express a
   conditioned measurement, so it stays refused (open known finding if-measure-refused). *)
Theorem import_total : forall (A : VAlg), (forall a b : A, vdiv A a b <> None) ->
  forall p, wf lib_sigs p = true -> import_prog A p <> None.
Proof. exact import_total_thm. Qed.
Print Assumptions import_total.

(* spec_total: the standard's semantics is DEFINED on every program that is well-formed per the standard (same wf, same
   side condition as import_total and no more): collecting the gate definitions, resolving and broadcasting register
   arguments, evaluating parameters and macro-expanding user gates to library-level leaves at every nesting depth never
   fails.  So wf is not more permissive than the hand-written semantics it guards, and the hypothesis
   `spec_prog A sig0 p = Some ..` of import_sound is satisfied by every well-formed program.  (sig0 = lib_sigs as lookup
   tables by shortcut_table_complete.) *)
Theorem spec_total : forall (A : VAlg), (forall a b : A, vdiv A a b <> None) ->
  forall p, wf lib_sigs p = true -> spec_prog A sig0 p <> None.
Proof. exact spec_total_thm. Qed.
Print Assumptions spec_total.

(* import_sound_total = import_total + spec_total + import_sound: for EVERY well-formed program (wf includes non-empty
   registers) and total vdiv, the importer accepts it, the standard gives it a meaning, both with the same numbers of
   qubits and classical bits, and the imported circuit has the standard's branch semantics (see import_sound).  No
   definedness hypothesis is left. *)
Theorem import_sound_total : forall (R : PhaseRing) (A : VAlg) (aenv : list A -> atoms R) p,
  (forall a b : A, vdiv A a b <> None) -> wf lib_sigs p = true ->
  exists n c iops sops, import_prog A p = Some (n, c, iops) /\ spec_prog A sig0 p = Some (n, c, sops) /\
    forall cb r psi1 psi2, rel R psi1 psi2 ->
      creq R (run_iops R A aenv iops (cb, psi1, r)) (run_sops R A aenv sops (cb, psi2, r)).
Proof. exact import_sound_total_thm. Qed.
Print Assumptions import_sound_total.

(* non-vacuity *)
Example rejects_instance :
  let p := mkProg [("q", 2)] [] [] [OApp "cx" [] [AIdx "q" 0; AIdx "q" 5]] in
  bad_arg (layout 0 (p_qregs p)) (AIdx "q" 5) /\ import_prog TermAlg p = None /\
  import_prog TermAlg (mkProg [("q", 2)] [] [] [OApp "cx" [] [AIdx "q" 0; AIdx "q" 1]]) <> None.
Proof. split; [vm_compute; lia|]. split; [vm_compute; reflexivity| vm_compute; discriminate]. Qed.
Example custom_gate_ok_instance :
  let p := mkProg [("q", 2)] [] [GDef "g" (mkGdef ["t"] ["a"; "b"] [BCall "rx" [EDiv (EId "t") (ENum 2)] ["a"]; BBarrier ["a"]; BCall "cx" [] ["b"; "a"]]);
                                 GDef "h2" (mkGdef ["x"] ["a"; "b"] [BCall "g" [EMul (EId "x") EPi] ["b"; "a"]; BCall "t" [] ["a"]])] [] in
  exists Sg Gi Gs gs ls, init_gates sig0 [] (p_gates p) = Some (Sg, Gi) /\ gdefs (p_gates p) [] = Some Gs /\
    custom TermAlg Gi "h2" [TNum 3] [0; 1] = Some gs /\ expand TermAlg sig0 Gs "h2" [TNum 3] [0; 1] = Some ls /\ length gs = 3 /\ length ls = 3.
Proof. do 5 eexists. repeat split; vm_compute; reflexivity. Qed.
Example import_sound_instance :
  let p := mkProg [("q", 2)] [("c", 2)]
             [GDef "g" (mkGdef ["t"] ["a"; "b"] [BCall "rx" [EDiv (EId "t") (ENum 2)] ["a"]; BCall "cz" [] ["b"; "a"]])]
             [OApp "h" [] [AReg "q"]; OMeasure (AIdx "q" 0) (AIdx "c" 0); OIf "c" 1 "g" [EPi] [AIdx "q" 1; AIdx "q" 0];
              OIf "c" 7 "x" [] [AIdx "q" 0]; OMeasure (AReg "q") (AReg "c")] in
  exists n c iops sops, import_prog TermAlg p = Some (n, c, iops) /\ spec_prog TermAlg sig0 p = Some (n, c, sops) /\
    length iops = 6 /\ length sops = 7 /\ forallb (fun r => 0 <? snd r) (p_qregs p) = true.
Proof. do 4 eexists. split; [vm_compute; reflexivity|]. split; [vm_compute; reflexivity|]. repeat split. Qed.
Example import_total_instance :
  let p := mkProg [("q", 2); ("r", 2)] [("c", 2)]
             [GDef "g" (mkGdef ["t"] ["a"; "b"] [BCall "rx" [EDiv (EId "t") (ENum 2)] ["a"]; BBarrier ["a"]; BCall "cz" [] ["b"; "a"]]);
              GDef "nop" (mkGdef [] ["a"] [BBarrier ["a"]]); GDef "usenop" (mkGdef [] ["a"; "b"] [BCall "nop" [] ["b"]])]
             [OApp "cx" [] [AReg "q"; AReg "r"]; OApp "nop" [] [AReg "q"]; OApp "usenop" [] [AIdx "q" 0; AIdx "r" 1]; OMeasure (AIdx "q" 0) (AIdx "c" 0); OIf "c" 1 "g" [EPi] [AIdx "q" 1; AIdx "r" 0];
              OBarrier [AReg "q"; AIdx "r" 1]; OMeasure (AReg "q") (AReg "c")] in
  wf lib_sigs p = true /\ (forall a b : TermAlg, vdiv TermAlg a b <> None) /\ import_prog TermAlg p <> None.
Proof. split; [vm_compute; reflexivity|]. split; [intros a b; discriminate|vm_compute; discriminate]. Qed.
Example spec_total_instance :
  let p := mkProg [("q", 2); ("r", 2); ("s", 1)] [("c", 2)]
             [GDef "g" (mkGdef ["t"] ["a"; "b"] [BCall "rx" [EDiv (EId "t") (ENum 2)] ["a"]; BBarrier ["a"]; BCall "cz" [] ["b"; "a"]]);
              GDef "nop" (mkGdef [] ["a"] [BBarrier ["a"]]); GDef "usenop" (mkGdef [] ["a"; "b"] [BCall "nop" [] ["b"]]);
              GDef "gg" (mkGdef ["x"; "y"] ["a"; "b"; "c"] [BCall "g" [EMul (EId "x") (EId "y")] ["c"; "a"]; BCall "usenop" [] ["b"; "c"];
                                                         BCall "U" [EId "x"; EPi; ENeg (EId "y")] ["b"]; BCall "CX" [] ["c"; "b"]])]
             [OApp "cx" [] [AReg "q"; AReg "r"]; OApp "gg" [EPi; ENum 3] [AReg "q"; AIdx "s" 0; AReg "r"]; OMeasure (AIdx "q" 0) (AIdx "c" 0);
              OIf "c" 1 "g" [EPi] [AIdx "q" 1; AIdx "r" 0]; OIf "c" 9 "gg" [EPi; ENum 3] [AIdx "q" 1; AIdx "r" 0; AIdx "q" 0];
              OBarrier [AReg "q"; AIdx "r" 1]; OMeasure (AReg "q") (AReg "c")] in
  wf lib_sigs p = true /\ (forall a b : TermAlg, vdiv TermAlg a b <> None) /\
  exists sops, spec_prog TermAlg sig0 p = Some (5, 2, sops) /\ length sops = 9.
Proof. split; [vm_compute; reflexivity|]. split; [intros a b; discriminate|]. eexists. split; vm_compute; reflexivity. Qed.
Example regs_ok_instance : regs_gate true [("q", (0, 2)); ("r", (2, 2))] [AReg "q"; AIdx "r" 1] = Some [[0; 3]; [1; 3]].
Proof. vm_compute. reflexivity. Qed.
Example shortcut_ok_ccx : exists c1 c2, imp_sym "ccx" = Some c1 /\ std_with_phase "ccx" = Some c2 /\ length c1 = 1 /\ length c2 = 16
  /\ smem "ccx" predefined = true /\ sassoc "ccx" sig0 = Some (0, 3).
Proof. eexists. eexists. repeat split; vm_compute; reflexivity. Qed.
Example if_ok_instance : cond_fires (fun i => Nat.eqb i 0) ([0; 1], 1) = true /\ bitrev 2 1 = 2.
Proof. split; vm_compute; reflexivity. Qed.
