(* C05 -- Gate scheduling preserves the circuit's unitary and qubit exclusivity.
   Model: Model/Sched.v (`sched_cycles` = Scheduler(method, allow_permutation).schedule(circuit,
   gates_schedule=True, return_cycles_list=True, random_shuffle=random)).
   Quantification: every gate list in which some gate uses a qubit (valid_input; durations positive, 1 for gates),
   every commutation predicate commI (the library's commutation_rules is one instance), both methods (alap),
   allow_permutation or not, shuffling or not, every shuffle result (sh), every set iteration order (so).
   cidx cycles i = index of the cycle that contains gate i.

   sched_sem is stated for an abstract gate action `act` on an abstract state space: it needs only
   (H1) gates on disjoint qubits commute and (H2) gates the predicate declares commuting commute.  For the unitary
   semantics of the library's gates H1/H2 are the business of the matrix foundation (not part of this file); the
   harness checks them numerically on every run. *)
From Coq Require Import String.
From Coq Require Import List QArith Permutation.
From QV Require Import Model.Sched Proofs.SchedBase Proofs.SchedC11Inst Proofs.SchedC05 Proofs.SchedCheck.
Import ListNotations.

Theorem cycles_defined :
  forall commI allow_permutation instrs alap random sh so, valid_input instrs ->
  forall ks ko, exists cycles ks' ko',
    sched_cycles commI allow_permutation instrs alap random sh so ks ko = Some (cycles, ks', ko').
Proof. exact cycles_defined. Qed.
Print Assumptions cycles_defined.

(* every gate is placed in exactly one cycle *)
Theorem sched_partition :
  forall commI allow_permutation instrs alap random sh so, valid_input instrs ->
  forall ks ko cycles ks' ko',
    sched_cycles commI allow_permutation instrs alap random sh so ks ko = Some (cycles, ks', ko') ->
    Permutation (concat cycles) (seq 0 (length instrs)).
Proof. exact sched_partition. Qed.
Print Assumptions sched_partition.

(* no two gates in the same cycle share a qubit *)
Theorem sched_exclusive :
  forall commI allow_permutation instrs alap random sh so, valid_input instrs ->
  forall ks ko cycles ks' ko',
    sched_cycles commI allow_permutation instrs alap random sh so ks ko = Some (cycles, ks', ko') ->
    forall c, In c cycles -> forall a b, In a c -> In b c -> a <> b ->
      disjoint_qubits (ith instrs a) (ith instrs b).
Proof. exact sched_exclusive. Qed.
Print Assumptions sched_exclusive.

(* executing the cycles in order = executing the original order *)
Theorem sched_sem :
  forall commI allow_permutation instrs alap random sh so, valid_input instrs ->
  forall (St : Type) (act : instr -> St -> St),
    (forall a b, disjoint_qubits a b -> forall s, act a (act b s) = act b (act a s)) ->
    (forall a b, commI a b = true -> forall s, act a (act b s) = act b (act a s)) ->
  forall ks ko cycles ks' ko',
    sched_cycles commI allow_permutation instrs alap random sh so ks ko = Some (cycles, ks', ko') ->
    forall s, fold_left (fun s i => act (ith instrs i) s) (concat cycles) s
              = fold_left (fun s g => act g s) instrs s.
Proof. exact sched_sem. Qed.
Print Assumptions sched_sem.

(* a gate is in a strictly later cycle than every earlier gate on a common qubit that is not declared commuting *)
Theorem sched_order :
  forall commI allow_permutation instrs alap random sh so, valid_input instrs ->
  forall ks ko cycles ks' ko',
    sched_cycles commI allow_permutation instrs alap random sh so ks ko = Some (cycles, ks', ko') ->
    forall i j, i < j -> j < length instrs -> (exists q, uses (ith instrs i) q /\ uses (ith instrs j) q) ->
      commN commI allow_permutation instrs j i = false -> cidx cycles i < cidx cycles j.
Proof. exact sched_order. Qed.
Print Assumptions sched_order.

(* with allow_permutation = False gates that share a qubit keep their relative order *)
Theorem sched_order_no_perm :
  forall commI instrs alap random sh so, valid_input instrs ->
  forall ks ko cycles ks' ko',
    sched_cycles commI false instrs alap random sh so ks ko = Some (cycles, ks', ko') ->
    forall i j, i < j -> j < length instrs -> (exists q, uses (ith instrs i) q /\ uses (ith instrs j) q) ->
      cidx cycles i < cidx cycles j.
Proof. exact sched_order_no_perm. Qed.
Print Assumptions sched_order_no_perm.

(* the shipped commutation rule declares two FREDKIN gates with the same control and overlapping, different
   targets commuting; they do not commute even on classical bit strings (H2 fails for commutation_rules_orig) *)
Theorem commutation_rules_orig_refuted :
  commutation_rules_orig fredkin_b fredkin_a = true /\
  (exists q, uses fredkin_a q /\ uses fredkin_b q) /\
  exists s, fredkin_bits 0 2 3 (fredkin_bits 0 1 2 s) <> fredkin_bits 0 1 2 (fredkin_bits 0 2 3 s).
Proof. exact commutation_rules_orig_refuted. Qed.
Print Assumptions commutation_rules_orig_refuted.

(* any cycle list accepted by the executable checker has all four properties (used by the harness to validate the
   REAL scheduler's output inside Coq for circuits with more than 8 gates) *)
Theorem valid_cycles_sound :
  forall commI perm instrs cycles, valid_cycles commI perm instrs cycles = true ->
  Permutation (concat cycles) (seq 0 (length instrs)) /\
  (forall c, In c cycles -> forall a b, In a c -> In b c -> a <> b -> disjoint_qubits (ith instrs a) (ith instrs b)) /\
  (forall i j, i < j -> j < length instrs -> (exists q, uses (ith instrs i) q /\ uses (ith instrs j) q) ->
      commN commI perm instrs j i = false -> cidx cycles i < cidx cycles j) /\
  (forall (St : Type) (act : instr -> St -> St),
      (forall a b, disjoint_qubits a b -> forall s, act a (act b s) = act b (act a s)) ->
      (forall a b, commI a b = true -> forall s, act a (act b s) = act b (act a s)) ->
      forall s, fold_left (fun s i => act (ith instrs i) s) (concat cycles) s = fold_left (fun s g => act g s) instrs s).
Proof. exact valid_cycles_sound. Qed.
Print Assumptions valid_cycles_sound.

Example checker_accepts_example : valid_cycles commutation_rules true c05_example [[0; 2]; [1]] = true.
Proof. vm_compute. reflexivity. Qed.

Example checker_rejects_swapped : valid_cycles commutation_rules true c05_example [[1]; [0; 2]] = false.
Proof. vm_compute. reflexivity. Qed.

(* non-vacuity *)
Example valid_input_inhabited : valid_input c05_example.
Proof. exact c05_example_valid. Qed.

Example example_cycles :
  sched_cycles commutation_rules true c05_example false false so_asc so_asc 0 0 = Some ([[0; 2]; [1]], 0, 6).
Proof. exact c05_example_cycles. Qed.

Example example_cycles_no_perm :
  sched_cycles commutation_rules false c05_example false false so_asc so_asc 0 0 = Some ([[0]; [1]; [2]], 0, 6).
Proof. exact c05_example_noperm. Qed.

Example fixed_rule_rejects_fredkin_pair : commutation_rules fredkin_b fredkin_a = false.
Proof. exact commutation_rules_fixed_fredkin. Qed.
