(* C05 -- Gate scheduling preserves the circuit's unitary and qubit exclusivity.
   Model: Model/Sched.v (`sched_cycles` = Scheduler(method, allow_permutation).schedule(circuit,
   gates_schedule=True, return_cycles_list=True, random_shuffle=random)).
   Quantification: every gate list in which some gate uses a qubit (valid_input; durations positive, 1 for gates),
   every commutation predicate commI (the library's commutation_rules is one instance), both methods (alap),
   allow_permutation or not, shuffling or not, every shuffle result (sh), every set iteration order (so).
   cidx cycles i = index of the cycle that contains gate i.

   sched_sem is stated for an abstract gate action `act` on an abstract state space: it needs only
   (H1) gates on disjoint qubits commute and (H2) gates the predicate declares commuting commute.  For the unitary
   semantics of the library's gates H1/H2 are the business of the matrix foundation (not part of this file); the
   harness checks them numerically on every run. *)
From Coq Require Import String.
From Coq Require Import List QArith Permutation.
From QV Require Import Model.Sched Proofs.SchedBase Proofs.SchedC11Inst Proofs.SchedC05 Proofs.SchedCheck.
Import ListNotations.

Theorem cycles_defined :
  forall commI allow_permutation instrs alap random sh so, valid_input instrs ->
  forall ks ko, exists cycles ks' ko',
    sched_cycles commI allow_permutation instrs alap random sh so ks ko = Some (cycles, ks', ko').
Proof. exact cycles_defined. Qed.
Print Assumptions cycles_defined.

(* every gate is placed in exactly one cycle *)
Theorem sched_partition :
  forall commI allow_permutation instrs alap random sh so, valid_input instrs ->
  forall ks ko cycles ks' ko',
    sched_cycles commI allow_permutation instrs alap random sh so ks ko = Some (cycles, ks', ko') ->
    Permutation (concat cycles) (seq 0 (length instrs)).
Proof. exact sched_partition. Qed.
Print Assumptions sched_partition.

(* no two gates in the same cycle share a qubit *)
Theorem sched_exclusive :
  forall commI allow_permutation instrs alap random sh so, valid_input instrs ->
  forall ks ko cycles ks' ko',
    sched_cycles commI allow_permutation instrs alap random sh so ks ko = Some (cycles, ks', ko') ->
    forall c, In c cycles -> forall a b, In a c -> In b c -> a <> b ->
      disjoint_qubits (ith instrs a) (ith instrs b).
Proof. exact sched_exclusive. Qed.
Print Assumptions sched_exclusive.

(* executing the cycles in order = executing the original order *)
Theorem sched_sem :
  forall commI allow_permutation instrs alap random sh so, valid_input instrs ->
  forall (St : Type) (act : instr -> St -> St),
    (forall a b, disjoint_qubits a b -> forall s, act a (act b s) = act b (act a s)) ->
    (forall a b, commI a b = true -> forall s, act a (act b s) = act b (act a s)) ->
  forall ks ko cycles ks' ko',
    sched_cycles commI allow_permutation instrs alap random sh so ks ko = Some (cycles, ks', ko') ->
    forall s, fold_left (fun s i => act (ith instrs i) s) (concat cycles) s
              = fold_left (fun s g => act g s) instrs s.
Proof. exact sched_sem. Qed.
Print Assumptions sched_sem.

(* a gate is in a strictly later cycle than every earlier gate on a common qubit that is not declared commuting *)
Theorem sched_order :
  forall commI allow_permutation instrs alap random sh so, valid_input instrs ->
  forall ks ko cycles ks' ko',
    sched_cycles commI allow_permutation instrs alap random sh so ks ko = Some (cycles, ks', ko') ->
    forall i j, i < j -> j < length instrs -> (exists q, uses (ith instrs i) q /\ uses (ith instrs j) q) ->
      commN commI allow_permutation instrs j i = false -> cidx cycles i < cidx cycles j.
Proof. exact sched_order. Qed.
Print Assumptions sched_order.

(* with allow_permutation = False gates that share a qubit keep their relative order *)
Theorem sched_order_no_perm :
  forall commI instrs alap random sh so, valid_input instrs ->
  forall ks ko cycles ks' ko',
    sched_cycles commI false instrs alap random sh so ks ko = Some (cycles, ks', ko') ->
    forall i j, i < j -> j < length instrs -> (exists q, uses (ith instrs i) q /\ uses (ith instrs j) q) ->
      cidx cycles i < cidx cycles j.
Proof. exact sched_order_no_perm. Qed.
Print Assumptions sched_order_no_perm.

(* the shipped commutation rule declares two FREDKIN gates with the same control and overlapping, different
   targets commuting; they do not commute even on classical bit strings (H2 fails for commutation_rules_orig) *)
Theorem commutation_rules_orig_refuted :
  commutation_rules_orig fredkin_b fredkin_a = true /\
  (exists q, uses fredkin_a q /\ uses fredkin_b q) /\
  exists s, fredkin_bits 0 2 3 (fredkin_bits 0 1 2 s) <> fredkin_bits 0 1 2 (fredkin_bits 0 2 3 s).
Proof. exact commutation_rules_orig_refuted. Qed.
Print Assumptions commutation_rules_orig_refuted.

(* any cycle list accepted by the executable checker has all four properties (used by the harness to validate the
   REAL scheduler's output inside Coq for circuits with more than 8 gates) *)
Theorem valid_cycles_sound :
  forall commI perm instrs cycles, valid_cycles commI perm instrs cycles = true ->
  Permutation (concat cycles) (seq 0 (length instrs)) /\
  (forall c, In c cycles -> forall a b, In a c -> In b c -> a <> b -> disjoint_qubits (ith instrs a) (ith instrs b)) /\
  (forall i j, i < j -> j < length instrs -> (exists q, uses (ith instrs i) q /\ uses (ith instrs j) q) ->
      commN commI perm instrs j i = false -> cidx cycles i < cidx cycles j) /\
  (forall (St : Type) (act : instr -> St -> St),
      (forall a b, disjoint_qubits a b -> forall s, act a (act b s) = act b (act a s)) ->
      (forall a b, commI a b = true -> forall s, act a (act b s) = act b (act a s)) ->
      forall s, fold_left (fun s i => act (ith instrs i) s) (concat cycles) s = fold_left (fun s g => act g s) instrs s).
Proof. exact valid_cycles_sound. Qed.
Print Assumptions valid_cycles_sound.

Example checker_accepts_example : valid_cycles commutation_rules true c05_example [[0; 2]; [1]] = true.
Proof. vm_compute. reflexivity. Qed.

Example checker_rejects_swapped : valid_cycles commutation_rules true c05_example [[1]; [0; 2]] = false.
Proof. vm_compute. reflexivity. Qed.

(* non-vacuity *)
Example valid_input_inhabited : valid_input c05_example.
Proof. exact c05_example_valid. Qed.

Example example_cycles :
  sched_cycles commutation_rules true c05_example false false so_asc so_asc 0 0 = Some ([[0; 2]; [1]], 0, 6).
Proof. exact c05_example_cycles. Qed.

Example example_cycles_no_perm :
  sched_cycles commutation_rules false c05_example false false so_asc so_asc 0 0 = Some ([[0]; [1]; [2]], 0, 6).
Proof. exact c05_example_noperm. Qed.

Example fixed_rule_rejects_fredkin_pair : commutation_rules fredkin_b fredkin_a = false.
Proof. exact commutation_rules_fixed_fredkin. Qed.

(* ---- H1 / H2 HOLD for the library's real gate matrices (Gen.Gates dispatch + class_mat, regenerated from operations/gates.py and
        gateclass.py on every run), embedded by Found.Base.app on the qubits controls ++ targets, in every phase ring R
        and for all parameter values (env maps the reduced argument list of a gate to arbitrary parameter atoms), with the
        library's commutation_rules (fixes/C05-commutation-rules.diff and C05-role-order.diff applied): so sched_sem is a statement about actual
        unitaries acting on every register.  An instruction that is not well formed for its name (unknown name, wrong
        number of controls / targets, repeated qubit, a gate with >= 2 parameters carrying another number of arguments)
        has no unitary and acts as the identity.  Proofs/SchedReal.v: 71 local symbolic commutation identities with
        independent parameter values for the two gates (all_ok, vm_compute), lifted by Found/Shift.v. ---- *)
From QV Require Import Found.Circ Found.Shift Gen.Gates Proofs.C09 Proofs.SchedReal.

(* what act_real is *)
Theorem act_real_wf : forall (R : PhaseRing) (env : list Q -> atoms R) g m, wf_instr g = Some m ->
  forall st, act_real R env g st = Base.app (emat (withA R (env (map Qred (iargs g)))) (mmat m)) (icontrols g ++ itargets g) st.
Proof. intros R env g m H st. unfold act_real. rewrite H. reflexivity. Qed.

Theorem wf_instr_iff : forall g m, wf_instr g = Some m <->
  exists nc nt np, SchedReal.arity (iname g) = Some (nc, nt, np) /\ gate_mexp (iname g) = Some m /\
    length (icontrols g) = nc /\ length (itargets g) = nt /\ NoDup (icontrols g ++ itargets g) /\
    ((np <= 1)%nat \/ length (iargs g) = np).
Proof. exact SchedReal.wf_iff. Qed.

(* gate_mexp n = the matrix of Gate(n) (dispatch), or of the class registered for n (H, iSWAP, SWAPALPHA, MS, CX, RZX) *)
Theorem gate_mexp_def : forall n, gate_mexp n =
  if String.eqb n "GLOBALPHASE" then Some (MLit [[globalphase_ex]]) else   (* the scalar e^{i arg} on no qubit *)
  match assoc n dispatch with
  | Some m => Some m
  | None => match assoc n class_map with Some c => assoc c class_mat | None => None end
  end.
Proof. reflexivity. Qed.

Theorem arity_covers_names : forall n, (exists m, In (n, m) dispatch) \/ (exists c, In (n, c) class_map) ->
  exists ar, SchedReal.arity n = Some ar.
Proof. exact SchedReal.arity_cover. Qed.

Theorem real_H1 : forall (R : PhaseRing) (env : list Q -> atoms R) a b, disjoint_qubits a b ->
  forall s, act_real R env a (act_real R env b s) = act_real R env b (act_real R env a s).
Proof. exact SchedReal.real_H1. Qed.
Print Assumptions real_H1.

Theorem real_H2 : forall (R : PhaseRing) (env : list Q -> atoms R) a b, commutation_rules a b = true ->
  forall s, act_real R env a (act_real R env b s) = act_real R env b (act_real R env a s).
Proof. exact SchedReal.real_H2. Qed.
Print Assumptions real_H2.

(* executing the scheduled cycles = executing the original order, as unitaries *)
Theorem sched_sem_unitary :
  forall (R : PhaseRing) (env : list Q -> atoms R) allow_permutation instrs alap random sh so, valid_input instrs ->
  forall ks ko cycles ks' ko',
    sched_cycles commutation_rules allow_permutation instrs alap random sh so ks ko = Some (cycles, ks', ko') ->
    forall s : state R, fold_left (fun s i => act_real R env (ith instrs i) s) (concat cycles) s
                        = fold_left (fun s g => act_real R env g s) instrs s.
Proof.
  intros R env perm instrs alap random sh so Hv ks ko cycles ks' ko' H s.
  exact (sched_sem commutation_rules perm instrs alap random sh so Hv (state R) (act_real R env)
           (SchedReal.real_H1 R env) (SchedReal.real_H2 R env) ks ko cycles ks' ko' H s).
Qed.
Print Assumptions sched_sem_unitary.

(* non-vacuity: library gates are well formed (act_real is their matrix, not the identity fallback) *)
Local Open Scope nat_scope.
Example wf_examples :
  wf_instr (mkInstr "CNOT" [1] [0] [] 1%Q) = Some fn_cnot /\
  wf_instr (mkInstr "RX" [1] [] [(1 # 2)%Q] 1%Q) = Some (msubst [Var 0] fn_rx) /\
  wf_instr (mkInstr "TOFFOLI" [2] [0; 1] [] 1%Q) = Some fn_toffoli /\
  wf_instr (mkInstr "FREDKIN" [1; 2] [0] [] 1%Q) = Some fn_fredkin /\
  wf_instr (mkInstr "R" [0] [] [(1 # 2)%Q; (1 # 4)%Q] 1%Q) = Some (msubst [Var 0; Var 1] fn_qrot) /\
  wf_instr (mkInstr "MS" [0; 1] [] [(1 # 2)%Q; (1 # 4)%Q] 1%Q) = Some (msubst [Var 0; Var 1] fn_molmer_sorensen) /\
  wf_instr (mkInstr "R" [0] [] [(1 # 2)%Q] 1%Q) = None /\ wf_instr (mkInstr "CNOT" [0] [0] [] 1%Q) = None.
Proof. repeat split. Qed.
Example c05_example_wf : forallb (fun g => match wf_instr g with Some _ => true | None => false end) c05_example = true.
Proof. reflexivity. Qed.

(* The rule (scheduler._controls_and_targets, fixes/C05-role-order.diff) and the model's instr use the qubits the MATRIX
   treats as controls / targets (the first nc of controls ++ targets are the controls: TOFFOLI(targets=[0,1,2]) has
   controls [0;1] and target [2]), SORTED for every library name except RZX; RZX and user-defined names keep the listed
   order.  Sorting does not change the unitary: every two-target / two-control matrix is invariant under the exchange,
   except RZX (whose lists are therefore not sorted). *)
Theorem rule_names_have_arity : forall n, In n rule_names -> exists ar, SchedReal.arity n = Some ar.
Proof. exact SchedReal.rule_names_covered. Qed.
Theorem act_real_target_order : forall (R : PhaseRing) (env : list Q -> atoms R) n c t1 t2 args d st, n <> "RZX"%string ->
  act_real R env (mkInstr n [t1; t2] c args d) st = act_real R env (mkInstr n [t2; t1] c args d) st.
Proof. exact SchedReal.act_real_target_order. Qed.
Theorem act_real_control_order : forall (R : PhaseRing) (env : list Q -> atoms R) n t c1 c2 args d st,
  act_real R env (mkInstr n t [c1; c2] args d) st = act_real R env (mkInstr n t [c2; c1] args d) st.
Proof. exact SchedReal.act_real_control_order. Qed.
Print Assumptions act_real_target_order.

(* the guards of the fixed rule are needed: with independent parameter values two R gates on one qubit, and two FREDKIN
   gates with the same control and overlapping targets, fail the symbolic commutation test *)
Example guards_needed :
  comm_check 1 (msubst [Var 0; Var 1] fn_qrot) [0] (msubst [Var 0; Var 1] fn_qrot) [0] = false /\
  comm_check 4 fn_fredkin [0; 1; 2] fn_fredkin [0; 2; 3] = false.
Proof. split; vm_compute; reflexivity. Qed.

(* the targets-only forms: Instruction(TOFFOLI(targets=[0,1,2])) is (controls [0;1], target [2]) in the model, well formed,
   and the fixed rule does not declare TOFFOLI(0,1 -> 2) and TOFFOLI(1,2 -> 0) commuting; the rule that compared the
   SORTED target lists [0;1;2] = [0;1;2] did, and the symbolic commutation test of the two gates fails *)
Example toffoli_targets_only :
  wf_instr (mkInstr "TOFFOLI" [2] [0; 1] [] 1%Q) = Some fn_toffoli /\
  commutation_rules (mkInstr "TOFFOLI" [2] [0; 1] [] 1%Q) (mkInstr "TOFFOLI" [0] [1; 2] [] 1%Q) = false /\
  commutation_rules_orig (mkInstr "TOFFOLI" [0; 1; 2] [] [] 1%Q) (mkInstr "TOFFOLI" [0; 1; 2] [] [] 1%Q) = true /\
  comm_check 3 fn_toffoli [0; 1; 2] fn_toffoli [1; 2; 0] = false.
Proof. repeat split; vm_compute; reflexivity. Qed.

(* GLOBALPHASE is the scalar gate it is: a well-formed instruction on no qubit whose 1 x 1 matrix is e^{i arg} *)
Example globalphase_wf :
  wf_instr (mkInstr "GLOBALPHASE" [] [] [(1 # 2)%Q] 1%Q) = Some (MLit [[globalphase_ex]]) /\
  mtab (MLit [[globalphase_ex]]) = Some [[ [T 1 0 0 [4%Z; 0%Z]] ]].   (* z_0^4 = (e^{i arg/4})^4 *)
Proof. split; vm_compute; reflexivity. Qed.
