(* C19 -- The variational-algorithm gradient is the derivative of the cost.
   Model: Model/Vqa.v ([compute_jac] = vqa.py with fixes/C19-jac-per-parameter.diff applied,
   [compute_jac_orig] = the unchanged code).  [diff_algebra] (Proofs/VqaAlg.v) collects the
   algebraic hypotheses: operator product laws, Leibniz rule, and the ASSUMED block-level
   derivative formula (validated numerically by tools/props/c19.py). *)
From Coq Require Import List Arith Bool ZArith.
From QV Require Import Model.Vqa Proofs.Vqa Proofs.VqaInst Proofs.VqaAlg.
Import ListNotations.

(* Full statement, every block structure / layer count / requested index set (None = all):
   the cost evaluates, and the gradient is exactly the list of formal partial derivatives
   D_j cost for the requested in-range parameter indices j, in increasing order. *)
Theorem C19_jac_is_derivative :
  forall (A : Type) (zero one : A) (add mul : A -> A -> A) (dag : A -> A)
         (Sc : Type) (ev : A -> Sc) (obs : A)
         (blockU : nat -> list nat -> A) (fixedU : nat -> A) (blockdU : nat -> list nat -> nat -> A)
         (d : nat -> A -> A) (D : nat -> Sc -> Sc),
    diff_algebra A zero one add mul dag Sc ev obs blockU fixedU blockdU d D ->
    forall (bs : list block) (layers : nat) (indices : option (list nat)),
      1 <= layers -> forallb ok_kind bs = true ->
      let L := free_parameters_num bs layers in
      exists c,
        evaluate A one mul dag Sc ev obs blockU fixedU bs layers (seq 0 L) = Some c /\
        compute_jac A one add mul dag Sc ev obs blockU fixedU blockdU bs layers (seq 0 L) indices
        = Some (map (fun j => D j c) (filter (fun j => mem j (requested indices L)) (seq 0 L))).
Proof. exact alg_jac_correct. Qed.
Print Assumptions C19_jac_is_derivative.

(* the same for an over-long parameter vector (the code ignores the surplus entries) *)
Theorem C19_jac_is_derivative_long_vector :
  forall (A : Type) (zero one : A) (add mul : A -> A -> A) (dag : A -> A)
         (Sc : Type) (ev : A -> Sc) (obs : A)
         (blockU : nat -> list nat -> A) (fixedU : nat -> A) (blockdU : nat -> list nat -> nat -> A)
         (d : nat -> A -> A) (D : nat -> Sc -> Sc),
    diff_algebra A zero one add mul dag Sc ev obs blockU fixedU blockdU d D ->
    forall (bs : list block) (layers : nat) (indices : option (list nat)) (La : nat),
      1 <= layers -> forallb ok_kind bs = true ->
      let L := free_parameters_num bs layers in
      L <= La ->
      exists c,
        evaluate A one mul dag Sc ev obs blockU fixedU bs layers (seq 0 La) = Some c /\
        compute_jac A one add mul dag Sc ev obs blockU fixedU blockdU bs layers (seq 0 La) indices
        = Some (map (fun j => D j c) (filter (fun j => mem j (requested indices La)) (seq 0 L))).
Proof. exact alg_jac_correct_long. Qed.
Print Assumptions C19_jac_is_derivative_long_vector.

(* a parameter vector that is too short is rejected by cost and gradient alike (no silent mis-slicing) *)
Theorem C19_short_vector_rejected :
  forall (A : Type) (one : A) (add mul : A -> A -> A) (dag : A -> A) (Sc : Type) (ev : A -> Sc) (obs : A)
         (blockU : nat -> list nat -> A) (fixedU : nat -> A) (blockdU : nat -> list nat -> nat -> A)
         (bs : list block) (layers La : nat),
    1 <= layers -> forallb ok_kind bs = true ->
    La < free_parameters_num bs layers ->
    evaluate A one mul dag Sc ev obs blockU fixedU bs layers (seq 0 La) = None /\
    (forall indices, compute_jac A one add mul dag Sc ev obs blockU fixedU blockdU bs layers (seq 0 La) indices = None).
Proof. exact short_vector_rejected. Qed.
Print Assumptions C19_short_vector_rejected.

(* one entry per free parameter *)
Theorem C19_jac_length :
  forall (A : Type) (zero one : A) (add mul : A -> A -> A) (dag : A -> A)
         (Sc : Type) (ev : A -> Sc) (obs : A)
         (blockU : nat -> list nat -> A) (fixedU : nat -> A) (blockdU : nat -> list nat -> nat -> A)
         (d : nat -> A -> A) (D : nat -> Sc -> Sc),
    diff_algebra A zero one add mul dag Sc ev obs blockU fixedU blockdU d D ->
    forall (bs : list block) (layers : nat) (g : list Sc),
      1 <= layers -> forallb ok_kind bs = true ->
      compute_jac A one add mul dag Sc ev obs blockU fixedU blockdU bs layers
                  (seq 0 (free_parameters_num bs layers)) None = Some g ->
      length g = free_parameters_num bs layers.
Proof. exact alg_jac_length. Qed.
Print Assumptions C19_jac_length.

(* entry j is the partial derivative of the evaluated cost w.r.t. parameter j *)
Theorem C19_jac_entry :
  forall (A : Type) (zero one : A) (add mul : A -> A -> A) (dag : A -> A)
         (Sc : Type) (ev : A -> Sc) (obs : A)
         (blockU : nat -> list nat -> A) (fixedU : nat -> A) (blockdU : nat -> list nat -> nat -> A)
         (d : nat -> A -> A) (D : nat -> Sc -> Sc),
    diff_algebra A zero one add mul dag Sc ev obs blockU fixedU blockdU d D ->
    forall (bs : list block) (layers : nat) (g : list Sc) (c : Sc) (j : nat),
      1 <= layers -> forallb ok_kind bs = true ->
      compute_jac A one add mul dag Sc ev obs blockU fixedU blockdU bs layers
                  (seq 0 (free_parameters_num bs layers)) None = Some g ->
      evaluate A one mul dag Sc ev obs blockU fixedU bs layers
               (seq 0 (free_parameters_num bs layers)) = Some c ->
      j < free_parameters_num bs layers ->
      nth_error g j = Some (D j c).
Proof. exact alg_jac_entry. Qed.
Print Assumptions C19_jac_entry.

(* a requested subset yields one entry per requested in-range index *)
Theorem C19_jac_subset_length :
  forall (A : Type) (zero one : A) (add mul : A -> A -> A) (dag : A -> A)
         (Sc : Type) (ev : A -> Sc) (obs : A)
         (blockU : nat -> list nat -> A) (fixedU : nat -> A) (blockdU : nat -> list nat -> nat -> A)
         (d : nat -> A -> A) (D : nat -> Sc -> Sc),
    diff_algebra A zero one add mul dag Sc ev obs blockU fixedU blockdU d D ->
    forall (bs : list block) (layers : nat) (l : list nat) (g : list Sc),
      1 <= layers -> forallb ok_kind bs = true ->
      let L := free_parameters_num bs layers in
      compute_jac A one add mul dag Sc ev obs blockU fixedU blockdU bs layers (seq 0 L) (Some l) = Some g ->
      length g = length (filter (fun j => mem j l) (seq 0 L)).
Proof. exact alg_jac_subset_length. Qed.
Print Assumptions C19_jac_subset_length.

(* the block series has as many parameters as get_free_parameters_num reports *)
Theorem C19_series_params :
  forall (bs : list block) (layers : nat),
    1 <= layers -> sum_params (block_series bs layers) = free_parameters_num bs layers.
Proof. exact series_sum_params. Qed.
Print Assumptions C19_series_params.

(* The UNCHANGED code (one entry per parameterised block, term_index 0) ... *)
(* ... is refuted at full strength: a single two-parameter block gives a gradient of length 1 for
   2 free parameters (in every algebra), *)
Theorem C19_orig_length_refuted :
  forall (A : Type) (one : A) (add mul : A -> A -> A) (dag : A -> A) (Sc : Type) (ev : A -> Sc) (obs : A)
         (blockU : nat -> list nat -> A) (fixedU : nat -> A) (blockdU : nat -> list nat -> nat -> A),
  exists g,
    compute_jac_orig A one add mul dag Sc ev obs blockU fixedU blockdU two_param_block 1
                     (seq 0 (free_parameters_num two_param_block 1)) None = Some g
    /\ length g = 1 /\ free_parameters_num two_param_block 1 = 2.
Proof. exact orig_length_refuted. Qed.
Print Assumptions C19_orig_length_refuted.

(* ... and requesting only the second parameter of that block returns nothing at all; *)
Theorem C19_orig_subset_refuted :
  forall (A : Type) (one : A) (add mul : A -> A -> A) (dag : A -> A) (Sc : Type) (ev : A -> Sc) (obs : A)
         (blockU : nat -> list nat -> A) (fixedU : nat -> A) (blockdU : nat -> list nat -> nat -> A),
    compute_jac_orig A one add mul dag Sc ev obs blockU fixedU blockdU two_param_block 1
                     (seq 0 (free_parameters_num two_param_block 1)) (Some [1]) = Some [].
Proof. exact orig_subset_refuted. Qed.
Print Assumptions C19_orig_subset_refuted.

(* ... but it coincides with the fixed code whenever no block has more than one parameter
   (for every block list, layer count, angle vector and index set, valid or not): the defect
   class is exactly "some block has >= 2 parameters". *)
Theorem C19_orig_agrees_on_single_parameter_blocks :
  forall (A : Type) (one : A) (add mul : A -> A -> A) (dag : A -> A) (Sc : Type) (ev : A -> Sc) (obs : A)
         (blockU : nat -> list nat -> A) (fixedU : nat -> A) (blockdU : nat -> list nat -> nat -> A)
         (bs : list block) (layers : nat) (angles : list nat) (indices : option (list nat)),
    forallb single_param bs = true ->
    compute_jac_orig A one add mul dag Sc ev obs blockU fixedU blockdU bs layers angles indices
    = compute_jac A one add mul dag Sc ev obs blockU fixedU blockdU bs layers angles indices.
Proof. exact orig_eq_fixed_single. Qed.
Print Assumptions C19_orig_agrees_on_single_parameter_blocks.

(* ---- non-vacuity --------------------------------------------------------------------------- *)
(* the algebraic hypotheses are satisfiable (2x2 integer matrices, inner derivation) *)
Example C19_hypotheses_satisfiable :
  diff_algebra M2 Mzero Mone Madd Mmul Mdag M2 (fun x => x) Mobs MblockU MfixedU MblockdU Md Md.
Proof. exact M2_diff_algebra. Qed.
Print Assumptions C19_hypotheses_satisfiable.

(* a concrete admissible circuit: initial 2-parameter block, fixed unitary, library gate,
   1-parameter Hamiltonian, 2 layers: 4 free parameters *)
Example C19_example_admissible :
  forallb ok_kind ex_blocks = true /\ free_parameters_num ex_blocks 2 = 4.
Proof. exact ex_blocks_ok. Qed.
Print Assumptions C19_example_admissible.

(* on which the model computes a non-zero gradient in that algebra *)
Example C19_example_nontrivial :
  Mjac ex_blocks 2 (seq 0 4) None = Some [mk2 2%Z 1%Z 1%Z (-2)%Z; Mzero; Mzero; Mzero]
  /\ Meval ex_blocks 2 (seq 0 4) = Some (mk2 1%Z 1%Z 1%Z 2%Z).
Proof. exact ex_jac_value. Qed.
Print Assumptions C19_example_nontrivial.
