(* C20 -- text drawings of circuits are well-formed pictures of the circuit.

   Model/Render.v models TextRenderer.layout() and the printed rows; its flag fx selects the code:
     fx = true  : the renderer with fixes/C20-bridge-span.diff applied  -> theorems without restriction
     fx = false : the renderer of the unchanged tree                    -> `_refuted` + the same theorems under
                  the guard `box_contiguous` (every controlled multi-qubit box has contiguous targets)
   Input domain wf_input: >= 1 qubit, indices in range and distinct, one label per wire, gate_pad >= 0.

   Vocabulary (Spec/RenderSpec.v): rows are lists of code points; the picture has row 3i, 3i+1, 3i+2 =
   top, middle, bottom row of the wire `wire_at nq nc i`; `read_labels` extracts the contents of every
   "┤ ... ├" of a middle row (after the wire-label column) and strips the gate padding; `circuit_labels ops w`
   is computed from the circuit alone; `op_links` lists (wire, row, column offset, glyph) of every link glyph
   and `op_boxes` the label box, both relative to the column x at which the operation is drawn. *)
From Coq Require Import List NArith Arith Bool.
Import ListNotations.
From QV Require Import Model.Render Spec.RenderSpec Proofs.RenderInv Proofs.RenderRead Proofs.RenderLinks
     Proofs.RenderUnfixed Proofs.RenderGuarded.

(* ---------------- the repaired renderer: all circuits, all styles ---------------- *)

(* the drawing succeeds *)
Theorem layout_succeeds : forall sty nq nc ops,
  wf_input sty nq nc ops = true -> exists rows, layout true sty nq nc ops = Some rows.
Proof. exact layout_succeeds_l. Qed.
Print Assumptions layout_succeeds.

(* three rows per quantum and classical wire *)
Theorem rows_three_per_wire : forall fx sty nq nc ops rows,
  layout fx sty nq nc ops = Some rows -> length rows = 3 * (nq + nc).
Proof. exact rows_three_per_wire_l. Qed.
Print Assumptions rows_three_per_wire.

(* the i-th printed wire is wire_at i = qubits N-1 .. 0 then classical bits last .. first: its middle row
   starts with that wire's label column *)
Theorem wire_order : forall sty nq nc ops rows,
  wf_input sty nq nc ops = true -> layout true sty nq nc ops = Some rows ->
  forall i, i < nq + nc ->
    exists rest, nth (3 * i + 1) rows [] = wire_prefix sty nq nc (wire_at nq nc i) ++ rest.
Proof. exact wire_order_f. Qed.
Print Assumptions wire_order.

(* all rows have the same width *)
Theorem rows_equal_width : forall sty nq nc ops rows,
  wf_input sty nq nc ops = true -> layout true sty nq nc ops = Some rows ->
  exists width, forall r, In r rows -> length r = width.
Proof. exact rows_equal_width_l. Qed.
Print Assumptions rows_equal_width.

(* reading a wire's middle row from left to right gives, in circuit order, exactly the labels of the
   operations whose box is attached to that wire *)
Theorem labels_in_order : forall sty nq nc ops rows,
  wf_input sty nq nc ops = true -> Forall text_ok ops ->
  layout true sty nq nc ops = Some rows ->
  forall i, i < nq + nc ->
    read_labels sty nq nc (nth (3 * i + 1) rows []) = circuit_labels ops (wire_at nq nc i).
Proof. exact labels_in_order_f. Qed.
Print Assumptions labels_in_order.

(* every control, swap and measurement link stands, in the column of its operation, on every wire it
   connects or crosses; the label box of the operation stands at that column too *)
Theorem links_reach : forall sty nq nc ops st xs,
  wf_input sty nq nc ops = true ->
  layout_full true sty nq nc ops = Some (st, xs) ->
  length xs = length ops /\
  forall k o x, nth_error ops k = Some o -> nth_error xs k = Some x ->
    (forall f, In f (op_links (padw sty) nq nc o) -> holds st x f) /\
    (forall b, In b (op_boxes (padw sty) nq o) -> box_holds st x b).
Proof. exact links_reach_l. Qed.
Print Assumptions links_reach.

(* the printed rows are the rows of the final state, in print order *)
Theorem printed_rows : forall fx sty nq nc ops st xs,
  layout_full fx sty nq nc ops = Some (st, xs) ->
  layout fx sty nq nc ops = Some (rows_of nq nc st) /\
  forall i j, i < nq + nc -> j < 3 ->
    nth (3 * i + j) (rows_of nq nc st) [] =
    nth j [top (wire_of st (wire_at nq nc i)); mid (wire_of st (wire_at nq nc i));
           bot (wire_of st (wire_at nq nc i))] [].
Proof. exact printed_rows_l. Qed.
Print Assumptions printed_rows.

(* ---------------- the unchanged renderer ---------------- *)

(* FREDKIN with control 1 and targets 0, 2 on three qubits: rows of width 22 and 44 *)
Theorem rows_equal_width_refuted :
  exists sty nq nc ops rows,
    wf_input sty nq nc ops = true /\ layout false sty nq nc ops = Some rows /\
    ~ (exists width, forall r, In r rows -> length r = width).
Proof. exact rows_equal_width_refuted_l. Qed.
Print Assumptions rows_equal_width_refuted.

(* on circuits inside the guard the unchanged renderer draws exactly what the repaired one draws *)
Theorem unchanged_agrees_under_guard : forall sty nq nc ops,
  forallb box_contiguous ops = true ->
  layout_full false sty nq nc ops = layout_full true sty nq nc ops.
Proof. exact layout_full_unfixed_eq. Qed.
Print Assumptions unchanged_agrees_under_guard.

Theorem layout_succeeds_unchanged_guarded : forall sty nq nc ops,
  wf_input sty nq nc ops = true -> forallb box_contiguous ops = true ->
  exists rows, layout false sty nq nc ops = Some rows.
Proof. exact layout_succeeds_g. Qed.
Print Assumptions layout_succeeds_unchanged_guarded.

Theorem wire_order_unchanged_guarded : forall sty nq nc ops rows,
  wf_input sty nq nc ops = true -> forallb box_contiguous ops = true ->
  layout false sty nq nc ops = Some rows ->
  forall i, i < nq + nc ->
    exists rest, nth (3 * i + 1) rows [] = wire_prefix sty nq nc (wire_at nq nc i) ++ rest.
Proof. exact wire_order_g. Qed.
Print Assumptions wire_order_unchanged_guarded.

Theorem rows_equal_width_unchanged_guarded : forall sty nq nc ops rows,
  wf_input sty nq nc ops = true -> forallb box_contiguous ops = true ->
  layout false sty nq nc ops = Some rows ->
  exists width, forall r, In r rows -> length r = width.
Proof. exact rows_equal_width_g. Qed.
Print Assumptions rows_equal_width_unchanged_guarded.

Theorem labels_in_order_unchanged_guarded : forall sty nq nc ops rows,
  wf_input sty nq nc ops = true -> forallb box_contiguous ops = true -> Forall text_ok ops ->
  layout false sty nq nc ops = Some rows ->
  forall i, i < nq + nc ->
    read_labels sty nq nc (nth (3 * i + 1) rows []) = circuit_labels ops (wire_at nq nc i).
Proof. exact labels_in_order_g. Qed.
Print Assumptions labels_in_order_unchanged_guarded.

Theorem links_reach_unchanged_guarded : forall sty nq nc ops st xs,
  wf_input sty nq nc ops = true -> forallb box_contiguous ops = true ->
  layout_full false sty nq nc ops = Some (st, xs) ->
  length xs = length ops /\
  forall k o x, nth_error ops k = Some o -> nth_error xs k = Some x ->
    (forall f, In f (op_links (padw sty) nq nc o) -> holds st x f) /\
    (forall b, In b (op_boxes (padw sty) nq o) -> box_holds st x b).
Proof. exact links_reach_g. Qed.
Print Assumptions links_reach_unchanged_guarded.

(* ---------------- the hypotheses are satisfiable by non-trivial inputs ---------------- *)
Definition s (l : list N) : str := l.
Definition ex_style : style := mkStyle 3 2 1 true (Some [s [97]%N; s [98; 98]%N; s [113; 48]%N; s [113; 49]%N; s [113; 50]%N; s [113; 51]%N]).
(* H q0; CNOT 1->0; FREDKIN 3->(1,2); measure q0 -> c0; SWAP 0,3; TOFFOLI (0,2)->1 labelled "ab"; CRX 0->2 *)
Definition ex_ops : list op :=
  [ Gate (s [72]%N) None [0] None;
    Gate (s [67; 78; 79; 84]%N) None [0] (Some [1]);
    Gate sFREDKIN None [1; 2] (Some [3]);
    Meas 0 0;
    Gate sSWAP None [0; 3] None;
    Gate (s [84; 79; 70]%N) (Some (s [97; 98]%N)) [1] (Some [0; 2]);
    Gate (s [67; 82; 88]%N) None [2] (Some [0]) ].
(* ... followed by a controlled two-target gate whose control lies between its targets *)
Definition ex_ops2 : list op := ex_ops ++ [Gate sFREDKIN None [0; 2] (Some [1])].

Example ex_wf : wf_input ex_style 4 2 ex_ops2 = true.
Proof. vm_compute. reflexivity. Qed.

Example ex_text_ok : Forall text_ok ex_ops2.
Proof. repeat constructor; vm_compute; intuition discriminate. Qed.

Example ex_guard : wf_input ex_style 4 2 ex_ops = true /\ forallb box_contiguous ex_ops = true.
Proof. split; vm_compute; reflexivity. Qed.

Example ex_guard_excludes : forallb box_contiguous ex_ops2 = false.
Proof. vm_compute. reflexivity. Qed.

(* the labels read on q0 (printed fourth) of the example: H, CNOT, M and the blank upper... *)
Example ex_labels :
  exists rows, layout true ex_style 4 2 ex_ops2 = Some rows /\
    read_labels ex_style 4 2 (nth (3 * 3 + 1) rows []) =
    [s [72]%N; s [67; 78; 79; 84]%N; sM; sFREDKIN] /\
    read_labels ex_style 4 2 (nth (3 * 1 + 1) rows []) =
    [rep 7 cSP; s [67; 82; 88]%N; rep 7 cSP].
Proof. eexists. split; [vm_compute; reflexivity|]. split; vm_compute; reflexivity. Qed.

(* links of the example are not an empty list: the TOFFOLI has 2 nodes, a ┴, a ┬ and two bars; the measurement ╥, 3 x ║ on c1, ║ and ╩ on c0 *)
Example ex_links : length (op_links (padw ex_style) 4 2 (nth 5 ex_ops2 (Meas 0 0))) = 6
                   /\ length (op_links (padw ex_style) 4 2 (nth 3 ex_ops2 (Meas 0 0))) = 6.
Proof. split; vm_compute; reflexivity. Qed.
