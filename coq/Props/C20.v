(* C20 -- placeholder while the proofs are being developed *)
From Coq Require Import List NArith.
Import ListNotations.
From QV Require Import Model.Render.
