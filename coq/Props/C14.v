(* C14 -- Pulse evolution is the time-ordered propagator of the stated Hamiltonian  (PARTIAL)

   Proved here, for EVERY number of channels and EVERY grid (no size bound), about the executable
   model Model/Fill.v of Processor.get_full_tlist / get_full_coeffs / _fill_coeff / the slice loop of
   run_analytically / the save-reload bookkeeping:
     - the merged grid is strictly increasing, consists of the pulses' grid points, and loses none of
       them when distinct points are further apart than the tolerance;
     - on every interval [T_n, T_n+1) of the merged grid the resampled coefficient of every channel
       is the value of that channel's own step function (value held from one grid point to the
       next, zero before the grid starts and once it has ended);
     - the (dt_n, H_n) list the analytic loop exponentiates, in order, has H_n = drift + sum_m c_m(t) H_m
       for every t of slice n, positive dt_n that add up to T_end - T_0.  The time-ordered exponential
       of a piecewise-constant H(t) is by definition the ordered product of exp(-i H_n dt_n); expm is
       external.
   NOT modelled (external numerics): scipy expm, qutip QobjEvo/mesolve/sesolve, cubic splines,
   the %1.16f rounding of save_coeff -- see TRUSTED in tools/props/c14.py.
   Grids only need to be NON-DECREASING (a pulse may repeat a time point: zero-duration instruction).
   The model describes the tree with fixes/C14-step-last-sample.diff, C14-read-coeff.diff and
   C14-fill-coeff-repeated-points.diff applied.  Earlier versions of the code violate the property:
     v0 (as first found)           resample_v0_refuted  / holds only under resample_is_step_v0_guarded
     v1 (one-step advance, `if`)   resample_v1_refuted  / holds only under resample_is_step_v1_guarded
                                   (strictly increasing grids with at least two points). *)
From Coq Require Import String.
From Coq Require Import List QArith Bool Sorted.
From QV Require Import Model.Fill Spec.FillSpec Proofs.FillStep Proofs.FillGrid Proofs.FillMain
  Proofs.FillWhile Proofs.FillTop Proofs.FillFile.
Import ListNotations.
Open Scope Q_scope.

Theorem full_tlist_sorted_unique : forall tol ps full,
  get_full_tlist tol ps = Some full ->
  StronglySorted Qlt full /\ gaps tol full /\ (forall t, In t full -> In t (all_points ps)).
Proof. exact grid_sorted_unique. Qed.
Print Assumptions full_tlist_sorted_unique.

Theorem full_tlist_complete : forall tol ps full,
  inputs_okb tol ps = true -> get_full_tlist tol ps = Some full ->
  forall x, In x (all_points ps) -> exists y, In y full /\ y == x.
Proof. exact grid_complete. Qed.
Print Assumptions full_tlist_complete.

Theorem resample_is_step : forall tol ps,
  inputs_okb tol ps = true ->
  exists full rows,
    get_full_tlist tol ps = Some full /\ get_full_coeffs tol ps = Some rows /\
    length rows = length ps /\
    (forall row, In row rows -> length row = length full) /\
    forall m p n a b t,
      nth_error ps m = Some p ->
      nth_error full n = Some a -> nth_error full (S n) = Some b -> a <= t -> t < b ->
      exists row, nth_error rows m = Some row /\ nth_error row n = Some (pulse_fn p t).
Proof. exact resample_pointwise. Qed.
Print Assumptions resample_is_step.

Theorem slices_are_piecewise_H :
  forall (M : Type) (madd : M -> M -> M) (mscale : Q -> M -> M) (drift : M) (ops : list M) tol ps,
  inputs_okb tol ps = true ->
  exists full sl,
    get_full_tlist tol ps = Some full /\ run_slices tol ps = Some sl /\
    hslices_ok M madd mscale drift ops (map pulse_fn ps) full (ham_slices M madd mscale drift ops sl) /\
    Forall (fun s => 0 < fst s) sl /\
    (forall t0 F', full = t0 :: F' -> total_time sl == last full t0 - t0).
Proof. exact piecewise_H. Qed.
Print Assumptions slices_are_piecewise_H.

(* a processor without any pulse (circuit that drives no pulse, with fixes/C06-empty-pulse-table.diff): no merged
   grid, no coefficient matrix (the code returns a degenerate value), and NO time slice: the ordered product is
   empty, i.e. the evolution is the identity.  Without the `tlist is None` guard (run_slices_v2) it is rejected. *)
Theorem no_pulse_no_slices : forall tol,
  get_full_tlist tol [] = None /\ get_full_coeffs tol [] = None /\
  run_slices tol [] = Some [] /\ run_slices_v2 tol [] = None.
Proof. exact no_pulse. Qed.
Print Assumptions no_pulse_no_slices.

(* the code as first found (v0) *)
Theorem resample_v0_refuted :
  inputs_okb_v1 leak_tol leak_input = true /\
  exists full rows p row,
    get_full_tlist leak_tol leak_input = Some full /\
    get_full_coeffs_v0 leak_tol leak_input = Some rows /\
    nth_error leak_input 0 = Some p /\ nth_error rows 0 = Some row /\
    nth_error full 1 = Some 1 /\ nth_error full 2 = Some 2 /\
    pulse_fn p 1 = 0 /\ nth_error row 1 = Some 2.
Proof. exact leak_v0. Qed.
Print Assumptions resample_v0_refuted.

Theorem resample_is_step_v0_guarded : forall tol ps,
  inputs_okb_v1 tol ps = true -> forallb no_tail_sampleb ps = true ->
  resample_statement get_full_coeffs_v0 tol ps.
Proof. exact resample_pointwise_v0. Qed.
Print Assumptions resample_is_step_v0_guarded.

(* the one-step advance (v1): refuted by a grid that repeats a time point; correct on strictly
   increasing grids *)
Theorem resample_v1_refuted :
  inputs_okb leak_tol zero_dur_input = true /\
  exists full rows p row,
    get_full_tlist leak_tol zero_dur_input = Some full /\
    get_full_coeffs_v1 leak_tol zero_dur_input = Some rows /\
    nth_error zero_dur_input 0 = Some p /\ nth_error rows 0 = Some row /\
    nth_error full 1 = Some (1 # 8) /\ nth_error full 2 = Some (1 # 4) /\
    pulse_fn p (1 # 8) = 1 /\ nth_error row 1 = Some 0 /\
    get_full_coeffs leak_tol zero_dur_input = Some [[1; 1; 0]].
Proof. exact zero_duration_v1. Qed.
Print Assumptions resample_v1_refuted.

Theorem resample_is_step_v1_guarded : forall tol ps,
  inputs_okb_v1 tol ps = true -> resample_statement get_full_coeffs_v1 tol ps.
Proof. exact resample_pointwise_v1. Qed.
Print Assumptions resample_is_step_v1_guarded.

(* save_coeff / read_coeff bookkeeping *)
Theorem save_read_roundtrip : forall inctime labels full rows,
  file_okb labels full rows = true ->
  read_file inctime (save_file inctime labels full rows)
  = Some (if inctime then Some full else None, combine labels rows).
Proof. exact roundtrip. Qed.
Print Assumptions save_read_roundtrip.

(* ---- the hypotheses are satisfiable by non-trivial inputs ---- *)
Definition ex_tol : Q := 1 # 10000000000.
Definition ex_pulses : list pulse :=
  [ mkPulse (Some [0; 1 # 2; 3 # 2]) (CArr [1; 2; 9]);          (* one sample per grid point *)
    mkPulse (Some [0; 3 # 4; 3 # 2; 5 # 2; 3]) (CArr [5; -6 # 4; 7; 1 # 8]);
    mkPulse None (CBool true);
    mkPulse (Some [1 # 4; 2]) (CArr [3]);                         (* starts late, ends early *)
    mkPulse (Some [0; 1 # 2; 1 # 2; 1 # 2; 5 # 2]) (CArr [4; 8; 9; 6]) ].  (* repeated time point *)
Example ex_inputs_ok : inputs_okb ex_tol ex_pulses = true.
Proof. vm_compute. reflexivity. Qed.
Example ex_grid : get_full_tlist ex_tol ex_pulses = Some [0; 1 # 4; 1 # 2; 3 # 4; 3 # 2; 2; 5 # 2; 3].
Proof. vm_compute. reflexivity. Qed.
Example ex_rows : get_full_coeffs ex_tol ex_pulses =
  Some [ [1; 1; 2; 2; 0; 0; 0; 0];
         [5; 5; 5; -6 # 4; 7; 7; 1 # 8; 0];
         [1; 1; 1; 1; 1; 1; 1; 1];
         [0; 3; 3; 3; 3; 0; 0; 0];
         [4; 4; 6; 6; 6; 6; 0; 0] ].
Proof. vm_compute. reflexivity. Qed.
Example ex_guard_v0 : forallb no_tail_sampleb (removelast (tl ex_pulses)) = true
                      /\ inputs_okb_v1 ex_tol (removelast (tl ex_pulses)) = true.
Proof. split; vm_compute; reflexivity. Qed.
Example ex_file : file_okb ["sx"; "sz"]%string [0; 1; 2] [[1; 2; 0]; [3; 4; 0]] = true.
Proof. vm_compute. reflexivity. Qed.
